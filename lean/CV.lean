-- Root of the `CV` library: models, driver glue, proofs and property theorems.
import CV.Model.Basic
import CV.Model.Line
import CV.Model.LineSpec
import CV.Model.Irc
import CV.Drv.Util
import CV.Drv.Line
import CV.Drv.Irc
import CV.Model.Core.Queue
import CV.Model.Core.Value
import CV.Model.Core.Types
import CV.Model.Core.Machine
import CV.Drv.Core
import CV.Proofs.Line
import CV.Proofs.Irc
import CV.Props.C18

-- Root of the `CV` library: models, driver glue, proofs and property theorems.
import CV.Model.Basic
import CV.Model.Line
import CV.Model.LineSpec
import CV.Model.Irc
import CV.Drv.Util
import CV.Drv.Line
import CV.Drv.Irc
import CV.Props.C18

import CV.Drv.Line
import CV.Drv.Irc
import CV.Drv.Core
import CV.Drv.Core2
import CV.Drv.StaticPath
import CV.Drv.Ranges
import CV.Drv.Auth
import CV.Drv.Session
import CV.Drv.VHost
import CV.Drv.HttpResp
import CV.Drv.HttpRespFail
import CV.Drv.WebSocket
import CV.Drv.Http
import CV.Drv.Poller
import CV.Drv.Wake
import CV.Drv.Stream
import CV.Drv.Node
import CV.Drv.Http14
import CV.Drv.Conn
import CV.Drv.ConnAccept
import CV.Drv.ClassTable
import CV.Drv.NodeTwo
import CV.Drv.HttpLex
import CV.Drv.HttpClient
import CV.Drv.HttpPipe
import CV.Drv.ValueTree
import CV.Drv.WebSocketEndpoint
/-
cvdriver <model> : reads op lines on stdin, answers one line per op on stdout.
Imports only CV.Model.* / CV.Drv.* (no Mathlib) so that it links as an executable.
-/
open CV.Drv

def machines : List (String × Machine) :=
  [ ("line", lineMachine), ("irc", ircMachine), ("core", CM.coreMachine), ("core2", CM2.core2Machine),
    ("staticpath", staticPathMachine), ("ranges", rangesMachine),
    ("auth", C20.authMachine), ("session", C20.sessionMachine), ("vhost", C20.vhostMachine),
    ("httpresp", httprespMachine), ("httprespfail", httprespfailMachine), ("ws", wsMachine), ("wse", wseMachine),
    ("http", httpMachine), ("poller", pollerMachine), ("wake", wakeMachine), ("stream", streamMachine), ("node", nodeMachine), ("node2", node2Machine), ("http14", http14Machine), ("conn", C12.connMachine), ("connaccept", C12A.connAcceptMachine),
    ("classtable", CT.classTableMachine), ("httplex", httplexMachine), ("httpclient", httpclientMachine), ("httppipe", httppipeMachine), ("valuetree", valuetreeMachine) ]

def main (args : List String) : IO UInt32 := do
  match args with
  | ["--list"] => do
    IO.println (" ".intercalate (machines.map (·.1)))
    return 0
  | [name] =>
    match machines.lookup name with
    | some m => do
      loop (← IO.getStdin) (← IO.getStdout) m m.init
      return 0
    | none => do
      IO.eprintln s!"unknown model {name}"
      return 2
  | _ => do
    IO.eprintln "usage: cvdriver <model>"
    return 2

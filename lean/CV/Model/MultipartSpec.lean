import CV.Model.Ranges
/-
Spec side for multipart/byteranges bodies: an independent READER, written from RFC 2046 sec. 5.1.1
and RFC 7233 sec. 4.1 / appendix A, not from the code that writes them.

  multipart-body := [preamble CRLF] dash-boundary transport-padding CRLF body-part
                    *(delimiter transport-padding CRLF body-part) close-delimiter transport-padding [CRLF epilogue]
  dash-boundary  := "--" boundary
  delimiter      := CRLF dash-boundary          -- the CRLF belongs to the delimiter
  close-delimiter:= delimiter "--"
  body-part      := MIME-part-headers CRLF *OCTET       (we require the empty line)
  Content-Range  := "bytes" SP first-byte-pos "-" last-byte-pos "/" complete-length

The reader splits `CRLF ++ body` at every `delimiter` (so a body that starts with the dash-boundary
and one that starts with CRLF dash-boundary read alike; what precedes the first delimiter is the
preamble and ignored), takes the chunks up to the one that starts with "--" (close-delimiter; the
rest is epilogue and ignored; without one the body is unreadable), and reads each chunk as
padding, CRLF-separated header fields up to the first empty line, and payload octets.
The driver evaluates it on the bytes the implementation really sent.
-/
namespace CV
namespace Multipart

/-- first occurrence of `pat` in `s`: what is before it and what is after it -/
def findSub (pat : Bytes) : Bytes → Option (Bytes × Bytes)
  | [] => if pat = [] then some ([], []) else none
  | c :: r =>
    if pat.isPrefixOf (c :: r) then some ([], (c :: r).drop pat.length)
    else (findSub pat r).map (fun p => (c :: p.1, p.2))

def splitFuel (pat : Bytes) : Nat → Bytes → List Bytes
  | 0, s => [s]
  | f + 1, s =>
    match findSub pat s with
    | none => [s]
    | some (a, b) => a :: splitFuel pat f b

/-- split at every (leftmost, non-overlapping) occurrence of a non-empty `pat` -/
def splitAll (pat : Bytes) (s : Bytes) : List Bytes := splitFuel pat s.length s

def crlf : Bytes := [13, 10]
def delimiter (bnd : Bytes) : Bytes := 13 :: 10 :: 45 :: 45 :: bnd

/-- linear white space (transport padding, optional white space around field values) -/
def isLWSP (c : UInt8) : Bool := c = 32 || c = 9

def lowerByte (c : UInt8) : UInt8 := if 65 ≤ c ∧ c ≤ 90 then c + 32 else c

/-- text before the first `sep`, and the text after it if there is one -/
def splitFirstB (sep : UInt8) : Bytes → Bytes × Option Bytes
  | [] => ([], none)
  | c :: r =>
    if c = sep then ([], some r)
    else let (a, b) := splitFirstB sep r; (c :: a, b)

/-- `name ":" OWS value`: lower-cased name, value without leading white space -/
def parseField (line : Bytes) : Option (Bytes × Bytes) :=
  match splitFirstB 58 line with
  | (_, none) => none
  | (name, some v) => if name = [] then none else some (name.map lowerByte, v.dropWhile isLWSP)

/-- one body part as read: its header fields and its octets -/
structure RawPart where
  headers : List (Bytes × Bytes)
  payload : Bytes
  deriving Repr, DecidableEq

/-- a chunk between two delimiters: `transport-padding CRLF *(field CRLF) CRLF *OCTET` -/
def parsePart (c : Bytes) : Option RawPart :=
  match findSub [13, 10, 13, 10] c with
  | none => none
  | some (hd, payload) =>
    match splitAll crlf hd with
    | [] => none
    | first :: fields =>
      if first.all isLWSP then (fields.mapM parseField).map (fun hs => ⟨hs, payload⟩) else none

/-- the chunks that are body parts: those before the close-delimiter, which must be there -/
def takeParts : List Bytes → Option (List Bytes)
  | [] => none
  | c :: r => if [45, 45].isPrefixOf c then some [] else (takeParts r).map (c :: ·)

/-- RFC 2046 reading of a multipart body with the given boundary -/
def readMultipart (bnd body : Bytes) : Option (List RawPart) :=
  match splitAll (delimiter bnd) (crlf ++ body) with
  | [] => none
  | _preamble :: chunks => (takeParts chunks).bind (fun cs => cs.mapM parsePart)

/-! ### Content-Range of a part (RFC 7233 sec. 4.2) -/

def isDigitB (c : UInt8) : Bool := 48 ≤ c && c ≤ 57

def valDigits (s : Bytes) : Nat := s.foldl (fun a c => a * 10 + (c.toNat - 48)) 0

/-- 1*DIGIT at the front of `s`: its value and the rest -/
def spanNum (s : Bytes) : Option (Nat × Bytes) :=
  let ds := s.takeWhile isDigitB
  if ds = [] then none else some (valDigits ds, s.dropWhile isDigitB)

def stripPrefix : Bytes → Bytes → Option Bytes
  | [], s => some s
  | _ :: _, [] => none
  | p :: ps, c :: cs => if p = c then stripPrefix ps cs else none

/-- "bytes" SP first "-" last "/" complete-length  ->  (first, last, length) -/
def parseContentRange (v : Bytes) : Option (Nat × Nat × Nat) :=
  match stripPrefix [98, 121, 116, 101, 115, 32] v with
  | none => none
  | some r0 =>
    match spanNum r0 with
    | some (a, 45 :: r1) =>
      match spanNum r1 with
      | some (b, 47 :: r2) =>
        match spanNum r2 with
        | some (n, r3) => if r3.all isLWSP then some (a, b, n) else none
        | none => none
      | _ => none
    | _ => none

def lookupField (name : Bytes) : List (Bytes × Bytes) → Option Bytes
  | [] => none
  | (k, v) :: r => if k = name then some v else lookupField name r

/-- "content-range", "content-type" -/
def nContentRange : Bytes := [99, 111, 110, 116, 101, 110, 116, 45, 114, 97, 110, 103, 101]
def nContentType : Bytes := [99, 111, 110, 116, 101, 110, 116, 45, 116, 121, 112, 101]

/-- a byteranges part: its media type (if given) and the `Ranges.Part` its Content-Range and octets denote -/
def toRangePart (p : RawPart) : Option (Option Bytes × Ranges.Part) :=
  match lookupField nContentRange p.headers with
  | none => none
  | some v =>
    match parseContentRange v with
    | none => none
    | some (a, b, n) => some (lookupField nContentType p.headers, ⟨a, b, n, p.payload⟩)

/-- RFC reading of a multipart/byteranges body: the parts in order of appearance -/
def readByteranges (bnd body : Bytes) : Option (List (Option Bytes × Ranges.Part)) :=
  (readMultipart bnd body).bind (fun ps => ps.mapM toRangePart)

/-- the boundary parameter of a `multipart/byteranges; boundary=...` media type
    (token form or quoted-string; parameters are separated by ";") -/
def boundaryOf (ct : Bytes) : Option Bytes :=
  match findSub [98, 111, 117, 110, 100, 97, 114, 121, 61] (ct.map lowerByte) with
  | none => none
  | some (pre, _) =>
    let v := ct.drop (pre.length + 9)
    match v with
    | 34 :: q => some (q.takeWhile (· ≠ 34))
    | _ => some (v.takeWhile (fun c => c ≠ 59 && !isLWSP c))

end Multipart
end CV

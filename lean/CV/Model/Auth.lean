import CV.Model.Basic
/-
Model of the credential check of circuits.web:

  circuits/web/tools.py      check_auth, basic_auth, digest_auth
  circuits/web/_httpauth.py  parseAuthorization, _parseBasicAuthorization,
                             _parseDigestAuthorization, checkResponse, _checkBasicResponse,
                             _checkDigestResponse, _computeDigestResponse, _A1, _A2

Python `str` is `List Char`, `bytes` is `List UInt8`, `dict` is an association list read
with `List.lookup`.  Every exception that escapes `check_auth` is the single outcome
`raised` (the request is then answered with an error page: a refusal).

Stdlib leaves are PARAMETERS (`Leaves`); every theorem holds for all of them:
  H     md5(s.encode('utf-8')).hexdigest()            (`DIGEST_AUTH_ENCODERS`, custom encrypt)
  b64   base64.decodebytes(params.encode('utf-8'))    none = binascii.Error
  utf8  bytes.decode('utf-8')                         none = UnicodeDecodeError
  kv    parse_keqv_list(parse_http_list(params))      the dict's items; none = it raised

      def check_auth(request, response, realm, users, encrypt=None):
          if 'Authorization' in request.headers:
              ah = _httpauth.parseAuthorization(request.headers.get('Authorization'))
              if ah is None:
                  request.login = False            # legacy: return httperror(request, response, 400)
                  return False                     #         (an Event object: truthy)
              if not encrypt: encrypt = DIGEST_AUTH_ENCODERS[MD5]     # md5 of a *str*: TypeError
              ...
              password = users.get(ah['username'], None)
              if password is not None and checkResponse(ah, password, method=request.method,   # legacy: no
                                                        encrypt=encrypt, realm=realm):         # None test
                  request.login = ah['username']
                  return True
              request.login = False
          return False

      def basic_auth(...):   if check_auth(...): return None
                             response.headers['WWW-Authenticate'] = basicAuth(realm)   # asserts '"' not in realm
                             return unauthorized(request, response)
      def digest_auth(...):  the same with digestAuth(realm) and encrypt=None

`Policy` selects between the code as it was found (`legacy`) and as it is after the
`fix:` commits (`current`); the check always runs `current`, the `legacy` instance only
serves the witnesses in CV/Props/C20.lean.
-/
namespace CV
namespace Auth

abbrev Str := List Char

/-- result of a computation that may raise -/
inductive Res (α : Type) where
  | val (a : α)
  | raised
  deriving Repr, DecidableEq

def Res.bind {α β} (r : Res α) (f : α → Res β) : Res β :=
  match r with
  | .val a => f a
  | .raised => .raised

instance : Monad Res where
  pure := Res.val
  bind := Res.bind

structure Leaves where
  H : Str → Str
  b64 : Str → Option Bytes
  utf8 : Bytes → Option Str
  kv : Str → Option (List (Str × Str))

structure Policy where
  /-- unparsable Digest parameters make `check_auth` return a truthy error object -/
  errTruthy : Bool
  /-- `checkResponse` is called although the password lookup returned `None` -/
  checkNone : Bool

def Policy.legacy : Policy := ⟨true, true⟩
def Policy.current : Policy := ⟨false, false⟩

/-! ### parsing -/

/-- `s.split(c, 1)` when it yields two pieces -/
def splitFirst {α} [DecidableEq α] (c : α) : List α → Option (List α × List α)
  | [] => none
  | x :: xs =>
    if x = c then some ([], xs)
    else match splitFirst c xs with
      | some (a, b) => some (x :: a, b)
      | none => none

inductive Scheme where
  | basic
  | digest
  deriving Repr, DecidableEq

/-- `AUTH_SCHEMES[auth_scheme.lower()]`; none = KeyError -/
def schemeOf (s : Str) : Option Scheme :=
  let l := s.map Char.toLower
  if l = "basic".toList then some .basic
  else if l = "digest".toList then some .digest
  else none

abbrev KV := List (Str × Str)

def get (kv : KV) (k : String) : Option Str := kv.lookup k.toList
def hasKey (kv : KV) (k : String) : Bool := (get kv k).isSome
/-- `params[k]` : KeyError when absent -/
def getR (kv : KV) (k : String) : Res Str :=
  match get kv k with
  | some v => .val v
  | none => .raised

/-- the auth map returned by `parseAuthorization` -/
inductive AuthMap where
  | basic (user pw : Str)
  | digest (kv : KV)
  deriving Repr, DecidableEq

def required : List String := ["username", "realm", "nonce", "uri", "response"]

/-- `_parseDigestAuthorization` after tokenising: `None` when a required field is missing
    or qop / cnonce / nc are inconsistent -/
def parseDigestParams (kv : KV) : Option KV :=
  if !(required.all (hasKey kv)) then none
  else if hasKey kv "qop" && !(hasKey kv "cnonce" && hasKey kv "nc") then none
  else if (hasKey kv "cnonce" || hasKey kv "nc") && !(hasKey kv "qop") then none
  else some kv

/-- `parseAuthorization(credentials)` -/
def parseAuthorization (L : Leaves) (cred : Str) : Res (Option AuthMap) :=
  match splitFirst ' ' cred with
  | none => .raised                                  -- ValueError: not enough values to unpack
  | some (sch, params) =>
    match schemeOf sch with
    | none => .raised                                -- KeyError
    | some .basic =>
      match L.b64 params with
      | none => .raised                              -- binascii.Error
      | some bytes =>
        match splitFirst (58 : UInt8) bytes with
        | none => .raised                            -- ValueError: no colon
        | some (u, p) =>
          match L.utf8 u, L.utf8 p with
          | some u, some p => .val (some (.basic u p))
          | _, _ => .raised                          -- UnicodeDecodeError
    | some .digest =>
      match L.kv params with
      | none => .raised                              -- ValueError / IndexError in parse_keqv_list
      | some kv =>
        match parseDigestParams kv with
        | none => .val none
        | some kv =>
          if hasKey kv "auth_scheme" then .raised    -- assert 'auth_scheme' not in params
          else .val (some (.digest kv))

def AuthMap.username : AuthMap → Str
  | .basic u _ => u
  | .digest kv => (get kv "username").getD []

/-! ### checking -/

/-- the `encrypt` argument of `check_auth` / `basic_auth` -/
inductive Enc where
  | dflt      -- None: `lambda val: md5(val).hexdigest()` applied to a str: TypeError
  | ident     -- `str`
  | hash1     -- `lambda p: md5(p.encode()).hexdigest()`
  | hash2     -- `lambda p, u: md5((u + ':' + p).encode()).hexdigest()`
  deriving Repr, DecidableEq

/-- `try: encrypt(pw, user) except TypeError: encrypt(pw)`; none = the TypeError escapes -/
def encApply (H : Str → Str) : Enc → Str → Str → Option Str
  | .dflt, _, _ => none
  | .ident, pw, _ => some pw
  | .hash1, pw, _ => some (H pw)
  | .hash2, pw, u => some (H (u ++ ':' :: pw))

def MD5 : Str := "MD5".toList
def MD5sess : Str := "MD5-sess".toList
def qAuth : Str := "auth".toList
def qAuthInt : Str := "auth-int".toList

/-- `'%s' % password` -/
def pwText : Option Str → Str
  | some p => p
  | none => "None".toList

def colon (a b : Str) : Str := a ++ ':' :: b

/-- `_A2`: only qop absent / `auth` returns (auth-int needs kwargs['H']: KeyError) -/
def a2 (kv : KV) (method : Str) : Res Str :=
  let qop := (get kv "qop").getD qAuth
  if qop = qAuth then do
    let uri ← getR kv "uri"
    pure (colon method uri)
  else .raised

/-- `_A1` for the two algorithms that reach it -/
def a1 (H : Str → Str) (kv : KV) (alg : Str) (pw : Str) : Res Str := do
  let u ← getR kv "username"
  let r ← getR kv "realm"
  let s := colon u (colon r pw)
  if alg = MD5 then pure s
  else do
    let n ← getR kv "nonce"
    let c ← getR kv "cnonce"
    pure (colon (H s) (colon n c))

/-- `_computeDigestResponse(auth_map, password, method)` (A1 argument is always None here) -/
def computeResponse (H : Str → Str) (kv : KV) (pw : Str) (method : Str) : Res Str :=
  let alg := (get kv "algorithm").getD MD5
  -- DIGEST_AUTH_ENCODERS[algorithm]: KeyError; the SHA1 entry raises AttributeError when called
  if !(alg = MD5 || alg = MD5sess) then .raised
  else do
    let sA2 ← a2 kv method
    let hA2 := H sA2
    let sA1 ← a1 H kv alg pw
    let hA1 := H sA1
    let request ←
      match get kv "qop" with
      | none => do
        let n ← getR kv "nonce"
        pure (colon n hA2)
      | some q =>
        if q = qAuth || q = qAuthInt then do
          let n ← getR kv "nonce"
          let nc ← getR kv "nc"
          let cn ← getR kv "cnonce"
          pure (colon n (colon nc (colon cn (colon q hA2))))
        else .raised                                  -- unbound local (never reached: _A2 raised)
    pure (H (colon hA1 request))

/-- `checkResponse(ah, password, method, encrypt, realm)` -/
def checkResponse (H : Str → Str) (enc : Enc) (ah : AuthMap) (password : Option Str)
    (realm method : Str) : Res Bool :=
  match ah with
  | .basic user pw =>
    match encApply H enc pw user with
    | none => .raised
    | some e => .val (some e == password)
  | .digest kv => do
    let r ← getR kv "realm"
    if r ≠ realm then pure false
    else do
      let resp ← computeResponse H kv (pwText password) method
      let given ← getR kv "response"
      pure (resp == given)

/-- what `check_auth` does, as seen by its caller -/
inductive Out where
  | ok (user : Str)   -- returns True,  request.login = user
  | refused           -- returns False, request.login = False
  | noHeader          -- returns False, request.login untouched (None)
  | errObj            -- returns an httperror event object (truthy), login untouched
  | raised
  deriving Repr, DecidableEq

def checkAuth (pol : Policy) (L : Leaves) (enc : Enc) (realm method : Str)
    (users : List (Str × Str)) : Option Str → Out
  | none => .noHeader
  | some cred =>
    match parseAuthorization L cred with
    | .raised => .raised
    | .val none => if pol.errTruthy then .errObj else .refused
    | .val (some ah) =>
      let password := users.lookup ah.username
      let verdict : Res Bool :=
        if pol.checkNone || password.isSome then checkResponse L.H enc ah password realm method
        else .val false
      match verdict with
      | .raised => .raised
      | .val true => .ok ah.username
      | .val false => .refused

/-- Python truthiness of the returned object; none = nothing was returned -/
def Out.truthy : Out → Option Bool
  | .ok _ => some true
  | .errObj => some true
  | .refused => some false
  | .noHeader => some false
  | .raised => none

/-- result of `basic_auth` / `digest_auth`: `None` lets the request through -/
inductive Front where
  | letThrough
  | unauthorized
  | raised
  deriving Repr, DecidableEq

/-- `basic_auth(request, response, realm, users, encrypt)` -/
def basicAuth (pol : Policy) (L : Leaves) (enc : Enc) (realm method : Str)
    (users : List (Str × Str)) (hdr : Option Str) : Front :=
  match (checkAuth pol L enc realm method users hdr).truthy with
  | none => .raised
  | some true => .letThrough
  | some false => if realm.contains '"' then .raised else .unauthorized

/-- `digest_auth(request, response, realm, users)` -/
def digestAuth (pol : Policy) (L : Leaves) (realm method : Str)
    (users : List (Str × Str)) (hdr : Option Str) : Front :=
  match (checkAuth pol L .dflt realm method users hdr).truthy with
  | none => .raised
  | some true => .letThrough
  | some false => .unauthorized

end Auth
end CV

import CV.Model.EvQueue
/-
The wake-up hand-shake between the loop thread and foreign firing threads, as an
interleaving transition system whose labels are the *observable effects* of single source
lines (lock operations, reads/writes of `_currently_handling`, `_time_left`, `event.handler`,
queue operations, `threading.Event` / ctrl-pipe operations).  `step` is an acceptor: it
performs the effect if it is the next effect of that thread's program and the value carried by
the label is the value the model holds (replay-validation), `none` otherwise.

Firer  (manager.py `_fire`, foreign branch; events.py `reduce_time_left`):
    with self._lock:                                         fAcq t
        handling = self._currently_handling                  fHr t v
        self._queue.append(event, channel, priority)         fIncr t ; fApp t seq
        if isinstance(handling, generate_events):
            handling.reduce_time_left(0)
                with self._lock:                             (re-entrant, not an effect)
                    if ... self._time_left < 0 or > 0:
                        self._time_left = 0                  fTlwZero t
                        if ... self.handler is not None:     fHsetR t v
                            m = getattr(handler.__self__, 'resume'); m()   fSig t
                                                             fRel t   (outermost release)
Loop  (manager.py `tick`, `_flush`, `dispatchEvents`, `_dispatcher`):
    tick:   self.fire(generate_events(self._lock, timeout), '*')   lIncr ; lAppGe seq tl0
            if len(self._queue): self.flush()                       snap n ; pop tid seq ...
    _dispatcher(event):
        non-ge:  self._currently_handling = event  ... handlers ... = None     hwOther ; hwNone
        ge:      with self._lock:                                   lAcq
                     self._currently_handling = event               hwGe
                     if remaining > 0 or len(self._queue) or not self._running:
                         event.reduce_time_left(0)                  tlwZero ; lHsetR false
                                                                    lRel
                 for event_handler in event_handlers:               (sorted by priority)
                     event.handler = event_handler                  hsetW | hsetWnoResume
                     event_handler(event)                           (waiter | Timer handler, below)
                 self._currently_handling = None                    hwNone
Timer handler (timers.py `Timer._on_generate_events`, not yet expired; events.py `reduce_time_left(T)`, T > 0;
any generate_events handler without `resume` that runs in the loop thread before the waiter):
    event.handler = <Timer._on_generate_events>                     hsetWnoResume     (setH -> tAcq)
    event.reduce_time_left(self.expiry - now)
        with self._lock:                                            lAcq              (tAcq -> tChk)
            if time_left >= 0 and (self._time_left < 0 or self._time_left > time_left):
                self._time_left = time_left                         tlwOther          (tChk -> tRel; only from a
                                                                                       non-zero time left)
                if self._time_left == 0 and ...                     (false: T > 0)
                                                                    lRel              (tRel | tChk -> setH)
    The next handler is another such handler or the waiter (`hsetW`).  `TL` abstracts the time left to its
    sign, so from `pos` both outcomes of `self._time_left > time_left` are possible; from `neg` the write is
    forced, from `zero` it is impossible ("can only be used to reduce").
Fallback waiter (helpers.py `FallBackGenerator._on_generate_events`):
    with event.lock:                                                lAcq
        if event.time_left == 0: event.stop()                       tlr v
        self._continue.clear()                                      clr
                                                                    lRel
    if event.time_left > 0:                                         tlr v
        self._continue.wait(event.time_left)                        tlr v ; wake | timeout | wait0
        event.reduce_time_left(0)                                   lAcq ; tlwZero ; lHsetR v ; sigSetL ; lRel
        event.stop()
    while event.time_left < 0:                                      tlr v
        self._continue.wait(10000)                                  wake | timeout
Poller waiter (pollers.py `_on_generate_events`, `_generate_events`, `_read_ctrl`, `resume`):
    event.stop(); timeout = event.time_left                         tlr v
    select/poll/epoll(..., timeout)                                 selRet c | selTimeout c
    if ctrl readable: os.read(ctrl, 1)                              pipeRd
`sig` is the wake signal: for the fallback "flag set" is `sig > 0` (`set` adds, `clear` zeroes),
for pollers it is the number of bytes in the ctrl pipe.
-/
namespace CV
namespace Wake

inductive TL | neg | zero | pos deriving DecidableEq, Repr
inductive HK | none | other | ge deriving DecidableEq, Repr
inductive Saw | none | cur | old deriving DecidableEq, Repr
inductive Mode | fallback | poller deriving DecidableEq, Repr

inductive LPc
  | top | appGe | snap | pops | dSet | dDone
  | armAcq | armSet | armChk | armChkH | armRel | setH
  | tAcq | tChk | tRel
  | wAcq | wChk | wClr | wRel | wRead1 | posArg | waitPos
  | redAcq | redLower | redChk | redSig | redRel | wRead2 | waitNeg
  | pRead | pSel | pRd | done
deriving DecidableEq, Repr

inductive FPc | read | incr | app | lower | checkH | sig | rel
deriving DecidableEq, Repr

structure Firer where
  tid : Nat
  pc : FPc
  saw : Saw
deriving DecidableEq, Repr

structure St where
  mode : Mode
  q : QS
  lpc : LPc
  lockL : Bool          -- the loop thread holds `_lock`
  cs : Option Firer     -- the firer inside its critical section (it holds `_lock`)
  handling : HK         -- `_currently_handling` (ge = the current generate_events)
  tl : TL               -- `_time_left` of the current (most recently created) generate_events
  hset : Bool           -- its `handler` is set to a handler whose component has `resume` (a waiter's)
  hoth : Bool           -- its `handler` is set to a handler without `resume` (a Timer's)
  tlOld : TL            -- the same two fields of the previous generate_events
  hsetOld : Bool
  tmo : TL              -- the time-out value the waiter read for its wait/select
  sig : Nat
deriving Repr

inductive Lab
  | lIncr | lAppGe (seq : Nat) (tl0 : TL) | snap (n : Nat) | pop (tid seq : Nat)
  | hwOther | hwNone | hwGe | lAcq | lRel | tlwZero | lHsetR (v : Bool) | hsetW
  | clr | tlr (v : TL) | wake | timeout | wait0 | sigSetL
  | hsetWnoResume | tlwOther
  | selRet (c : Bool) | selTimeout (c : Bool) | pipeRd
  | fAcq (t : Nat) | fHr (t : Nat) (v : HK) | fIncr (t : Nat) | fApp (t seq : Nat)
  | fTlwZero (t : Nat) | fHsetR (t : Nat) (v : Bool) | fSig (t : Nat) | fRel (t : Nat)
deriving DecidableEq, Repr

/-- state after `run()` has fired `started` (entry (0,0)) and before the first `tick` -/
def init (m : Mode) : St :=
  let e : Ev := ⟨0, 0, 1, false⟩
  { mode := m, q := { ctr := 1, dq := [e], fired := [e] }, lpc := .top, lockL := false,
    cs := none, handling := .none, tl := .neg, hset := false, hoth := false, tlOld := .neg, hsetOld := false,
    tmo := .neg, sig := 0 }

def St.pendingNonempty (s : St) : Bool := !(s.q.pending.isEmpty)

/-- the generate_events a firer's `handling` refers to: its time_left / handler-set -/
def St.tgtTl (s : St) (f : Firer) : TL := if f.saw = .old then s.tlOld else s.tl
def St.tgtHset (s : St) (f : Firer) : Bool := if f.saw = .old then s.hsetOld else s.hset

def St.lowerTgt (s : St) (f : Firer) : St :=
  if f.saw = .old then { s with tlOld := .zero } else { s with tl := .zero }

def ageSaw (f : Firer) : Firer := if f.saw = .cur then { f with saw := .old } else f

def stepLoop (s : St) : Lab → Option St
  | .lIncr =>
    if s.lpc = .top then some { s with q := qIncr s.q 0, lpc := .appGe }
    else if s.lpc = .pops ∧ s.q.batch = [] then some { s with q := qIncr s.q 0, lpc := .appGe }
    else none
  | .lAppGe seq tl0 =>
    if s.lpc = .appGe ∧ tl0 ≠ .zero then
      match qApp s.q 0 seq true with
      | some q' => some { s with q := q', lpc := .snap, tlOld := s.tl, hsetOld := s.hset,
                                 tl := tl0, hset := false, hoth := false, cs := s.cs.map ageSaw }
      | none => none
    else none
  | .snap n =>
    if s.lpc = .snap then
      match qSnap s.q n with
      | some q' => some { s with q := q', lpc := .pops }
      | none => none
    else none
  | .pop tid seq =>
    if s.lpc = .pops then
      match qPop s.q tid seq with
      | some (q', x) => some { s with q := q', lpc := if x.isGe then .armAcq else .dSet }
      | none => none
    else none
  | .hwOther => if s.lpc = .dSet then some { s with handling := .other, lpc := .dDone } else none
  | .hwNone =>
    if s.lpc = .dDone then some { s with handling := .none, lpc := .pops }
    else if s.lpc = .done then some { s with handling := .none, lpc := .pops }
    else none
  | .lAcq =>
    if s.lockL = false ∧ s.cs = none then
      if s.lpc = .armAcq then some { s with lockL := true, lpc := .armSet }
      else if s.lpc = .wAcq then some { s with lockL := true, lpc := .wChk }
      else if s.lpc = .redAcq then some { s with lockL := true, lpc := .redLower }
      else if s.lpc = .tAcq then some { s with lockL := true, lpc := .tChk }
      else none
    else none
  | .hwGe => if s.lpc = .armSet then some { s with handling := .ge, lpc := .armChk } else none
  | .tlwZero =>
    if s.lpc = .armChk ∧ s.pendingNonempty = true ∧ s.tl ≠ .zero then
      some { s with tl := .zero, lpc := .armChkH }
    else if s.lpc = .redLower ∧ s.tl ≠ .zero then some { s with tl := .zero, lpc := .redChk }
    else none
  | .lHsetR v =>
    if s.lpc = .armChkH ∧ v = s.hset ∧ v = false then some { s with lpc := .armRel }
    else if s.lpc = .redChk ∧ v = s.hset then
      some { s with lpc := if v then .redSig else .redRel }
    else none
  | .lRel =>
    if s.lockL = true then
      if s.lpc = .armRel then some { s with lockL := false, lpc := .setH }
      else if s.lpc = .armChk ∧ (s.pendingNonempty = false ∨ s.tl = .zero) then
        some { s with lockL := false, lpc := .setH }
      else if s.lpc = .wRel then some { s with lockL := false, lpc := .wRead1 }
      else if s.lpc = .redRel then some { s with lockL := false, lpc := .wRead2 }
      else if s.lpc = .redLower ∧ s.tl = .zero then some { s with lockL := false, lpc := .wRead2 }
      else if s.lpc = .tRel then some { s with lockL := false, lpc := .setH }
      else if s.lpc = .tChk ∧ s.tl ≠ .neg then some { s with lockL := false, lpc := .setH }
      else none
    else none
  | .hsetW =>
    if s.lpc = .setH then
      some { s with hset := true, hoth := false, lpc := if s.mode = .fallback then .wAcq else .pRead }
    else none
  | .hsetWnoResume =>
    if s.lpc = .setH then some { s with hset := false, hoth := true, lpc := .tAcq } else none
  | .tlwOther =>
    if s.lpc = .tChk ∧ s.tl ≠ .zero then some { s with tl := .pos, lpc := .tRel } else none
  | .clr => if s.lpc = .wClr then some { s with sig := 0, lpc := .wRel } else none
  | .tlr v =>
    if v = s.tl then
      if s.lpc = .wChk then some { s with lpc := .wClr }
      else if s.lpc = .wRead1 then some { s with lpc := if v = .pos then .posArg else .wRead2 }
      else if s.lpc = .posArg then some { s with tmo := v, lpc := .waitPos }
      else if s.lpc = .wRead2 then some { s with lpc := if v = .neg then .waitNeg else .done }
      else if s.lpc = .pRead then some { s with tmo := v, lpc := .pSel }
      else none
    else none
  | .wake =>
    if s.sig > 0 then
      if s.lpc = .waitNeg then some { s with lpc := .wRead2 }
      else if s.lpc = .waitPos then some { s with lpc := .redAcq }
      else none
    else none
  | .timeout =>
    if s.lpc = .waitNeg then some { s with lpc := .wRead2 }
    else if s.lpc = .waitPos then some { s with lpc := .redAcq }
    else none
  | .wait0 => if s.lpc = .waitPos ∧ s.tmo = .zero then some { s with lpc := .redAcq } else none
  | .sigSetL => if s.lpc = .redSig then some { s with sig := s.sig + 1, lpc := .redRel } else none
  | .selRet c =>
    if s.lpc = .pSel ∧ c = decide (s.sig > 0) ∧ (s.tmo = .zero ∨ s.sig > 0) then
      some { s with lpc := if c then .pRd else .done }
    else none
  | .selTimeout c =>
    if s.lpc = .pSel ∧ c = decide (s.sig > 0) ∧ s.tmo ≠ .zero then
      some { s with lpc := if c then .pRd else .done }
    else none
  | .pipeRd => if s.lpc = .pRd ∧ s.sig > 0 then some { s with sig := s.sig - 1, lpc := .done } else none
  | _ => none

def stepFirer (s : St) : Lab → Option St
  | .fAcq t =>
    if s.lockL = false ∧ s.cs = none ∧ t ≠ 0 then some { s with cs := some ⟨t, .read, .none⟩ } else none
  | .fHr t v =>
    match s.cs with
    | some f =>
      if f.tid = t ∧ f.pc = .read ∧ v = s.handling then
        some { s with cs := some { f with pc := .incr, saw := if v = .ge then .cur else .none } }
      else none
    | none => none
  | .fIncr t =>
    match s.cs with
    | some f =>
      if f.tid = t ∧ f.pc = .incr then
        some { s with q := qIncr s.q t, cs := some { f with pc := .app } }
      else none
    | none => none
  | .fApp t seq =>
    match s.cs with
    | some f =>
      if f.tid = t ∧ f.pc = .app then
        match qApp s.q t seq false with
        | some q' => some { s with q := q', cs := some { f with pc := if f.saw = .none then .rel else .lower } }
        | none => none
      else none
    | none => none
  | .fTlwZero t =>
    match s.cs with
    | some f =>
      if f.tid = t ∧ f.pc = .lower ∧ s.tgtTl f ≠ .zero then
        some { (s.lowerTgt f) with cs := some { f with pc := .checkH } }
      else none
    | none => none
  | .fHsetR t v =>
    match s.cs with
    | some f =>
      if f.tid = t ∧ f.pc = .checkH ∧ v = s.tgtHset f then
        some { s with cs := some { f with pc := if v then .sig else .rel } }
      else none
    | none => none
  | .fSig t =>
    match s.cs with
    | some f =>
      if f.tid = t ∧ f.pc = .sig then
        some { s with sig := s.sig + 1, cs := some { f with pc := .rel } }
      else none
    | none => none
  | .fRel t =>
    match s.cs with
    | some f =>
      if f.tid = t ∧ (f.pc = .rel ∨ (f.pc = .lower ∧ s.tgtTl f = .zero)) then
        some { s with cs := none }
      else none
    | none => none
  | _ => none

def Lab.isFirer : Lab → Bool
  | .fAcq _ | .fHr _ _ | .fIncr _ | .fApp _ _ | .fTlwZero _ | .fHsetR _ _ | .fSig _ | .fRel _ => true
  | _ => false

def step (s : St) (l : Lab) : Option St :=
  if l.isFirer then stepFirer s l else stepLoop s l

def run (s : St) : List Lab → Option St
  | [] => some s
  | l :: ls => match step s l with
    | some s' => run s' ls
    | none => none

/-- the loop thread sits in a wait that only a wake signal or an expiring time-out ends -/
def St.blocked (s : St) : Bool :=
  s.lpc = .waitNeg || (s.lpc = .waitPos && s.tmo ≠ .zero) || (s.lpc = .pSel && s.tmo ≠ .zero)

end Wake
end CV

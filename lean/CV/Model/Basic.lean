/- Shared basic definitions for all models (core Lean only). -/
namespace CV

abbrev Bytes := List UInt8

end CV

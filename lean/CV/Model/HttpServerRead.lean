import CV.Model.HttpParse
/-
Model of the read paths that sit on top of HttpParser (after the `fix:` commits of C13):

circuits/web/http.py  HTTP._on_read(sock, data)        (server)

    if sock in self._buffers: parser = self._buffers[sock]
    else:
        self._buffers[sock] = parser = HttpParser(0, True)
        if is_ssl_handshake(data) and not self._server.secure:
            del self._buffers[sock]; del self._clients[sock] (if present); return fire(close(sock))
    parser.execute(data, len(data))
    if not parser.is_headers_complete():
        if parser.errno is not None: ... del self._buffers[sock]; return fire(httperror(req, res, 400))
        return None
    if sock in self._clients: req, res = self._clients[sock]
    else:
        req = Request(sock, method, scheme, path, version, qs, headers=parser.get_headers(), ...)
        self._clients[sock] = (req, res)
        if rp[0] != sp[0]: return fire(httperror(req, res, 505))
    clen = int(req.headers.get('Content-Length', '0'))
    chunked = req.headers.get('Transfer-Encoding', '').lower() == 'chunked'
    if (clen or chunked) and not parser.is_message_complete(): return None
    if req.protocol != (1, 0) and not req.headers.get('Host'):
        del self._buffers[sock]; return fire(httperror(req, res, 400, ...))
    if <path not canonical>: return fire(redirect(req, res, [...], 301))
    req.body = BytesIO(parser.recv_body()); del self._buffers[sock]
    fire(request(req, res))

  `_on_response` / `_on_stream` end: `del self._clients[sock]`       -> `responded`

circuits/protocols/http.py  HTTP._on_client_read(data)   (client)

    self._parser.execute(data, len(data))
    if complete or is_upgrade() or (headers complete and self._parser._clen == 0):
        fire(response(ResponseObject(headers, status, version) + recv_body())); self._parser = HttpParser(1, True)

Sockets are natural numbers; the two tables are association lists.  The request object that
`_clients` keeps is represented by what was read from the parser when it was created.
C14 extends `onRead` with the remaining error exits and the disconnect handler.
-/
namespace CV
namespace Http

/-- `circuits.net.utils.is_ssl_handshake` on bytes (the str comparisons never match bytes) -/
def sslHandshake : Bytes → Bool
  | [] => false
  | b0 :: r => decide (b0.toNat ≥ 128) && decide ((b0.toNat % 128) * 256 + (r.headD 0).toNat > 9)

/-- the (request, response) pair kept in `_clients[sock]`: what was read off the parser -/
structure Req where
  firstLine : Bytes
  fl : FirstLine
  hdrBlock : Option Bytes
  hi : HdrInfo
  deriving DecidableEq, Repr

/-- the per-socket entries of the two tables: `_buffers.get(sock)`, `_clients.get(sock)` -/
structure Conn where
  parser : Option PState := none
  client : Option Req := none
  deriving DecidableEq, Repr

inductive Out
  | wait
  | closeSsl
  | err400                 -- parser error before the headers were complete
  | err505
  | err400NoHost
  | redirect301
  | exn500                 -- a Python exception left `_on_read` (-> `_on_exception` -> 500)
  | request (firstLine : Bytes) (hdrBlock : Option Bytes) (body : Bytes)
  deriving DecidableEq, Repr

/-- the Content-Length the server computes: `int(req.headers.get('Content-Length', '0'))` -/
def HdrInfo.clenVal (h : HdrInfo) : Int :=
  match h.clen with
  | .val n => n
  | _ => 0

/-- `req, res = self._clients[sock]` if present, else the request built from the parser -/
def reqOf (known : Option Req) (p : PState) : Option Req :=
  match known with
  | some r => some r
  | none =>
    match p.core.firstLine, p.core.fl, p.core.hi with
    | some line, some f, some h => some ⟨line, f, p.core.hdrBlock, h⟩
    | _, _, _ => none        -- unreachable: headers complete implies all three are set

inductive Verdict | e505 | exn | wait | noHost | redirect | fire
  deriving DecidableEq, Repr

/-- the decisions of `_on_read` once the headers are complete; `isNew` = the pair was created by this read -/
def verdict (lex : Lex) (isNew : Bool) (req : Req) (complete : Bool) : Verdict :=
  if isNew && req.fl.vmajor ≠ 1 then .e505
  else if req.hi.clen = .bad then .exn
  else if (req.hi.clenVal ≠ 0 || req.hi.te) && !complete then .wait
  else if (req.fl.vmajor, req.fl.vminor) ≠ (1, 0) && !req.hi.host then .noHost
  else if !lex.pathOk req.firstLine req.hdrBlock then .redirect
  else .fire

/-- the part of `_on_read` after `parser.execute`; `cn.client` is `_clients.get(sock)` -/
def afterExec (lex : Lex) (cn : Conn) (p : PState) : Conn × Out :=
  if p.core.exn then (⟨some p, cn.client⟩, .exn500)
  else if !p.core.hdrDone then
    if p.core.errno.isSome then (⟨none, cn.client⟩, .err400) else (⟨some p, cn.client⟩, .wait)
  else
    match reqOf cn.client p with
    | none => (⟨some p, cn.client⟩, .exn500)
    | some req =>
      match verdict lex cn.client.isNone req p.core.complete with
      | .e505 => (⟨some p, some req⟩, .err505)
      | .exn => (⟨some p, some req⟩, .exn500)
      | .wait => (⟨some p, some req⟩, .wait)
      | .noHost => (⟨none, some req⟩, .err400NoHost)
      | .redirect => (⟨some p, some req⟩, .redirect301)
      | .fire => (⟨none, some req⟩, .request req.firstLine req.hdrBlock p.core.body)

/-- `HTTP._on_read(sock, data)` on the entries of `sock` -/
def connRead (lex : Lex) (secure : Bool) (cn : Conn) (data : Bytes) : Conn × Out :=
  match cn.parser with
  | some p => afterExec lex cn (exec lex p data)
  | none =>
    if sslHandshake data && !secure then ({}, .closeSsl)
    else afterExec lex cn (exec lex (init .request) data)

/-- the response for `sock` has been written (`_on_response` / end of `_on_stream`) -/
def connResponded (cn : Conn) : Conn := { cn with client := none }

/-- successive reads on one socket -/
def connReadAll (lex : Lex) (secure : Bool) (cn : Conn) : List Bytes → Conn × List Out
  | [] => (cn, [])
  | d :: ds =>
    let (c1, o) := connRead lex secure cn d
    let (c2, os) := connReadAll lex secure c1 ds
    (c2, o :: os)

/-! the two tables: association lists keyed by socket -/

structure Tables where
  buffers : List (Nat × PState) := []
  clients : List (Nat × Req) := []
  deriving Repr

def del {α} (l : List (Nat × α)) (k : Nat) : List (Nat × α) := l.filter (·.1 ≠ k)
def put {α} (l : List (Nat × α)) (k : Nat) (v : α) : List (Nat × α) := (k, v) :: del l k
def upd {α} (l : List (Nat × α)) (k : Nat) : Option α → List (Nat × α)
  | some v => put l k v
  | none => del l k

def Tables.get (t : Tables) (sock : Nat) : Conn := ⟨t.buffers.lookup sock, t.clients.lookup sock⟩
def Tables.set (t : Tables) (sock : Nat) (cn : Conn) : Tables :=
  ⟨upd t.buffers sock cn.parser, upd t.clients sock cn.client⟩

def onRead (lex : Lex) (secure : Bool) (t : Tables) (sock : Nat) (data : Bytes) : Tables × Out :=
  let (cn, o) := connRead lex secure (t.get sock) data
  (t.set sock cn, o)

def responded (t : Tables) (sock : Nat) : Tables := t.set sock (connResponded (t.get sock))

/-! client side -/

/-- what the `response` event carries -/
structure Resp where
  firstLine : Option Bytes
  hdrBlock : Option Bytes
  body : Bytes
  deriving DecidableEq, Repr

def isUpgrade (c : Core) : Bool :=
  match c.hi with
  | some h => h.upgrade
  | none => false

def clientFires (c : Core) : Bool :=
  c.complete || isUpgrade c || (c.hdrDone && c.clen == some 0)

/-- `HTTP._on_client_read(data)` : new parser state and the response fired, if any -/
def clientRead (lex : Lex) (p : PState) (data : Bytes) : PState × Option Resp :=
  let p' := exec lex p data
  if clientFires p'.core then (init .response, some ⟨p'.core.firstLine, p'.core.hdrBlock, p'.core.body⟩)
  else (p', none)

def clientAll (lex : Lex) (p : PState) : List Bytes → PState × List (Option Resp)
  | [] => (p, [])
  | d :: ds =>
    let (p1, o) := clientRead lex p d
    let (p2, os) := clientAll lex p1 ds
    (p2, o :: os)

end Http
end CV

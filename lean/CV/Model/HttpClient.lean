import CV.Model.HttpLex
import CV.Model.HttpServerRead
/-
The HTTP client component `circuits.web.client.Client` (C13: "The same holds for responses
received by the HTTP client component"), on top of the response side of CV/Model/HttpServerRead.lean
(`clientRead` = `circuits.protocols.http.HTTP._on_client_read`) and the lexers of CV/Model/HttpLex.lean.

    def parse_url(url):
        p = urlparse(url)
        if p.hostname: host = p.hostname
        else: raise ValueError('URL must be absolute')
        if p.scheme == 'http':    secure = False; port = p.port or 80
        elif p.scheme == 'https': secure = True;  port = p.port or 443
        else: raise ValueError('Invalid URL scheme')
        path = p.path or '/'
        if p.query: path += '?' + p.query
        return (host, port, path, secure)

    class Client(BaseComponent):
        def __init__(self, channel=channel):
            self._transport = TCPClient(channel=channel).register(self)
            HTTP(channel=channel).register(self._transport)        # protocols.http.HTTP: the response parser

        @handler('request')
        def request(self, method, url, body=None, headers=None):
            host, port, path, secure = parse_url(url)
            if not self._transport.connected:
                self.fire(connect(host, port, secure))
                yield self.wait('connected', self._transport.channel)
            headers = Headers(list((headers or {}).items()))
            if 'Host' not in headers:
                headers['Host'] = '{}{}'.format(host, '' if port in (80, 443) else f':{port:d}')
            if body is not None:
                headers['Content-Length'] = len(body)
            command = f'{method} {path} HTTP/1.1'
            message = f'{command}\r\n{headers}'
            self.fire(write(message.encode('utf-8')), self._transport)
            if body is not None:
                self.fire(write(body), self._transport)
            yield (yield self.wait('response'))

        @handler('response')
        def _on_response(self, response):
            self._response = response
            if response.headers.get('Connection', '').lower() == 'close':
                self.fire(close(), self._transport)
            return response

    class Headers(CaseInsensitiveDict):          # keys: str(key).title(); a dict: assignment keeps the position
        def __str__(self): return ''.join(f'{k}: {v}\r\n' for k, v in self.items()) + '\r\n'

`urlparse` (Python 3.12 `urllib.parse`) as far as `parse_url` uses it: scheme = the characters before the
first `:` if they start with a letter and are all of `[A-Za-z0-9+.-]`, lower-cased; network location =
after `//` up to the first of `/ ? #`; fragment cut at the first `#`, query at the first `?`; path
parameters (`;...` of the last path segment) are split off by `urlparse` and *dropped* by `parse_url`
(modelled as the code does it); hostname = network location up to the first `:`, lower-cased; port =
the decimal digits after that `:` (`''` -> None; non-digits or > 65535 -> ValueError).

Domain (`unsupported`, never a guess): URL bytes outside 0x21..0x7E, `\`, and `[ ] @ %` (user info,
IPv6 literals, zone ids); method / header names / header values with a byte >= 0x80 (`str.title()`,
`encode('utf-8')`); a port of more than 4000 digits.  Header values are Python `str`s.

The transport (`TCPClient`) is replaced by a double in the harness: `connect` succeeds at once
(`connected` fired), `close` disconnects at once.
-/
namespace CV
namespace Http
namespace Client

/-! ### `parse_url` -/

def isAlphaA (b : UInt8) : Bool := (65 ≤ b.toNat && b.toNat ≤ 90) || (97 ≤ b.toNat && b.toNat ≤ 122)
def isSchemeCh (b : UInt8) : Bool := isAlphaA b || isDigit b || b == 43 || b == 45 || b == 46
def isDelim (b : UInt8) : Bool := b == 47 || b == 63 || b == 35

/-- the URL is in the modelled domain -/
def urlInDomain (u : Bytes) : Bool :=
  u.all fun b => 33 ≤ b.toNat && b.toNat ≤ 126 && b != 92 && b != 91 && b != 93 && b != 64 && b != 37

structure Url where
  host : Bytes
  port : Nat
  path : Bytes
  secure : Bool
  deriving DecidableEq, Repr

inductive UrlRes
  | ok (u : Url)
  | notAbsolute      -- ValueError('URL must be absolute')
  | badScheme        -- ValueError('Invalid URL scheme')
  | badPort          -- ValueError from `p.port`
  | unsupported
  deriving DecidableEq, Repr

/-- `urlsplit`: (scheme, rest after `scheme:`) -/
def splitScheme (u : Bytes) : Bytes × Bytes :=
  let pre := u.takeWhile (fun b => b != 58)
  if u.contains 58 && (pre.head?.map isAlphaA == some true) && pre.all isSchemeCh then
    (pre.map lowerA, (u.dropWhile (fun b => b != 58)).drop 1)
  else ([], u)

/-- `_splitnetloc` after `//`: (netloc, rest) -/
def splitNetloc (r : Bytes) : Bytes × Bytes :=
  if r.take 2 == [47, 47] then
    ((r.drop 2).takeWhile (fun b => !isDelim b), (r.drop 2).dropWhile (fun b => !isDelim b))
  else ([], r)

/-- `_splitparams(path)[0]` : the `;params` of the last segment are cut off -/
def dropParams (p : Bytes) : Bytes :=
  let seg := (p.reverse.takeWhile (fun b => b != 47)).reverse
  if p.contains 47 then p.take (p.length - seg.length) ++ seg.takeWhile (fun b => b != 59)
  else p.takeWhile (fun b => b != 59)

/-- `p.port` : none = no port given -/
def portOf (ps : Bytes) : Option (Option Nat) :=
  if ps.isEmpty then some none
  else if ps.all isDigit && decVal ps ≤ 65535 then some (some (decVal ps))
  else none

/-- `p.path or '/'`, `+ '?' + p.query` if there is a query: the request target -/
def urlPath (u : Bytes) : Bytes :=
  let r1 := (splitNetloc (splitScheme u).2).2
  let noFrag := r1.takeWhile (fun b => b != 35)
  let path0 := dropParams (noFrag.takeWhile (fun b => b != 63))
  let query := (noFrag.dropWhile (fun b => b != 63)).drop 1
  (if path0.isEmpty then [47] else path0) ++ (if query.isEmpty then [] else 63 :: query)

def parseUrl (u : Bytes) : UrlRes :=
  if !urlInDomain u || 4000 < u.length then .unsupported else
  let scheme := (splitScheme u).1
  let netloc := (splitNetloc (splitScheme u).2).1
  let host := (netloc.takeWhile (fun b => b != 58)).map lowerA
  let ps := (netloc.dropWhile (fun b => b != 58)).drop 1
  if host.isEmpty then .notAbsolute
  else
    let secure := scheme == [104, 116, 116, 112, 115]
    if scheme == [104, 116, 116, 112] || secure then
      match portOf ps with
      | none => .badPort
      | some p =>
        let dflt := if secure then 443 else 80
        let port := match p with
          | none => dflt
          | some 0 => dflt           -- `p.port or 80`
          | some n => n
        .ok ⟨host, port, urlPath u, secure⟩
    else .badScheme

/-! ### `Headers` as the request handler uses it -/

/-- `str.title()` on ASCII -/
def titleGo : Bool → Bytes → Bytes
  | _, [] => []
  | prev, b :: r => (if prev then lowerA b else upperA b) :: titleGo (isAlphaA b) r

def titleA (s : Bytes) : Bytes := titleGo false s

/-- `dict.__setitem__(title(key), value)`: an existing key keeps its position -/
def hdrSet : List Field → Bytes → Bytes → List Field
  | [], k, v => [(k, v)]
  | (n, w) :: fs, k, v => if n = k then (n, v) :: fs else (n, w) :: hdrSet fs k v

def hdrHas (fs : List Field) (k : Bytes) : Bool := fs.any fun f => f.1 == k

/-- `Headers(list(d.items()))` -/
def mkHeaders (user : List Field) : List Field :=
  user.foldl (fun acc f => hdrSet acc (titleA f.1) f.2) []

/-- decimal representation (`f'{n:d}'`, `str(len(body))`); the first argument is fuel (> n) -/
def decStrGo : Nat → Nat → Bytes
  | 0, _ => []
  | f + 1, n => if n < 10 then [UInt8.ofNat (48 + n)] else decStrGo f (n / 10) ++ [UInt8.ofNat (48 + n % 10)]

def decStr (n : Nat) : Bytes := decStrGo (n + 1) n

def sHost : Bytes := [72, 111, 115, 116]
def sContentLength : Bytes := [67, 111, 110, 116, 101, 110, 116, 45, 76, 101, 110, 103, 116, 104]
def sClose : Bytes := [99, 108, 111, 115, 101]
/-- `HTTP/1.1` -/
def sHttp11 : Bytes := [72, 84, 84, 80, 47, 49, 46, 49]

/-- the value of the Host header the client adds -/
def hostValue (u : Url) : Bytes :=
  u.host ++ (if u.port = 80 ∨ u.port = 443 then [] else 58 :: decStr u.port)

/-- the header fields the client sends, in order -/
def requestFields (u : Url) (user : List Field) (body : Option Bytes) : List Field :=
  let h0 := mkHeaders user
  let h1 := if hdrHas h0 sHost then h0 else hdrSet h0 sHost (hostValue u)
  match body with
  | none => h1
  | some b => hdrSet h1 sContentLength (decStr b.length)

/-- `f'{k}: {v}\r\n'` for every field -/
def serHeaderLines : List Field → Bytes
  | [] => []
  | (k, v) :: fs => k ++ 58 :: 32 :: v ++ 13 :: 10 :: serHeaderLines fs

/-- the first `write`: `f'{method} {path} HTTP/1.1\r\n{headers}'` -/
def serHead (method path : Bytes) (fs : List Field) : Bytes :=
  method ++ 32 :: (path ++ 32 :: sHttp11) ++ 13 :: 10 :: (serHeaderLines fs ++ [13, 10])

def asciiOnly (s : Bytes) : Bool := s.all fun b => b.toNat < 128

/-! ### the component -/

structure Request where
  method : Bytes
  url : Bytes
  body : Option Bytes
  headers : List Field
  deriving DecidableEq, Repr

/-- what an observer of the component sees: events to the transport, `response` events -/
inductive Ev
  | connect (host : Bytes) (port : Nat) (secure : Bool)
  | write (data : Bytes)
  | response (r : Resp)
  | close
  | error (r : UrlRes)        -- the `request` handler raised ValueError
  | unsupported
  deriving DecidableEq, Repr

structure State where
  connected : Bool := false
  parser : PState := init .response

def requestInDomain (q : Request) : Bool :=
  asciiOnly q.method && q.headers.all fun f => asciiOnly f.1 && asciiOnly f.2

/-- the writes of a request to URL `u` -/
def requestWrites (q : Request) (u : Url) : List Ev :=
  .write (serHead q.method u.path (requestFields u q.headers q.body)) ::
    (match q.body with | none => [] | some b => [.write b])

/-- the bytes that reach the transport: the data of the `write` events, in order -/
def wireBytes : List Ev → Bytes
  | [] => []
  | .write d :: es => d ++ wireBytes es
  | _ :: es => wireBytes es

/-- `Client.request` up to `yield self.wait('response')` -/
def onRequest (st : State) (q : Request) : State × List Ev :=
  if !requestInDomain q then (st, [.unsupported]) else
  match parseUrl q.url with
  | .ok u =>
    ({ st with connected := true },
     (if st.connected then [] else [.connect u.host u.port u.secure]) ++ requestWrites q u)
  | .unsupported => (st, [.unsupported])
  | e => (st, [.error e])

/-- `response.headers.get('Connection', '').lower() == 'close'` -/
def connClose (r : Resp) : Bool :=
  match r.hdrBlock with
  | none => false
  | some hb =>
    match lexFieldList hb with
    | .ok fs => ((hdrGet fs nConnection).getD []).map lowerA == sClose
    | _ => false

/-- what a read makes visible: the `response` event, then `close` after `Connection: close` -/
def respEvents : Option Resp → List Ev
  | none => []
  | some r => .response r :: (if connClose r then [.close] else [])

def closes : Option Resp → Bool
  | none => false
  | some r => connClose r

/-- a `read` event from the transport: `HTTP._on_client_read`, then `Client._on_response` -/
def onRead (lex : Lex) (st : State) (data : Bytes) : State × List Ev :=
  let (p, o) := clientRead lex st.parser data
  (⟨st.connected && !closes o, p⟩, respEvents o)

def readAll (lex : Lex) (st : State) : List Bytes → State × List Ev
  | [] => (st, [])
  | d :: ds =>
    let (s1, e1) := onRead lex st d
    let (s2, e2) := readAll lex s1 ds
    (s2, e1 ++ e2)

/-- one exchange: the request, then the reads that deliver its response -/
def exchange (lex : Lex) (st : State) (x : Request × List Bytes) : State × List Ev :=
  let (s1, e1) := onRequest st x.1
  let (s2, e2) := readAll lex s1 x.2
  (s2, e1 ++ e2)

/-- successive exchanges on one client (each request follows the previous response) -/
def session (lex : Lex) (st : State) : List (Request × List Bytes) → State × List (List Ev)
  | [] => (st, [])
  | x :: xs =>
    let (s1, e) := exchange lex st x
    let (s2, es) := session lex s1 xs
    (s2, e :: es)

end Client
end Http
end CV

import CV.Model.Poller
/-
Model of the connection life cycle of circuits/net/sockets.py `Server` (TCPServer / UNIXServer),
composed with the poller model of C10 (CV/Model/Poller.lean), and of the `Client` life cycle.

The code as it is now, i.e. after the five `fix:` commits of C12
  [F1] Server.write ignores a socket that is not (or no longer) in `_clients`
  [F2] EPoll._updateRegistration forgets `_map[fileno]` when it drops a descriptor     (pollers.py)
  [F3] Server.close / Server._on_write test `self._buffers.get(sock)` (no defaultdict entry is created)
  [F4] Server._close removes the socket from `_closeq`
  [F5] Server._on_accept_done asks for the peer name *before* it registers and announces the socket; a
       connection that is already dead gets `error` and is closed, without `connect`/`disconnect`

    def _on_accept_done(self, sock, fire_connect_event=True):
        sock.setblocking(False)
        peer = ()
        if fire_connect_event:
            try: peer = sock.getpeername()
            except OSError as exc:                       # [F5]
                self.fire(error(sock, exc)); sock.close(); return
        self._poller.addReader(self, sock)
        self._clients.append(sock)
        if fire_connect_event: self.fire(connect(sock, *peer))

    def _read(self, sock):
        if sock not in self._clients: return
        try:
            data = sock.recv(self._bufsize)
            if data: self.fire(read(sock, data))
            else:    self.close(sock)
        except OSError as e:
            if e.args[0] == EWOULDBLOCK: return
            self.fire(error(sock, e)); self._close(sock)

    def close(self, sock):                               # `close` event for one connection
        if not self._buffers.get(sock): self._close(sock)              # [F3]
        elif sock not in self._closeq:  self._closeq.append(sock)

    def _close(self, sock):
        if sock not in self._clients: return             # (listening socket: not modelled)
        self._poller.discard(sock)
        if sock in self._buffers: del self._buffers[sock]
        self._clients.remove(sock)
        if sock in self._closeq: self._closeq.remove(sock)             # [F4]
        sock.shutdown(2); sock.close()
        self.fire(disconnect(sock))

    def write(self, sock, data):                         # `write` event
        if sock not in self._clients: return                           # [F1]
        if not self._poller.isWriting(sock): self._poller.addWriter(self, sock)
        self._buffers[sock].append(data)

    def _on_write(self, sock):                           # `_write` from the poller
        if self._buffers.get(sock):                                    # [F3]
            data = self._buffers[sock].popleft()
            self._write(sock, data)
        if not self._buffers.get(sock):                                # [F3]
            if sock in self._closeq: self._closeq.remove(sock); self._close(sock)
            elif self._poller.isWriting(sock): self._poller.removeWriter(sock)

    def _write(self, sock, data):
        if sock not in self._clients: return
        try:
            nbytes = sock.send(data)
            if nbytes < len(data): self._buffers[sock].appendleft(data[nbytes:])
        except OSError as e:
            if e.args[0] in (EINTR, EWOULDBLOCK, ENOBUFS): self._buffers[sock].appendleft(data)
            else: self.fire(error(sock, e)); self._close(sock)

    _on_read(sock) = self._read(sock) ;  _on_disconnect(sock) = self._close(sock)

The operating system and the peers are inputs: an `accept` op says which new object with which
file number `accept()` returned and whether the peer is already gone (`getpeername()` fails); a
`poll` op carries the readiness of every open file (as in C10) and, per socket, what `recv` /
`send` will answer *if it is called* in this round.  The model emits, in order, what an outside
observer sees: the `connect/read/disconnect/error` events, the socket calls, and after every
op the tables of the statement ("no trace").

Not modelled: the listening socket (it is registered with the poller like the control pipe and
is never an object of the pool; a server-wide close closes it too - checked on the implementation by
the harness), TLS / starttls, UDPServer,
payload *contents* on the write side (a payload is its length; C11 is about the bytes), the
channel of poller events (every registration in this model is the server's; C10 proves that an
event goes to the registrant's channel).
-/
namespace CV
namespace Conn
open Poller (Obj upd)

def srvChan : Poller.Chan := 1

/-- what `sock.recv(bufsize)` answers -/
inductive RecvOut
  | data (d : Bytes)      -- (`data []` is what Python calls b'': end of stream)
  | eof
  | again                 -- EWOULDBLOCK
  | err                   -- any other OSError
deriving DecidableEq, Repr

/-- what `sock.send(data)` answers -/
inductive SendOut
  | acc (k : Nat)         -- accepts min k len bytes
  | again                 -- EINTR / EWOULDBLOCK / ENOBUFS
  | fatal                 -- any other OSError
deriving DecidableEq, Repr

structure State where
  p : Poller.State
  clients : List Obj := []
  buffers : Obj → Option (List Nat) := fun _ => none     -- `_buffers` (defaultdict): `some` = key present
  closeq : List Obj := []
  objs : List Obj := []                                  -- ghost: every object `accept()` ever returned

def State.init (k : Poller.Kind) : State := { p := Poller.State.init k }

/-- what an observer sees -/
inductive Obs
  | connect (o : Obj)
  | read (o : Obj) (d : Bytes)
  | disconnect (o : Obj)
  | error (o : Obj)
  | recvd (o : Obj) (r : RecvOut)            -- recv() was called on o and answered r
  | sent (o : Obj) (n : Nat) (r : SendOut)   -- send() was called on o with n bytes and answered r
  | sclosed (o : Obj)                        -- o.close()
  | tab (rows : List (Obj × Nat))            -- the tables after the op, one row of flags per object
deriving DecidableEq, Repr

def bufGet (s : State) (o : Obj) : List Nat := (s.buffers o).getD []

/-! ### the tables of the statement -/

def bit (b : Bool) (v : Nat) : Nat := if b then v else 0

/-- `_map` mentions `o` (a `_map` key of `o` can only be the number it was created with, C10 `PInv.M`) -/
def inMap (p : Poller.State) (o : Obj) : Bool :=
  match p.w.orig o with
  | some f => p.map f == some o
  | none => false

/-- which tables mention `o`: 1 `_clients`, 2 `_buffers`, 4 `_closeq`, 8 poller `_read`, 16 `_write`,
    32 `_targets`, 64 `_map` -/
def tbits (s : State) (o : Obj) : Nat :=
  bit (decide (o ∈ s.clients)) 1 + bit (s.buffers o).isSome 2 + bit (decide (o ∈ s.closeq)) 4
  + bit (decide (o ∈ s.p.read)) 8 + bit (decide (o ∈ s.p.write)) 16 + bit (s.p.targets o).isSome 32
  + bit (inMap s.p o) 64

/-- the row of `o`: its table bits, + 128 when the socket is closed -/
def flags (s : State) (o : Obj) : Nat := tbits s o + bit (s.p.w.fno o).isNone 128

def rows (s : State) : List (Obj × Nat) := s.objs.map (fun o => (o, flags s o))

/-! ### the server -/

/-- `_close(sock)` -/
def closeConn (s : State) (o : Obj) : State × List Obs :=
  if o ∈ s.clients then
    let p1 := (Poller.step s.p (.discard o)).1
    let p2 := (Poller.step p1 (.close o)).1
    ({ s with p := p2, buffers := upd s.buffers o none, clients := s.clients.erase o,
              closeq := s.closeq.erase o },
     [.sclosed o, .disconnect o])
  else (s, [])

/-- the body of the `close` handler for one socket -/
def closeReq (s : State) (o : Obj) : State × List Obs :=
  match s.buffers o with
  | some (_ :: _) => if o ∈ s.closeq then (s, []) else ({ s with closeq := s.closeq ++ [o] }, [])
  | _ => closeConn s o

/-- `_read(sock)` -/
def onRead (s : State) (o : Obj) (r : RecvOut) : State × List Obs :=
  if o ∈ s.clients then
    match r with
    | .data (b :: d) => (s, [.recvd o r, .read o (b :: d)])
    | .data [] | .eof => let (s1, e) := closeReq s o; (s1, .recvd o r :: e)
    | .again => (s, [.recvd o r])
    | .err => let (s1, e) := closeConn s o; (s1, [.recvd o r, .error o] ++ e)
  else (s, [])

/-- `_write(sock, data)` for a payload of `n` bytes already popped from the buffer -/
def sendOne (s : State) (o : Obj) (n : Nat) (r : SendOut) : State × List Obs :=
  if o ∈ s.clients then
    match r with
    | .acc k =>
      if min k n < n then
        ({ s with buffers := upd s.buffers o (some ((n - min k n) :: bufGet s o)) }, [.sent o n r])
      else (s, [.sent o n r])
    | .again => ({ s with buffers := upd s.buffers o (some (n :: bufGet s o)) }, [.sent o n r])
    | .fatal => let (s1, e) := closeConn s o; (s1, [.sent o n r, .error o] ++ e)
  else (s, [])

/-- second half of `_on_write` -/
def afterWrite (s : State) (o : Obj) : State × List Obs :=
  match s.buffers o with
  | some (_ :: _) => (s, [])
  | _ =>
    if o ∈ s.closeq then closeConn { s with closeq := s.closeq.erase o } o
    else if s.p.isWriting o then ({ s with p := (Poller.step s.p (.removeWriter o)).1 }, [])
    else (s, [])

/-- `_on_write(sock)` -/
def onWrite (s : State) (o : Obj) (r : SendOut) : State × List Obs :=
  match s.buffers o with
  | some (n :: rest) =>
    let (s1, e1) := sendOne { s with buffers := upd s.buffers o (some rest) } o n r
    let (s2, e2) := afterWrite s1 o
    (s2, e1 ++ e2)
  | _ => afterWrite s o

/-- one poller event delivered to the server -/
def handle (rcv : Obj → RecvOut) (snd : Obj → SendOut) (s : State) (e : Poller.Event) : State × List Obs :=
  match e.kind with
  | .read => onRead s e.obj (rcv e.obj)
  | .write => onWrite s e.obj (snd e.obj)
  | .disconnect => closeConn s e.obj

def handleAll (rcv : Obj → RecvOut) (snd : Obj → SendOut) (s : State) : List Poller.Event → State × List Obs
  | [] => (s, [])
  | e :: rest =>
    let (s1, o1) := handle rcv snd s e
    let (s2, o2) := handleAll rcv snd s1 rest
    (s2, o1 ++ o2)

inductive Op
  | accept (o : Obj) (f : Nat) (gone : Bool)     -- `_accept`: accept() returned the new object o with number f
  | write (o : Obj) (n : Nat)                    -- `write(sock, data)` event, len data = n
  | close (o : Obj)                              -- `close(sock)` event
  | hangup (o : Obj)                             -- a `_disconnect(sock)` event reaches the server outside a
                                                 -- modelled round (Poll/EPoll fire it for HUP/ERR without input)
  | poll (fs : List Nat) (rd : Nat → Poller.Bits) (rcv : Obj → RecvOut) (snd : Obj → SendOut)

/-- can the environment do this at all (same rule as C10) -/
def valid (s : State) : Op → Bool
  | .accept o f _ => s.p.w.canOpen o f
  | .poll fs _ _ _ => decide fs.Nodup
  | _ => true

def stepCore (s : State) : Op → State × List Obs
  | .accept o f gone =>
    if s.p.w.canOpen o f then
      let p1 := (Poller.step s.p (.opn o f)).1
      if gone then
        ({ s with p := (Poller.step p1 (.close o)).1, objs := s.objs ++ [o] }, [.error o, .sclosed o])
      else
        ({ s with p := (Poller.step p1 (.addReader o srvChan)).1, clients := s.clients ++ [o],
                  objs := s.objs ++ [o] }, [.connect o])
    else (s, [])
  | .write o n =>
    if o ∈ s.clients then
      let p1 := if s.p.isWriting o then s.p else (Poller.step s.p (.addWriter o srvChan)).1
      ({ s with p := p1, buffers := upd s.buffers o (some (bufGet s o ++ [n])) }, [])
    else (s, [])
  | .close o => closeReq s o
  | .hangup o => closeConn s o
  | .poll fs rd rcv snd =>
    if fs.Nodup then
      let r := Poller.round s.p fs rd
      handleAll rcv snd { s with p := r.1 } r.2
    else (s, [])

def step (s : State) (op : Op) : State × List Obs :=
  let r := stepCore s op
  (r.1, r.2 ++ [.tab (rows r.1)])

def runFrom (s : State) : List Op → State × List Obs
  | [] => (s, [])
  | op :: rest =>
    let r1 := step s op
    let r2 := runFrom r1.1 rest
    (r2.1, r1.2 ++ r2.2)

def run (k : Poller.Kind) (ops : List Op) : State × List Obs := runFrom (State.init k) ops

def trace (k : Poller.Kind) (ops : List Op) : List Obs := (run k ops).2

/-! ## server-wide `close()` and `stopped` (W11)

    def close(self, sock=None):                          # `close` event without a socket
        socks = [self._sock] + self._clients[:]          # (listening socket: closed too, not an object of the pool)
        for sock in socks:
            if not self._buffers.get(sock): self._close(sock)
            elif sock not in self._closeq:  self._closeq.append(sock)
        self.fire(closed())
    def _on_stopped(self, component): self.fire(close())         # `stopped` on any channel

Server-wide close = the body of the `close` handler for every socket of a *copy* of `_clients`, in order.
-/

/-- the loop of `close()` over a list of sockets fixed beforehand -/
def closeEach (s : State) : List Obj → State × List Obs
  | [] => (s, [])
  | o :: rest =>
    let r1 := closeReq s o
    let r2 := closeEach r1.1 rest
    (r2.1, r1.2 ++ r2.2)

/-- `close()` of the whole server -/
def closeAll (s : State) : State × List Obs := closeEach s s.clients

/-- histories with the server-wide operations -/
inductive XOp
  | op (x : Op)
  | closeAll          -- `close()` event without a socket
  | stop              -- `stopped` event (the manager was stopped): `_on_stopped` fires `close()`

def xvalid (s : State) : XOp → Bool
  | .op x => valid s x
  | _ => true

def xstepCore (s : State) : XOp → State × List Obs
  | .op x => stepCore s x
  | .closeAll => closeAll s
  | .stop => closeAll s

def xstep (s : State) (op : XOp) : State × List Obs :=
  let r := xstepCore s op
  (r.1, r.2 ++ [.tab (rows r.1)])

def xrunFrom (s : State) : List XOp → State × List Obs
  | [] => (s, [])
  | op :: rest =>
    let r1 := xstep s op
    let r2 := xrunFrom r1.1 rest
    (r2.1, r1.2 ++ r2.2)

def xrun (k : Poller.Kind) (ops : List XOp) : State × List Obs := xrunFrom (State.init k) ops

def xtrace (k : Poller.Kind) (ops : List XOp) : List Obs := (xrun k ops).2

/-! ## the client (`Client` / `TCPClient` / `UNIXClient`): connected / disconnected

    def connect(self, host, port):          # TCPClient; UNIXClient has the same shape
        <non-blocking connect; failure:> fire(unreachable); fire(error); self._close(); return
        <wait for getpeername()>  self._connected = True
        self._poller.addReader(self, sock); self.fire(connected(host, port))
    def _close(self):
        if not self._connected: return
        self._poller.discard(self._sock); self._buffer.clear(); self._closeflag = False
        self._connected = False; <shutdown, close>; self.fire(disconnected())
    def close(self):
        if not self._buffer: self._close()
        elif not self._closeflag: self._closeflag = True
    def _read(self):
        data = recv(); if data: fire(read(data)) else: self.close()
        except OSError: EWOULDBLOCK -> return; else fire(error(e)); self._close()
    def write(self, data): <addWriter unless isWriting>; self._buffer.append(data)
    def __on_write(self, sock):
        if self._buffer: data = popleft(); self._write(data)
        if not self._buffer: if self._closeflag: self._close() elif isWriting: removeWriter
    def _write(self, data):
        nbytes = send(data); if nbytes < len(data): appendleft(data[nbytes:])
        except OSError: EPIPE/ENOTCONN -> self._close(); EINTR/EWOULDBLOCK/ENOBUFS -> appendleft(data)
                        else fire(error(e))
    __on_disconnect = self._close()
    def _on_prepare_unregister(self, event, c): if event.in_subtree(self): self._close()     # (W11)
    def _on_stopped(self, component): self.fire(close())                                     # (W11)
  UNIXClient.connect (W11):
        r = self._sock.connect_ex(path)        # a closed socket: EBADF, a path nobody listens on: ENOENT/ECONNREFUSED
        if r and r not in (EISCONN, EWOULDBLOCK, EINPROGRESS, EALREADY): self.fire(error(r)); return
        self._connected = True; self._poller.addReader(self, self._sock); self.fire(connected(...))
  Pipe() (W11): two UNIXClients over a socketpair, created with `_connected = True` (no `connected` event):
        a Pipe end is a client whose initial state is `pipeInit`.
-/
namespace Client

inductive CSend
  | acc (k : Nat) | again | pipe | other
deriving DecidableEq, Repr

structure State where
  connected : Bool := false
  buf : List Nat := []
  closeflag : Bool := false
deriving DecidableEq, Repr

/-- how the `connect` handler ends -/
inductive ConnOut
  | ok          -- established: `_connected = True`, addReader, fire connected
  | refused     -- connect() raised at once: fire unreachable, error; `_close()`
  | timeout     -- getpeername() never succeeded within connect_timeout: fire unreachable
  | failed      -- UNIXClient: connect_ex() answered an error: fire error, nothing else (W11)
deriving DecidableEq, Repr

inductive Op
  | connect (r : ConnOut)      -- `connect` event
  | close
  | write (n : Nat)
  | readable (r : RecvOut)     -- `_read` from the poller
  | writable (r : CSend)       -- `_write` from the poller
  | hangup                     -- `_disconnect` from the poller
  | unregister                 -- `prepare_unregister` for a subtree that contains the client: `_close()` (W11)
  | stopped                    -- `stopped`: fires `close()` (W11)
deriving DecidableEq, Repr

inductive Ev
  | connected | disconnected | read (d : Bytes) | error | unreachable
deriving DecidableEq, Repr

def doClose (s : State) : State × List Ev :=
  if s.connected then ({ connected := false, buf := [], closeflag := false }, [.disconnected]) else (s, [])

def closeReq (s : State) : State × List Ev :=
  match s.buf with
  | [] => doClose s
  | _ :: _ => ({ s with closeflag := true }, [])

def afterWrite (s : State) : State × List Ev :=
  match s.buf with
  | [] => if s.closeflag then doClose s else (s, [])
  | _ :: _ => (s, [])

def step (s : State) : Op → State × List Ev
  | .connect .ok => ({ s with connected := true }, [.connected])
  | .connect .refused => let (s1, e) := doClose s; (s1, [.unreachable, .error] ++ e)
  | .connect .timeout => (s, [.unreachable])
  | .connect .failed => (s, [.error])
  | .unregister => doClose s
  | .stopped => closeReq s
  | .close => closeReq s
  | .write n => ({ s with buf := s.buf ++ [n] }, [])
  | .readable (.data (b :: d)) => (s, [.read (b :: d)])
  | .readable (.data []) | .readable .eof => closeReq s
  | .readable .again => (s, [])
  | .readable .err => let (s1, e) := doClose s; (s1, .error :: e)
  | .writable r =>
    match s.buf with
    | [] => afterWrite s
    | n :: rest =>
      let s0 := { s with buf := rest }
      let (s1, e1) : State × List Ev := match r with
        | .acc k => (if min k n < n then { s0 with buf := (n - min k n) :: rest } else s0, [])
        | .again => ({ s0 with buf := n :: rest }, [])
        | .pipe => doClose s0
        | .other => (s0, [.error])
      let (s2, e2) := afterWrite s1
      (s2, e1 ++ e2)
  | .hangup => doClose s

def runFrom (s : State) : List Op → State × List Ev
  | [] => (s, [])
  | op :: rest =>
    let r1 := step s op
    let r2 := runFrom r1.1 rest
    (r2.1, r1.2 ++ r2.2)

def trace (ops : List Op) : List Ev := (runFrom {} ops).2

/-- a `Pipe()` end: born connected -/
def pipeInit : State := { connected := true }

def pipeTrace (ops : List Op) : List Ev := (runFrom pipeInit ops).2

end Client

end Conn
end CV

import CV.Model.Basic
/-
Decidable statement of C03 over *observations* (independent of the transition system):

* `onceFifo fired disp` : `fired` = the (thread, number) pairs in the order the `fire()` calls
  appended them, `disp` = the pairs in the order they were dispatched.  Every thread's
  dispatched sequence equals its fired sequence: nothing lost, nothing duplicated, firing order
  of the thread kept.
* `prefixFifo fired disp` : the same for an unfinished run (dispatched is, per thread, a
  prefix of fired).
* `notStuck blocked queued othersEnabled` : the scheduler's end-of-run observation - the loop
  thread is not sitting in its idle wait with an event queued while no other thread can run
  (i.e. only an expiring time-out could continue the run).
-/
namespace CV
namespace WakeSpec

abbrev Key := Nat × Nat

def proj (t : Nat) (l : List Key) : List Key := l.filter (fun k => k.1 == t)

def tidsOf (l : List Key) : List Nat := (l.map (·.1)).eraseDups

def onceFifo (fired disp : List Key) : Bool :=
  (tidsOf (fired ++ disp)).all (fun t => proj t fired == proj t disp)

def prefixFifo (fired disp : List Key) : Bool :=
  (tidsOf (fired ++ disp)).all (fun t => (proj t disp).isPrefixOf (proj t fired))

def notStuck (blocked : Bool) (queued : Nat) (othersEnabled : Bool) : Bool :=
  !(blocked && queued > 0 && !othersEnabled)

end WakeSpec
end CV

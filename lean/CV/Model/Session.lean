import CV.Model.Basic
/-
Model of circuits/web/sessions.py: `who`, `create_session`, `verify_session`,
`Sessions.request`, `MemoryStore` (load / save / delete) and `Session.__exit__`.

  def who(request):             return sha(f'{ip}{agent}'.encode()).hexdigest()
  def create_session(request):  return f'{uuid().hex}/{who(request)}'
  def verify_session(request, sid):
      if '/' not in sid:          return create_session(request)
      user = sid.split('/', 1)[1]
      if user != who(request):    return create_session(request)
      return sid
  Sessions.request:
      if self.name in request.cookie: sid = verify_session(request, request.cookie[name].value)
      else:                           sid = create_session(request)
      request.session = self.store.load(sid)       # Session(sid, copy of data[sid]); {} if unknown
      response.cookie[self.name] = sid

Parameters: `W : Str → Str` is sha1-hexdigest of the utf-8 text (uninterpreted); the uuid
drawn for a request is an input of the step (`u`, the oracle tape of `uuid4().hex`).

What a request then does with its session is an `Act`: nothing, `with session as d: d[k] = v`
(saved on exit), or `session.expire()`.

Store entries carry two GHOST fields (`wsid`, `wfp`: the session id and the fingerprint of
the request that wrote them).  They do not influence any computation; the theorems use
them to say whose data a request is shown.  (`MemoryStore.load` creating an empty entry
for an unknown id is unobservable through `Sessions` and is not modelled.)
-/
namespace CV
namespace Session

abbrev Str := List Char

structure Req where
  ip : Str
  agent : Str
  /-- `request.cookie[name].value` when the cookie is present -/
  cookie : Option Str
  deriving Repr, DecidableEq

inductive Act where
  | get
  | put (k v : Str)
  | expire
  deriving Repr, DecidableEq

structure Entry where
  key : Str
  val : Str
  wsid : Str   -- ghost
  wfp : Str    -- ghost
  deriving Repr, DecidableEq

abbrev Store := List (Str × List Entry)

def who (W : Str → Str) (r : Req) : Str := W (r.ip ++ r.agent)

def createSession (W : Str → Str) (u : Str) (r : Req) : Str := u ++ '/' :: who W r

/-- `sid.split('/', 1)[1]`; none when there is no '/' -/
def afterSlash : Str → Option Str
  | [] => none
  | c :: cs => if c = '/' then some cs else afterSlash cs

def verifySession (W : Str → Str) (u : Str) (r : Req) (sid : Str) : Str :=
  match afterSlash sid with
  | none => createSession W u r
  | some user => if user ≠ who W r then createSession W u r else sid

/-- the id `Sessions.request` settles on -/
def chooseSid (W : Str → Str) (u : Str) (r : Req) : Str :=
  match r.cookie with
  | some sid => verifySession W u r sid
  | none => createSession W u r

/-- `d[k] = v` on a dict kept as an insertion-ordered list -/
def dictSet (d : List Entry) (e : Entry) : List Entry :=
  if d.any (fun x => x.key = e.key) then d.map (fun x => if x.key = e.key then e else x)
  else d ++ [e]

def setKey (st : Store) (sid : Str) (d : List Entry) : Store :=
  (sid, d) :: st.filter (fun p => p.1 ≠ sid)

def delKey (st : Store) (sid : Str) : Store := st.filter (fun p => p.1 ≠ sid)

structure Step where
  req : Req
  u : Str
  act : Act
  deriving Repr, DecidableEq

structure Obs where
  sid : Str                 -- response.cookie[name]
  contents : List Entry     -- dict(request.session) as loaded
  deriving Repr, DecidableEq

def step (W : Str → Str) (st : Store) (s : Step) : Store × Obs :=
  let sid := chooseSid W s.u s.req
  let cur := (st.lookup sid).getD []
  let st' := match s.act with
    | .get => st
    | .put k v => setKey st sid (dictSet cur ⟨k, v, sid, who W s.req⟩)
    | .expire => delKey st sid
  (st', ⟨sid, cur⟩)

def run (W : Str → Str) (st : Store) : List Step → Store × List Obs
  | [] => (st, [])
  | s :: ss =>
    let (st1, o) := step W st s
    let (st2, os) := run W st1 ss
    (st2, o :: os)

/-! ### the statement, on observed traces (spec on impl)

One record per request: what it presented, what it was given, what it did.  The predicate
is independent of how the id is verified: it only says who may be shown which data. -/

structure Rec where
  ip : Str
  agent : Str
  cookie : Option Str
  sid : Str                      -- id the request was given
  seen : List (Str × Str)        -- session contents shown to it
  act : Act
  deriving Repr, DecidableEq

def Rec.fp (r : Rec) : Str := r.ip ++ r.agent

/-- the data a request with session id `sid` should find, replaying earlier writes -/
def replay (sid : Str) : List Rec → List (Str × Str) → List (Str × Str)
  | [], d => d
  | r :: rs, d =>
    if r.sid = sid then
      match r.act with
      | .get => replay sid rs d
      | .put k v =>
        replay sid rs (if d.any (fun x => x.1 = k) then d.map (fun x => if x.1 = k then (k, v) else x)
                       else d ++ [(k, v)])
      | .expire => replay sid rs []
    else replay sid rs d

/-- clause names: which part of the statement an observed request breaks -/
def recOk (past : List Rec) (r : Rec) : Option String :=
  if r.cookie = some r.sid then
    -- honoured: everybody who ever used this id has the same fingerprint
    if past.any (fun q => q.sid = r.sid && q.fp != r.fp) then some "foreign-session"
    else if r.seen != replay r.sid past [] then some "contents"
    else none
  else
    -- not honoured: a fresh, unique id and an empty session
    if past.any (fun q => q.sid = r.sid || q.cookie = some r.sid) then some "id-not-fresh"
    else if r.seen != [] then some "fresh-not-empty"
    else none

def traceOk : List Rec → List Rec → Option String
  | _, [] => none
  | past, r :: rs =>
    match recOk past r with
    | some e => some e
    | none => traceOk (past ++ [r]) rs

end Session
end CV

import CV.Model.Line
/-
Independent, decidable statement of "exactly the lines contained in the stream":
a decomposition of the stream into terminated lines plus an unterminated tail.
Evaluated by the driver on the *implementation's* output (spec on impl) and proved of
the model in CV/Props/C18.lean.
-/
namespace CV
namespace Line

def term (crlf : Bool) : Bytes := if crlf then [CR, LF] else [LF]

/-- rebuild the stream from tagged lines and tail -/
def rebuild (ls : List (Bytes × Bool)) (tail : Bytes) : Bytes :=
  ls.flatMap (fun l => l.1 ++ term l.2) ++ tail

/-- a tagged line is legal: no LF inside; a bare-LF line does not end in CR -/
def lineOk (l : Bytes × Bool) : Bool :=
  !(l.1.contains LF) && (l.2 || l.1.getLast? != some CR)

/-- `ls`, `tail` is a legal reading of `stream` -/
def isReading (stream : Bytes) (ls : List (Bytes × Bool)) (tail : Bytes) : Bool :=
  rebuild ls tail == stream && ls.all lineOk && !(tail.contains LF)

/-- Spec on untagged output (what the implementation reports): some tagging of the
    reported lines is a legal reading.  The tagging is determined by the stream, so it is
    recovered greedily: after `l` comes CRLF if the stream continues with CR LF. -/
def untaggedOk : Bytes → List Bytes → Bytes → Bool
  | stream, [], tail => stream == tail && !(tail.contains LF)
  | stream, l :: ls, tail =>
    !(l.contains LF) &&
    (if (l ++ [CR, LF]).isPrefixOf stream then
        untaggedOk (stream.drop (l.length + 2)) ls tail
     else if (l ++ [LF]).isPrefixOf stream then
        l.getLast? != some CR && untaggedOk (stream.drop (l.length + 1)) ls tail
     else false)

end Line
end CV

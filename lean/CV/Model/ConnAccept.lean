import CV.Model.Conn
/-
C12, the accept path: the LISTENING socket of circuits/net/sockets.py `Server` as a model object, a conservative
extension of `Conn.Op` / `Conn.XOp` (`AOp`; the old ops are embedded unchanged with `.x`).

    @handler('registered', 'started', channel='*')
    def _on_registered_or_started(self, component, manager=None):
        if self._poller is None:
            ... self._poller = <the poller>; self._poller.addReader(self, self._sock); self.fire(ready(...))

    @handler('_read', priority=1)
    def _on_read(self, sock):
        if sock == self._sock: return self._accept()
        self._read(sock)

    def _accept(self):
        try: newsock, _host = self._sock.accept()
        except OSError as e:
            if e.args[0] in (EWOULDBLOCK, EAGAIN): return
            elif e.args[0] == EPERM: return
            elif e.args[0] in (EMFILE, ENOBUFS, ENFILE, ENOMEM, ECONNABORTED): return
            else: raise
        self._on_accept_done(newsock)                       # (TLS: not modelled)

    def _on_accept_done(self, sock, fire_connect_event=True):     # = `Conn.Op.accept`, see Conn.lean
        sock.setblocking(False)
        try: peer = sock.getpeername()
        except OSError as exc: self.fire(error(sock, exc)); sock.close(); return      # peer already reset
        self._poller.addReader(self, sock); self._clients.append(sock); self.fire(connect(sock, *peer))

    def _close(self, sock):
        if sock is None: return
        if sock != self._sock and sock not in self._clients: return
        self._poller.discard(sock)
        ...
        if sock in self._clients: self._clients.remove(sock)
        else: self._sock = None                             # the listening socket
        ...
        sock.shutdown(2); sock.close()
        self.fire(disconnect(sock))                         # also for the listening socket

    def close(self, sock=None):
        socks = [self._sock] + self._clients[:]   (sock is None)      # listening socket first
        for sock in socks: if not self._buffers.get(sock): self._close(sock) ...

The listening socket is an object of the C10 poller model in a poller world of its own (`lworld`): object 0 with
file number 0, taken through `Poller.step` with exactly the calls the server makes (`opn`, `addReader`, `discard`,
`close`).  A world of its own is sound because the listening socket is created before every accepted socket and
no socket is accepted after it has been closed: its number is never shared with a pool socket that is open or
that is created later (the number itself is then only a label).  What an outside observer sees of the listening
socket is kept in counters of the state (`ldisc`: `disconnect(listening socket)` events, `raised`: accept errors
the handler re-raised); the observation stream `Obs` is about pool sockets and is left as it was.
The kernel's answer to `accept()` is an input: a new socket (whose peer may already have reset the connection:
`gone`), or an errno.
-/
namespace CV
namespace Conn
open Poller (Obj)

/-- the listening socket in its own poller world -/
def lobj : Obj := 0

inductive LPh
  | idle          -- server not yet registered with a poller (or: listening socket not tracked - old histories)
  | listening     -- registered: `addReader(self, self._sock)` done
  | closed        -- `_close(self._sock)` done: `self._sock is None`
deriving DecidableEq, Repr

/-- poller state after `addReader(self, self._sock)` -/
def lstart (k : Poller.Kind) : Poller.State :=
  let p1 := (Poller.step (Poller.State.init k) (.opn lobj 0)).1
  (Poller.step p1 (.addReader lobj srvChan)).1

/-- ... and after `discard(self._sock)`, `self._sock.close()` -/
def lclosed (k : Poller.Kind) : Poller.State :=
  let p1 := (Poller.step (lstart k) (.discard lobj)).1
  (Poller.step p1 (.close lobj)).1

def lworld (k : Poller.Kind) : LPh → Poller.State
  | .idle => Poller.State.init k
  | .listening => lstart k
  | .closed => lclosed k

/-- the errno values `_accept` distinguishes -/
inductive Errno
  | eagain | ewouldblock | eperm | emfile | enobufs | enfile | enomem | econnaborted
  | other         -- any other OSError: re-raised
deriving DecidableEq, Repr

def tolerated : Errno → Bool
  | .other => false
  | _ => true

/-- what the kernel answers to `accept()` -/
inductive Answer
  | sock (o : Obj) (f : Nat) (gone : Bool)   -- a new socket, number f; gone: the peer has already reset (getpeername fails)
  | errno (e : Errno)
deriving DecidableEq, Repr

structure AState where
  c : State
  l : LPh := .idle
  ldisc : Nat := 0        -- `disconnect(listening socket)` events fired so far
  raised : Nat := 0       -- accept() errors re-raised out of the `_read` handler so far

def AState.init (k : Poller.Kind) : AState := { c := State.init k }

inductive AOp
  | x (op : XOp)               -- everything there was
  | start                      -- `registered`/`started`: the listening socket is registered as reader
  | lready (a : Answer)        -- `_read(listening socket)`: `_accept`, the kernel answers `a`
  | lclose                     -- `_close(listening socket)`: a `close(sock)` / `_disconnect(sock)` event naming it

def avalid (a : AState) : AOp → Bool
  | .x op => xvalid a.c op
  | .lready (.sock o f _) => a.l != .listening || a.c.p.w.canOpen o f
  | _ => true

/-- `_close(self._sock)` -/
def closeListener (a : AState) : AState :=
  if a.l = .listening then { a with l := .closed, ldisc := a.ldisc + 1 } else a

def astepCore (a : AState) : AOp → AState × List Obs
  | .x op =>
    let r := xstepCore a.c op
    let a1 := { a with c := r.1 }
    (match op with
      | .closeAll => closeListener a1
      | .stop => closeListener a1
      | .op _ => a1, r.2)
  | .start => if a.l = .idle then ({ a with l := .listening }, []) else (a, [])
  | .lready ans =>
    if a.l = .listening then
      match ans with
      | .sock o f gone => let r := stepCore a.c (.accept o f gone); ({ a with c := r.1 }, r.2)
      | .errno e => if tolerated e then (a, []) else ({ a with raised := a.raised + 1 }, [])
    else (a, [])
  | .lclose => (closeListener a, [])

def astep (a : AState) (op : AOp) : AState × List Obs :=
  let r := astepCore a op
  (r.1, r.2 ++ [.tab (rows r.1.c)])

def arunFrom (a : AState) : List AOp → AState × List Obs
  | [] => (a, [])
  | op :: rest =>
    let r1 := astep a op
    let r2 := arunFrom r1.1 rest
    (r2.1, r1.2 ++ r2.2)

def arun (k : Poller.Kind) (ops : List AOp) : AState × List Obs := arunFrom (AState.init k) ops

def atrace (k : Poller.Kind) (ops : List AOp) : List Obs := (arun k ops).2

/-- the poller tables that mention the listening socket (8 `_read`, 16 `_write`, 32 `_targets`, 64 `_map`),
    + 128 when it is closed -/
def lflags (k : Poller.Kind) (l : LPh) : Nat := flags { p := lworld k l } lobj

/-- the listening socket's row of an extended state: `lflags`, + 256 when `self._sock is None` -/
def lrow (a : AState) : Nat := lflags a.c.p.kind a.l + bit (decide (a.l = .closed)) 256

end Conn
end CV

import CV.Model.Basic
/-
Model of the response path of circuits.web (C15), as the code is after the `fix:` commits
of this property:

  wrappers.py  Body.__set__      bytes/str -> 0- or 1-element list; file object -> stream=True,
                                 file_generator (4096-byte pieces, never empty)
  wrappers.py  Response.prepare  Content-Type default; cLength = sum of part lengths for a *list*
                                 body, else None; Content-Length iff cLength is not None;
                                 status 413 -> close; else without Content-Length:
                                   status < 200 or status in (204, 304) -> nothing
                                   HTTP/1.1 and not HEAD (and server) -> chunked + Transfer-Encoding
                                   otherwise -> close
                                 Connection header: 1.1: "close" iff close; 1.0: "Keep-Alive" iff not close
  http.py      _on_response      write(status line + headers);
                                 HEAD or body-less status (1xx/204/304): no body; close iff res.close;
                                   drop the _clients entry; done
                                 stream and body an iterator: first non-empty next(body) -> stream event
                                 (a sized body - str/bytes/list - with the stream flag is written exactly like
                                 one without it since the fix "str / bytes / list body with response.stream
                                 set": `Body.sized` carries no flag)
                                 else: join the parts; if non-empty write (as one chunk when chunked);
                                   chunked -> terminator "0\r\n\r\n" (also for an empty body);
                                   close iff res.close; drop the _clients entry; done
  http.py      _on_stream        data: write (chunk-framed when chunked), next non-empty piece or None
                                 None: terminator when chunked; close iff res.close; drop entry; done
  http.py      _on_read          res.protocol = min(request version, 1.1); res.close = not keep-alive;
                                 `_clients[sock]` holds (req, res) from headers-complete until the
                                 response is finished; a present entry is *reused* for the next read
  errors.py    httperror         response.close = True

Strings are bytes here (the harness encodes str parts with the response encoding, utf-8).
-/
namespace CV
namespace HttpResp

def CR : UInt8 := 13
def LF : UInt8 := 10
def SP : UInt8 := 32
def COLON : UInt8 := 58
def CRLF : Bytes := [13, 10]

def sHTTP1 : Bytes := [72, 84, 84, 80, 47, 49, 46]  -- 'HTTP/1.'
def sChunked : Bytes := [99, 104, 117, 110, 107, 101, 100]  -- 'chunked'
def sClose : Bytes := [99, 108, 111, 115, 101]  -- 'close'
def sKeepAlive : Bytes := [75, 101, 101, 112, 45, 65, 108, 105, 118, 101]  -- 'Keep-Alive'
def hContentLength : Bytes := [67, 111, 110, 116, 101, 110, 116, 45, 76, 101, 110, 103, 116, 104]  -- 'Content-Length'
def hTransferEncoding : Bytes := [84, 114, 97, 110, 115, 102, 101, 114, 45, 69, 110, 99, 111, 100, 105, 110, 103]  -- 'Transfer-Encoding'
def hConnection : Bytes := [67, 111, 110, 110, 101, 99, 116, 105, 111, 110]  -- 'Connection'
def hContentType : Bytes := [67, 111, 110, 116, 101, 110, 116, 45, 84, 121, 112, 101]  -- 'Content-Type'
def sDefaultCT : Bytes := [116, 101, 120, 116, 47, 104, 116, 109, 108, 59, 32, 99, 104, 97, 114, 115, 101, 116, 61, 117, 116, 102, 45, 56]  -- 'text/html; charset=utf-8'
def sTerminator : Bytes := [48, 13, 10, 13, 10]  -- '0\r\n\r\n'

/-! ### numbers as text (`str(n)`, `hex(n)[2:]`) -/

/-- little-endian digits of `n` in base `b`; fuel `n+1` always suffices -/
def digitsRev (b : Nat) : Nat → Nat → List Nat
  | 0, _ => []
  | f + 1, n => if n < b then [n] else (n % b) :: digitsRev b f (n / b)

def digits (b n : Nat) : List Nat := (digitsRev b (n + 1) n).reverse

/-- `0-9a-f` -/
def digitByte (d : Nat) : UInt8 := if d < 10 then UInt8.ofNat (48 + d) else UInt8.ofNat (87 + d)

def natBytes (b n : Nat) : Bytes := (digits b n).map digitByte

def decBytes (n : Nat) : Bytes := natBytes 10 n
def hexBytes (n : Nat) : Bytes := natBytes 16 n

/-! ### inputs -/

/-- what `_on_read` derives from the request -/
structure Req where
  isHead : Bool      -- req.method == 'HEAD'
  v11 : Bool         -- res.protocol == 'HTTP/1.1' (request HTTP/1.1), else HTTP/1.0
  keep : Bool        -- parser.should_keep_alive()
  deriving Repr, DecidableEq

/-- `res.body` / `res.stream` as `prepare` and `_on_response` find them -/
inductive Body where
  | sized (parts : List Bytes)    -- a list (str/bytes results are 0/1-element lists)
  | iter (parts : List Bytes)     -- any other iterable, stream = False (cLength = None)
  | stream (parts : List Bytes)   -- stream = True with an iterator (generator, file_generator)
  deriving Repr, DecidableEq

def Body.parts : Body → List Bytes
  | .sized ps => ps
  | .iter ps => ps
  | .stream ps => ps

/-- what the application produced -/
structure Resp where
  status : Nat
  reason : Bytes                      -- HTTP_STATUS_CODES.get(status, '')  (parameter)
  hdrs : List (Bytes × Bytes)         -- Date and the application's headers, insertion order
  body : Body
  forceClose : Bool                   -- httperror(...) sets response.close = True
  deriving Repr, DecidableEq

/-! ### Response.prepare -/

def listSum : List Nat → Nat
  | [] => 0
  | x :: xs => x + listSum xs

/-- `cLength` -/
def cLength : Body → Option Nat
  | .sized ps => some (listSum (ps.map List.length))
  | _ => none

/-- statuses for which neither `prepare` announces a framing nor `_on_response` writes a body -/
def bodylessStatus (s : Nat) : Bool := s < 200 || s == 204 || s == 304

structure Prep where
  clen : Option Nat      -- Content-Length header
  chunked : Bool         -- res.chunked (+ Transfer-Encoding: chunked)
  close : Bool           -- res.close after prepare
  conn : Option Bool     -- Connection header added: some true = "close", some false = "Keep-Alive"
  deriving Repr, DecidableEq

def prepare (rq : Req) (r : Resp) : Prep :=
  let clen := cLength r.body
  let close0 := !rq.keep || r.forceClose
  let cc : Bool × Bool :=
    if r.status == 413 then (false, true)
    else match clen with
      | some _ => (false, close0)
      | none =>
        if bodylessStatus r.status then (false, close0)
        else if rq.v11 && !rq.isHead then (true, close0)
        else (false, true)
  let conn : Option Bool :=
    if rq.v11 then (if cc.2 then some true else none)
    else (if cc.2 then none else some false)
  { clen := clen, chunked := cc.1, close := cc.2, conn := conn }

/-- name is present (names are Title-Cased by the Headers dict, so plain equality) -/
def hasHeader (n : Bytes) (hs : List (Bytes × Bytes)) : Bool := hs.any (fun h => h.1 == n)

/-- the header block `bytes(headers)` is rendered from -/
def headers (r : Resp) (p : Prep) : List (Bytes × Bytes) :=
  r.hdrs
  ++ (if hasHeader hContentType r.hdrs then [] else [(hContentType, sDefaultCT)])
  ++ (match p.clen with | some n => [(hContentLength, decBytes n)] | none => [])
  ++ (if p.chunked then [(hTransferEncoding, sChunked)] else [])
  ++ (match p.conn with
      | some true => [(hConnection, sClose)]
      | some false => [(hConnection, sKeepAlive)]
      | none => [])

def renderHeader (h : Bytes × Bytes) : Bytes := h.1 ++ [COLON, SP] ++ h.2 ++ CRLF

/-- `bytes(res) + bytes(headers)` -/
def renderHead (v11 : Bool) (status : Nat) (reason : Bytes) (hs : List (Bytes × Bytes)) : Bytes :=
  sHTTP1 ++ [if v11 then 49 else 48] ++ [SP] ++ decBytes status ++ [SP] ++ reason ++ CRLF
  ++ hs.flatMap renderHeader ++ CRLF

/-! ### _on_response / _on_stream -/

inductive Act where
  | write (b : Bytes)
  | close
  deriving Repr, DecidableEq

/-- one chunk of the chunked coding -/
def chunk (d : Bytes) : Bytes := hexBytes d.length ++ CRLF ++ d ++ CRLF

def frame (chunked : Bool) (d : Bytes) : Bytes := if chunked then chunk d else d

/-- end of every response: terminator when chunked, close when `res.close` -/
def finish (p : Prep) (term : Bool) : List Act :=
  (if term && p.chunked then [Act.write sTerminator] else []) ++ (if p.close then [Act.close] else [])

/-- the events after the header write -/
def bodyActs (rq : Req) (r : Resp) (p : Prep) : List Act :=
  if rq.isHead || bodylessStatus r.status then finish p false
  else match r.body with
    | .stream ps =>
      ((ps.filter (fun d => !d.isEmpty)).map (fun d => Act.write (frame p.chunked d))) ++ finish p true
    | b =>
      let body := b.parts.flatten
      (if body.isEmpty then [] else [Act.write (frame p.chunked body)]) ++ finish p true

/-- everything `response(res)` puts on the connection -/
def respond (rq : Req) (r : Resp) : List Act :=
  let p := prepare rq r
  Act.write (renderHead rq.v11 r.status r.reason (headers r p)) :: bodyActs rq r p

/-- does the finished response remove the `_clients` entry?  (every branch does) -/
def dropsEntry (_rq : Req) (_r : Resp) : Bool := true

/-! ### one connection: `_clients[sock]` and successive requests -/

structure Conn where
  stale : Option (Req × Resp)   -- `_clients[sock]` left behind by the previous exchange
  closed : Bool                 -- a close event has been fired for the socket
  deriving Repr, DecidableEq

def Conn.fresh : Conn := { stale := none, closed := false }

def hasClose (as : List Act) : Bool := as.any (fun a => a == Act.close)

/-- one complete request on the connection: the pair used is the stale one when present -/
def serve (c : Conn) (x : Req × Resp) : Conn × List Act :=
  if c.closed then (c, [])
  else
    let y := match c.stale with | some s => s | none => x
    let as := respond y.1 y.2
    ({ stale := if dropsEntry y.1 y.2 then none else some y, closed := hasClose as }, as)

def run : Conn → List (Req × Resp) → List Act
  | _, [] => []
  | c, x :: xs => let (c', as) := serve c x; as ++ run c' xs

/-- bytes written, in order -/
def bytesOf : List Act → Bytes
  | [] => []
  | .write b :: as => b ++ bytesOf as
  | .close :: as => bytesOf as

end HttpResp
end CV

import CV.Model.WebSocket
/-
Independent statement of what C17 demands, written from RFC 6455 (section 5.2 base framing,
5.3 masking, 5.4 fragmentation, 5.5 control frames), not from the codec:

  * `rfcEncodeFrame` / `rfcDecodeFrames` : the wire format of a *conforming peer*
    (RSV bits zero, minimal length encoding, most significant bit of the 64-bit length
    zero, masking = XOR with key octet `i mod 4`).
  * `expected` : what an endpoint has to deliver / answer for a sequence of frames:
    fragments of a message are joined, the type is the opcode of the first fragment,
    control frames may sit between fragments and do not touch the message, every ping is
    answered by a pong with the same payload, nothing is delivered after a close frame.
  * `conforming` : the frame sequences a conforming peer may send.

The driver evaluates these on the *implementation's* observations (spec on impl); the
theorems in CV/Props/C17.lean prove them of the model for all inputs.
-/
namespace CV
namespace WS

structure Key where
  k0 : UInt8
  k1 : UInt8
  k2 : UInt8
  k3 : UInt8
  deriving Repr, DecidableEq

def Key.toBytes (k : Key) : Bytes := [k.k0, k.k1, k.k2, k.k3]

/-- octet `i mod 4` of the masking key -/
def Key.get (k : Key) (i : Nat) : UInt8 :=
  match i % 4 with
  | 0 => k.k0
  | 1 => k.k1
  | 2 => k.k2
  | _ => k.k3

/-- RFC 6455 5.3: transformed-octet-i = original-octet-i XOR masking-key-octet-(i MOD 4);
    `i` is the index of the first octet of `p` -/
def maskFrom (k : Key) (i : Nat) : Bytes → Bytes
  | [] => []
  | c :: cs => (c ^^^ k.get i) :: maskFrom k (i + 1) cs

/-- a frame as a peer means it (payload unmasked; `key = none` : sent unmasked) -/
structure RFrame where
  fin : Bool
  opcode : Nat
  key : Option Key
  payload : Bytes
  deriving Repr, DecidableEq

/-- unsigned integer in network byte order, `k` octets -/
def beOctets : Nat → Nat → Bytes
  | 0, _ => []
  | k + 1, n => UInt8.ofNat (n / 256 ^ k % 256) :: beOctets k n

def beValue : Bytes → Nat
  | [] => 0
  | b :: r => b.toNat * 256 ^ r.length + beValue r

/-- 7-bit length field and extended length of a payload of `n` octets (minimal encoding) -/
def lenField (n : Nat) : Nat × Bytes :=
  if n ≤ 125 then (n, [])
  else if n < 65536 then (126, beOctets 2 n)
  else (127, beOctets 8 n)

def rfcEncodeFrame (f : RFrame) : Bytes :=
  let lf := lenField f.payload.length
  let b0 := UInt8.ofNat ((if f.fin then 128 else 0) + f.opcode)
  let b1 := UInt8.ofNat ((if f.key.isSome then 128 else 0) + lf.1)
  match f.key with
  | none => b0 :: b1 :: lf.2 ++ f.payload
  | some k => b0 :: b1 :: lf.2 ++ k.toBytes ++ maskFrom k 0 f.payload

def rfcEncodeFrames (fs : List RFrame) : Bytes := fs.flatMap rfcEncodeFrame

/-- extended payload length: `l7` is the 7-bit field, `r` what follows the two header octets;
    non-minimal encodings and a set most significant bit are refused -/
def rfcExtLen (l7 : Nat) (r : Bytes) : Option (Nat × Bytes) :=
  if l7 ≤ 125 then some (l7, r)
  else if l7 = 126 then
    (if r.length < 2 then none
     else if beValue (r.take 2) ≤ 125 then none else some (beValue (r.take 2), r.drop 2))
  else
    (if r.length < 8 then none
     else if beValue (r.take 8) < 65536 ∨ beValue (r.take 8) ≥ 2 ^ 63 then none
     else some (beValue (r.take 8), r.drop 8))

/-- masking key and payload of `n` octets -/
def rfcBody (fin : Bool) (opcode : Nat) (masked : Bool) (n : Nat) (r1 : Bytes) : Option (RFrame × Bytes) :=
  if masked then
    match r1 with
    | k0 :: k1 :: k2 :: k3 :: r2 =>
      if r2.length < n then none
      else some (⟨fin, opcode, some ⟨k0, k1, k2, k3⟩, maskFrom ⟨k0, k1, k2, k3⟩ 0 (r2.take n)⟩, r2.drop n)
    | _ => none
  else
    if r1.length < n then none
    else some (⟨fin, opcode, none, r1.take n⟩, r1.drop n)

/-- strict decoder of one frame off the front; `none` = incomplete or not conforming -/
def rfcDecodeFrame (x : Bytes) : Option (RFrame × Bytes) :=
  match x with
  | b0 :: b1 :: r =>
    let n0 := b0.toNat
    let n1 := b1.toNat
    if n0 / 16 % 8 ≠ 0 then none          -- RSV1-3 must be 0
    else
      match rfcExtLen (n1 % 128) r with
      | none => none
      | some (n, r1) => rfcBody (decide (n0 ≥ 128)) (n0 % 16) (decide (n1 ≥ 128)) n r1
  | _ => none

/-- the whole byte string as a sequence of frames (`fuel` ≥ number of frames; every frame
    has at least two octets, so `x.length` is always enough) -/
def rfcDecodeFuel : Nat → Bytes → Option (List RFrame)
  | _, [] => some []
  | 0, _ :: _ => none
  | fuel + 1, x =>
    match rfcDecodeFrame x with
    | none => none
    | some (f, rest) =>
      match rfcDecodeFuel fuel rest with
      | none => none
      | some fs => some (f :: fs)

def rfcDecodeFrames (x : Bytes) : Option (List RFrame) := rfcDecodeFuel x.length x

/-! ### what the endpoint owes for a sequence of frames -/

/-- `cur` = the message being assembled: (is text, payload so far) -/
def expected (closeSent : Bool) : Option (Bool × Bytes) → List RFrame → List Out
  | _, [] => []
  | cur, f :: fs =>
    if f.opcode = 8 then [Out.closeEvt]
    else if f.opcode = 9 then
      (if closeSent then [] else [Out.pong f.payload]) ++ expected closeSent cur fs
    else if f.opcode = 10 then expected closeSent cur fs
    else
      match cur with
      | none =>
        if f.fin then Out.message (f.opcode = 1) f.payload :: expected closeSent none fs
        else expected closeSent (some (f.opcode = 1, f.payload)) fs
      | some (t, acc) =>
        if f.fin then Out.message t (acc ++ f.payload) :: expected closeSent none fs
        else expected closeSent (some (t, acc ++ f.payload)) fs

/-- RFC 5.4 / 5.5: what a conforming peer sends (before its close frame; after a close
    frame anything may follow on the wire, it is ignored) -/
def conforming : Option Unit → List RFrame → Bool
  | _, [] => true
  | cur, f :: fs =>
    decide (f.payload.length < 2 ^ 63) &&
    (if f.opcode = 8 then f.fin && decide (f.payload.length ≤ 125)
     else if f.opcode = 9 ∨ f.opcode = 10 then
       f.fin && decide (f.payload.length ≤ 125) && conforming cur fs
     else
       match cur with
       | none => (f.opcode = 1 ∨ f.opcode = 2) && conforming (if f.fin then none else some ()) fs
       | some _ => (f.opcode = 0) && conforming (if f.fin then none else some ()) fs)

/-! ### the same, spelled out for messages split into fragments -/

/-- a control frame between fragments or messages: ping or pong -/
structure Ctl where
  ping : Bool
  key : Option Key
  payload : Bytes

structure Frag where
  key : Option Key
  payload : Bytes

/-- a message as its sender means it: type, first fragment, then any number of further
    fragments, each preceded by any number of control frames -/
structure Msg where
  text : Bool
  first : Frag
  more : List (List Ctl × Frag)

inductive Item where
  | msg (m : Msg)
  | ctl (c : Ctl)

def Ctl.frame (c : Ctl) : RFrame := ⟨true, if c.ping then 9 else 10, c.key, c.payload⟩

def moreFrames : List (List Ctl × Frag) → List RFrame
  | [] => []
  | (cs, fr) :: rest => cs.map Ctl.frame ++ ⟨rest.isEmpty, 0, fr.key, fr.payload⟩ :: moreFrames rest

def Msg.frames (m : Msg) : List RFrame :=
  ⟨m.more.isEmpty, if m.text then 1 else 2, m.first.key, m.first.payload⟩ :: moreFrames m.more

def Msg.payload (m : Msg) : Bytes := m.first.payload ++ (m.more.map (fun p => p.2.payload)).flatten

def pongs (cs : List Ctl) : List Out := (cs.filter (fun c => c.ping)).map (fun c => Out.pong c.payload)

def Item.frames : Item → List RFrame
  | .msg m => m.frames
  | .ctl c => [c.frame]

/-- what has to come out: the pongs for the pings inside the message, then the message -/
def Item.outs : Item → List Out
  | .msg m => m.more.flatMap (fun p => pongs p.1) ++ [Out.message m.text m.payload]
  | .ctl c => pongs [c]

def Ctl.ok (c : Ctl) : Bool := decide (c.payload.length ≤ 125)

def moreOk (more : List (List Ctl × Frag)) : Bool :=
  more.all (fun p => p.1.all Ctl.ok && decide (p.2.payload.length < 2 ^ 63))

def Item.ok : Item → Bool
  | .msg m => decide (m.first.payload.length < 2 ^ 63) && moreOk m.more
  | .ctl c => c.ok

/-! ### spec predicates evaluated on implementation observations -/

/-- a written data frame is the frame a conforming peer decodes to `payload` of that type -/
def specWrite (client : Bool) (key : Key) (text : Bool) (payload : Bytes) (written : Bytes) : Bool :=
  rfcDecodeFrames written ==
    some [⟨true, if text then 1 else 2, if client then some key else none, payload⟩]

/-- a written pong -/
def specPong (client : Bool) (key : Key) (payload : Bytes) (written : Bytes) : Bool :=
  rfcDecodeFrames written == some [⟨true, 10, if client then some key else none, payload⟩]

/-- the endpoint's observable reaction to a peer's frame sequence `fs`, however its
    encoding was cut into reads: `outs` is what was observed -/
def specRead (closeSent : Bool) (fs : List RFrame) (outs : List Out) : Bool :=
  conforming none fs && (outs == expected closeSent none fs)

end WS
end CV

import CV.Model.Basic
/-
C15 spec: an HTTP/1.x *client-side* response reader written from RFC 7230 (sections 3.1.2,
3.2, 3.3.3, 4.1, 6.1/6.3), independent of the server code and of CV.Model.HttpResp
(it shares no definition with it; even the constants are its own).

  message   = status-line *( header-field CRLF ) CRLF [ message-body ]
  body length (3.3.3):
    1. response to HEAD, 1xx, 204, 304           -> no body
    3. Transfer-Encoding: chunked                 -> chunked coding (4.1), overrides Content-Length
    5. Content-Length: n                          -> exactly n bytes
    7. otherwise                                  -> everything until the server closes
  persistence (6.3): "close" option -> not persistent; HTTP/1.1 -> persistent;
                     HTTP/1.0 + "keep-alive" -> persistent; otherwise closes.

The driver evaluates `checkWire` on the bytes and close events the *implementation* produced.
-/
namespace CV
namespace HttpSpec

/-! ### text -/

def isWs (c : UInt8) : Bool := c == 32 || c == 9

def lower (c : UInt8) : UInt8 := if 65 ≤ c.toNat && c.toNat ≤ 90 then UInt8.ofNat (c.toNat + 32) else c

def lowerAll (bs : Bytes) : Bytes := bs.map lower

def trimLeft (bs : Bytes) : Bytes := bs.dropWhile isWs
def trim (bs : Bytes) : Bytes := (trimLeft (trimLeft bs).reverse).reverse

/-- value of one digit character, `0-9a-fA-F` -/
def digitVal (c : UInt8) : Option Nat :=
  let n := c.toNat
  if 48 ≤ n && n ≤ 57 then some (n - 48)
  else if 97 ≤ n && n ≤ 102 then some (n - 87)
  else if 65 ≤ n && n ≤ 70 then some (n - 55)
  else none

def parseDigits (b : Nat) : Bytes → Nat → Option Nat
  | [], acc => some acc
  | c :: cs, acc =>
    match digitVal c with
    | some d => if d < b then parseDigits b cs (acc * b + d) else none
    | none => none

/-- a non-empty string of base-`b` digits -/
def parseNat (b : Nat) (bs : Bytes) : Option Nat :=
  if bs.isEmpty then none else parseDigits b bs 0

/-- cut at the first CR LF: `(line, rest)` -/
def splitLine : Bytes → Option (Bytes × Bytes)
  | [] => none
  | [_] => none
  | a :: b :: rest =>
    if a == 13 && b == 10 then some ([], rest)
    else match splitLine (b :: rest) with
      | some (l, r) => some (a :: l, r)
      | none => none

/-! ### head -/

structure Head where
  v11 : Bool
  status : Nat
  reason : Bytes
  hdrs : List (Bytes × Bytes)
  deriving Repr, DecidableEq

/-- `HTTP/1.x SP 3DIGIT [SP reason]` -/
def parseStatusLine (l : Bytes) : Option (Bool × Nat × Bytes) :=
  match l with
  | 72 :: 84 :: 84 :: 80 :: 47 :: 49 :: 46 :: v :: 32 :: a :: b :: c :: rest =>
    if v == 49 || v == 48 then
      match parseNat 10 [a, b, c] with
      | some st =>
        match rest with
        | [] => some (v == 49, st, [])
        | 32 :: reason => some (v == 49, st, reason)
        | _ => none
      | none => none
    else none
  | _ => none

/-- `field-name ":" OWS field-value OWS` -/
def parseField (l : Bytes) : Option (Bytes × Bytes) :=
  let name := l.takeWhile (fun c => c != 58)
  let rest := l.dropWhile (fun c => c != 58)
  match rest with
  | [] => none
  | _ :: v => if name.isEmpty || name.any isWs then none else some (name, trim v)

/-- header lines up to the empty line (fuel = upper bound on the number of lines) -/
def parseFields : Nat → Bytes → Option (List (Bytes × Bytes) × Bytes)
  | 0, _ => none
  | f + 1, bs =>
    match splitLine bs with
    | none => none
    | some (l, rest) =>
      if l.isEmpty then some ([], rest)
      else match parseField l with
        | none => none
        | some h =>
          match parseFields f rest with
          | none => none
          | some (hs, r) => some (h :: hs, r)

def parseHead (bs : Bytes) : Option (Head × Bytes) :=
  match splitLine bs with
  | none => none
  | some (l, rest) =>
    match parseStatusLine l with
    | none => none
    | some (v11, st, reason) =>
      match parseFields (rest.length + 1) rest with
      | none => none
      | some (hs, r) => some ({ v11 := v11, status := st, reason := reason, hdrs := hs }, r)

/-! ### framing information in the header fields -/

def lookupCI (lname : Bytes) : List (Bytes × Bytes) → Option Bytes
  | [] => none
  | h :: hs => if lowerAll h.1 == lname then some h.2 else lookupCI lname hs

def lContentLength : Bytes := [99, 111, 110, 116, 101, 110, 116, 45, 108, 101, 110, 103, 116, 104]
def lTransferEncoding : Bytes := [116, 114, 97, 110, 115, 102, 101, 114, 45, 101, 110, 99, 111, 100, 105, 110, 103]
def lConnection : Bytes := [99, 111, 110, 110, 101, 99, 116, 105, 111, 110]
def lChunked : Bytes := [99, 104, 117, 110, 107, 101, 100]
def lClose : Bytes := [99, 108, 111, 115, 101]
def lKeepAlive : Bytes := [107, 101, 101, 112, 45, 97, 108, 105, 118, 101]

structure Framing where
  clen : Option Nat      -- Content-Length
  chunked : Bool         -- Transfer-Encoding: chunked
  conn : Option Bool     -- Connection: some true = close, some false = keep-alive
  deriving Repr, DecidableEq

/-- `none` = a Content-Length that is not a number -/
def framingOf (hs : List (Bytes × Bytes)) : Option Framing :=
  let chunked := match lookupCI lTransferEncoding hs with
    | some v => lowerAll v == lChunked
    | none => false
  let conn := match lookupCI lConnection hs with
    | some v => if lowerAll v == lClose then some true
                else if lowerAll v == lKeepAlive then some false else none
    | none => none
  match lookupCI lContentLength hs with
  | some v =>
    match parseNat 10 v with
    | some n => some { clen := some n, chunked := chunked, conn := conn }
    | none => none
  | none => some { clen := none, chunked := chunked, conn := conn }

/-- RFC 7230 6.3: the server will close after this response -/
def announcesClose (v11 : Bool) (conn : Option Bool) : Bool :=
  match conn with
  | some c => c
  | none => !v11

/-! ### body -/

def noBody (isHead : Bool) (status : Nat) : Bool :=
  isHead || status < 200 || status == 204 || status == 304

/-- chunk-size line: hex digits, optionally `;ext` -/
def chunkSize (l : Bytes) : Option Nat :=
  let ds := l.takeWhile (fun c => (digitVal c).isSome)
  let ext := l.dropWhile (fun c => (digitVal c).isSome)
  match ext with
  | [] => parseNat 16 ds
  | c :: _ => if c == 59 then parseNat 16 ds else none

/-- chunked coding: data and what follows the last-chunk + CRLF (no trailers) -/
def decodeChunks : Nat → Bytes → Option (Bytes × Bytes)
  | 0, _ => none
  | f + 1, bs =>
    match splitLine bs with
    | none => none
    | some (l, rest) =>
      match chunkSize l with
      | none => none
      | some 0 =>
        match splitLine rest with
        | some ([], r) => some ([], r)
        | _ => none
      | some n =>
        if rest.length < n + 2 then none
        else if (rest.drop n).take 2 == [13, 10] then
          match decodeChunks f (rest.drop (n + 2)) with
          | some (d, r) => some (rest.take n ++ d, r)
          | none => none
        else none

/-- body and remaining bytes; `eof` = the server closed the connection after `bs` -/
def decodeBody (isHead : Bool) (status : Nat) (f : Framing) (bs : Bytes) (eof : Bool) : Option (Bytes × Bytes) :=
  if noBody isHead status then some ([], bs)
  else if f.chunked then decodeChunks (bs.length + 1) bs
  else match f.clen with
    | some n => if bs.length < n then none else some (bs.take n, bs.drop n)
    | none => if eof then some (bs, []) else none

structure Msg where
  head : Head
  body : Bytes
  willClose : Bool
  deriving Repr, DecidableEq

inductive Err where
  | head | framing | body
  deriving Repr, DecidableEq

/-- one response off the front of `bs` -/
def rfcDecode (isHead : Bool) (bs : Bytes) (eof : Bool) : Except Err (Msg × Bytes) :=
  match parseHead bs with
  | none => .error .head
  | some (h, rest) =>
    match framingOf h.hdrs with
    | none => .error .framing
    | some f =>
      match decodeBody isHead h.status f rest eof with
      | none => .error .body
      | some (b, r) =>
        .ok ({ head := h, body := b,
               willClose := announcesClose h.v11 f.conn
                            || (!noBody isHead h.status && !f.chunked && f.clen.isNone) }, r)

/-! ### the property, as a predicate on what was observed on one connection -/

/-- observations: bytes written before the first close, whether a close happened,
    and whether anything at all was written or closed after it -/
structure Wire where
  bytes : Bytes
  closed : Bool
  afterClose : Bool

/-- what the application produced for one request -/
structure Expect where
  isHead : Bool
  status : Nat
  body : Bytes                       -- the body bytes produced (ignored for body-less responses)
  hdrs : List (Bytes × Bytes)        -- headers the application set: each must be recovered
  deriving Repr, DecidableEq

inductive Verdict where
  | ok
  | fail (clause : String) (index : Nat)
  deriving Repr, DecidableEq

def hdrPresent (hs : List (Bytes × Bytes)) (h : Bytes × Bytes) : Bool :=
  hs.any (fun g => lowerAll g.1 == lowerAll h.1 && g.2 == h.2)

/-- responses are read one after the other; response `i` answers request `i`;
    a response that announces close must be the last thing on the connection and the
    connection must be closed after it; one that does not must not be followed by a close
    (before the next response); all requests are answered unless the connection closed. -/
def checkFrom (i : Nat) (bs : Bytes) (closed : Bool) : List Expect → Verdict
  | [] => if !bs.isEmpty then .fail "trailing-bytes" i
          else if closed then .fail "close-not-announced" i else .ok
  | e :: es =>
    match rfcDecode e.isHead bs closed with
    | .error .head => .fail "undecodable-head" i
    | .error .framing => .fail "undecodable-framing" i
    | .error .body => .fail "undecodable-body" i
    | .ok (m, rest) =>
      if m.head.status != e.status then .fail "status-mismatch" i
      else if !(e.hdrs.all (hdrPresent m.head.hdrs)) then .fail "header-lost" i
      else if m.body != (if noBody e.isHead e.status then [] else e.body) then .fail "body-mismatch" i
      else if m.willClose then
        (if !rest.isEmpty then .fail "bytes-after-closing-response" i
         else if !closed then .fail "close-announced-not-closed" i
         else .ok)          -- later requests are legitimately unanswered
      else checkFrom (i + 1) rest closed es

def checkWire (w : Wire) (es : List Expect) : Verdict :=
  if w.afterClose then .fail "activity-after-close" 0 else checkFrom 0 w.bytes w.closed es

end HttpSpec
end CV

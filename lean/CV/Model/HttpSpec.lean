import CV.Model.HttpServerRead
/-
Independent, decidable statement of "this (first line, header block, body) is the reading of
the byte stream `msg` as one HTTP message": a declarative decomposition check written from
RFC 7230 (message = start-line CRLF *(header CRLF) CRLF body; body by Content-Length or by
the chunked grammar), not a state machine with carry-over buffers.  It is relative to the
lexers only for "the first line / header block is accepted" and for the framing facts
(Content-Length, Transfer-Encoding) read from the header block; the chunk-size lines are
read by an RFC hex reader of its own (`rfcChunkSize`).

Used (a) by the driver on the *implementation's* reading of each generated message and on
the model's, (b) as the hypothesis of `C13.wellformed_*`.
-/
namespace CV
namespace Http

/-- `pat` occurs somewhere in `x` (pat non-empty) -/
def occurs (pat : Bytes) : Bytes → Bool
  | [] => false
  | a :: r => (a :: r).take pat.length == pat || occurs pat r

def hexVal (b : UInt8) : Option Nat :=
  let n := b.toNat
  if 48 ≤ n ∧ n ≤ 57 then some (n - 48)
  else if 97 ≤ n ∧ n ≤ 102 then some (n - 87)
  else if 65 ≤ n ∧ n ≤ 70 then some (n - 55)
  else none

def hexNum : Nat → Bytes → Option Nat
  | acc, [] => some acc
  | acc, b :: r => match hexVal b with
    | some v => hexNum (acc * 16 + v) r
    | none => none

/-- RFC 7230 4.1: chunk-size = 1*HEXDIG, optionally followed by BWS and `;` extensions -/
def rfcChunkSize (line : Bytes) : Option Nat :=
  let digits := line.takeWhile (fun b => (hexVal b).isSome)
  let rest := (line.dropWhile (fun b => (hexVal b).isSome)).dropWhile (fun b => b = 32 || b = 9)
  if digits.isEmpty then none
  else if rest.isEmpty || rest.head? = some 59 then hexNum 0 digits
  else none

/-- split at the first CRLF (own recursion, independent of `find`) -/
def splitLine : Bytes → Option (Bytes × Bytes)
  | [] => none
  | [_] => none
  | a :: b :: r =>
    if a = 13 ∧ b = 10 then some ([], r)
    else match splitLine (b :: r) with
      | some (l, t) => some (a :: l, t)
      | none => none

theorem splitLine_len {x l t : Bytes} (h : splitLine x = some (l, t)) : t.length < x.length := by
  induction x using splitLine.induct generalizing l t with
  | case1 => simp [splitLine] at h
  | case2 => simp [splitLine] at h
  | case3 a b r hab => simp [splitLine, hab] at h; obtain ⟨_, rfl⟩ := h; simp; omega
  | case4 a b r hab l' t' hs ih =>
    simp [splitLine, hab, hs] at h; obtain ⟨_, rfl⟩ := h
    have := ih hs; simp at this ⊢; omega
  | case5 a b r hab hs => simp [splitLine, hab, hs] at h

/-- the trailer section `t` after the last chunk is exactly one trailer section:
    an empty line, or trailer fields ended by the first CRLF CRLF -/
def trailerExact (t : Bytes) : Bool :=
  t == CRLF ||
  (t.take 2 != CRLF && t.drop (t.length - 4) == CRLF2 && 4 ≤ t.length && !occurs CRLF2 t.dropLast)

/-- RFC 7230 4.1 chunked-body, consuming exactly `x` -/
def decodeChunked (x : Bytes) : Option Bytes :=
  match _hs : splitLine x with
  | none => none
  | some (line, rest) =>
    match rfcChunkSize line with
    | none => none
    | some 0 => if trailerExact rest then some [] else none
    | some (size + 1) =>
      if size + 3 ≤ rest.length ∧ (rest.drop (size + 1)).take 2 = CRLF then
        match decodeChunked (rest.drop (size + 3)) with
        | some b => some (rest.take (size + 1) ++ b)
        | none => none
      else none
termination_by x.length
decreasing_by
  have := splitLine_len _hs
  simp only [List.length_drop]; omega

/-- the wire form `enc` of the body is what the framing headers announce, and decodes to `body` -/
def bodyOk (kind : Kind) (h : HdrInfo) (enc body : Bytes) : Bool :=
  match h.clen with
  | .val n => decide (0 ≤ n) && enc == body && decide ((body.length : Int) = n)
  | .bad => false
  | .absent =>
    if h.te then decodeChunked enc == some body
    else kind == .request && enc.isEmpty && body.isEmpty

/-- `(fl, hb, body)` is the reading of `msg` as one complete message of kind `kind` -/
def isReading (lex : Lex) (kind : Kind) (msg fl : Bytes) (hb : Option Bytes) (body : Bytes) : Bool :=
  !occurs CRLF (fl ++ [13]) &&
  match lex.first kind fl with
  | none => false
  | some f =>
    match hb with
    | none => msg == fl ++ CRLF ++ CRLF && body.isEmpty && (kind == .request || f.status == some 204)
    | some hb =>
      !hb.isEmpty && hb.take 2 != CRLF && !occurs CRLF2 (hb ++ [13, 10, 13]) &&
      match lex.hdrs hb with
      | none => false
      | some h =>
        let pre := fl ++ CRLF ++ hb ++ CRLF2
        pre.isPrefixOf msg && !h.upgrade && bodyOk kind h (msg.drop pre.length) body

end Http
end CV

import CV.Model.Basic
import CV.Model.Line
import CV.Model.Irc
/-
Model of the IRC protocol *component* (circuits/protocols/irc/protocol.py) stacked on `Line`,
of `utils.py: strip, parseprefix`, of `Message.from_string`, and of the UTF-8 codec that sits
between the bytes of the line protocol and the `str` the parser works on.

  class IRC(Component):
      def __init__(self, *args, **kwargs):  self.encoding = kwargs.get('encoding', 'utf-8'); Line(**kwargs).register(self)
      def line(self, *args):
          sock, line = (None, args[0]) if len(args) == 1 else args
          prefix, command, args = parsemsg(line, encoding=self.encoding)      # decode(encoding, 'replace')
          command = command.lower()                                           # None -> AttributeError
          if NUMERIC.match(command):                                          # '[0-9]+' : a leading ASCII digit
              args.insert(0, int(command)); command = 'numeric'               # int() may raise ValueError
          self.fire(response.create(command, [sock,] prefix, *args))          # type name with NUL -> ValueError
      def request(self, event, message):
          event.stop(); message.encoding = self.encoding; self.fire(write(bytes(message)))
      def ping(self, event, *args):
          if len(args) == 2: self.fire(PONG(args[1])); event.stop()
  PREFIX = re.compile('([^!].*)!(.*)@(.*)')
  def parseprefix(prefix):
      m = PREFIX.match(prefix)
      return m.groups() if m is not None else (prefix or None, None, None)
  def strip(s, color=False):
      if len(s) > 0 and s[0] == ':': s = s[1:]
      if color: (remove \x01 \x02 \x1d \x1f \x1e \x11 \x16; COLOR.sub(''); remove \x03; remove \x0f)
  COLOR = re.compile(r'\x03(?:(\d\d?)(?:,(\d\d?))?)?')
  Message.from_string(s):   (after the fix: commit)
      if len(s) > 512: raise Error
      (nick, user, host), command, args = parsemsg(s)
      prefix = nick if user is None and host is None else joinprefix(nick, user, host)
      return Message(command, *args, prefix=prefix)  (no prefix keyword when prefix is None)

Parameters tied to the live interpreter by the check (`ctx.param`): the table of Unicode
decimal digits (`\d` of `re` on `str`, `int()`), Python's whitespace set (`pyIsSpace`).
`str.lower` is modelled on ASCII only (`asciiLower`); the check feeds only text whose non-ASCII
characters are fixed by `str.lower`.
-/
namespace CV
namespace Irc

/-! ### UTF-8 (`bytes.decode('utf-8', 'replace')`, `str.encode('utf-8')`) -/

def encodeUtf8 (s : Str) : Bytes := s.flatMap String.utf8EncodeChar

/-- strict decoding: core Lean's validating decoder -/
def decodeStrict (b : Bytes) : Option Str :=
  (ByteArray.utf8Decode? ⟨b.toArray⟩).map (·.toList)

def isCont (b : UInt8) : Bool := 0x80 ≤ b && b ≤ 0xBF

def repl : Char := Char.ofNat 0xFFFD

def mkChar (n : Nat) : Char := Char.ofNat n

/-- CPython's `utf8_decode` with the `replace` handler: one U+FFFD per maximal ill-formed
    subsequence (invalid start byte: 1 byte; bad continuation: the bytes accepted so far;
    truncated at the end of input: everything that is left). -/
def decodeLoop : Bytes → Str
  | [] => []
  | b0 :: rest =>
    let n0 := b0.toNat
    if n0 < 0x80 then mkChar n0 :: decodeLoop rest
    else if n0 < 0xC2 then repl :: decodeLoop rest
    else if n0 < 0xE0 then
      match rest with
      | [] => [repl]
      | b1 :: r1 =>
        if isCont b1 then mkChar ((n0 - 0xC0) * 64 + (b1.toNat - 0x80)) :: decodeLoop r1
        else repl :: decodeLoop (b1 :: r1)
    else if n0 < 0xF0 then
      match rest with
      | [] => [repl]
      | b1 :: r1 =>
        let lo : Nat := if n0 = 0xE0 then 0xA0 else 0x80
        let hi : Nat := if n0 = 0xED then 0x9F else 0xBF
        if lo ≤ b1.toNat && b1.toNat ≤ hi then
          match r1 with
          | [] => [repl]
          | b2 :: r2 =>
            if isCont b2 then
              mkChar ((n0 - 0xE0) * 4096 + (b1.toNat - 0x80) * 64 + (b2.toNat - 0x80)) :: decodeLoop r2
            else repl :: decodeLoop (b2 :: r2)
        else repl :: decodeLoop (b1 :: r1)
    else if n0 < 0xF5 then
      match rest with
      | [] => [repl]
      | b1 :: r1 =>
        let lo : Nat := if n0 = 0xF0 then 0x90 else 0x80
        let hi : Nat := if n0 = 0xF4 then 0x8F else 0xBF
        if lo ≤ b1.toNat && b1.toNat ≤ hi then
          match r1 with
          | [] => [repl]
          | b2 :: r2 =>
            if isCont b2 then
              match r2 with
              | [] => [repl]
              | b3 :: r3 =>
                if isCont b3 then
                  mkChar ((n0 - 0xF0) * 262144 + (b1.toNat - 0x80) * 4096 + (b2.toNat - 0x80) * 64
                    + (b3.toNat - 0x80)) :: decodeLoop r3
                else repl :: decodeLoop (b3 :: r3)
            else repl :: decodeLoop (b2 :: r2)
        else repl :: decodeLoop (b1 :: r1)
    else repl :: decodeLoop rest
termination_by l => l.length
decreasing_by
  all_goals simp only [List.length_cons]
  all_goals omega

/-- `b.decode('utf-8', 'replace')` -/
def decodeUtf8 (b : Bytes) : Str :=
  match decodeStrict b with
  | some s => s
  | none => decodeLoop b

/-! ### Unicode decimal digits (category Nd): `\d`, `int()` -/

/-- first code point (the digit zero) of every run of ten decimal digits -/
def ndStarts : List Nat :=
  [0x30, 0x660, 0x6f0, 0x7c0, 0x966, 0x9e6, 0xa66, 0xae6, 0xb66, 0xbe6, 0xc66, 0xce6, 0xd66, 0xde6,
   0xe50, 0xed0, 0xf20, 0x1040, 0x1090, 0x17e0, 0x1810, 0x1946, 0x19d0, 0x1a80, 0x1a90, 0x1b50,
   0x1bb0, 0x1c40, 0x1c50, 0xa620, 0xa8d0, 0xa900, 0xa9d0, 0xa9f0, 0xaa50, 0xabf0, 0xff10, 0x104a0,
   0x10d30, 0x11066, 0x110f0, 0x11136, 0x111d0, 0x112f0, 0x11450, 0x114d0, 0x11650, 0x116c0,
   0x11730, 0x118e0, 0x11950, 0x11c50, 0x11d50, 0x11da0, 0x11f50, 0x16a60, 0x16ac0, 0x16b50,
   0x1d7ce, 0x1d7d8, 0x1d7e2, 0x1d7ec, 0x1d7f6, 0x1e140, 0x1e2f0, 0x1e4f0, 0x1e950, 0x1fbf0]

/-- `unicodedata.decimal(c)` if `c` is a decimal digit -/
def ndValue (c : Char) : Option Nat :=
  ndStarts.findSome? (fun s => if s ≤ c.toNat && c.toNat < s + 10 then some (c.toNat - s) else none)

def pyIsDigit (c : Char) : Bool := (ndValue c).isSome

/-! ### `strip` -/

def fmtCodes : List Char :=
  [Char.ofNat 0x01, Char.ofNat 0x02, Char.ofNat 0x1d, Char.ofNat 0x1f, Char.ofNat 0x1e,
   Char.ofNat 0x11, Char.ofNat 0x16]

def cColor : Char := Char.ofNat 0x03
def cReset : Char := Char.ofNat 0x0f

def dropColon : Str → Str
  | ':' :: r => r
  | s => s

/-- how many characters the optional group `(?:(\d\d?)(?:,(\d\d?))?)?` consumes -/
def colorArgLen (dig : Char → Bool) (s : Str) : Nat :=
  match s with
  | a :: r =>
    if dig a then
      let (n1, r1) := match r with
        | b :: r' => if dig b then (2, r') else (1, r)
        | [] => (1, [])
      match r1 with
      | ',' :: c :: r2 =>
        if dig c then
          match r2 with
          | d :: _ => if dig d then n1 + 3 else n1 + 2
          | [] => n1 + 2
        else n1
      | _ => n1
    else 0
  | [] => 0

/-- `COLOR.sub('', s)`; `skip` = characters still to be dropped as part of the current match -/
def colorSubK (dig : Char → Bool) : Nat → Str → Str
  | _, [] => []
  | k + 1, _ :: r => colorSubK dig k r
  | 0, c :: r => if c = cColor then colorSubK dig (colorArgLen dig r) r else c :: colorSubK dig 0 r

def colorSub (dig : Char → Bool) (s : Str) : Str := colorSubK dig 0 s

/-- the colour / format part of `strip(s, color=True)` -/
def stripFmt (dig : Char → Bool) (s : Str) : Str :=
  (((colorSub dig (s.filter (fun c => !fmtCodes.contains c))).filter (· != cColor)).filter (· != cReset))

/-- `strip(s, color)` -/
def strip (dig : Char → Bool) (color : Bool) (s : Str) : Str :=
  let s := dropColon s
  if color then stripFmt dig s else s

/-- no colour or format code at all -/
def plain (s : Str) : Bool :=
  s.all (fun c => !fmtCodes.contains c && c != cColor && c != cReset)

/-! ### `parseprefix` -/

/-- split at the last occurrence of `c`: (before, after) -/
def splitLast (c : Char) : Str → Option (Str × Str)
  | [] => none
  | x :: rest =>
    match splitLast c rest with
    | some (a, b) => some (x :: a, b)
    | none => if x = c then some ([], rest) else none

abbrev Prefix3 := Option Str × Option Str × Option Str

/-- `PREFIX.match`: first character not `!`, then (on the text up to the first LF) the last
    `@` and the last `!` before it; `.` does not match LF and `match` need not reach the end -/
def parsePrefix (s : Str) : Prefix3 :=
  match s with
  | [] => (none, none, none)
  | c0 :: rest =>
    if c0 = '!' then (some s, none, none)
    else
      match splitLast '@' (rest.takeWhile (· != '\n')) with
      | none => (some s, none, none)
      | some (b, host) =>
        match splitLast '!' b with
        | none => (some s, none, none)
        | some (n, user) => (some (c0 :: n), some user, some host)

/-- `joinprefix(nick, user, host)` -/
def joinPrefix (n u h : Option Str) : Str :=
  n.getD [] ++ '!' :: u.getD [] ++ '@' :: h.getD []

/-! ### `int(command)` for a command that starts with an ASCII digit -/

def asciiLower (c : Char) : Char :=
  if 'A'.toNat ≤ c.toNat && c.toNat ≤ 'Z'.toNat then Char.ofNat (c.toNat + 32) else c

def isAsciiDigit (c : Char) : Bool := '0'.toNat ≤ c.toNat && c.toNat ≤ '9'.toNat

/-- C `isspace` on the transformed buffer: ASCII white space; non-ASCII Unicode spaces have
    been turned into `' '` by `_PyUnicode_TransformDecimalAndSpaceToASCII` -/
def intSpace (c : Char) : Bool :=
  let n := c.toNat
  if n < 128 then (9 ≤ n && n ≤ 13) || n == 32 else pyIsSpace c

/-- digits with single underscores between them: value and number of digits -/
def intDigits : Str → Nat → Nat → Bool → Option (Nat × Nat)
  | [], acc, cnt, afterDigit => if afterDigit then some (acc, cnt) else none
  | c :: rest, acc, cnt, afterDigit =>
    if c = '_' then (if afterDigit then intDigits rest acc cnt false else none)
    else match ndValue c with
      | some v => intDigits rest (acc * 10 + v) (cnt + 1) true
      | none => none

def dropTrailing (p : Char → Bool) (s : Str) : Str := (s.reverse.dropWhile p).reverse

/-- `int(s)` (base 10), `none` = ValueError.  More than 4300 digits are refused
    (`sys.get_int_max_str_digits()`). -/
def pyInt (s : Str) : Option Nat :=
  match intDigits (dropTrailing intSpace (s.dropWhile intSpace)) 0 0 false with
  | some (v, cnt) => if cnt > 4300 then none else some v
  | none => none

/-! ### `IRC.line`, `IRC.ping`, `IRC.request` -/

/-- the `response` event fired for one line -/
structure Resp where
  name : Str                 -- event name: lower-cased command, or `numeric`
  sock : Option Nat          -- server mode: first argument
  pfx : Prefix3              -- `parseprefix(raw prefix)`
  num : Option Nat           -- numeric replies: `int(command)` in front of the arguments
  args : List Str
  deriving DecidableEq, Repr

/-- `NUMERIC.match(command)`: a leading ASCII digit -/
def startsDigit : Str → Bool
  | d :: _ => isAsciiDigit d
  | [] => false

/-- `IRC.line` on the decoded line; `none` = the handler raises (no event) -/
def ircLine (sock : Option Nat) (s : Str) : Option Resp :=
  match parsemsg pyIsSpace s with
  | none => none
  | some (_, none, _) => none
  | some (p, some c, args) =>
    let c := c.map asciiLower
    if startsDigit c then
      match pyInt c with
      | some k => some ⟨"numeric".toList, sock, parsePrefix p, some k, args⟩
      | none => none
    else if c.contains (Char.ofNat 0) then none
    else some ⟨c, sock, parsePrefix p, none, args⟩

/-- the message `IRC.ping` answers with (client mode, exactly one argument) -/
def pongMsg (a : Str) : Msg := ⟨none, some "PONG".toList, [a]⟩

/-- `IRC.request`: the bytes of the `write` event; `none` = `Error` raised, nothing written -/
def requestBytes (m : Msg) : Option Bytes :=
  (render Policy.current m).map encodeUtf8

/-- the `write` caused by a response through the `ping` handler, if any -/
def pingWrite (r : Resp) : Option Bytes :=
  if r.name = "ping".toList then
    match r.sock, r.args with
    | none, [a] => requestBytes (pongMsg a)
    | _, _ => none
  else none

/-- one decoded line through the component: response (or failure) and writes -/
def compLine (sock : Option Nat) (line : Bytes) : Option Resp × List Bytes :=
  match ircLine sock (decodeUtf8 line) with
  | none => (none, [])
  | some r => (some r, (pingWrite r).toList)

/-- a client-mode `read`: new buffer, per-line outcomes, writes -/
def compRead (buf : Bytes) (data : Bytes) : Bytes × List (Option Resp) × List Bytes :=
  let (b, ls) := Line.feed buf data
  let outs := ls.map (compLine none)
  (b, outs.map (·.1), (outs.map (·.2)).flatten)

/-- a server-mode `read(sock, data)` -/
def compServerRead (bufs : Line.Bufs) (sock : Nat) (data : Bytes) :
    Line.Bufs × List (Option Resp) × List Bytes :=
  let (bs, ls) := Line.serverFeed bufs sock data
  let outs := ls.map (fun l => compLine (some l.1) l.2)
  (bs, outs.map (·.1), (outs.map (·.2)).flatten)

/-! ### `Message.from_string` -/

/-- the `prefix` keyword `from_string` passes to `Message` (`none` = no keyword) -/
def rejoinPrefix : Prefix3 → Option Str
  | (none, none, none) => none
  | (some n, none, none) => some n
  | (n, u, h) => some (joinPrefix n u h)

/-- `none` = an exception (`Error`: too long / refused by `_check_args`; `ValueError` of
    `parsemsg`) -/
def fromString (b : Bytes) : Option Msg :=
  if b.length > 512 then none
  else match parsemsg pyIsSpace (decodeUtf8 b) with
    | none => none
    | some (p, c, args) =>
      let m : Msg := ⟨rejoinPrefix (parsePrefix p), c, args⟩
      if checkArgs Policy.current m then some m else none

/-! ### spec predicates evaluated on the implementation's observations -/

/-- the event a correct component fires for the line of a well-formed message -/
def expectedResp (sock : Option Nat) (m : Msg) : Option Resp :=
  match m.command with
  | none => none
  | some c =>
    let c := c.map asciiLower
    if startsDigit c then
      (pyInt c).map (fun k => ⟨"numeric".toList, sock, parsePrefix (m.pfx.getD []), some k, m.args⟩)
    else if c.contains (Char.ofNat 0) then none
    else some ⟨c, sock, parsePrefix (m.pfx.getD []), none, m.args⟩

end Irc
end CV

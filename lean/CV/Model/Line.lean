import CV.Model.Basic
/-
Model of circuits/protocols/line.py.

  LINESEP = re.compile(b'\r?\n')
  def splitLines(s, buffer):
      lines = LINESEP.split(buffer + s)
      return lines[:-1], lines[-1]

`re.split` with the pattern `\r?\n` cuts at every LF and removes *one* CR directly in
front of it (leftmost match; `\r?` is greedy but only one character wide).  The scan
below is that function, written as a left-to-right recursion with the current piece
as an accumulator.  The tag says whether the terminator was CRLF (`true`) or LF.
Equality with `re.split` itself is validated by the correspondence check.
-/
namespace CV

namespace Line

def LF : UInt8 := 10
def CR : UInt8 := 13

/-- strip one trailing CR (what `\r?` in front of `\n` consumes) -/
def chomp (piece : Bytes) : Bytes × Bool :=
  if piece.getLast? = some CR then (piece.dropLast, true) else (piece, false)

/-- scan `x` with `cur` = bytes of the current, still unterminated piece -/
def scan (cur : Bytes) : Bytes → List (Bytes × Bool) × Bytes
  | [] => ([], cur)
  | b :: rest =>
    if b = LF then
      let (ls, r) := scan [] rest
      (chomp cur :: ls, r)
    else scan (cur ++ [b]) rest

/-- tagged lines and the unterminated tail of a whole byte string -/
def splitT (x : Bytes) : List (Bytes × Bool) × Bytes := scan [] x

/-- `splitLines(s, buffer)` : `(lines, new buffer)` -/
def splitLines (s buffer : Bytes) : List Bytes × Bytes :=
  let (ls, r) := splitT (buffer ++ s)
  (ls.map (·.1), r)

/-- client mode of `Line._on_read`: state is `self.buffer`, output the `line` events -/
def feed (buffer : Bytes) (data : Bytes) : Bytes × List Bytes :=
  let (ls, r) := splitLines data buffer
  (r, ls)

/-- any number of reads -/
def feedAll (buffer : Bytes) : List Bytes → Bytes × List Bytes
  | [] => (buffer, [])
  | d :: ds =>
    let (b1, l1) := feed buffer d
    let (b2, l2) := feedAll b1 ds
    (b2, l1 ++ l2)

/-! server mode: per-socket buffers kept by the owner through getBuffer/updateBuffer.
    The usual owner is a dict `sock → bytes` with default `b''`. -/

abbrev Bufs := List (Nat × Bytes)

def getBuf (bufs : Bufs) (s : Nat) : Bytes :=
  match bufs.lookup s with
  | some b => b
  | none => []

def setBuf (bufs : Bufs) (s : Nat) (b : Bytes) : Bufs :=
  (s, b) :: bufs.filter (·.1 ≠ s)

def serverFeed (bufs : Bufs) (sock : Nat) (data : Bytes) : Bufs × List (Nat × Bytes) :=
  let (ls, r) := splitLines data (getBuf bufs sock)
  (setBuf bufs sock r, ls.map (fun l => (sock, l)))

def serverFeedAll (bufs : Bufs) : List (Nat × Bytes) → Bufs × List (Nat × Bytes)
  | [] => (bufs, [])
  | (s, d) :: ds =>
    let (b1, l1) := serverFeed bufs s d
    let (b2, l2) := serverFeedAll b1 ds
    (b2, l1 ++ l2)

end Line
end CV

import CV.Model.Ranges
/-
Model of the multipart/byteranges answer of circuits/web/tools.py `serve_file` and of the
conditional-request decision made before it (`validate_since`), byte for byte.

  # serve_file, after `r = get_ranges(request.headers.get('Range'), c_len)`, `len(r) > 1`:
      response.status = 206
      boundary = _make_boundary()                      # email.generator: '='*15 + 19 digits + '=='
      ct = 'multipart/byteranges; boundary=%s' % boundary
      response.headers['Content-Type'] = ct
      if 'Content-Length' in response.headers:
          del response.headers['Content-Length']       # no length is announced: chunked / close
      def file_ranges():
          yield '\r\n'                                 # Apache compatibility
          for start, stop in r:
              yield '--' + boundary
              yield '\r\nContent-type: %s' % type
              yield ('\r\nContent-range: bytes %s-%s/%s\r\n\r\n' % (start, stop - 1, c_len))
              bodyfile.seek(start)
              yield bodyfile.read(stop - start)
              yield '\r\n'
          yield '--' + boundary + '--'                 # final boundary
          yield '\r\n'                                 # Apache compatibility
      response.body = file_ranges()

  # serve_file, before any of this (response.status is still 200):
      response.headers['Last-Modified'] = formatdate(st.st_mtime, usegmt=True)
      result = validate_since(request, response)
      if result is not None: return result
  def validate_since(request, response):
      lastmod = response.headers.get('Last-Modified')
      if lastmod:
          status = response.status
          since = request.headers.get('If-Unmodified-Since')
          if since and since != lastmod and ((status >= 200 and status <= 299) or status == 412):
              return httperror(request, response, 412)
          since = request.headers.get('If-Modified-Since')
          if since and since == lastmod and ((status >= 200 and status <= 299) or status == 304):
              if request.method in ('GET', 'HEAD'):
                  return redirect(request, response, [], code=304)
              return httperror(request, response, 412)

`str` chunks are encoded as UTF-8 when the body is written; `type` and the boundary arrive here
as bytes already.  `If-Range` and entity tags are not looked at by `serve_file` (nothing to model:
the header has no influence on the answer - validated by the harness).
-/
namespace CV
namespace Ranges

/-! ### a Python binary file object: contents and position -/

structure FileObj where
  data : Bytes
  pos : Nat
  deriving Repr, DecidableEq

/-- `f.seek(p)` -/
def FileObj.seek (f : FileObj) (p : Nat) : FileObj := { f with pos := p }

/-- `f.read(n)`: the next `n` bytes (fewer at EOF); the position advances by what was read -/
def FileObj.read (f : FileObj) (n : Nat) : Bytes × FileObj :=
  let got := (f.data.drop f.pos).take n
  (got, { f with pos := f.pos + got.length })

/-! ### `'%s' % int` -/

def digitByte : Nat → UInt8
  | 0 => 48 | 1 => 49 | 2 => 50 | 3 => 51 | 4 => 52 | 5 => 53 | 6 => 54 | 7 => 55 | 8 => 56 | _ => 57

def decFuel : Nat → Nat → Bytes
  | 0, _ => []
  | f + 1, n => if n < 10 then [digitByte n] else decFuel f (n / 10) ++ [digitByte (n % 10)]

/-- decimal rendering of a natural number, no sign, no leading zeros -/
def natDec (n : Nat) : Bytes := decFuel (n + 1) n

/-! ### the generator `file_ranges` -/

def crlf : Bytes := [13, 10]
/-- `'--' + boundary` -/
def dashBoundary (bnd : Bytes) : Bytes := 45 :: 45 :: bnd

/-- "Content-type: " -/
def sContentType : Bytes := [67, 111, 110, 116, 101, 110, 116, 45, 116, 121, 112, 101, 58, 32]
/-- "Content-range: bytes " -/
def sContentRange : Bytes :=
  [67, 111, 110, 116, 101, 110, 116, 45, 114, 97, 110, 103, 101, 58, 32, 98, 121, 116, 101, 115, 32]

/-- `'\r\nContent-type: %s' % type` -/
def typeLine (ctype : Bytes) : Bytes := crlf ++ sContentType ++ ctype

/-- `'\r\nContent-range: bytes %s-%s/%s\r\n\r\n' % (start, stop - 1, c_len)` -/
def rangeLine (start stop clen : Nat) : Bytes :=
  crlf ++ sContentRange ++ natDec start ++ [45] ++ natDec (stop - 1) ++ [47] ++ natDec clen ++ crlf ++ crlf

/-- the loop of `file_ranges`: the chunks yielded for the remaining ranges, threading the file
    object (whose position each `read` moves) -/
def genParts (ctype bnd : Bytes) (clen : Nat) : FileObj → List (Nat × Nat) → List Bytes
  | _, [] => []
  | f, (start, stop) :: rest =>
    let f1 := f.seek start
    let (got, f2) := f1.read (stop - start)
    dashBoundary bnd :: typeLine ctype :: rangeLine start stop clen :: got :: crlf ::
      genParts ctype bnd clen f2 rest

/-- everything `file_ranges()` yields, in order; `c_len = st.st_size` is the length of the file -/
def multipartChunks (file ctype bnd : Bytes) (rs : List (Nat × Nat)) : List Bytes :=
  crlf :: (genParts ctype bnd file.length ⟨file, 0⟩ rs ++ [dashBoundary bnd ++ [45, 45], crlf])

/-- the body on the wire (before any transfer coding) -/
def multipartBody (file ctype bnd : Bytes) (rs : List (Nat × Nat)) : Bytes :=
  (multipartChunks file ctype bnd rs).flatten

/-- "multipart/byteranges; boundary=" -/
def sMultipartCT : Bytes :=
  [109, 117, 108, 116, 105, 112, 97, 114, 116, 47, 98, 121, 116, 101, 114, 97, 110, 103, 101, 115, 59, 32,
   98, 111, 117, 110, 100, 97, 114, 121, 61]

/-- what `serve_file` leaves in the response for several ranges -/
structure MultiResp where
  status : Nat
  contentType : Bytes              -- `Content-Type`
  contentLength : Option Nat       -- `Content-Length` (deleted: none)
  contentRange : Option Bytes      -- top-level `Content-Range` (never set on this path)
  acceptRanges : Bytes             -- `Accept-Ranges`
  chunks : List Bytes
  deriving Repr, DecidableEq

def MultiResp.body (w : MultiResp) : Bytes := w.chunks.flatten

def sBytes : Bytes := [98, 121, 116, 101, 115]

def mkMulti (file ctype bnd : Bytes) (rs : List (Nat × Nat)) : MultiResp :=
  ⟨206, sMultipartCT ++ bnd, none, none, sBytes, multipartChunks file ctype bnd rs⟩

/-- the multipart branch of `serve_file`; `none` = the request is not answered with a multipart
    body (HTTP/1.0, no / malformed header, 416, or a single range: see `serveRange`) -/
def serveMultipart (md : Nat) (http11 : Bool) (hv : Option StaticPath.Str) (file ctype bnd : Bytes) :
    Option MultiResp :=
  if ¬ http11 then none else
  match getRanges md hv file.length with
  | .ranges (r1 :: r2 :: rest) => some (mkMulti file ctype bnd (r1 :: r2 :: rest))
  | _ => none

/-! ### `validate_since` and the decision which kind of answer a request gets -/

inductive CondOut where
  | proceed
  | notModified      -- `redirect(request, response, [], code=304)`
  | precondFailed    -- `httperror(request, response, 412)`
  deriving Repr, DecidableEq

/-- Python truthiness of `headers.get(name)` for a header value -/
def present (h : Option StaticPath.Str) : Bool :=
  match h with
  | none => false
  | some v => v ≠ []

/-- `validate_since`; `lastmod` = the Last-Modified response header (none: not set),
    `ius` / `ims` = If-Unmodified-Since / If-Modified-Since request headers -/
def validateSince (lastmod : Option StaticPath.Str) (status : Nat) (getOrHead : Bool)
    (ius ims : Option StaticPath.Str) : CondOut :=
  if ¬ present lastmod then .proceed else
  let ok2xx : Bool := 200 ≤ status && status ≤ 299
  if present ius && ius != lastmod && (ok2xx || status = 412) then .precondFailed
  else if present ims && ims == lastmod && (ok2xx || status = 304) then
    (if getOrHead then .notModified else .precondFailed)
  else .proceed

/-- answer of `serve_file` to a conditional Range request -/
inductive CondResp where
  | s304
  | s412
  | ranged (r : Resp)      -- 200 / 206 / 416 as `serveRange` says
  deriving Repr, DecidableEq

/-- `serve_file` from `Last-Modified` on: validators first, then the Range header.
    `response.status` is 200 at that point; `lastmod` is what `formatdate` produced. -/
def serveCond (md : Nat) (http11 getOrHead : Bool) (lastmod : StaticPath.Str)
    (ius ims hv : Option StaticPath.Str) (file : Bytes) : CondResp :=
  match validateSince (some lastmod) 200 getOrHead ius ims with
  | .precondFailed => .s412
  | .notModified => .s304
  | .proceed => .ranged (serveRange md http11 hv file)

end Ranges
end CV

import CV.Model.HttpResp
import CV.Model.HttpRespSpec
/-
C15, failing body iterators and flag results (model of the code after the `fix:` commit
"a response body iterator that raises after the head is sent aborts the connection").

  http.py  _on_response   the status line and the headers are written first.  Then
             HEAD / 1xx / 204 / 304         the body object is never touched: nothing can fail
             a list body (str / bytes / list) is complete already: nothing can fail
             streaming (stream flag + iterator): `next(body)` (skipping empty pieces)
                 except Exception: self._abort(res); raise
             otherwise: b''.join(<generator over res.body>)
                 except Exception: self._abort(res); raise        (nothing of the body was written)
  http.py  _on_stream     write the piece (chunk-framed when chunked), then `next(body)` (skipping empties)
                 except Exception: self._abort(res); raise
  http.py  _abort         res.close = True; fire close(sock); drop the _clients entry; res.done = True
                          - no last-chunk, no second response
  http.py  _on_response_failure   `if res.done: return`  (so the re-raised exception writes nothing more)
  http.py  _on_exception          returns for a `response` event and for a `stream` event
  http.py  _on_request_success    `elif not isinstance(value, bool)`: a handler that returns True / False has taken
                          the exchange over: the HTTP component fires nothing, the `_clients` entry stays

The iterator of request `x` raises when it is asked for piece number `k` (0-based; pieces `0 .. k-1` were handed
out).  `k` beyond the number of pieces is not a failure (`serveMaybe` with `none`).

Second part of the file: what a *peer* can make of a response that was cut off, written on the RFC reader of
CV.HttpSpec only (no definition of the model is used there).
-/
namespace CV
namespace HttpResp

/-- the pieces that reach the wire before the iterator raises at piece `k` -/
def failPieces (ps : List Bytes) (k : Nat) : List Bytes := (ps.take k).filter (fun d => !d.isEmpty)

/-- can the body object raise at all?  (HEAD and body-less statuses never touch it; a list does not raise) -/
def touched (rq : Req) (r : Resp) : Bool :=
  !(rq.isHead || bodylessStatus r.status) &&
    (match r.body with | .sized _ => false | _ => true)

/-- `_abort` -/
def abortActs : List Act := [Act.close]

/-- the events after the header write when the iterator raises at piece `k` -/
def bodyActsFail (rq : Req) (r : Resp) (p : Prep) (k : Nat) : List Act :=
  if rq.isHead || bodylessStatus r.status then finish p false
  else match r.body with
    | .sized _ => bodyActs rq r p
    | .iter _ => abortActs
    | .stream ps => (failPieces ps k).map (fun d => Act.write (frame p.chunked d)) ++ abortActs

/-- everything `response(res)` puts on the connection when the body iterator raises at piece `k` -/
def respondFail (rq : Req) (r : Resp) (k : Nat) : List Act :=
  let p := prepare rq r
  Act.write (renderHead rq.v11 r.status r.reason (headers r p)) :: bodyActsFail rq r p k

/-- one request whose body iterator raises at piece `k` (`none`: it does not raise) -/
def serveMaybe (c : Conn) (x : Req × Resp) : Option Nat → Conn × List Act
  | none => serve c x
  | some k =>
    if c.closed then (c, [])
    else
      let y := match c.stale with | some s => s | none => x
      let as := respondFail y.1 y.2 k
      -- every branch drops the entry (`_abort` and the normal endings alike)
      ({ stale := none, closed := hasClose as }, as)

/-- a sequence of requests, each with its own failure point -/
def runMaybe : Conn → List ((Req × Resp) × Option Nat) → List Act
  | _, [] => []
  | c, (x, k) :: xs => let (c', as) := serveMaybe c x k; as ++ runMaybe c' xs

/-- a handler that returns `True` / `False`: the HTTP component fires nothing and keeps the entry -/
def serveFlag (c : Conn) (x : Req × Resp) : Conn × List Act :=
  if c.closed then (c, [])
  else ({ stale := some (match c.stale with | some s => s | none => x), closed := false }, [])

end HttpResp

namespace HttpSpec

/-- the data of a chunked body that stops without a last-chunk: whole chunks only up to the end of the bytes;
    `none` when the bytes are anything else - a last-chunk included (the cut message would look complete) -/
def chunkPrefix : Nat → Bytes → Option Bytes
  | 0, _ => none
  | f + 1, bs =>
    if bs.isEmpty then some []
    else match splitLine bs with
      | none => none
      | some (l, rest) =>
        match chunkSize l with
        | none => none
        | some 0 => none
        | some n =>
          if rest.length < n + 2 then none
          else if (rest.drop n).take 2 == [13, 10] then
            match chunkPrefix f (rest.drop (n + 2)) with
            | some d => some (rest.take n ++ d)
            | none => none
          else none

def isPrefix : Bytes → Bytes → Bool
  | [], _ => true
  | _ :: _, [] => false
  | a :: as, b :: bs => a == b && isPrefix as bs

/-- **The statement for a response whose body could not be completed**, on what the peer sees after the header
block (`f` = the framing the header block announced, `body` = every byte that followed it, `closed` = the
server ended the connection, `later` = anything was written after that, `produced` = what the application's
iterator would have produced):
 * the connection is ended and nothing follows - never a kept-alive connection with an unfinished message;
 * what was sent is a prefix of the application's body in the announced framing - in particular no second
   status line in the middle of the message;
 * a self-delimiting framing does not make the cut message look complete: no last-chunk / fewer bytes than the
   announced Content-Length (unless everything was delivered). -/
def cutOk (f : Framing) (body : Bytes) (closed later : Bool) (produced : Bytes) : Bool :=
  closed && !later &&
  (if f.chunked then
     (match chunkPrefix (body.length + 1) body with
      | some d => isPrefix d produced
      | none => false)
     && (decodeChunks (body.length + 1) body).isNone
   else
     isPrefix body produced &&
     (match f.clen with
      | some n => body.length < n || body == produced
      | none => true))

end HttpSpec
end CV

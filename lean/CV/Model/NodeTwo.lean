import CV.Model.Node
/-
C19, two-party composition (`once_and_back`): the executable definitions.

Two protocol instances of CV.Model.Node - A (caller, client side) and B (callee) - joined by
two byte streams.  Nothing here is new model behaviour: every step is one call of a model
function (`send`, `recv`, `sendResult`, `poll`, `finish`) plus plumbing of its effects:

  send          A.send(next call)            -> bytes appended to the stream A→B
  deliverAB n   the next ≤ n bytes of A→B    -> B.add_buffer(data); every `fire` starts a handler on B
  answer id     the handler of call `id` returns (value, attributes of its event):
                `<name>_success` on channel node_result -> result_handler -> send_result -> B→A
  deliverBA n   the next ≤ n bytes of B→A    -> A.add_buffer(data)
  poll id       the generator returned by A.send(…) is resumed (`while not remote_finish: yield`,
                then `del self.__events[id]; yield event.value`)

A schedule is an arbitrary list of such steps; per-stream order is respected by construction
(a delivery takes the *next* bytes), everything else is free: where the reads cut, how sends,
reads, handler returns and generator polls interleave, in which order B's handlers return.

These definitions are core Lean only: `cvdriver node2` (CV/Drv/NodeTwo.lean) executes `n2_stepK` /
`n2_step` on scenarios, and harness/c19.py runs the same scenario on real `Protocol` endpoints
(the server-side ones registered on one manager) and compares the observation streams.  The
theorems of CV/Proofs/NodeTwo*.lean and CV/Props/C19.lean are about these very definitions.
-/
namespace CV
namespace Node

/-- the parameters of a two-party world -/
structure n2_Env where
  excl : List String                    -- META_EXCLUDE (one module constant for both sides)
  sendOkA : Ev → Bool                   -- A's send firewall
  recvOkA : Ev → Bool
  sendOkB : Ev → Bool
  recvOkB : Ev → Bool                   -- B's receive firewall
  parse : Bytes → PRes                  -- oracle: json.loads ∘ decode
  dumps : J → Bytes                     -- oracle: encode ∘ json.dumps  (before the `~` escape)
  /-- B's application: the handler run for the k-th dispatched call, given the event, returns
      `some (value, attributes it leaves on the event)`, or raises (`none`): then no
      `<name>_success` is fired and no answer is sent at all - the known finding
      `no-answer(remote-handler-raised)`, excluded in the theorems by `n2_Hyp.returns`. -/
  beh : Nat → Ev → Option (J × List (String × J))

def n2_Env.cA (E : n2_Env) : Cfg := ⟨E.excl, E.sendOkA, E.recvOkA⟩
def n2_Env.cB (E : n2_Env) : Cfg := ⟨E.excl, E.sendOkB, E.recvOkB⟩
def n2_Env.proc (E : n2_Env) : Bytes → POut := procOf E.excl E.parse

structure n2_World where
  a : Proto := {}
  b : Proto := {}
  ab : Bytes := []                          -- written by A, not yet read by B
  ba : Bytes := []                          -- written by B, not yet read by A
  todo : List Ev := []                      -- calls A is still going to make
  running : List (Ev × J × Nat) := []       -- B: dispatched, handler not yet returned (event, id, k)
  -- observations
  fired : List (Ev × J) := []               -- every dispatch on B, in order
  resolved : List (Nat × J × J) := []       -- every answer accepted by A: (id, value, errors)
  yielded : List (Nat × List J × J) := []   -- what A's generators yielded: (id, values, errors)
  aborted : Bool := false                   -- some read handler raised

inductive n2_Step where
  | send
  | deliverAB (n : Nat)
  | answer (id : Nat)
  | deliverBA (n : Nat)
  | poll (id : Nat)

/-- `self.fire(write(packet))` for every write effect: packet = _dumps(pkt).encode() + DELIMITER -/
def n2_wire (dumps : J → Bytes) : List Eff → Bytes
  | [] => []
  | .write pkt :: r => wire (dumps pkt) ++ n2_wire dumps r
  | _ :: r => n2_wire dumps r

/-- B after a read: dispatched calls start running, firewall refusals go on the wire -/
def n2_absorbB (E : n2_Env) (w : n2_World) : List Eff → n2_World
  | [] => w
  | .fire e id :: r =>
    n2_absorbB E { w with running := w.running ++ [(e, id, w.fired.length)], fired := w.fired ++ [(e, id)] } r
  | .write pkt :: r => n2_absorbB E { w with ba := w.ba ++ wire (E.dumps pkt) } r
  | .resolve _ _ _ :: r => n2_absorbB E w r

/-- A after a read: answers are recorded (A's application has no handlers for remote calls) -/
def n2_absorbA (E : n2_Env) (w : n2_World) : List Eff → n2_World
  | [] => w
  | .resolve n v er :: r => n2_absorbA E { w with resolved := w.resolved ++ [(n, v, er)] } r
  | .write pkt :: r => n2_absorbA E { w with ab := w.ab ++ wire (E.dumps pkt) } r
  | .fire _ _ :: r => n2_absorbA E w r

/-- the handler of the (first) running call with this id returns -/
def n2_takeAnswer (E : n2_Env) (w : n2_World) (n : Nat) :
    Option (n2_World × J × Option (J × List (String × J))) :=
  match w.running.find? (fun r => r.2.1.natKey == some n) with
  | none => none
  | some (e, id, k) =>
    some ({ w with running := w.running.eraseP (fun r => r.2.1.natKey == some n) }, id, E.beh k e)

/-- `result_handler` of the protocol of connection `mine` sees the `_success` event of a call
    that came in on connection `sock`:  `getattr(args[0], 'node_sock', None) is self.__sock` -/
def n2_resultHandler (E : n2_Env) (mine sock : Nat) (w : n2_World)
    (r : J × Option (J × List (String × J))) : n2_World :=
  if sock = mine then
    match r.2 with
    | some va => { w with ba := w.ba ++ n2_wire E.dumps [sendResult E.cB r.1 va.1 va.2] }
    | none => w          -- the handler raised: there is no `_success` event
  else w

def n2_step (E : n2_Env) (w : n2_World) : n2_Step → n2_World
  | .send =>
    match w.todo with
    | [] => w
    | e :: rest =>
      let r := send E.cA w.a e false
      { w with a := r.1, todo := rest, ab := w.ab ++ n2_wire E.dumps r.2 }
  | .deliverAB n =>
    let r := recv E.cB E.parse w.b (w.ab.take n)
    n2_absorbB E { w with b := r.1, ab := w.ab.drop n, aborted := w.aborted || r.2.2 } r.2.1
  | .answer n =>
    match n2_takeAnswer E w n with
    | none => w
    | some (w', r) => n2_resultHandler E 0 0 w' r
  | .deliverBA n =>
    let r := recv E.cA E.parse w.a (w.ba.take n)
    n2_absorbA E { w with a := r.1, ba := w.ba.drop n, aborted := w.aborted || r.2.2 } r.2.1
  | .poll n =>
    match poll w.a n with
    | some pe =>
      if pe.finished then
        { w with a := finish w.a n, yielded := w.yielded ++ [(n, pe.values, pe.errors)] }
      else w
    | none => w

def n2_run (E : n2_Env) (w : n2_World) (sched : List n2_Step) : n2_World := sched.foldl (n2_step E) w
/-- the initial world: fresh protocols, the calls A is going to make -/
def n2_init (calls : List Ev) : n2_World := { todo := calls }

/-! ## k connections on the server side

The server owns one Protocol per accepted connection (`Server.__protocols[sock]`), all registered
on the same manager; connection j's other end is client j.  Every step of the two-party world
happens on one connection.  The only coupling: a `<name>_success` event on channel `node_result`
is seen by the `result_handler` of *every* Protocol of the process - each compares the call's
`node_sock` with its own socket.  `n2_stepK` models exactly that: the answer is offered to every
connection's `n2_resultHandler`.

The same rule holds for a node that is the *client* of k servers (k `Node.add` peers on one manager) since the fix
`a call received by a client-side node protocol is answered on its own connection only`: client-side protocols have no
socket (`None` for all of them - before the fix every one of them answered every call), a received call is now tagged
with the protocol itself, `node_sock is self.__origin()`.  harness/c19.py runs that configuration on a real `Node`
(cases `symmetric-client-peers`). -/

def n2_stepK (Es : Nat → n2_Env) (ws : List n2_World) : Nat × n2_Step → List n2_World
  | (j, .answer n) =>
    match ws[j]? with
    | none => ws
    | some w =>
      match n2_takeAnswer (Es j) w n with
      | none => ws
      | some (w', r) => (ws.set j w').mapIdx (fun j' x => n2_resultHandler (Es j') j' j x r)
  | (j, st) =>
    match ws[j]? with
    | none => ws
    | some w => ws.set j (n2_step (Es j) w st)

def n2_runK (Es : Nat → n2_Env) (ws : List n2_World) (sched : List (Nat × n2_Step)) : List n2_World :=
  sched.foldl (n2_stepK Es) ws

/-- the steps of connection j -/
def n2_proj (j : Nat) (sched : List (Nat × n2_Step)) : List n2_Step :=
  sched.filterMap (fun js => if js.1 = j then some js.2 else none)

/-! ## the symmetric composition: both peers originate calls on one connection; the send firewall

Both ends are the same `Protocol` class: each end has its own id counter (`__nid`), its own table of
waiting calls (`__events`), its own receive buffer, its own firewalls and its own application (handlers
for the calls the peer makes).  Each direction has ONE byte stream: the calls a side makes and the
answers it gives to the peer's calls are written to the same stream (`side.out`), in the order in which
they were written, and are read by the peer in arbitrary cuts.  `ns_act` is what one side does (`me`) in
one step; `ns_step` lets A (`false`) or B (`true`) act.  As in `n2_step` every step is one call of a model
function plus plumbing of its effects.

The send firewall (protocol.py `send`):

    if self.__send_event_firewall and not self.__send_event_firewall(event, self.__sock):
        yield Value(event, self)

the generator the caller waits on yields ONE empty `Value` at once and ends: no id is consumed, nothing is
registered in `__events`, nothing is written.  The caller is therefore not left waiting; what it is resumed
with is the empty `Value` (value `None`), the same it gets from a peer whose receive firewall refused the
call.  `blocked` records these calls. -/

structure ns_Side where
  p : Proto := {}
  out : Bytes := []                         -- written by this side, not yet read by the peer
  todo : List Ev := []                      -- calls this side is still going to make
  running : List (Ev × J × Nat) := []       -- dispatched here, handler not yet returned (event, id, k)
  fired : List (Ev × J) := []               -- every dispatch on this side, in order
  resolved : List (Nat × J × J) := []       -- every answer accepted by this side: (id, value, errors)
  yielded : List (Nat × List J × J) := []   -- what this side's waiting generators yielded
  blocked : List Ev := []                   -- calls refused by this side's own send firewall

structure ns_World where
  a : ns_Side := {}
  b : ns_Side := {}
  aborted : Bool := false

/-- a two-party environment plus A's application (handlers for the calls B makes) -/
structure ns_Env where
  base : n2_Env
  behA : Nat → Ev → Option (J × List (String × J))

inductive ns_Op where
  | send
  | deliver (n : Nat)      -- the acting side reads the next ≤ n bytes the peer wrote
  | answer (id : Nat)      -- a handler running on the acting side returns
  | poll (id : Nat)        -- a generator waiting on the acting side is resumed

/-- after a read: dispatched calls start running, firewall refusals go on the wire, answers are recorded -/
def ns_absorb (dumps : J → Bytes) (s : ns_Side) : List Eff → ns_Side
  | [] => s
  | .fire e id :: r =>
    ns_absorb dumps { s with running := s.running ++ [(e, id, s.fired.length)], fired := s.fired ++ [(e, id)] } r
  | .write pkt :: r => ns_absorb dumps { s with out := s.out ++ wire (dumps pkt) } r
  | .resolve n v er :: r => ns_absorb dumps { s with resolved := s.resolved ++ [(n, v, er)] } r

/-- one step of one side: (me', peer', a read handler raised) -/
def ns_act (c : Cfg) (parse : Bytes → PRes) (dumps : J → Bytes)
    (beh : Nat → Ev → Option (J × List (String × J))) (me peer : ns_Side) : ns_Op → ns_Side × ns_Side × Bool
  | .send =>
    match me.todo with
    | [] => (me, peer, false)
    | e :: rest =>
      let r := send c me.p e false
      ({ me with p := r.1, todo := rest, out := me.out ++ n2_wire dumps r.2,
                 blocked := if c.sendOk e then me.blocked else me.blocked ++ [e] }, peer, false)
  | .deliver n =>
    let r := recv c parse me.p (peer.out.take n)
    (ns_absorb dumps { me with p := r.1 } r.2.1, { peer with out := peer.out.drop n }, r.2.2)
  | .answer n =>
    match me.running.find? (fun r => r.2.1.natKey == some n) with
    | none => (me, peer, false)
    | some (e, id, k) =>
      let me' := { me with running := me.running.eraseP (fun r => r.2.1.natKey == some n) }
      match beh k e with
      | some va => ({ me' with out := me'.out ++ n2_wire dumps [sendResult c id va.1 va.2] }, peer, false)
      | none => (me', peer, false)      -- the handler raised: no `_success` event, no answer
  | .poll n =>
    match poll me.p n with
    | some pe =>
      if pe.finished then
        ({ me with p := finish me.p n, yielded := me.yielded ++ [(n, pe.values, pe.errors)] }, peer, false)
      else (me, peer, false)
    | none => (me, peer, false)

def ns_step (E : ns_Env) (w : ns_World) : Bool × ns_Op → ns_World
  | (false, op) =>
    let r := ns_act E.base.cA E.base.parse E.base.dumps E.behA w.a w.b op
    { a := r.1, b := r.2.1, aborted := w.aborted || r.2.2 }
  | (true, op) =>
    let r := ns_act E.base.cB E.base.parse E.base.dumps E.base.beh w.b w.a op
    { a := r.2.1, b := r.1, aborted := w.aborted || r.2.2 }

def ns_run (E : ns_Env) (w : ns_World) (sched : List (Bool × ns_Op)) : ns_World := sched.foldl (ns_step E) w
/-- fresh protocols; the calls A and the calls B are going to make -/
def ns_init (callsA callsB : List Ev) : ns_World := { a := { todo := callsA }, b := { todo := callsB } }

end Node
end CV

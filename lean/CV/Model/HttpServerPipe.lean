import CV.Model.HttpServerRead
/-
Back-to-back (pipelined) requests on one connection: what `HTTP._on_read` of circuits/web/http.py does
with a byte stream that carries SEVERAL requests, cut into reads at arbitrary points - including reads
that hold the end of request k and the start of request k+1.

The code (unchanged; quoted from circuits/web/http.py `_on_read` and circuits/web/parsers/http.py):

    if sock in self._buffers: parser = self._buffers[sock]
    else: self._buffers[sock] = parser = HttpParser(0, True)         # one parser per socket, made at a READ boundary
    parser.execute(data, len(data))                                  # the whole read goes into this parser
    ...
    req.body = BytesIO(parser.recv_body()); del self._buffers[sock]  # dispatch: the parser object is DROPPED,
    self.fire(e)                                                     # with whatever `_buf` still holds

    HttpParser._parse_body (not chunked):  body_part = b''.join(self._buf); self._clen_rest -= len(body_part)
                                           self._body.append(body_part); self._buf = []      # ALL buffered bytes
    HttpParser._parse_body (chunked):      size == 0 -> return 0 (complete); `_buf` keeps what was read
    HttpParser.execute after completion:   return 0

Consequences (all of them already computed by `connRead` / `exec` of HttpServerRead / HttpParse - this
file adds the delivery loop over a whole connection and the observations):

  * bytes that follow the end of request k in the same read are
      - appended to the body of request k when k has a Content-Length or no framing header at all
        (a bodyless GET/HEAD is dispatched with the start of request k+1 as its body),
      - discarded together with the parser when k is chunked;
    nothing is kept buffered after a dispatch (`Conn.buffered = []`);
  * the next parser is created by the next READ, so the rest of the stream is parsed from the next read
    boundary on, wherever that lies inside request k+1;
  * there is no `Expect: 100-continue` handling anywhere in circuits/web: no interim response is ever
    written, an expecting request is dispatched like any other once its body is complete
    (`Out` has no constructor for an interim write; `interimWrites` is constant 0);
  * HEAD is a method like any other for the read path (the difference is in `_on_response`, C15).

The property statement of C13 excludes pipelining ("each following the previous response (no pipelining)"),
so these are facts about the code, not violations.  `pipeAll` answers every read at once (the handler of the
rig returns its reply synchronously, so `_on_response` has deleted `_clients[sock]` before the next read).
-/
namespace CV
namespace Http

/-- this read made the server write a response (dispatch to a handler that replies at once, error, redirect) -/
def Out.answered : Out → Bool
  | .wait => false
  | .closeSsl => false
  | _ => true

/-- one read event on the connection, followed by the response if the read produced one -/
def pipeRead (lex : Lex) (secure : Bool) (cn : Conn) (d : Bytes) : Conn × Out :=
  let r := connRead lex secure cn d
  (if r.2.answered then connResponded r.1 else r.1, r.2)

/-- a whole connection: the reads in order -/
def pipeAll (lex : Lex) (secure : Bool) (cn : Conn) : List Bytes → Conn × List Out
  | [] => (cn, [])
  | d :: ds =>
    let r := pipeRead lex secure cn d
    let rs := pipeAll lex secure r.1 ds
    (rs.1, r.2 :: rs.2)

/-- the `request` events in the order they were fired: (first line, header block, body) -/
def dispatched : List Out → List (Bytes × Option Bytes × Bytes)
  | [] => []
  | .request fl hb body :: r => (fl, hb, body) :: dispatched r
  | _ :: r => dispatched r

/-- the bytes held for the socket between reads (`b''.join(self._buffers[sock]._buf)`, nothing without a parser) -/
def Conn.buffered (cn : Conn) : Bytes :=
  match cn.parser with
  | some p => p.buf
  | none => []

/-- interim `HTTP/1.1 100 Continue` responses written for a list of read outcomes: the code writes none -/
def interimWrites (_ : List Out) : Nat := 0

end Http
end CV

import CV.Model.Basic
/-
Model of circuits/web/dispatchers/virtualhosts.py.

  def __init__(self, domains, trusted_gateways=None):
      self.domains = domains
      self.trusted_gateways = trusted_gateways          # legacy: = None (argument discarded)

  def _on_request(self, event, request, response):
      path = request.path.strip('/')
      header = request.headers.get
      domain = header('Host', '')
      if self.trusted_gateways is None or request.remote.ip in self.trusted_gateways:
          forwarded = header('X-Forwarded-Host', '').split(',')[0].strip().lower()
          if forwarded:
              domain = forwarded
      prefix = self.domains.get(domain, '')
      if prefix:
          path = urljoin('/%s/' % prefix, path)
          request.path = path

The model computes the routing decision: the virtual prefix that is applied (none = the
path is left alone).  `urljoin` (stdlib) is applied to that prefix by the harness.
`str.lower()` is modelled on ASCII (the generator keeps forwarded hosts ASCII).
-/
namespace CV
namespace VHost

abbrev Str := List Char

/-- `keepGateways = false` is the code as found: the constructor drops its argument -/
structure Policy where
  keepGateways : Bool

def Policy.legacy : Policy := ⟨false⟩
def Policy.current : Policy := ⟨true⟩

/-- `self.trusted_gateways` after `__init__(domains, trusted_gateways=arg)` -/
def construct (pol : Policy) (arg : Option (List Str)) : Option (List Str) :=
  if pol.keepGateways then arg else none

/-- Python's `str.isspace` on one code point (what `str.strip()` removes) -/
def pyIsSpace (c : Char) : Bool :=
  let n := c.toNat
  (9 ≤ n && n ≤ 13) || (28 ≤ n && n ≤ 32) || n == 0x85 || n == 0xa0 || n == 0x1680
  || (0x2000 ≤ n && n ≤ 0x200a) || n == 0x2028 || n == 0x2029 || n == 0x202f
  || n == 0x205f || n == 0x3000

def strip (s : Str) : Str :=
  ((s.dropWhile pyIsSpace).reverse.dropWhile pyIsSpace).reverse

/-- `value.split(',')[0].strip().lower()` -/
def normFwd (x : Str) : Str :=
  (strip (x.takeWhile (· ≠ ','))).map Char.toLower

/-- whether this request's `X-Forwarded-Host` is looked at -/
def trusts (tg : Option (List Str)) (ip : Str) : Bool :=
  match tg with
  | none => true
  | some g => g.contains ip

/-- the key looked up in `domains` -/
def chooseDomain (tg : Option (List Str)) (ip : Str) (host xfh : Option Str) : Str :=
  let domain := host.getD []
  if trusts tg ip then
    let f := normFwd (xfh.getD [])
    if f ≠ [] then f else domain
  else domain

/-- the prefix that gets applied to the path, if any -/
def route (tg : Option (List Str)) (domains : List (Str × Str)) (ip : Str)
    (host xfh : Option Str) : Option Str :=
  let p := (domains.lookup (chooseDomain tg ip host xfh)).getD []
  if p = [] then none else some p

/-- a component constructed with `arg`, handling one request -/
def handle (pol : Policy) (arg : Option (List Str)) (domains : List (Str × Str)) (ip : Str)
    (host xfh : Option Str) : Option Str :=
  route (construct pol arg) domains ip host xfh

end VHost
end CV

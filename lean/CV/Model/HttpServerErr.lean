import CV.Model.HttpServerRead
import CV.Model.HttpResp
import CV.Model.HttpRespSpec
/-
C14: the read path of circuits/web/http.py with *all* its exits, the exception path, the error
responses and the disconnect handler - as the code is after the `fix:` commits of C14
(disconnect drops the parser too; error responses carry a version the server speaks; a failing
request/response handler is answered once).  Extends CV.Model.HttpServerRead (C13), which it
imports unchanged.

    @handler('disconnect')
    def _on_disconnect(self, sock):
        if sock in self._clients: del self._clients[sock]
        if sock in self._buffers: del self._buffers[sock]

    @handler('read')
    def _on_read(self, sock, data):
        ... parser = self._buffers[sock]  |  new parser; TLS hello on a plain port -> drop both, close(sock)
        parser.execute(data, len(data))                      # (E1) a leaf may raise
        if not parser.is_headers_complete():
            if parser.errno is not None:
                if parser.errno == BAD_FIRST_LINE: req = wrappers.Request(sock, server=self._server)
                else: req = wrappers.Request(sock, <parsed first line>, server=self._server)   # (E2) may raise
                      res.protocol = self._response_protocol(req.protocol)
                del self._buffers[sock]; return self.fire(httperror(req, res, 400))
            return None
        if sock in self._clients: req, res = self._clients[sock]
        else:
            req = wrappers.Request(sock, <parsed>, headers=parser.get_headers(), ...)        # (E3) may raise
            self._clients[sock] = (req, res)
            if rp[0] != sp[0]: res.protocol = <server's>; return self.fire(httperror(req, res, 505))
            res.protocol = self._response_protocol(rp)
        clen = int(req.headers.get('Content-Length', '0'))                                   # (E4) may raise
        ... wait | 400 No host | 301 | fire(request(req, res))

    @handler('exception')
    def _on_exception(self, *args, **kwargs):
        fevent = kwargs['fevent']
        if isinstance(fevent, (request, response)): return      # answered by <name>_failure
        elif isinstance(fevent.value.parent.event, request): ...
        elif len(fevent.args) == 2 and isinstance(fevent.args[0], socket):     # a `read` handler raised
            req = wrappers.Request(fevent.args[0], server=self._server); res = wrappers.Response(req, self._encoding, 500)
        self.fire(httperror(req, res, code=code, error=...))

    httperror(...):  response.close = True; response.status = code
    _on_httperror:   res.body = str(event); fire(response(res))
    _on_response:    (CV.Model.HttpResp.respond)  ... always `del self._clients[sock]` if present
    _on_request_failure(erequest, error): if req.handled: return; req.handled = True; fire(httperror(req, res, code, ...))

Python exceptions of the leaf functions are *parameters* like the leaf functions themselves
(`LexE`): which first lines / header blocks make `str(.., 'unicode_escape')` / the lexers raise
something else than their own Invalid... error, for which (first line, header block) the
`wrappers.Request` constructor raises.  A leaf that raises stops `execute` exactly where the
corresponding "invalid" outcome stops it, so the parser is run with `LexE.base` (raise = invalid)
and the exception is recognised afterwards (`raisedIn`).

Environment convention (the network server's part, emulated by the harness): once the component
has fired `close(sock)` no further `read(sock, ..)` is delivered; the model answers such a read
with `late` and does nothing.  Reads are non-empty.

Not modelled: what happens to a parser after an exception left `execute` if it were used again
(it is not: the exception exit closes); chunk sizes < 0; exceptions inside the path guard /
`redirect(..)`; Content-Encoding; the application's own response (C15) beyond "it was written and
did / did not close".
-/
namespace CV
namespace Http14
open Http

/-- the leaf functions with their Python exceptions -/
structure LexE where
  lex : Lex
  firstExn : Bytes → Bool                   -- (E1) first line: something other than InvalidRequestLine is raised
  hdrsExn : Bytes → Bool                    -- (E1) header block: something other than InvalidHeader is raised
  req400Exn : Bytes → Bool                  -- (E2) Request(..) for the 400 answer to an invalid header raises
  reqExn : Bytes → Option Bytes → Bool      -- (E3) Request(.., headers=..) raises
  isHead : Bytes → Bool                     -- the method lexed from this first line is HEAD

/-- raise = invalid, as far as `execute` is concerned -/
def LexE.base (le : LexE) : Lex where
  first k l := if le.firstExn l then none else le.lex.first k l
  hdrs b := if le.hdrsExn b then none else le.lex.hdrs b
  chunk := le.lex.chunk
  pathOk := le.lex.pathOk

/-- the error that stopped `execute` before the headers were complete was an exception (E1) -/
def raisedIn (le : LexE) (c : Core) : Bool :=
  !c.hdrDone &&
  ((c.errno == some 0 && (match c.firstLine with | some l => le.firstExn l | none => false)) ||
   (c.errno == some 1 && (match c.hdrBlock with | some b => le.hdrsExn b | none => false)))

/-- the rejection exits of the component -/
inductive Exit
  | badFirst | badHeader | version | noHost | redirect | exn
  deriving DecidableEq, Repr

def Exit.code : Exit → Nat
  | .badFirst => 400
  | .badHeader => 400
  | .version => 505
  | .noHost => 400
  | .redirect => 301
  | .exn => 500

/-- what the application's request handler does with a dispatched request -/
inductive Beh
  | ok (close : Bool)      -- answers; `close` = its response closed the connection (C15)
  | raise (code : Nat)     -- a request / response handler raises: error response with this status
  deriving DecidableEq, Repr

inductive Answer
  | app (close : Bool)
  | error (code : Nat)
  deriving DecidableEq, Repr

inductive Out
  | wait
  | late                                                       -- read after close was requested: not delivered
  | closeOnly                                                  -- TLS hello on a plain-text port
  | reject (e : Exit) (rq : HttpResp.Req) (fl hb : Option Bytes)
  | dispatch (fl : Bytes) (hb : Option Bytes) (body : Bytes) (rq : HttpResp.Req) (a : Answer)
  deriving DecidableEq, Repr

/-- `HTTP._response_protocol`: the client's minor version if the major one is ours, else our own -/
def respV11 (f : FirstLine) : Bool := if f.vmajor = 1 then decide (1 ≤ f.vminor) else true

/-- `wrappers.Request(sock, server=..)`: GET, HTTP/1.1 -/
def defaultRq : HttpResp.Req := ⟨false, true, true⟩

def rqOf (le : LexE) (line : Bytes) (f : FirstLine) : HttpResp.Req := ⟨le.isHead line, respV11 f, true⟩

def rqOfReq (le : LexE) (r : Req) : HttpResp.Req := rqOf le r.firstLine r.fl

def answerOf : Beh → Answer
  | .ok c => .app c
  | .raise code => .error code

/-- (E2) the Request built for the 400 answer to an invalid header raises -/
def exn400 (le : LexE) (c : Core) : Bool :=
  !c.exn && !c.hdrDone && c.errno == some 1
    && (match c.firstLine with | some l => le.req400Exn l | none => false)

/-- (E3) the Request built from the complete headers raises (only when there is no pair yet) -/
def exnReq (le : LexE) (cn : Conn) (c : Core) : Bool :=
  !c.exn && c.hdrDone && cn.client.isNone
    && (match c.firstLine with | some l => le.reqExn l c.hdrBlock | none => false)

/-- the exits of C13's `afterExec` with the response they trigger; the first component is what is
    left in `_buffers[sock]` / `_clients[sock]` *after the response (if any) has been written*
    (`_on_response` drops the `_clients` entry) -/
def mapOut (le : LexE) (c : Core) (beh : Beh) : Conn × Http.Out → Conn × Out
  | (cn', .wait) => (cn', .wait)
  | (cn', .closeSsl) => (cn', .closeOnly)        -- not produced by afterExec
  | (cn', .err400) =>
    if c.errno == some 0 then (connResponded cn', .reject .badFirst defaultRq c.firstLine none)
    else
      match c.firstLine, c.fl with
      | some l, some f => (connResponded cn', .reject .badHeader (rqOf le l f) c.firstLine c.hdrBlock)
      | _, _ => (connResponded cn', .reject .badHeader defaultRq c.firstLine c.hdrBlock)
  | (cn', .exn500) => (connResponded cn', .reject .exn defaultRq c.firstLine c.hdrBlock)
  | (cn', .err505) =>
    match cn'.client with
    | some r => (connResponded cn', .reject .version (rqOfReq le r) (some r.firstLine) r.hdrBlock)
    | none => (cn', .reject .version defaultRq none none)
  | (cn', .err400NoHost) =>
    match cn'.client with
    | some r => (connResponded cn', .reject .noHost (rqOfReq le r) (some r.firstLine) r.hdrBlock)
    | none => (cn', .reject .noHost defaultRq none none)
  | (cn', .redirect301) =>
    match cn'.client with
    | some r => (connResponded cn', .reject .redirect (rqOfReq le r) (some r.firstLine) r.hdrBlock)
    | none => (cn', .reject .redirect defaultRq none none)
  | (cn', .request fl hb body) =>
    match cn'.client with
    | some r => (connResponded cn', .dispatch fl hb body (rqOfReq le r) (answerOf beh))
    | none => (cn', .dispatch fl hb body defaultRq (answerOf beh))

/-- the part of `_on_read` after `parser.execute`, every exit, and everything it triggers -/
def afterExec14 (le : LexE) (cn : Conn) (p : PState) (beh : Beh) : Conn × Out :=
  if raisedIn le p.core || exn400 le p.core || exnReq le cn p.core then
    (⟨some p, none⟩, .reject .exn defaultRq p.core.firstLine p.core.hdrBlock)
  else mapOut le p.core beh (afterExec le.base cn p)

/-- `HTTP._on_read(sock, data)` (and everything it triggers) on the entries of `sock` -/
def connRead14 (le : LexE) (secure : Bool) (cn : Conn) (data : Bytes) (beh : Beh) : Conn × Out :=
  match cn.parser with
  | some p => afterExec14 le cn (exec le.base p data) beh
  | none =>
    if sslHandshake data && !secure then ({}, .closeOnly)
    else afterExec14 le cn (exec le.base (init .request) data) beh

/-- does this outcome make the component ask for the connection to be closed? -/
def Out.closes : Out → Bool
  | .wait => false
  | .late => false
  | .closeOnly => true
  | .reject .. => true
  | .dispatch _ _ _ _ (.app c) => c
  | .dispatch _ _ _ _ (.error _) => true

/-- one connection -/
structure CState where
  conn : Conn := {}
  closing : Bool := false
  deriving DecidableEq, Repr

def readStep (le : LexE) (secure : Bool) (cs : CState) (data : Bytes) (beh : Beh) : CState × Out :=
  if cs.closing then (cs, .late)
  else
    let (cn, o) := connRead14 le secure cs.conn data beh
    (⟨cn, o.closes⟩, o)

/-! ### all connections: the two tables of the component + the sockets being closed -/

structure World where
  t : Tables := {}
  closing : List Nat := []

inductive Ev
  | read (sock : Nat) (data : Bytes) (beh : Beh)
  | disconnect (sock : Nat)

def World.cstate (w : World) (sock : Nat) : CState := ⟨w.t.get sock, w.closing.contains sock⟩

def step (le : LexE) (secure : Bool) (w : World) : Ev → World × Option Out
  | .read s d b =>
    let (cs, o) := readStep le secure (w.cstate s) d b
    (⟨w.t.set s cs.conn, if cs.closing then s :: w.closing.filter (· ≠ s) else w.closing.filter (· ≠ s)⟩, some o)
  | .disconnect s => (⟨w.t.set s {}, w.closing.filter (· ≠ s)⟩, none)

def run (le : LexE) (secure : Bool) : World → List Ev → World × List (Option Out)
  | w, [] => (w, [])
  | w, e :: es =>
    let (w1, o) := step le secure w e
    let (w2, os) := run le secure w1 es
    (w2, o :: os)

/-- ghost: has `sock` been read from since its last disconnect? -/
def alive (sock : Nat) : List Ev → Bool → Bool
  | [], a => a
  | .read s _ _ :: es, a => alive sock es (if s = sock then true else a)
  | .disconnect s :: es, a => alive sock es (if s = sock then false else a)

/-! ### what goes on the wire -/

/-- the texts the error responses are made of (constants of the implementation; parameters here) -/
structure Env where
  reason : Nat → Bytes                                            -- HTTP_STATUS_CODES
  hdrs : Nat → Option Bytes → Option Bytes → List (Bytes × Bytes)  -- Date, Server, Content-Type / Location of redirects
  page : Nat → Option Bytes → Option Bytes → Bytes                 -- str(httperror)

/-- the Response object an httperror event leaves behind -/
def errResp (env : Env) (code : Nat) (fl hb : Option Bytes) : HttpResp.Resp :=
  { status := code, reason := env.reason code, hdrs := env.hdrs code fl hb,
    body := .sized (if (env.page code fl hb).isEmpty then [] else [env.page code fl hb]),
    forceClose := true }

/-- write / close events of one read; `none`: the application's own response (C15's subject) -/
def wire (env : Env) : Out → Option (List HttpResp.Act)
  | .wait => some []
  | .late => some []
  | .closeOnly => some [.close]
  | .reject e rq fl hb => some (HttpResp.respond rq (errResp env e.code fl hb))
  | .dispatch fl hb _ rq (.error code) => some (HttpResp.respond rq (errResp env code (some fl) hb))
  | .dispatch _ _ _ _ (.app _) => none

/-! ### spec predicate (evaluated by the driver on the implementation's bytes): the bytes and
    close events one read produced are exactly one valid response that closes as announced.
    Uses only the RFC reader of CV.HttpSpec (C15), nothing of the models. -/

inductive OneVerdict
  | ok
  | fail (clause : String)
  deriving DecidableEq, Repr

open CV.HttpSpec in
def oneResponse (isHead : Bool) (code : Nat) (bytes : Bytes) (closed afterClose : Bool) : OneVerdict :=
  match rfcDecode isHead bytes closed with
  | .error .head => .fail "undecodable-head"
  | .error .framing => .fail "undecodable-framing"
  | .error .body => .fail "undecodable-body"
  | .ok (m, rest) =>
    if !rest.isEmpty then
      (match rfcDecode isHead rest closed with
       | .ok _ => .fail "two-responses"
       | .error _ => .fail "trailing-bytes")
    else if m.head.status != code then .fail "status-mismatch"
    else if m.willClose && !closed then .fail "close-announced-not-closed"
    else if !m.willClose && closed then .fail "close-not-announced"
    else if afterClose then .fail "activity-after-close"
    else .ok

end Http14
end CV

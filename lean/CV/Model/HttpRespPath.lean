import CV.Model.HttpResp
/-
C15, second part: how the result of a request *handler* becomes the response - the decision code of
circuits.web as it is after the `fix:` commits of this extension:

  http.py        HTTP._on_request_success(e, value)
                   value = e.value.getValue(recursive=False); a Value that is no promise is unwrapped once
                   None                      -> fire notfound(req, res)                         (404)
                   httperror instance        -> res.body = str(value); fire response(res)
                   Response instance         -> fire response(value)
                   Value: result, no errors  -> res.body = value.value; fire response(res)
                          errors             -> the error triple: as below (once: req.handled)
                          neither            -> value.notify = True ("be notified later")
                   tuple (error triple)      -> if req.handled: nothing; else req.handled = True and
                                                 RedirectException -> fire redirect(req, res, urls, code)
                                                 HTTPException     -> fire httperror(req, res, code, ...)
                                                 anything else     -> fire httperror(req, res, error=...)  (500)
                   bool                      -> nothing (the handler has answered itself)
                   anything else             -> res.body = value; fire response(res)
  http.py        HTTP._on_request_failure(erequest, error)   (a `request` handler itself raised)
                   if req.handled: nothing; else req.handled = True and the same three-way choice
  http.py        HTTP._on_exception(etype, evalue, tb, handler, fevent)
                   fevent is the request / response event  -> nothing (answered by the *_failure handlers)
                   fevent.value.parent.event is a request  -> if req.handled: nothing; else req.handled = True and
                                                              the same three-way choice
                   (any other event without request/response arguments -> nothing)
  dispatcher.py  Dispatcher._on_request_value_changed(value)
                   result and no errors -> res.body = value.value; fire response(res)
                   promise              -> value.event.notify = True
                   otherwise            -> nothing ("errors are handled by the HTTP component")
  http.py        HTTP._on_httperror     -> res.body = str(event); fire response(res)
  errors.py      httperror.__init__     -> response.close = True; response.status = code

`step` is that decision code; `trace` lists, per handler shape, which of these events the core delivers and in
which order (that part is *observed*, not derived: the harness compares it with the recorded event trace of the
real HTTP + Dispatcher + Controller for every case; the core's own guarantees are C04/C06).
-/
namespace CV
namespace HttpResp

/-- the exception inside an error triple, as the three-way choice sees it -/
inductive Exc where
  | redirect (code : Nat)   -- exceptions.Redirect (code = its class attribute, 303)
  | http (code : Nat)       -- any other HTTPException
  | other                   -- any other exception
  deriving Repr, DecidableEq

/-- the shape of the request's value as `_on_request_success` distinguishes it -/
inductive Seen where
  | none | flag
  | errorEvent (code : Nat)
  | response
  | plain
  | triple (e : Exc)
  | valReady
  | valError (e : Exc)
  | valPending
  deriving Repr, DecidableEq

/-- the three branches of `Dispatcher._on_request_value_changed` -/
inductive Changed where
  | ready | promise | other
  deriving Repr, DecidableEq

/-- whose exception `_on_exception` is told about -/
inductive Origin where
  | own                 -- fevent is the request / response event itself
  | nested (e : Exc)    -- an event whose value's parent belongs to the request event
  | foreign             -- any other event (no request / response among its arguments)
  deriving Repr, DecidableEq

/-- the events of one request that reach the decision code -/
inductive HttpEv where
  | success (s : Seen)
  | changed (c : Changed)
  | failure (e : Exc)
  | exception (o : Origin)
  deriving Repr, DecidableEq

/-- what the decision code fires; each of the three ends in exactly one `response(res)` event
    (`respond`: directly; the other two through `_on_httperror`) -/
inductive Fired where
  | respond                 -- response(res), the body being the handler's result
  | error (code : Nat)      -- httperror(req, res, code, ...)
  | redirect (code : Nat)   -- redirect(req, res, urls, code)
  deriving Repr, DecidableEq

/-- the three-way choice made in `_on_request_success`, `_on_request_failure` and `_on_exception` -/
def excFired : Exc → Fired
  | .redirect c => .redirect c
  | .http c => .error c
  | .other => .error 500

/-- answer an error unless the request has been answered: `if req.handled: return; req.handled = True` -/
def once (handled : Bool) (e : Exc) : Bool × List Fired :=
  if handled then (true, []) else (true, [excFired e])

/-- one event at the decision code; the state is `req.handled` -/
def step (handled : Bool) : HttpEv → Bool × List Fired
  | .success .none => (handled, [.error 404])
  | .success .flag => (handled, [])
  | .success (.errorEvent _) => (handled, [.respond])
  | .success .response => (handled, [.respond])
  | .success .plain => (handled, [.respond])
  | .success (.triple e) => once handled e
  | .success .valReady => (handled, [.respond])
  | .success (.valError e) => once handled e
  | .success .valPending => (handled, [])
  | .changed .ready => (handled, [.respond])
  | .changed .promise => (handled, [])
  | .changed .other => (handled, [])
  | .failure e => once handled e
  | .exception .own => (handled, [])
  | .exception (.nested e) => once handled e
  | .exception .foreign => (handled, [])

/-- all events of a request, in order -/
def runEvents : Bool → List HttpEv → List Fired
  | _, [] => []
  | h, e :: es => let (h', fs) := step h e; fs ++ runEvents h' es

/-- everything fired for a request (a fresh request has `handled = False`) -/
def fired (evs : List HttpEv) : List Fired := runEvents false evs

/-! ### handler shapes -/

/-- how the application's handler hands over its result -/
inductive Path where
  | plain          -- a `request` handler returns it
  | plainGen       -- a `request` handler that is a coroutine yields it piece by piece
  | plainCall      -- ... does `v = yield self.call(e)` and yields `v.value`
  | plainFire      -- ... returns `self.fire(e)`, the callee answers at once
  | plainValue     -- ... returns a Value that holds the Value of an event it fired (answered at once)
  | nobody         -- no handler takes the request
  | expose         -- a Controller method (expose + Dispatcher) returns it
  | exposeGen      -- a Controller coroutine yields it piece by piece
  | exposeCall     -- a Controller coroutine: `v = yield self.call(e)`; `yield v.value`
  | exposeWait     -- a Controller coroutine: `v = self.fire(e)`; `yield self.wait(e)`; `yield v.value`
  | exposeFire     -- a Controller method returns `self.fire(e)`: a Value filled in later
  | exposeFireLate -- the same, the callee being a coroutine that answers some ticks later
  deriving Repr, DecidableEq

/-- what is handed over when all goes well -/
inductive Kind where
  | value                    -- str, bytes, list, file object ... (becomes `res.body`)
  | responseObj              -- the Response object (body assigned by the handler)
  | errorEvent (code : Nat)  -- an httperror event made by the handler
  deriving Repr, DecidableEq

/-- where the application raises, if it does -/
inductive Stage where
  | ok
  | handler (e : Exc)      -- in the handler (for a coroutine: before its first yield)
  | afterYield (e : Exc)   -- in the coroutine, after it has been suspended
  | callee (e : Exc)       -- in the handler of the event called / waited for / fired
  deriving Repr, DecidableEq

def seenOf : Kind → Seen
  | .value => .plain
  | .responseObj => .response
  | .errorEvent c => .errorEvent c

/-- The events delivered for a request, per handler shape; `none`: the combination does not exist
    (a plain function has no "after yield", only a `request` handler / Controller method itself can
    return the Response object or an httperror event, ...). -/
def trace : Path → Kind → Stage → Option (List HttpEv)
  -- a `request` handler answers itself: its value is the request's value, its exception the request's failure
  | .plain, k, .ok => some [.success (seenOf k)]
  | .plain, .value, .handler e => some [.failure e, .exception .own]
  | .plainGen, .value, .ok => some [.success .plain]
  | .plainGen, .value, .handler e => some [.failure e, .exception .own]
  | .plainGen, .value, .afterYield e => some [.failure e, .exception .own]
  | .plainCall, .value, .ok => some [.success .plain]
  | .plainCall, .value, .handler e => some [.failure e, .exception .own]
  | .plainCall, .value, .afterYield e => some [.failure e, .exception .own]
  | .plainCall, .value, .callee e => some [.exception .foreign, .failure e, .exception .own]
  | .plainFire, .value, .ok => some [.success .plain]
  | .plainFire, .value, .handler e => some [.failure e, .exception .own]
  | .plainFire, .value, .callee e => some [.success (.triple e), .exception (.nested e)]
  | .plainValue, .value, .ok => some [.success .valReady]
  | .plainValue, .value, .handler e => some [.failure e, .exception .own]
  | .plainValue, .value, .callee e => some [.success (.valError e), .exception (.nested e)]
  | .nobody, .value, .ok => some [.success .none]
  -- a Controller method: the request's value is the Value of the event the Dispatcher fired
  | .expose, k, .ok => some [.success (seenOf k)]
  | .expose, .value, .handler e => some [.success (.triple e), .exception (.nested e)]
  | .exposeGen, .value, .ok => some [.success .valPending, .changed .ready]
  | .exposeGen, .value, .handler e => some [.success (.triple e), .exception (.nested e)]
  | .exposeGen, .value, .afterYield e => some [.success .valPending, .changed .promise, .exception (.nested e)]
  | .exposeCall, .value, .ok => some [.success .valPending, .changed .ready]
  | .exposeCall, .value, .handler e => some [.success (.triple e), .exception (.nested e)]
  | .exposeCall, .value, .afterYield e => some [.success .valPending, .changed .promise, .exception (.nested e)]
  | .exposeCall, .value, .callee e =>
      some [.success .valPending, .exception .foreign, .changed .promise, .exception (.nested e)]
  | .exposeWait, .value, .ok => some [.success .valPending, .changed .ready]
  | .exposeWait, .value, .handler e => some [.success (.triple e), .exception (.nested e)]
  | .exposeWait, .value, .afterYield e => some [.success .valPending, .changed .promise, .exception (.nested e)]
  | .exposeWait, .value, .callee e =>
      some [.success .valPending, .exception .foreign, .changed .promise, .exception (.nested e)]
  | .exposeFire, .value, .ok => some [.success .valPending, .changed .ready]
  | .exposeFire, .value, .handler e => some [.success (.triple e), .exception (.nested e)]
  | .exposeFire, .value, .callee e => some [.success .valPending, .exception (.nested e), .changed .other]
  | .exposeFireLate, .value, .ok => some [.success .valPending, .changed .ready]
  | .exposeFireLate, .value, .handler e => some [.success (.triple e), .exception (.nested e)]
  | .exposeFireLate, .value, .callee e => some [.success .valPending, .changed .other, .exception (.nested e)]
  | _, _, _ => none

/-- the exception a stage raises -/
def raised : Stage → Option Exc
  | .ok => none
  | .handler e => some e
  | .afterYield e => some e
  | .callee e => some e

/-- What the application produced, as an answer: its result, or the page for what it raised
    (nobody answering is "not found"). -/
def expected : Path → Stage → Fired
  | .nobody, _ => .error 404
  | _, .ok => .respond
  | _, .handler e => excFired e
  | _, .afterYield e => excFired e
  | _, .callee e => excFired e

/-! ### from the fired event to the response -/

/-- `res` when the handler is done: status and headers it set; `close` is True when it made an httperror event -/
structure App where
  status : Nat
  reason : Bytes
  hdrs : List (Bytes × Bytes)
  close : Bool
  deriving Repr, DecidableEq

/-- what the error event's constructor and `__str__` make of the response, given from outside
    (errors.py is not modelled: the harness takes the page text and the headers from the real event) -/
structure ErrEnv where
  reason : Nat → Bytes                                         -- HTTP_STATUS_CODES
  page : Fired → Bytes                                         -- str(event), utf-8
  hdrs : Fired → List (Bytes × Bytes) → List (Bytes × Bytes)   -- headers after __init__ / sanitize (Location ...)

/-- `Body.__set__` of a str -/
def pageBody (pg : Bytes) : Body := .sized (if pg.isEmpty then [] else [pg])

/-- the Response object the one `response(res)` event carries -/
def answer (env : ErrEnv) (app : App) (b : Body) : Fired → Resp
  | .respond => { status := app.status, reason := app.reason, hdrs := app.hdrs, body := b, forceClose := app.close }
  | .error c => { status := c, reason := env.reason c, hdrs := env.hdrs (.error c) app.hdrs,
                  body := pageBody (env.page (.error c)), forceClose := true }
  | .redirect c => { status := c, reason := env.reason c, hdrs := env.hdrs (.redirect c) app.hdrs,
                     body := pageBody (env.page (.redirect c)), forceClose := true }

/-- everything put on the connection for one request handled along `p` -/
def pathActs (rq : Req) (env : ErrEnv) (app : App) (b : Body) (evs : List HttpEv) : List Act :=
  (fired evs).flatMap (fun f => respond rq (answer env app b f))

end HttpResp
end CV

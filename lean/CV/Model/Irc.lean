import CV.Model.Basic
/-
Model of circuits/protocols/irc/message.py (`Message._check_args`, `__str__`) and of
`circuits/protocols/irc/utils.py: parsemsg`, over `List Char` (Python `str`).

The validity test is a *parameter* of the model: `Policy` says which characters are
refused where.  The correspondence check extracts nothing numeric here; it simply runs
the real `Message` on the same inputs, so the policy the theorems need
(`Policy.current`) is tied to the code by differential execution.

  def _check_args(self):
      if any(' ' in arg for arg in self.args[:-1]): raise Error
      if any(ch in v for v in [prefix, command] + args for ch in '\r\n'): raise Error
  def __str__(self):
      self._check_args()
      args = self.args[:]
      if args and ' ' in args[-1] and not args[-1].startswith(':'):
          args[-1] = ':' + args[-1]
      return '{prefix}{command} {args}\r\n'  (prefix = ':' + prefix + ' ' if prefix is not None)
-/
namespace CV
namespace Irc

abbrev Str := List Char

structure Msg where
  pfx : Option Str           -- `str(kwargs['prefix'])` or None
  command : Option Str       -- None is rendered by `str()` as the text `None`
  args : List Str            -- after dropping None arguments
  deriving Repr, DecidableEq

/-- which code points `_check_args` refuses -/
structure Policy where
  badInArg : Char → Bool       -- refused anywhere in any argument
  badInHead : Char → Bool      -- refused in prefix and command

/-- the unrepaired code: only LF in arguments -/
def Policy.legacy : Policy := ⟨fun c => c == '\n', fun _ => false⟩
/-- the repaired code: CR and LF in arguments, prefix and command -/
def Policy.current : Policy :=
  ⟨fun c => c == '\n' || c == '\r', fun c => c == '\n' || c == '\r'⟩

def cmdStr : Option Str → Str
  | none => "None".toList
  | some c => c

def checkArgs (p : Policy) (m : Msg) : Bool :=
  !(m.args.dropLast.any (fun a => a.contains ' '))
  && !(m.args.any (fun a => a.any p.badInArg))
  && !((m.pfx.getD []).any p.badInHead)
  && !((cmdStr m.command).any p.badInHead)

/-- last argument gets a colon iff it contains a space and does not start with one -/
def markLast : List Str → List Str
  | [] => []
  | [a] => if a.contains ' ' && a.head? != some ':' then [':' :: a] else [a]
  | a :: rest => a :: markLast rest

def joinSp : List Str → Str
  | [] => []
  | [a] => a
  | a :: rest => a ++ ' ' :: joinSp rest

def prefixPart : Option Str → Str
  | none => []
  | some p => ':' :: p ++ [' ']

/-- the rendered line without its CRLF -/
def body (m : Msg) : Str :=
  prefixPart m.pfx ++ cmdStr m.command ++ ' ' :: joinSp (markLast m.args)

/-- `str(message)`; `none` = `Error` raised -/
def render (p : Policy) (m : Msg) : Option Str :=
  if checkArgs p m then some (body m ++ ['\r', '\n']) else none

/-! ### parsemsg -/

/-- `s.split(' ', 1)` when the separator occurs: (before, after) -/
def splitSpace1 : Str → Option (Str × Str)
  | [] => none
  | c :: rest =>
    if c = ' ' then some ([], rest)
    else match splitSpace1 rest with
      | some (a, b) => some (c :: a, b)
      | none => none

/-- `s.split(' :', 1)` when `' :'` occurs: (before, after) -/
def splitTrailing : Str → Option (Str × Str)
  | [] => none
  | [_] => none
  | c :: d :: rest =>
    if c = ' ' ∧ d = ':' then some ([], rest)
    else match splitTrailing (d :: rest) with
      | some (a, b) => some (c :: a, b)
      | none => none

/-- `str.split()` for a given whitespace predicate: maximal runs of non-space -/
def wsSplitAux (ws : Char → Bool) (cur : Str) : Str → List Str
  | [] => if cur.isEmpty then [] else [cur]
  | c :: rest =>
    if ws c then
      if cur.isEmpty then wsSplitAux ws [] rest else cur :: wsSplitAux ws [] rest
    else wsSplitAux ws (cur ++ [c]) rest

def wsSplit (ws : Char → Bool) (s : Str) : List Str := wsSplitAux ws [] s

/-- `parsemsg` on the decoded line: `(raw prefix, command, args)`; `none` = ValueError
    (a line that starts with ':' and has no space).  `parseprefix` is applied by the caller. -/
def parsemsg (ws : Char → Bool) (s : Str) : Option (Str × Option Str × List Str) :=
  let pre : Option (Str × Str) :=
    match s with
    | ':' :: rest => splitSpace1 rest
    | _ => some ([], s)
  match pre with
  | none => none
  | some (pre0, s) =>
    let toks : List Str :=
      match splitTrailing s with
      | some (h, t) => wsSplit ws h ++ [t]
      | none => wsSplit ws s
    match toks with
    | [] => some (pre0, none, [])
    | c :: args => some (pre0, some c, args)

end Irc
end CV

namespace CV
namespace Irc

/-- Python's `str.isspace` on single code points (the separators `str.split()` uses) -/
def pyIsSpace (c : Char) : Bool :=
  let n := c.toNat
  (9 ≤ n && n ≤ 13) || (28 ≤ n && n ≤ 32) || n == 0x85 || n == 0xa0 || n == 0x1680
  || (0x2000 ≤ n && n ≤ 0x200a) || n == 0x2028 || n == 0x2029 || n == 0x202f
  || n == 0x205f || n == 0x3000

/-- decidable form of "exactly one CRLF-terminated line": the spec evaluated on wire text -/
def oneLine (w : Str) : Bool :=
  match w.reverse with
  | '\n' :: '\r' :: rest => !(rest.any (fun c => c == '\r' || c == '\n'))
  | _ => false

end Irc
end CV

namespace CV
namespace Irc

/-! ### well-formedness for the round trip, and the constructor table -/

/-- a middle token survives `split()`: non-empty, no whitespace, no leading colon -/
def tokOk (ws : Char → Bool) (a : Str) : Bool :=
  !a.isEmpty && !(a.any ws) && a.head? != some ':'

/-- the final argument: non-empty, no leading colon, and whitespace only if it also has a
    space (then it travels as the trailing parameter) -/
def lastOk (ws : Char → Bool) (a : Str) : Bool :=
  !a.isEmpty && a.head? != some ':' && (a.contains ' ' || !(a.any ws))

def wellFormed (ws : Char → Bool) (m : Msg) : Bool :=
  (match m.pfx with | none => true | some p => !(p.contains ' '))
  && (match m.command with | none => false | some c => tokOk ws c)
  && m.args.dropLast.all (tokOk ws)
  && (match m.args.getLast? with | none => true | some a => lastOk ws a)

/-- what a correct parse of the rendered line returns (raw prefix; `parseprefix` is applied
    on both sides by the caller) -/
def expectedParse (m : Msg) : Str × Option Str × List Str :=
  (m.pfx.getD [], m.command, m.args)

/-- `circuits/protocols/irc/commands.py`: every constructor is
    `Message(<its own name>, *arguments in wire order)`, `None` arguments dropped.
    The wire order differs from the Python parameter order only for WHOIS
    (`WHOIS [<server>] <nickmask>`, RFC 1459 4.5.2). -/
def construct (name : Str) (args : List (Option Str)) : Msg :=
  let args := if name = "WHOIS".toList then
      match args with
      | [n, s] => [s, n]
      | other => other
    else args
  ⟨none, some name, args.filterMap id⟩

end Irc
end CV

import CV.Model.Basic
/-
Value layer with nested Values - an executable model of `circuits/core/values.py` as it is.

    class Value:
        def __init__(self, event=None, manager=None):
            self.event = event; self.manager = manager
            self.notify = False; self.promise = False
            self.result = False; self.errors = False
            self.parent = self; self.handled = False
            self._value = None

        def inform(self, force=False):
            if self.promise and not force:
                return
            notify = getattr(self.event, 'notify', False) or self.notify
            if self.manager is not None and notify:
                e = Event.create(notify, self) if isinstance(notify, str) else self.event.child('value_changed', self)
                self.manager.fire(e, self.manager)

        def getValue(self, recursive=True):
            value = self._value
            if not recursive:
                return value
            while isinstance(value, Value):
                value = value._value
            return value

        def setValue(self, value):
            if isinstance(value, Value):
                value.parent = self
            held = self.result or self._value is not None
            if held and isinstance(self._value, list):
                self._value.append(value)
            elif held:
                self._value = [self._value]
                self._value.append(value)
            else:
                self._value = value

            def update(o, v):
                if isinstance(v, Value):
                    o.errors = o.errors or v.errors
                    o.result = o.result or v.result
                elif v is not None:
                    o.result = True
                    o.inform()
                if o.parent is not o:
                    o.parent.errors = o.parent.errors or o.errors
                    o.parent.result = o.parent.result or o.result
                    update(o.parent, v)
            update(self, value)

(as repaired by the `fix:` commit of this extension: `held` instead of `self.result` in the storing branches, `or` instead of
plain copies of the flags - before it, a result stored after a still unresolved nested Value replaced it and the flags of a
nested Value cleared `errors`/`result` already set.)
Modelled: a store of cells (index = identity of the Value object); Python values stored are `None`, an atom (a non-list,
non-Value object, numbered), or a Value (reference to a cell); `_value` is one such thing or a Python list of them.
`update` recurses up the parent chain; Python ends a walk round a parent cycle with RecursionError - the model walks with
fuel `n + 1` (n = number of cells; enough for every acyclic chain) and sets `crashed` when it runs out.  `getValue(True)` on
a cycle of single references loops for ever in Python: `getValue` answers `none` for that.
Not modelled: atoms that are Python lists (a handler returning a list object makes `isinstance(self._value, list)` true);
cells without an event whose own `notify` is set (`self.event.child` raises AttributeError).
-/
namespace CV.VT

inductive Arg where
  | none
  | lit (n : Nat)
  | ref (c : Nat)
  deriving DecidableEq, Repr, Inhabited

inductive Stored where
  | one (a : Arg)
  | many (l : List Arg)
  deriving DecidableEq, Repr, Inhabited

/-- `notify` attribute: False, True or an event name (numbered) -/
inductive Ntf where
  | off
  | on
  | named (k : Nat)
  deriving DecidableEq, Repr, Inhabited

/-- Python `a or b` on notify values -/
def Ntf.orElse : Ntf → Ntf → Ntf
  | .off, b => b
  | a, _ => a

structure Cell where
  value : Stored := .one .none
  result : Bool := false
  errors : Bool := false
  promise : Bool := false
  parent : Nat := 0
  notify : Ntf := .off
  evNotify : Ntf := .off
  hasMgr : Bool := true
  deriving DecidableEq, Repr, Inhabited

/-- what the manager is asked to fire: `<event>_value_changed(value c)` or the named event `k` with `value c` -/
inductive Note where
  | changed (c : Nat)
  | named (k c : Nat)
  deriving DecidableEq, Repr, Inhabited

def Note.cell : Note → Nat
  | .changed c => c
  | .named _ c => c

structure St where
  cells : Nat → Cell := fun i => { parent := i }
  n : Nat := 0
  /-- newest first -/
  log : List Note := []
  crashed : Bool := false

def St.upd (s : St) (i : Nat) (f : Cell → Cell) : St :=
  { s with cells := fun j => if j = i then f (s.cells j) else s.cells j }

/-- `Value(event, manager)`: the next untouched cell of the store (cells from `n` on are in their initial state as long as
    operations only address created cells - the driver refuses anything else) gets its event / manager attributes -/
def newCell (s : St) (notify evNotify : Ntf) (hasMgr : Bool) : St :=
  { s.upd s.n (fun x => { x with notify := notify, evNotify := evNotify, hasMgr := hasMgr }) with n := s.n + 1 }

def inform (s : St) (c : Nat) (force : Bool) : St :=
  let x := s.cells c
  if x.promise && !force then s
  else if !x.hasMgr then s
  else match x.evNotify.orElse x.notify with
    | .off => s
    | .on => { s with log := .changed c :: s.log }
    | .named k => { s with log := .named k c :: s.log }

/-- the three storing branches of `setValue` -/
def held (x : Cell) : Bool := x.result || x.value != .one .none

def storeArg (x : Cell) (a : Arg) : Stored :=
  if held x then
    match x.value with
    | .many l => .many (l ++ [a])
    | .one b => .many [b, a]
  else .one a

/-- the first half of `update(o, v)` -/
def touch (s : St) (o : Nat) : Arg → St
  | .ref d => s.upd o (fun x => { x with errors := x.errors || (s.cells d).errors, result := x.result || (s.cells d).result })
  | .none => s
  | .lit _ => inform (s.upd o (fun x => { x with result := true })) o false

/-- `o.parent.errors = o.parent.errors or o.errors; o.parent.result = o.parent.result or o.result` -/
def liftFlags (s : St) (o : Nat) : St :=
  s.upd (s.cells o).parent (fun x => { x with errors := x.errors || (s.cells o).errors, result := x.result || (s.cells o).result })

def update : Nat → St → Nat → Arg → St
  | 0, s, _, _ => { s with crashed := true }
  | fuel + 1, s, o, v =>
    if ((touch s o v).cells o).parent = o then touch s o v
    else update fuel (liftFlags (touch s o v) o) ((touch s o v).cells o).parent v

def setParent (s : St) (c : Nat) : Arg → St
  | .ref d => s.upd d (fun x => { x with parent := c })
  | _ => s

def setValue (s : St) (c : Nat) (a : Arg) : St :=
  let s0 := setParent s c a
  let s1 := s0.upd c (fun x => { x with value := storeArg x a })
  update (s.n + 1) s1 c a

def getRec : Nat → St → Stored → Option Stored
  | 0, _, _ => none
  | f + 1, s, .one (.ref d) => getRec f s (s.cells d).value
  | _ + 1, _, v => some v

/-- `getValue(recursive)`; `none` = the `while` loop never ends -/
def getValue (s : St) (c : Nat) (recursive : Bool) : Option Stored :=
  if recursive then getRec (s.n + 1) s (s.cells c).value else some (s.cells c).value

/-- plain attribute writes done by the manager (`value.errors = True`, `value.promise = True`, `value.notify = ...`) -/
def setErrors (s : St) (c : Nat) (b : Bool) : St := s.upd c (fun x => { x with errors := b })
def setPromise (s : St) (c : Nat) (b : Bool) : St := s.upd c (fun x => { x with promise := b })
def setNotify (s : St) (c : Nat) (t : Ntf) : St := s.upd c (fun x => { x with notify := t })

/-- setting a sequence of values on one cell -/
def setAll (s : St) (c : Nat) : List Arg → St
  | [] => s
  | a :: as => setAll (setValue s c a) c as

/-- operations of a session (what the harness drives) -/
inductive Op where
  | new (notify evNotify : Ntf) (hasMgr : Bool)
  | set (c : Nat) (a : Arg)
  | errors (c : Nat) (b : Bool)
  | promise (c : Nat) (b : Bool)
  | notify (c : Nat) (t : Ntf)
  | inform (c : Nat) (force : Bool)
  deriving Repr, Inhabited

def Op.apply (s : St) : Op → St
  | .new a b m => newCell s a b m
  | .set c a => setValue s c a
  | .errors c b => setErrors s c b
  | .promise c b => setPromise s c b
  | .notify c t => setNotify s c t
  | .inform c f => CV.VT.inform s c f

def runOps (s : St) : List Op → St
  | [] => s
  | o :: os => runOps (o.apply s) os

end CV.VT

import CV.Model.Conn
/-
C12, stated independently of how the server is written: a decidable predicate over what an
observer sees (`Conn.Obs`): the `connect/read/disconnect/error` events per socket, the `recv`
results per socket, and the tables after every op.  The observer keeps one automaton state per
socket and the received-but-not-yet-reported chunks; nothing of the server's algorithm.

  idle --connect--> conn --read*/error*--> conn --disconnect--> gone      (nothing after `gone`)
  idle --error--> rej                       (a connection refused before it was ever announced;
                                             nothing after `rej`)

  * every `read o d` is the oldest chunk `recv` delivered on `o` that was not yet reported, and
    when the tables are inspected (end of an op) no delivered chunk is still unreported
    (order, no loss, no duplication);
  * at every inspection: a socket that appears in any table of the server or the poller
    (`_clients`, `_buffers`, `_closeq`, `_read`, `_write`, `_targets`, `_map`) is in phase `conn`
    ("after the disconnect, no trace"; also nothing is retained for a refused connection), and a
    socket that is closed is in phase `gone` (no connection is dropped without `disconnect`).
-/
namespace CV
namespace Conn
open Poller (Obj upd)

inductive Phase | idle | conn | gone | rej
deriving DecidableEq, Repr

structure Spec where
  ph : Obj → Phase := fun _ => .idle
  pend : List (Obj × Bytes) := []        -- chunks recv() delivered, not yet seen in a `read`

/-- first pending chunk of `o`, and the list without it -/
def popPend (o : Obj) : List (Obj × Bytes) → Option (Bytes × List (Obj × Bytes))
  | [] => none
  | (o', d) :: rest =>
    if o' = o then some (d, rest)
    else match popPend o rest with
      | some (d', rest') => some (d', (o', d) :: rest')
      | none => none

def tableBits (fl : Nat) : Nat := fl % 128
def closedBit (fl : Nat) : Bool := decide (128 ≤ fl % 256)

/-- name of the first table (lowest flag) a row mentions -/
def firstTable (fl : Nat) : String :=
  if fl % 2 = 1 then "clients" else if fl / 2 % 2 = 1 then "buffers" else if fl / 4 % 2 = 1 then "closeq"
  else if fl / 8 % 2 = 1 then "poller-read" else if fl / 16 % 2 = 1 then "poller-write"
  else if fl / 32 % 2 = 1 then "poller-targets" else "poller-map"

def rowFail (σ : Spec) (row : Obj × Nat) : Option String :=
  if tableBits row.2 ≠ 0 ∧ σ.ph row.1 ≠ .conn then
    some ("leak " ++ firstTable row.2 ++ (if σ.ph row.1 = .gone then " after-disconnect" else " never-connected"))
  else if closedBit row.2 ∧ σ.ph row.1 = .conn then some "closed-without-disconnect"
  else if closedBit row.2 ∧ σ.ph row.1 = .idle then some "closed-silently"
  else none

/-- why an observation is not allowed (`none` = allowed) -/
def obsFail (σ : Spec) : Obs → Option String
  | .connect o =>
    match σ.ph o with
    | .idle => none
    | .conn => some "double-connect"
    | .gone => some "event-after-disconnect"
    | .rej => some "event-after-refusal"
  | .read o d =>
    match σ.ph o with
    | .idle => some "read-before-connect"
    | .gone => some "event-after-disconnect"
    | .rej => some "event-after-refusal"
    | .conn =>
      match popPend o σ.pend with
      | some (d', _) => if d' = d then none else some "read-reorder"
      | none => some "read-dup"
  | .disconnect o =>
    match σ.ph o with
    | .idle => some "disconnect-without-connect"
    | .rej => some "disconnect-without-connect"
    | .conn => none
    | .gone => some "double-disconnect"
  | .error o =>
    match σ.ph o with
    | .gone => some "event-after-disconnect"
    | .rej => some "event-after-refusal"
    | _ => none
  | .tab rows =>
    if σ.pend ≠ [] then some "read-loss" else rows.findSome? (rowFail σ)
  | _ => none

def Spec.advance (σ : Spec) : Obs → Spec
  | .connect o => { σ with ph := upd σ.ph o .conn }
  | .read o _ =>
    match popPend o σ.pend with
    | some (_, rest) => { σ with pend := rest }
    | none => σ
  | .disconnect o => { σ with ph := upd σ.ph o .gone }
  | .error o => if σ.ph o = .idle then { σ with ph := upd σ.ph o .rej } else σ
  | .recvd o (.data (b :: d)) => { σ with pend := σ.pend ++ [(o, b :: d)] }
  | _ => σ

/-- first failing observation of a stream -/
def specFail (σ : Spec) : List Obs → Option String
  | [] => none
  | x :: rest =>
    match obsFail σ x with
    | some c => some c
    | none => specFail (σ.advance x) rest

def specTrace (t : List Obs) : Bool := (specFail {} t).isNone

/-! ### client: `connected` and `disconnected` alternate, starting with `connected` -/
namespace Client

def alternates : Bool → List Ev → Bool
  | _, [] => true
  | up, .connected :: rest => !up && alternates true rest
  | up, .disconnected :: rest => up && alternates false rest
  | up, _ :: rest => alternates up rest

def count (e : Ev) (t : List Ev) : Nat := (t.filter (· = e)).length

/-- histories in which `connect` is only issued while the client is not connected -/
def noReconnect (s : State) : List Op → Bool
  | [] => true
  | op :: rest =>
    (match op with
      | .connect .ok => !s.connected
      | _ => true) && noReconnect (step s op).1 rest

end Client

end Conn
end CV

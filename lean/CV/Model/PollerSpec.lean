import CV.Model.Poller
/-
C10, stated independently of how any poller is written: a decidable predicate over what an
observer sees — the sequence of operations and, for every poll round, the events fired.

The observer keeps only the *abstract* registration: how often a descriptor is currently
registered for reading / writing (`add` counts up, `remove` counts down, `discard` and an
observed `_disconnect` reset), who registered it last, and which objects are open.
Nothing of `_read`/`_write` lists, `_map`, masks or the kernel object appears here.

For every round (`roundOk`):
  sound     every `_read o` (`_write o`) concerns an `o` that is registered for reading (writing),
            open, and readable (writable) by its own file's readiness — not the readiness of
            whoever holds its old number —, and is addressed to the registrant's channel;
            a `_disconnect o` concerns a registered `o` that is closed or hung-up/in error and has
            no input pending for a reader.   (⇒ discarded / closed descriptors stay silent, also
            after their number is reused.)
  complete  every open `o` registered for reading with input pending gets `_read o`; readable only
            through HUP/ERR: `_read o` or `_disconnect o`; registered for writing and writable:
            `_write o` (or `_disconnect o` when hung up).  One exemption: a round at whose start
            a registered descriptor is closed and has not yet been through a round may report
            nothing about the others (`blind`; select's EBADF round) — level-triggered readiness
            is reported by the next round.
-/
namespace CV
namespace Poller

structure Spec where
  regR : Obj → Nat
  regW : Obj → Nat
  tgt : Obj → Option Chan
  pend : List Obj            -- closed while registered / registered while closed, no round since
  w : World

def Spec.init : Spec := ⟨fun _ => 0, fun _ => 0, fun _ => none, [], World.init⟩

def Spec.registered (σ : Spec) (o : Obj) : Bool := decide (0 < σ.regR o) || decide (0 < σ.regW o)

def Spec.discard (σ : Spec) (o : Obj) : Spec :=
  { σ with regR := upd σ.regR o 0, regW := upd σ.regW o 0, tgt := upd σ.tgt o none }

def Spec.dropTgt (σ : Spec) (o : Obj) : Spec :=
  if σ.registered o then σ else { σ with tgt := upd σ.tgt o none }

def Spec.notePend (σ : Spec) (o : Obj) : Spec :=
  if (σ.w.fno o).isNone && σ.registered o then { σ with pend := o :: σ.pend } else σ

/-- is the operation possible at all (same rule as the model: the environment decides) -/
def Spec.valid (σ : Spec) : Op → Bool
  | .addReader o _ | .addWriter o _ | .removeReader o | .removeWriter o | .discard o => σ.w.known o
  | .opn o f => σ.w.canOpen o f
  | .close o => (σ.w.fno o).isSome
  | .poll fs _ => decide fs.Nodup

def eventsOf : Out → List Event
  | .events es => es
  | _ => []

def disconnected (es : List Event) : List Obj :=
  (es.filter (fun e => e.kind = .disconnect)).map (·.obj)

/-- abstract registration after an observed operation -/
def Spec.advance (σ : Spec) (op : Op) (out : Out) : Spec :=
  if σ.valid op then
    match op with
    | .addReader o c => ({ σ with regR := upd σ.regR o (σ.regR o + 1), tgt := upd σ.tgt o (some c) }).notePend o
    | .addWriter o c => ({ σ with regW := upd σ.regW o (σ.regW o + 1), tgt := upd σ.tgt o (some c) }).notePend o
    | .removeReader o => ({ σ with regR := upd σ.regR o (σ.regR o - 1) }).dropTgt o
    | .removeWriter o => ({ σ with regW := upd σ.regW o (σ.regW o - 1) }).dropTgt o
    | .discard o => σ.discard o
    | .opn o f => { σ with w := σ.w.opn o f }
    | .close o =>
      match σ.w.fno o with
      | some f => ({ σ with w := σ.w.close o f }).notePend o
      | none => σ
    | .poll _ _ => (disconnected (eventsOf out)).foldl Spec.discard { σ with pend := [] }
  else σ

/-! ### the per-round predicate -/

/-- why an event is not allowed (`none` = allowed) -/
def evFail (σ : Spec) (rd : Nat → Bits) (e : Event) : Option String :=
  let o := e.obj
  if !σ.registered o then some "event-after-discard"
  else if e.chan ≠ σ.tgt o ∨ (σ.tgt o).isNone then some "wrong-target"
  else match e.kind, σ.w.fno o with
    | .read, none | .write, none => some "event-on-closed"
    | .read, some f =>
      if σ.regR o = 0 then some "spurious-event" else
      if selReadable (rd f) then none else some "spurious-event"
    | .write, some f =>
      if σ.regW o = 0 then some "spurious-event" else
      if selWritable (rd f) then none else some "spurious-event"
    | .disconnect, none => none
    | .disconnect, some f =>
      if !((rd f).hup || (rd f).err) then some "spurious-disconnect"
      else if 0 < σ.regR o ∧ (rd f).inn then some "disconnect-loses-data" else none

def has (k : EvKind) (o : Obj) (es : List Event) : Bool :=
  es.any (fun e => e.kind = k && e.obj = o)

def Spec.blind (σ : Spec) : Bool := σ.pend.any σ.registered

/-- what must be reported about the open file with number `f` -/
def complFail (σ : Spec) (rd : Nat → Bits) (es : List Event) (f : Nat) : Option String :=
  match σ.w.owner f with
  | none => none
  | some o =>
    let b := rd f
    if 0 < σ.regR o ∧ b.inn ∧ !has .read o es then some "missing-event"
    else if 0 < σ.regR o ∧ selReadable b ∧ !(has .read o es || has .disconnect o es) then some "missing-event"
    else if 0 < σ.regW o ∧ b.out ∧ !b.hup ∧ !b.err ∧ !has .write o es then some "missing-event"
    else if 0 < σ.regW o ∧ b.out ∧ !(has .write o es || has .disconnect o es) then some "missing-event"
    else none

def roundFail (σ : Spec) (fs : List Nat) (rd : Nat → Bits) (es : List Event) : Option String :=
  match es.findSome? (evFail σ rd) with
  | some c => some c
  | none => if σ.blind then none else fs.findSome? (complFail σ rd es)

def roundOk (σ : Spec) (fs : List Nat) (rd : Nat → Bits) (es : List Event) : Bool :=
  (roundFail σ fs rd es).isNone

/-- check one observation in abstract state `σ` -/
def obsOk (σ : Spec) (op : Op) (out : Out) : Bool :=
  match op with
  | .poll fs rd => if σ.valid op then roundOk σ fs rd (eventsOf out) else true
  | _ => true

/-- the whole observation stream -/
def specFrom (σ : Spec) : List (Op × Out) → Bool
  | [] => true
  | (op, out) :: rest => obsOk σ op out && specFrom (σ.advance op out) rest

def specTrace (t : List (Op × Out)) : Bool := specFrom Spec.init t

/-! ### "clean" histories (only a histogram in the evidence: how many rounds were of the plain kind):
    nobody hangs up, nothing is closed while registered or registered while closed, every round asks
    about every open file.  The interchangeability statement itself is `agreeObs`/`agreeFrom` in
    CV/Proofs/PollerAgree.lean. -/

structure CleanSt where
  σ : Spec
  objs : List Obj

def CleanSt.init : CleanSt := ⟨Spec.init, []⟩

def cleanOp (c : CleanSt) : Op → Bool
  | .addReader o _ | .addWriter o _ => !c.σ.w.known o || (c.σ.w.fno o).isSome
  | .close o => !c.σ.registered o
  | .poll fs rd =>
    !decide fs.Nodup ||
    (c.objs.all (fun o => match c.σ.w.fno o with
        | some f => decide (f ∈ fs) && !(rd f).hup && !(rd f).err
        | none => true))
  | _ => true

def cleanFrom (c : CleanSt) : List Op → Bool
  | [] => true
  | op :: rest =>
    cleanOp c op &&
    cleanFrom ⟨c.σ.advance op (.events []),
               match op with
               | .opn o _ => if c.σ.valid op then o :: c.objs else c.objs
               | _ => c.objs⟩ rest

def clean (ops : List Op) : Bool := cleanFrom CleanSt.init ops

end Poller
end CV

import CV.Model.Auth
/-
The statement of C20 (authentication part) as decidable predicates, written from
RFC 2617 and the property text, not from the control flow of `check_auth`:

  credsOf     the credentials an Authorization value carries (scheme SP parameters)
  Verifies    "these credentials verify against table entry (u, p) for this realm / method"
  soundOn     a request that was let through carries credentials verifying against an entry
  completeOn  well-formed credentials verifying against the entry of their user are accepted

`soundOn` / `completeOn` take the *observed* behaviour as an argument: the driver evaluates
them on what the implementation did (spec on impl); CV/Props/C20.lean proves them of every
run of the model.
-/
namespace CV
namespace Auth

/-- the credentials an Authorization value carries; none = it carries none that can be read -/
def credsOf (L : Leaves) (cred : Str) : Option AuthMap :=
  match splitFirst ' ' cred with
  | none => none
  | some (sch, params) =>
    match schemeOf sch with
    | none => none
    | some .basic =>
      match L.b64 params with
      | none => none
      | some bytes =>
        match splitFirst (58 : UInt8) bytes with
        | none => none
        | some (u, p) =>
          match L.utf8 u, L.utf8 p with
          | some u, some p => some (.basic u p)
          | _, _ => none
    | some .digest => (L.kv params).map AuthMap.digest

/-- field of a Digest credential, empty when absent -/
def fld (kv : KV) (k : String) : Str := (get kv k).getD []

/-- RFC 2617 3.2.2 request-digest for user `u` with password `p`, qop absent or `auth` -/
def rfcResponse (H : Str → Str) (kv : KV) (u p realm method : Str) : Str :=
  let base := colon u (colon realm p)
  let a1 := if get kv "algorithm" = some MD5sess
            then colon (H base) (colon (fld kv "nonce") (fld kv "cnonce")) else base
  let hA2 := H (colon method (fld kv "uri"))
  let data := match get kv "qop" with
    | none => colon (fld kv "nonce") hA2
    | some q => colon (fld kv "nonce") (colon (fld kv "nc") (colon (fld kv "cnonce") (colon q hA2)))
  H (colon (H a1) data)

/-- the algorithm / qop combinations this server implements -/
def supported (kv : KV) : Bool :=
  (get kv "algorithm" = none || get kv "algorithm" = some MD5 || get kv "algorithm" = some MD5sess)
  && (get kv "qop" = none || get kv "qop" = some qAuth)

/-- the credentials verify against table entry `(u, p)` for `realm` (and `method`) -/
def Verifies (H : Str → Str) (enc : Enc) (c : AuthMap) (u p realm method : Str) : Bool :=
  match c with
  | .basic user pw => user == u && encApply H enc pw u == some p
  | .digest kv =>
    get kv "username" == some u && get kv "realm" == some realm && supported kv
    && get kv "response" == some (rfcResponse H kv u p realm method)

/-- some entry of the table verifies the credentials carried by the header -/
def verifiedBy (L : Leaves) (enc : Enc) (realm method : Str) (users : List (Str × Str))
    (hdr : Option Str) : Bool :=
  match hdr with
  | none => false
  | some cred =>
    match credsOf L cred with
    | none => false
    | some c => users.any (fun e => Verifies L.H enc c e.1 e.2 realm method)

/-- soundness on an observed decision: `granted` = the request obtained the protected result
    (check_auth returned something truthy / basic_auth / digest_auth returned None) -/
def soundOn (L : Leaves) (enc : Enc) (realm method : Str) (users : List (Str × Str))
    (hdr : Option Str) (granted : Bool) : Bool :=
  !granted || verifiedBy L enc realm method users hdr

/-- a Digest credential complete enough for the server to evaluate it -/
def wellFormedKV (kv : KV) : Bool :=
  required.all (hasKey kv) && supported kv
  && (hasKey kv "qop" == (hasKey kv "cnonce" && hasKey kv "nc"))
  && (hasKey kv "qop" == (hasKey kv "cnonce" || hasKey kv "nc"))
  && !(hasKey kv "auth_scheme")
  && (get kv "algorithm" != some MD5sess || hasKey kv "cnonce")

def wellFormed (enc : Enc) : AuthMap → Bool
  | .basic _ _ => enc != .dflt
  | .digest kv => wellFormedKV kv

/-- the user the header must be logged in as: well-formed credentials that verify against
    the table entry of their own user name -/
def mustAccept (L : Leaves) (enc : Enc) (realm method : Str) (users : List (Str × Str))
    (hdr : Option Str) : Option Str :=
  match hdr with
  | none => none
  | some cred =>
    match credsOf L cred with
    | none => none
    | some c =>
      match users.lookup c.username with
      | none => none
      | some p =>
        if wellFormed enc c && Verifies L.H enc c c.username p realm method then some c.username
        else none

/-- completeness on an observed decision (`login` = request.login when True was returned) -/
def completeOn (L : Leaves) (enc : Enc) (realm method : Str) (users : List (Str × Str))
    (hdr : Option Str) (login : Option Str) : Bool :=
  match mustAccept L enc realm method users hdr with
  | none => true
  | some u => login == some u

end Auth
end CV

import CV.Model.Basic
/-
MD5 (RFC 1321) over byte lists, and its lower-case hex digest.

This is NOT part of what is proved: every C20 theorem quantifies over an arbitrary
`H : Str → Str`.  The function here is only the *instantiation* the driver uses so that the
model and the spec predicates can be evaluated on concrete inputs; that it equals
`hashlib.md5(..).hexdigest()` is validated by the correspondence check on every run
(`md5 <hex>` op: RFC test vectors, block-boundary lengths, random strings).
-/
namespace CV
namespace Md5

def sTab : Array Nat := #[
  7, 12, 17, 22, 7, 12, 17, 22, 7, 12, 17, 22, 7, 12, 17, 22,
  5, 9, 14, 20, 5, 9, 14, 20, 5, 9, 14, 20, 5, 9, 14, 20,
  4, 11, 16, 23, 4, 11, 16, 23, 4, 11, 16, 23, 4, 11, 16, 23,
  6, 10, 15, 21, 6, 10, 15, 21, 6, 10, 15, 21, 6, 10, 15, 21]

def kTab : Array UInt32 := #[
  0xd76aa478, 0xe8c7b756, 0x242070db, 0xc1bdceee, 0xf57c0faf, 0x4787c62a, 0xa8304613, 0xfd469501,
  0x698098d8, 0x8b44f7af, 0xffff5bb1, 0x895cd7be, 0x6b901122, 0xfd987193, 0xa679438e, 0x49b40821,
  0xf61e2562, 0xc040b340, 0x265e5a51, 0xe9b6c7aa, 0xd62f105d, 0x02441453, 0xd8a1e681, 0xe7d3fbc8,
  0x21e1cde6, 0xc33707d6, 0xf4d50d87, 0x455a14ed, 0xa9e3e905, 0xfcefa3f8, 0x676f02d9, 0x8d2a4c8a,
  0xfffa3942, 0x8771f681, 0x6d9d6122, 0xfde5380c, 0xa4beea44, 0x4bdecfa9, 0xf6bb4b60, 0xbebfbc70,
  0x289b7ec6, 0xeaa127fa, 0xd4ef3085, 0x04881d05, 0xd9d4d039, 0xe6db99e5, 0x1fa27cf8, 0xc4ac5665,
  0xf4292244, 0x432aff97, 0xab9423a7, 0xfc93a039, 0x655b59c3, 0x8f0ccc92, 0xffeff47d, 0x85845dd1,
  0x6fa87e4f, 0xfe2ce6e0, 0xa3014314, 0x4e0811a1, 0xf7537e82, 0xbd3af235, 0x2ad7d2bb, 0xeb86d391]

def rotl (x : UInt32) (n : Nat) : UInt32 :=
  (x <<< (UInt32.ofNat n)) ||| (x >>> (UInt32.ofNat (32 - n)))

/-- little-endian bytes of a 64-bit length -/
def le64 (n : Nat) : Bytes := (List.range 8).map (fun i => UInt8.ofNat ((n / 256 ^ i) % 256))

def pad (m : Bytes) : Bytes :=
  let l := m.length
  let z := (55 + 64 - l % 64) % 64
  m ++ [0x80] ++ List.replicate z 0 ++ le64 (8 * l)

def word (b0 b1 b2 b3 : UInt8) : UInt32 :=
  b0.toUInt32 ||| (b1.toUInt32 <<< 8) ||| (b2.toUInt32 <<< 16) ||| (b3.toUInt32 <<< 24)

def words : Bytes → List UInt32
  | b0 :: b1 :: b2 :: b3 :: rest => word b0 b1 b2 b3 :: words rest
  | _ => []

structure St where
  a : UInt32
  b : UInt32
  c : UInt32
  d : UInt32

def round (m : Array UInt32) (s : St) (i : Nat) : St :=
  let (f, g) :=
    if i < 16 then ((s.b &&& s.c) ||| (~~~ s.b &&& s.d), i)
    else if i < 32 then ((s.d &&& s.b) ||| (~~~ s.d &&& s.c), (5 * i + 1) % 16)
    else if i < 48 then (s.b ^^^ s.c ^^^ s.d, (3 * i + 5) % 16)
    else (s.c ^^^ (s.b ||| ~~~ s.d), (7 * i) % 16)
  let f := f + s.a + kTab[i]! + m[g]!
  ⟨s.d, s.b + rotl f sTab[i]!, s.b, s.c⟩

def block (s : St) (chunk : Bytes) : St :=
  let m := (words chunk).toArray
  let t := (List.range 64).foldl (round m) s
  ⟨s.a + t.a, s.b + t.b, s.c + t.c, s.d + t.d⟩

def blocks (fuel : Nat) (s : St) (data : Bytes) : St :=
  match fuel with
  | 0 => s
  | fuel + 1 => if data.isEmpty then s else blocks fuel (block s (data.take 64)) (data.drop 64)

def leBytes (w : UInt32) : Bytes :=
  [w.toUInt8, (w >>> 8).toUInt8, (w >>> 16).toUInt8, (w >>> 24).toUInt8]

def digest (m : Bytes) : Bytes :=
  let p := pad m
  let s := blocks (p.length / 64 + 1) ⟨0x67452301, 0xefcdab89, 0x98badcfe, 0x10325476⟩ p
  leBytes s.a ++ leBytes s.b ++ leBytes s.c ++ leBytes s.d

def hexDigit (n : Nat) : Char :=
  if n < 10 then Char.ofNat (48 + n) else Char.ofNat (87 + n)

def hexdigest (m : Bytes) : List Char :=
  (digest m).flatMap (fun b => [hexDigit (b.toNat / 16), hexDigit (b.toNat % 16)])

/-- `md5(s.encode('utf-8')).hexdigest()` on a Python `str` -/
def hexOfStr (s : List Char) : List Char :=
  hexdigest (String.ofList s).toUTF8.toList

end Md5
end CV

import CV.Model.Core.Pure
/-
Handler tables from class hierarchies (C01): the model of what a freshly constructed component
instance has in `_handlers` / `_globals`, as a function of the class statements that were executed.

Python mirrored (circuits/core/handlers.py, components.py, manager.py; CPython `type.__new__`):

  handler(*names, **kwargs)(f):  names[0] is False -> f.handler = False
                                 else f.handler = True; f.names = names; f.priority = kwargs.get('priority', 0)
                                      f.channel = kwargs.get('channel', None); f.override = kwargs.get('override', False)
  HandlerMetaClass.__init__(cls, name, bases, ns):           # metaclass of `Component` and of all its subclasses
      for name, callable in ns.items() if isinstance(callable, Callable):
          if not (name.startswith('_') or hasattr(callable, 'handler')):
              setattr(cls, name, handler(name)(callable))
  BaseComponent.__new__(cls):
      handlers = {k: v for k, v in cls.__dict__.items() if getattr(v, 'handler', False)}
      overridden = lambda x: x in handlers and handlers[x].override
      for base in cls.__bases__:                              # DIRECT bases only
          for k, v in base.__dict__.items():                  # the base's OWN dict only
              if callable(v) and getattr(v, 'handler', False) and not overridden(k):
                  setattr(self, f'{base.__name__}_{k}', MethodType(v, self))
  BaseComponent.__init__(self):
      self.channel = kwargs.get('channel', self.channel) or '*'
      for _k, v in getmembers(self):                          # dir(self): one entry per attribute NAME;
          if getattr(v, 'handler', False) is True:            # getattr: instance dict first, then the MRO
              self.addHandler(v)
  Manager.addHandler(f):  no names and channel '*' -> _globals ; no names -> _handlers['*'] ;
                          else _handlers[name] for each name        (sets of bound methods: two bound methods
                          of one function on one instance are equal, so a function is installed once)
  class statement: C3 linearisation (`mro_internal` / `pmerge` in Objects/typeobject.c), TypeError when it fails.

Class statements are data (`ClassDecl`); `Classes` is the list of statements in execution order.  The two
library classes `BaseComponent` and `Component` (= `HandlerMetaClass('Component', (BaseComponent,), {})`)
are pre-declared; `Manager` / `object` behind them carry no handlers and are left out of the MROs (they are
the common tail of every linearisation in the same order, so leaving them out changes no merge).
Core Lean only (the driver links this file).
-/
namespace CV.ClassTable
open CV.Core

/-- Python `str` -/
abbrev Str := List Char

/-- what `@handler(...)` stores on the function -/
structure HInfo where
  names : List Str
  prio : Int := 0
  chan : Option Str := none
  override : Bool := false
  deriving DecidableEq, Repr

/-- one entry of a class body -/
inductive MKind
  | handler (i : HInfo)   -- `@handler(*names, priority=…, channel=…, override=…) def m(self…)`
  | plain                 -- `def m(self…)` undecorated (also the underscore methods: the name decides)
  | noHandler             -- `@handler(False) def m(self…)`
  | data                  -- `m = <something not callable>`
  deriving DecidableEq, Repr

structure Member where
  name : Str
  kind : MKind
  deriving DecidableEq, Repr

/-- `class name(bases): channel = chan; members…` -/
structure ClassDecl where
  name : Str
  bases : List Str
  chan : Option Str := none
  members : List Member
  deriving DecidableEq, Repr

abbrev Classes := List ClassDecl

def bcName : Str := "BaseComponent".toList
def compName : Str := "Component".toList
def star : Str := ['*']

/-! ### C3 linearisation -/

/-- first sequence head that is in the tail of no sequence (`pmerge`: candidates in order) -/
def pickHead (seqs : List (List Str)) : List (List Str) → Option Str
  | [] => none
  | [] :: rest => pickHead seqs rest
  | (h :: _) :: rest => if seqs.any (fun t => t.tail.contains h) then pickHead seqs rest else some h

/-- advance a sequence whose head is `h` -/
def dropHead (h : Str) : List Str → List Str
  | [] => []
  | x :: t => if x == h then t else x :: t

/-- `pmerge`; fuel = total length of the sequences -/
def merge : Nat → List (List Str) → Option (List Str)
  | 0, seqs => if seqs.all (·.isEmpty) then some [] else none
  | fuel + 1, seqs =>
    if seqs.all (·.isEmpty) then some []
    else match pickHead seqs seqs with
      | none => none
      | some h => (merge fuel (seqs.map (dropHead h))).map (h :: ·)

abbrev MroTable := List (Str × List Str)

def builtinMros : MroTable := [(bcName, [bcName]), (compName, [compName, bcName])]

def totalLen (seqs : List (List Str)) : Nat := (seqs.map List.length).sum

/-- the MRO a class statement computes, `none` = the statement raises (unknown base, no base that is
    a component class, name already bound - the harness never rebinds -, or no consistent MRO) -/
def mroFor (acc : MroTable) (d : ClassDecl) : Option (List Str) :=
  if (acc.lookup d.name).isSome || d.bases.isEmpty then none
  else match d.bases.mapM (acc.lookup ·) with
    | none => none
    | some ms => (merge (totalLen (ms ++ [d.bases])) (ms ++ [d.bases])).map (d.name :: ·)

/-- execute the class statements in order -/
def linearizeFrom (acc : MroTable) : Classes → Option MroTable
  | [] => some acc
  | d :: ds => match mroFor acc d with
    | none => none
    | some l => linearizeFrom (acc ++ [(d.name, l)]) ds

def linearize (cs : Classes) : Option MroTable := linearizeFrom builtinMros cs

/-- `C.__mro__` up to `BaseComponent`; `[]` when some class statement of `cs` is refused or `c` unknown -/
def mro (cs : Classes) (c : Str) : List Str := ((linearize cs).bind (·.lookup c)).getD []

/-! ### class dictionaries after the metaclass has run -/

def decl? (cs : Classes) (c : Str) : Option ClassDecl := cs.find? (·.name == c)

def basesOf (cs : Classes) (c : Str) : List Str := ((decl? cs c).map (·.bases)).getD []

/-- `type(C) is HandlerMetaClass`: `Component` is among the ancestors -/
def isMeta (cs : Classes) (c : Str) : Bool := (mro cs c).contains compName

/-- what the framework can see of a class attribute: `.handler is True` with its data / some other
    callable (`handler` attribute absent or `False`) / not callable -/
inductive Attr
  | handler (i : HInfo)
  | callable
  | data
  deriving DecidableEq, Repr

def underscore (k : Str) : Bool := k.head? == some '_'

/-- `handler(name)(f)` -/
def implicitInfo (k : Str) : HInfo := { names := [k] }

def attrOf (isMeta : Bool) (m : Member) : Attr :=
  match m.kind with
  | .handler i => .handler i
  | .plain => if isMeta && !underscore m.name then .handler (implicitInfo m.name) else .callable
  | .noHandler => .callable
  | .data => .data

/-- `C.__dict__` (user entries), in definition order -/
def ownDict (cs : Classes) (c : Str) : List (Str × Attr) :=
  match decl? cs c with
  | none => []
  | some d => d.members.map fun m => (m.name, attrOf (isMeta cs c) m)

def ownLookup (cs : Classes) (b k : Str) : Option Attr := (ownDict cs b).lookup k

/-- a function object: identified by the class body it was defined in and its name there -/
structure Fn where
  cls : Str
  meth : Str
  attr : Attr
  deriving DecidableEq, Repr

/-- attribute lookup on the type: first class of the MRO whose dict has the name -/
def classLookup (cs : Classes) : List Str → Str → Option Fn
  | [], _ => none
  | b :: bs, k => match ownLookup cs b k with
    | some a => some ⟨b, k, a⟩
    | none => classLookup cs bs k

/-! ### `BaseComponent.__new__` -/

/-- `x in handlers and handlers[x].override` -/
def overridden (cs : Classes) (c k : Str) : Bool :=
  match ownLookup cs c k with
  | some (.handler i) => i.override
  | _ => false

/-- `f'{base.__name__}_{k}'` -/
def copyName (b k : Str) : Str := b ++ '_' :: k

def copyOf (cs : Classes) (c b : Str) (p : Str × Attr) : Option (Str × Fn) :=
  match p.2 with
  | .handler _ => if overridden cs c p.1 then none else some (copyName b p.1, ⟨b, p.1, p.2⟩)
  | _ => none

/-- the `setattr(self, …)` calls of `__new__`, in execution order -/
def copies (cs : Classes) (c : Str) : List (Str × Fn) :=
  (basesOf cs c).flatMap fun b => (ownDict cs b).filterMap (copyOf cs c b)

/-- the instance dict after `__new__`: the last `setattr` of a name wins -/
def instLookup (w : List (Str × Fn)) (k : Str) : Option Fn := w.reverse.lookup k

/-! ### `BaseComponent.__init__` -/

/-- `getattr(self, k)` for the names this model knows: instance dict first (functions are non-data
    descriptors), then the type's MRO -/
def getAttr (cs : Classes) (c k : Str) : Option Fn :=
  match instLookup (copies cs c) k with
  | some f => some f
  | none => classLookup cs (mro cs c) k

/-- `dir(self)` restricted to what user classes contribute (with repetitions; order is irrelevant,
    `_handlers` buckets are sets) -/
def attrNames (cs : Classes) (c : Str) : List Str :=
  (copies cs c).map (·.1) ++ (mro cs c).flatMap fun b => (ownDict cs b).map (·.1)

/-- the values `getmembers(self)` yields -/
def memberFns (cs : Classes) (c : Str) : List Fn := (attrNames cs c).filterMap (getAttr cs c)

/-- one installed handler: the function (class body it comes from, name) and its declaration -/
structure HandlerRecord where
  cls : Str
  meth : Str
  names : List Str
  prio : Int
  chan : Option Str
  deriving DecidableEq, Repr

def mkRecord (b k : Str) (i : HInfo) : HandlerRecord :=
  { cls := b, meth := k, names := i.names, prio := i.prio, chan := i.chan }

def Fn.record? (f : Fn) : Option HandlerRecord :=
  match f.attr with
  | .handler i => some (mkRecord f.cls f.meth i)
  | _ => none

/-- the handlers `C()` installs on itself (each function once: `_handlers[...]` are sets and bound
    methods of one function on one instance are equal) -/
def effectiveHandlers (cs : Classes) (c : Str) : List HandlerRecord :=
  ((memberFns cs c).filterMap Fn.record?).eraseDups

/-- `self.channel = kwargs.get('channel', self.channel) or '*'` without a keyword argument -/
def instChannel (cs : Classes) (c : Str) : Str :=
  match (mro cs c).findSome? (fun b => (decl? cs b).bind (·.chan)) with
  | some ch => if ch.isEmpty then star else ch
  | none => star

/-- where `addHandler` puts a record -/
inductive Bucket
  | globals
  | catchAll
  | named (n : Str)
  deriving DecidableEq, Repr

def buckets (r : HandlerRecord) : List Bucket :=
  if r.names.isEmpty then (if r.chan == some star then [.globals] else [.catchAll])
  else r.names.map .named

/-! ### link to the matching layer (`CV.Core.collect`, the model of `Manager.getHandlers`) -/

/-- how strings become the identifiers of the core machine -/
structure Enc where
  name : Str → Name
  chan : Str → Nat

def Enc.toChan (E : Enc) (s : Str) : Chan := if s == star then .star else .named (E.chan s)

def toHandler (E : Enc) (owner : Nat) (r : HandlerRecord) : Handler :=
  { owner := owner, names := r.names.map E.name, chan := r.chan.map E.toChan, prio := r.prio, kind := .user 0 }

/-- `_handlers` rows for the record with handler id `h` -/
def htabRows (E : Enc) (r : HandlerRecord) (h : Nat) : List (HKey × Nat) :=
  if r.names.isEmpty then (if r.chan == some star then [] else [(none, h)])
  else r.names.map fun n => (some (E.name n), h)

def globalRows (r : HandlerRecord) (h : Nat) : List Nat :=
  if r.names.isEmpty && r.chan == some star then [h] else []

def tableOf (E : Enc) (base : Nat) : Nat → List HandlerRecord → List (HKey × Nat)
  | _, [] => []
  | i, r :: rs => htabRows E r (base + i) ++ tableOf E base (i + 1) rs

def globalsOf (base : Nat) : Nat → List HandlerRecord → List Nat
  | _, [] => []
  | i, r :: rs => globalRows r (base + i) ++ globalsOf base (i + 1) rs

/-- `C()` in state `s`: a new detached component (id `s.comps.length`) whose tables are the class-derived
    ones; the handler ids are `s.hs.length + i` for the `i`-th record of `effectiveHandlers cs c` -/
def newComponent (E : Enc) (cs : Classes) (c : Str) (s : St) : St :=
  let x := s.comps.length
  let recs := effectiveHandlers cs c
  { s with
    hs := s.hs ++ recs.map (toHandler E x),
    comps := s.comps ++ [{ parent := x, root := x, chan := E.toChan (instChannel cs c), dirty := true,
                           htab := tableOf E s.hs.length 0 recs, globals := globalsOf s.hs.length 0 recs }] }

/-- make `child` a child of `parent` (tree links only - what `collect` reads) -/
def attach (s : St) (child parent : Nat) : St :=
  (s.modComp parent fun x => { x with children := x.children ++ [child] }).modComp child
    fun x => { x with parent := parent, root := (s.comp parent).root }

end CV.ClassTable

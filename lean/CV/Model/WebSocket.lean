import CV.Model.Basic
/-
Model of circuits/protocols/websocket.py : class WebSocketCodec  (code as repaired by the
four `fix:` commits of C17: header/extended-length guards, control frames kept apart from
the pending fragments, no `return None` for a ping after the close was sent, handshake-time
data (`data=` of the constructor, used by web/websockets/client.py) decoded in the
`registered` handler - i.e. it is simply the first `feed`).

  def _parse_messages(self, data):
      msgs = []
      if self._close_received:
          return msgs
      data = self._buffer + data
      while data:
          if len(data) < 2:                                   # fix: guard
              self._buffer = data
              break
          final = bool(data[0] & 0x80 != 0)
          opcode = data[0] & 0xF
          masking = bool(data[1] & 0x80 != 0)
          payload_length = data[1] & 0x7F
          offset = 2
          if payload_length >= 126:
              payload_bytes = 2 if payload_length == 126 else 8
              if len(data) < offset + payload_bytes:          # fix: guard
                  self._buffer = data
                  break
              payload_length = 0
              for _ in range(payload_bytes):
                  payload_length = payload_length * 256 + data[offset]
                  offset += 1
          if masking:
              masking_key = data[offset : offset + 4]
              offset += 4
          if len(data) - offset < payload_length:             # Python ints: may be negative
              self._buffer = data
              break
          self._buffer = bytearray()
          msg = data[offset : offset + payload_length]
          if masking:
              msg[i] = c ^ masking_key[i % 4]   for every i
          offset += payload_length
          data = data[offset:]
          if opcode < 8:                                      # fix: data frames only
              msg = self._pending_payload + msg
          if final:
              if opcode < 8:
                  if opcode == 1 or (opcode == 0 and self._pending_type == 1):
                      msg = msg.decode('utf-8', 'replace')
                  self._pending_type = None
                  self._pending_payload = bytearray()
                  msgs.append(msg)
              elif opcode == 8:
                  self._close_received = True
                  self.fire(close(...))
                  break
              elif opcode == 9:
                  if not self._close_sent:                    # fix: was `return None`
                      self._write(b'\x8a' + self._encode_tail(msg, self._sock is None))
          else:
              self._pending_payload = msg
              if opcode != 0:
                  self._pending_type = opcode
      return msgs

  def _on_write(self, *args):
      if self._close_sent: return
      first = 0x80 ; first += 1 (str) | 2 (bytes)
      self._write(bytes([first]) + self._encode_tail(data, self._sock is None))

  def _encode_tail(self, data, mask=False):
      data_length <= 125 -> len_byte = data_length, 0 length bytes
      data_length <= 0xFFFF -> 126, 2 length bytes ; else 127, 8 length bytes
      if mask: len_byte |= 0x80
      tail = [len_byte] + [data_length >> (i * 8) & 0xFF for i in lbytes-1 .. 0]
      if mask: tail += key + [c ^ key[i % 4]] else tail += data

  def _on_close(self, *args):
      if not self._close_sent: self._write(b'\x88\x00'); self._close_sent = True
      if self._close_received and self._close_sent: self.fire(close(...), parent.channel)

A `str` message is modelled as its UTF-8 bytes with the tag `text = true` (the generated
texts are valid UTF-8, on which `decode('utf-8','replace')` is the inverse of `encode`).
`while data:` leaves `_buffer` alone when `buffer + data` is empty; `_buffer` is then empty
already, so `parseLoop` writing `[]` to it in that case is the same state.
-/
namespace CV
namespace WS

/-! ### constants of the code (checked against the live source as parameter obligations) -/
def thr7 : Nat := 125
def thr16 : Nat := 0xFFFF
def opText : Nat := 1
def opBinary : Nat := 2
def opClose : Nat := 8
def opPing : Nat := 9
def opPong : Nat := 10

/-- `c ^ key[i % 4]` for every index `i` (starting at `i0`) -/
def xorKey (key : Bytes) (i0 : Nat) (msg : Bytes) : Bytes :=
  (msg.zipIdx i0).map (fun ci => ci.1 ^^^ key.getD (ci.2 % 4) 0)

/-- `payload_length = payload_length * 256 + data[offset]` over the length bytes -/
def beFold (bs : Bytes) : Nat := bs.foldl (fun acc b => acc * 256 + b.toNat) 0

/-- `data_length >> (i * 8) & 0xFF` for `i = k-1 … 0` -/
def beBytes : Nat → Nat → Bytes
  | 0, _ => []
  | k + 1, n => UInt8.ofNat ((n >>> (k * 8)) &&& 0xFF) :: beBytes k n

/-- one decoded frame as `_parse_messages` sees it -/
structure Frame where
  fin : Bool
  opcode : Nat
  payload : Bytes          -- already unmasked
  deriving Repr, DecidableEq

/-- what the first bytes say: FIN, opcode, mask bit, payload length, offset behind the
    length bytes -/
structure Hdr where
  fin : Bool
  opcode : Nat
  masking : Bool
  plen : Nat
  off : Nat
  deriving Repr, DecidableEq

/-- `payload_bytes = 2 if payload_length == 126 else 8` -/
def extLen (len7 : Nat) : Nat := if len7 = 126 then 2 else 8

/-- header analysis; `none` = one of the two guards "header / extended length not there yet" -/
def parseHdr (data : Bytes) : Option Hdr :=
  match data with
  | b0 :: b1 :: _ =>
    let final := (b0 &&& 0x80) != 0
    let opcode := (b0 &&& 0xF).toNat
    let masking := (b1 &&& 0x80) != 0
    let len7 := (b1 &&& 0x7F).toNat
    if len7 ≥ 126 then
      let lenBytes := extLen len7
      if data.length < 2 + lenBytes then none
      else some ⟨final, opcode, masking, beFold ((data.drop 2).take lenBytes), 2 + lenBytes⟩
    else some ⟨final, opcode, masking, len7, 2⟩
  | _ => none

/-- one loop iteration up to the completeness test: `none` = "not enough bytes yet" (one of
    the three `break`s that keep `data` as `_buffer`) -/
def parseFrame (data : Bytes) : Option (Frame × Bytes) :=
  match parseHdr data with
  | none => none
  | some h =>
    let key := if h.masking then (data.drop h.off).take 4 else []
    let off2 := if h.masking then h.off + 4 else h.off
    if data.length < off2 + h.plen then none
    else
      let raw := (data.drop off2).take h.plen
      let msg := if h.masking then xorKey key 0 raw else raw
      some (⟨h.fin, h.opcode, msg⟩, data.drop (off2 + h.plen))

structure St where
  buffer : Bytes := []
  pending : Bytes := []
  ptype : Option Nat := none
  closeRecv : Bool := false
  closeSent : Bool := false
  deriving Repr, DecidableEq

inductive Out where
  | message (text : Bool) (payload : Bytes)   -- appended to `msgs` (fired as `read`)
  | pong (payload : Bytes)                    -- `_write(b'\x8a' + _encode_tail(payload, mask))`
  | closeEvt                                  -- `fire(close(sock))` on the codec's channel
  deriving Repr, DecidableEq

/-- what one complete frame does; the `Bool` is "`break` out of the loop" -/
def applyFrame (s : St) (f : Frame) : St × List Out × Bool :=
  let msg := if f.opcode < 8 then s.pending ++ f.payload else f.payload
  if f.fin then
    if f.opcode < 8 then
      let text := f.opcode == 1 || (f.opcode == 0 && s.ptype == some 1)
      ({ s with ptype := none, pending := [] }, [Out.message text msg], false)
    else if f.opcode == 8 then
      ({ s with closeRecv := true }, [Out.closeEvt], true)
    else if f.opcode == 9 then
      (s, if s.closeSent then [] else [Out.pong msg], false)
    else (s, [], false)
  else
    ({ s with pending := msg, ptype := if f.opcode != 0 then some f.opcode else s.ptype }, [], false)

theorem parseHdr_off {data : Bytes} {h : Hdr} (hh : parseHdr data = some h) : 2 ≤ h.off := by
  unfold parseHdr at hh
  split at hh
  · simp only at hh
    repeat' split at hh
    all_goals first
      | (have := Option.some.inj hh; subst this; simp; done)
      | (simp at hh; done)
  · exact absurd hh (by simp)

theorem parseFrame_shrink {data : Bytes} {f : Frame} {rest : Bytes}
    (h : parseFrame data = some (f, rest)) : rest.length < data.length := by
  unfold parseFrame at h
  split at h
  · exact absurd h (by simp)
  · rename_i hd hh
    have h2 := parseHdr_off hh
    simp only at h
    by_cases hlen : data.length < (if hd.masking then hd.off + 4 else hd.off) + hd.plen
    · rw [if_pos hlen] at h
      exact absurd h (by simp)
    · rw [if_neg hlen] at h
      have h' := Option.some.inj h
      have h3 : data.drop ((if hd.masking then hd.off + 4 else hd.off) + hd.plen) = rest :=
        congrArg Prod.snd h'
      rw [← h3, List.length_drop]
      cases hm : hd.masking <;> simp only [hm, if_true, if_false, Bool.false_eq_true] at hlen ⊢ <;> omega

/-- the `while data:` loop -/
def parseLoop (s : St) (data : Bytes) : St × List Out :=
  match h : parseFrame data with
  | none => ({ s with buffer := data }, [])
  | some (f, rest) =>
    let r := applyFrame { s with buffer := [] } f
    if r.2.2 then (r.1, r.2.1)
    else
      let r2 := parseLoop r.1 rest
      (r2.1, r.2.1 ++ r2.2)
termination_by data.length
decreasing_by exact parseFrame_shrink h

/-- `_parse_messages(data)` : new state and what it emits, in frame order -/
def feed (s : St) (data : Bytes) : St × List Out :=
  if s.closeRecv then (s, []) else parseLoop s (s.buffer ++ data)

/-- any number of reads -/
def feedAll (s : St) : List Bytes → St × List Out
  | [] => (s, [])
  | d :: ds =>
    let r1 := feed s d
    let r2 := feedAll r1.1 ds
    (r2.1, r1.2 ++ r2.2)

/-! ### writing -/

/-- `_encode_tail(data, mask)`; `key` is what `os.urandom(4)` returned (used when `mask`) -/
def encodeTail (data : Bytes) (mask : Bool) (key : Bytes) : Bytes :=
  let n := data.length
  let lenByte : Nat := if n ≤ thr7 then n else if n ≤ thr16 then 126 else 127
  let lbytes : Nat := if n ≤ thr7 then 0 else if n ≤ thr16 then 2 else 8
  let lenByte := if mask then lenByte ||| 0x80 else lenByte
  let head := UInt8.ofNat lenByte :: beBytes lbytes n
  if mask then head ++ key ++ xorKey key 0 data else head ++ data

/-- the frame `_on_write` hands to `_write`, `none` when nothing is written -/
def onWrite (s : St) (client : Bool) (text : Bool) (data : Bytes) (key : Bytes) : Option Bytes :=
  if s.closeSent then none
  else some (UInt8.ofNat (0x80 + (if text then 1 else 2)) :: encodeTail data client key)

/-- the frame written for `Out.pong` -/
def pongFrame (client : Bool) (payload : Bytes) (key : Bytes) : Bytes :=
  0x8a :: encodeTail payload client key

inductive CloseOut where
  | frame (bs : Bytes)     -- `_write(b'\x88\x00')`
  | transport              -- `fire(close(sock), parent.channel)`
  deriving Repr, DecidableEq

/-- `_on_close` -/
def onClose (s : St) : St × List CloseOut :=
  let o1 := if s.closeSent then [] else [CloseOut.frame [0x88, 0x00]]
  let s1 := { s with closeSent := true }
  (s1, o1 ++ (if s1.closeRecv then [CloseOut.transport] else []))

end WS
end CV

import CV.Model.Basic
/-
Model of circuits/web/dispatchers/static.py: `Static._on_request` (after the `fix:` commit
"static: compare against the document root itself"), over `List Char` (Python `str`).

    if self.path is not None and not request.path.startswith(self.path): return None
    path = request.path
    if self.path is not None: path = path[len(self.path):]
    path = unquote(path.strip('/'))
    if path: location = os.path.abspath(os.path.join(self.docroot, path))
    else:    location = os.path.abspath(os.path.join(self.docroot, '.'))
    if not os.path.exists(location): return None
    root = os.path.join(self.docroot, '')
    if location != self.docroot and not location.startswith(root): return None
    if os.path.isfile(location):  return serve_file(request, response, location)
    elif os.path.isdir(location):
        for default in self.defaults:
            location = os.path.abspath(os.path.join(self.docroot, path, default))
            if os.path.exists(location): return serve_file(request, response, location)
        if self.dirlisting:
            directory = os.path.abspath(os.path.join(self.docroot, path))
            ... for item in os.listdir(directory) ...
        return None
    return None

  serve_file(path): os.stat fails -> notfound; S_ISDIR -> notfound; else the file is opened.

The stdlib leaves are re-implemented here and validated against the real ones by the
correspondence check (ops `unquote`, `normpath`, `join`, `strip`):
`urllib.parse.unquote` (percent-decoding + UTF-8 decoding with errors='replace'),
`posixpath.join`, `posixpath.normpath` (= `abspath` on an absolute argument), `str.strip('/')`.
The file system is a parameter (`FS`): which absolute, normalised paths exist and what they are.
-/
namespace CV
namespace StaticPath

abbrev Str := List Char

/-! ### `str.split(sep)` -/

/-- Python `s.split(sep)` for a one-character separator: never returns `[]` -/
def split (sep : Char) : Str → List Str
  | [] => [[]]
  | c :: r =>
    if c = sep then [] :: split sep r
    else match split sep r with
      | [] => [[c]]
      | h :: t => (c :: h) :: t

/-- `'/'.join(comps)` -/
def joinSlash : List Str → Str
  | [] => []
  | [x] => x
  | x :: y :: r => x ++ '/' :: joinSlash (y :: r)

/-! ### `posixpath.join`, `posixpath.normpath` -/

/-- `posixpath.join(a, b)` -/
def join (a b : Str) : Str :=
  if b.head? = some '/' then b
  else if a = [] ∨ a.getLast? = some '/' then a ++ b
  else a ++ '/' :: b

def dotdot : Str := ['.', '.']

/-- one iteration of the `for comp in comps` loop of `normpath`; `st` is `new_comps`
    reversed (head = last element) -/
def pushComp (isAbs : Bool) (st : List Str) (comp : Str) : List Str :=
  if comp = [] ∨ comp = ['.'] then st
  else if comp ≠ dotdot ∨ (isAbs = false ∧ st = []) ∨ st.head? = some dotdot then comp :: st
  else st.tail

/-- number of leading slashes `normpath` keeps: 0, 1, or 2 (exactly two are kept) -/
def initialSlashes : Str → Nat
  | '/' :: '/' :: '/' :: _ => 1
  | '/' :: '/' :: _ => 2
  | '/' :: _ => 1
  | _ => 0

def normComps (p : Str) : List Str :=
  ((split '/' p).foldl (pushComp (initialSlashes p != 0)) []).reverse

/-- `posixpath.normpath` -/
def normpath (p : Str) : Str :=
  if p = [] then ['.'] else
  let r := List.replicate (initialSlashes p) '/' ++ joinSlash (normComps p)
  if r = [] then ['.'] else r

/-- `s.strip('/')` -/
def stripSlash (s : Str) : Str :=
  ((s.dropWhile (· = '/')).reverse.dropWhile (· = '/')).reverse

/-! ### `urllib.parse.unquote` -/

inductive Item where
  | byte (b : Nat)
  | chr (c : Char)
  deriving Repr, DecidableEq

def hexv (c : Char) : Option Nat :=
  if '0' ≤ c ∧ c ≤ '9' then some (c.toNat - 48)
  else if 'a' ≤ c ∧ c ≤ 'f' then some (c.toNat - 87)
  else if 'A' ≤ c ∧ c ≤ 'F' then some (c.toNat - 55)
  else none

/-- percent-decode: `%XX` → byte, other ASCII → byte, non-ASCII characters stay characters
    (they delimit the ASCII runs that `unquote` decodes separately) -/
def items : Str → List Item
  | [] => []
  | '%' :: a :: b :: r =>
    match hexv a, hexv b with
    | some x, some y => .byte (x * 16 + y) :: items r
    | _, _ => .byte 37 :: items (a :: b :: r)
  | c :: r => (if c.toNat < 128 then .byte c.toNat else .chr c) :: items r

/-- UTF-8 lead byte: number of continuation bytes, admissible range of the first one,
    payload bits of the lead -/
def seqInfo (b : Nat) : Option (Nat × Nat × Nat × Nat) :=
  if 0xC2 ≤ b ∧ b ≤ 0xDF then some (1, 0x80, 0xBF, b % 32)
  else if b = 0xE0 then some (2, 0xA0, 0xBF, b % 16)
  else if b = 0xED then some (2, 0x80, 0x9F, b % 16)
  else if 0xE1 ≤ b ∧ b ≤ 0xEF then some (2, 0x80, 0xBF, b % 16)
  else if b = 0xF0 then some (3, 0x90, 0xBF, b % 8)
  else if 0xF1 ≤ b ∧ b ≤ 0xF3 then some (3, 0x80, 0xBF, b % 8)
  else if b = 0xF4 then some (3, 0x80, 0x8F, b % 8)
  else none

/-- read `n` continuation bytes; on failure give back the items from the offending one on
    (the decoder replaces the maximal valid prefix by one U+FFFD) -/
def conts : Nat → Nat → Nat → Nat → List Item → Option Nat × List Item
  | 0, _, _, acc, r => (some acc, r)
  | n + 1, lo, hi, acc, .byte b :: r =>
    if lo ≤ b ∧ b ≤ hi then conts n 0x80 0xBF (acc * 64 + b % 64) r else (none, .byte b :: r)
  | _ + 1, _, _, _, r => (none, r)

def replacement : Char := Char.ofNat 0xFFFD

/-- `bytes.decode('utf-8', 'replace')` on the byte runs, characters passed through -/
def decodeF : Nat → List Item → Str
  | 0, _ => []
  | _, [] => []
  | f + 1, .chr c :: r => c :: decodeF f r
  | f + 1, .byte b :: r =>
    if b < 128 then Char.ofNat b :: decodeF f r
    else match seqInfo b with
      | none => replacement :: decodeF f r
      | some (n, lo, hi, init) =>
        match conts n lo hi init r with
        | (some cp, r') => Char.ofNat cp :: decodeF f r'
        | (none, r') => replacement :: decodeF f r'

/-- `urllib.parse.unquote(s)` (encoding utf-8, errors replace) -/
def unquote (s : Str) : Str :=
  if s.contains '%' then let it := items s; decodeF it.length it else s

/-! ### the dispatcher -/

inductive Kind where
  | file | dir | other
  deriving Repr, DecidableEq

/-- the file system as the dispatcher sees it: kind of an absolute normalised path, if it exists -/
abbrev FS := Str → Option Kind

structure Cfg where
  docroot : Str               -- `os.path.abspath(docroot)`
  pfx : Option Str            -- `Static.path`
  defaults : List Str
  dirlisting : Bool

inductive Outcome where
  | pass                      -- handler returns None: the request is somebody else's (404 in the end)
  | notfound                  -- `serve_file` answers 404 itself
  | file (loc : Str)          -- `serve_file` opens and serves `loc`
  | listing (loc : Str)       -- directory listing of `loc`
  deriving Repr, DecidableEq

def startsWith (s p : Str) : Bool := p.isPrefixOf s

/-- the part of the request path the dispatcher looks at, `none` if the prefix does not match -/
def relOf (unq : Str → Str) (cfg : Cfg) (reqPath : Str) : Option Str :=
  match cfg.pfx with
  | none => some (unq (stripSlash reqPath))
  | some p => if startsWith reqPath p then some (unq (stripSlash (reqPath.drop p.length))) else none

/-- `location` of the first `abspath(join(docroot, path))` -/
def locOf (cfg : Cfg) (rel : Str) : Str :=
  normpath (join cfg.docroot (if rel = [] then ['.'] else rel))

/-- `os.path.join(self.docroot, '')` -/
def rootDir (d : Str) : Str := join d []

/-- the containment test of the repaired code -/
def allowed (d loc : Str) : Bool := loc = d || startsWith loc (rootDir d)

/-- `serve_file(location)` as far as the choice of file goes -/
def serveFile (fs : FS) (loc : Str) : Outcome :=
  match fs loc with
  | none => .notfound
  | some .dir => .notfound
  | some _ => .file loc

def tryDefaults (fs : FS) (cfg : Cfg) (rel : Str) : List Str → Option Outcome
  | [] => none
  | dflt :: rest =>
    let loc := normpath (join (join cfg.docroot rel) dflt)
    match fs loc with
    | some _ => some (serveFile fs loc)
    | none => tryDefaults fs cfg rel rest

def serveRel (fs : FS) (cfg : Cfg) (rel : Str) : Outcome :=
  let loc := locOf cfg rel
  match fs loc with
  | none => .pass
  | some k =>
    if ¬ allowed cfg.docroot loc then .pass
    else match k with
      | .file => serveFile fs loc
      | .dir =>
        match tryDefaults fs cfg rel cfg.defaults with
        | some o => o
        | none => if cfg.dirlisting then .listing (normpath (join cfg.docroot rel)) else .pass
      | .other => .pass

/-- `Static._on_request` : which file (or listing) answers `reqPath` -/
def serve (unq : Str → Str) (fs : FS) (cfg : Cfg) (reqPath : Str) : Outcome :=
  match relOf unq cfg reqPath with
  | none => .pass
  | some rel => serveRel fs cfg rel

/-- the unrepaired test (`location.startswith(os.path.dirname(self.docroot))`), kept for the witnesses -/
def dirname (p : Str) : Str :=
  let i := (p.reverse.dropWhile (· ≠ '/')).reverse       -- p[:rfind('/')+1]
  if i ≠ [] ∧ i.any (· ≠ '/') then stripTrail i else i
where stripTrail (s : Str) : Str := (s.reverse.dropWhile (· = '/')).reverse

def allowedLegacy (d loc : Str) : Bool := startsWith loc (dirname d)

/-! ### independent statement of containment (segment-wise) -/

/-- a path component that names a directory entry -/
def cleanSeg (s : Str) : Bool := s ≠ [] && s ≠ ['.'] && s ≠ dotdot && !s.contains '/'

/-- `loc` is the root itself or the root followed by a relative path of clean components:
    a descendant of the root in the directory tree (no symlinks) -/
def inRoot (d loc : Str) : Bool :=
  loc = d || (startsWith loc (d ++ ['/']) && (split '/' (loc.drop (d.length + 1))).all cleanSeg)

/-- one step of segment-wise resolution from the file-system root (stack, head = last):
    skip ''/'.', '..' pops, anything else is pushed -/
def stepR (st : List Str) (c : Str) : List Str :=
  if c = [] ∨ c = ['.'] then st
  else if c = dotdot then st.tail
  else c :: st

/-- the tree node a list of components denotes, as the list of names from the root -/
def resolveSegs (st : List Str) (segs : List Str) : List Str := (segs.foldl stepR st).reverse

/-- components to resolve: those of `base` followed by those of `rel`; an absolute `rel`
    stands for itself (POSIX `join`) -/
def relSegs (base rel : Str) : List Str :=
  if rel.head? = some '/' then split '/' rel else split '/' base ++ split '/' rel

/-- `loc` is the tree node that the component list `segs` denotes -/
def denotes (segs : List Str) (loc : Str) : Bool :=
  resolveSegs [] segs == resolveSegs [] (split '/' loc)

/-- Spec on an observed answer: pass / 404 are always admissible; a served file or listing
    must lie in the root as a tree node and be the node the request path denotes
    (directly, or through one of the default documents). -/
def specOk (unq : Str → Str) (cfg : Cfg) (reqPath : Str) : Outcome → Bool
  | .pass => true
  | .notfound => true
  | .file loc =>
    inRoot cfg.docroot loc &&
    (match relOf unq cfg reqPath with
     | none => false
     | some rel => denotes (relSegs cfg.docroot rel) loc ||
        cfg.defaults.any (fun dflt => denotes (relSegs cfg.docroot rel ++ [dflt]) loc))
  | .listing loc =>
    inRoot cfg.docroot loc &&
    (match relOf unq cfg reqPath with
     | none => false
     | some rel => denotes (relSegs cfg.docroot rel) loc)

end StaticPath
end CV

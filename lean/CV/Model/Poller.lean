import CV.Model.Basic
/-
Model of circuits/core/pollers.py : BasePoller, Select, Poll, EPoll  (KQueue is not modelled).
Self-contained (core Lean only); C12 composes it with the stream model.

The code as it is now, i.e. after the three `fix:` commits of C10
  [D1] BasePoller.discard removes *every* occurrence of the descriptor from _read/_write
  [D2] Poll._updateRegistration forgets the number(s) a *closed* descriptor is still mapped under
  [D3] Poll._process treats a mapped descriptor whose fileno() is no longer the reported number
       (closed, number possibly reused) like POLLNVAL: _disconnect + discard
and the `fix:` commit of C12
  [D4] EPoll._updateRegistration deletes `_map[fileno]` when it drops a descriptor (as Poll does)

  class BasePoller:
      _read = []; _write = []; _targets = {}
      def addReader(self, source, fd):   self._read.append(fd);  self._targets[fd] = source.channel
      def addWriter(self, source, fd):   self._write.append(fd); self._targets[fd] = source.channel
      def removeReader(self, fd):
          if fd in self._read: self._read.remove(fd)                  # one occurrence
          if not (fd in self._read or fd in self._write) and fd in self._targets: del self._targets[fd]
      def removeWriter(self, fd): (same with _write)
      def discard(self, fd):                                          # [D1] all occurrences
          while fd in self._read: self._read.remove(fd)
          while fd in self._write: self._write.remove(fd)
          if fd in self._targets: del self._targets[fd]
      def getTarget(self, fd): return self._targets.get(fd, self.parent)

  class Select:
      def _generate_events(self, event):
          try: r, w, _ = select.select(self._read, self._write, [], timeout)
          except ValueError: return self._preenDescriptors()   # a closed socket has fileno() == -1
          for sock in w: if self.isWriting(sock): fire(_write(sock), getTarget(sock))
          for sock in r: if self.isReading(sock): fire(_read(sock), getTarget(sock))
      def _preenDescriptors(self):        # discard every descriptor on which a probe select fails
          for socks in (self._read[:], self._write[:]):
              for sock in socks:
                  try: select.select([sock], [sock], [sock], 0)
                  except Exception: self.discard(sock)

  class Poll:                              # EPoll differs where marked
      def _updateRegistration(self, fd):
          fileno = fd.fileno()
          if fileno < 0:                                              # [D2] (Poll only)
              for key in [k for k, v in self._map.items() if v == fd]:
                  unregister(key); del self._map[key]
          suppress(KeyError, ValueError): self._poller.unregister(fileno)
          mask = (IN if fd in self._read) | (OUT if fd in self._write)
          if mask: self._poller.register(fd, mask)   # ValueError for a closed socket, propagates
                   self._map[fileno] = fd
          else:    super().discard(fd)
                   suppress(KeyError): del self._map[fileno]          # EPoll too since [D4] (C12 fix)
      addReader/addWriter/removeReader/removeWriter/discard = super().<same>() ; _updateRegistration(fd)
      def _process(self, fileno, event):
          if fileno not in self._map: return
          fd = self._map[fileno]
          if <fd.fileno() raises or is not fileno>: event = POLLNVAL # [D3] (Poll only)
          if event & self._disconnected_flag and not (event & POLLIN):
              fire(_disconnect(fd), getTarget(fd)); unregister(fileno); super().discard(fd); del self._map[fileno]
          else:
              if event & POLLIN:  fire(_read(fd), getTarget(fd))
              if event & POLLOUT: fire(_write(fd), getTarget(fd))
      _disconnected_flag = POLLHUP|POLLERR|POLLNVAL   (EPoll: EPOLLHUP|EPOLLERR)

Not modelled: the control pipe (`_ctrl_recv`, never an object of the pool, produces no events),
timeouts (rounds are zero-timeout), EINTR, the `except Exception` around `fire` in `_process`
(`fire` only queues), descriptors given as bare `int`s, fd numbers >= FD_SETSIZE.

Environment (not code): objects have identity (`Obj`), an open object has a file number, a
closed one answers `fileno() == -1` for ever; a new object may get the number of a closed one.
The kernel is the function `kernelRev` (level-triggered poll/epoll semantics; epoll forgets a
file when it is closed, a poll object does not) and `selReadable`/`selWritable` (what select(2)
derives from the same poll bits).  These are assumptions, validated against the live kernel by
the correspondence check on every run.
-/
namespace CV
namespace Poller

abbrev Obj := Nat
abbrev Chan := Nat

/-- point update of a total function (dict / kernel table) -/
def upd {α : Type} (m : Nat → α) (k : Nat) (v : α) : Nat → α := fun x => if x = k then v else m x

/-! ## environment: which object holds which file number -/

structure World where
  fno : Obj → Option Nat      -- `o.fileno()` of an open object; `none` = -1 (closed) or not yet created
  owner : Nat → Option Obj    -- open object holding the number
  orig : Obj → Option Nat     -- number the object was created with (`none` = not yet created)

def World.init : World := ⟨fun _ => none, fun _ => none, fun _ => none⟩

/-- a new object `o` can be created with number `f` -/
def World.canOpen (w : World) (o : Obj) (f : Nat) : Bool :=
  (w.orig o).isNone && (w.owner f).isNone

def World.opn (w : World) (o : Obj) (f : Nat) : World :=
  { fno := upd w.fno o (some f), owner := upd w.owner f (some o), orig := upd w.orig o (some f) }

def World.close (w : World) (o : Obj) (f : Nat) : World :=
  { w with fno := upd w.fno o none, owner := upd w.owner f none }

/-- the object has been created (open or closed) -/
def World.known (w : World) (o : Obj) : Bool := (w.orig o).isSome

/-! ## readiness, revents, events -/

/-- what a fresh `poll` for IN|OUT reports about an open file -/
structure Bits where
  inn : Bool
  out : Bool
  hup : Bool
  err : Bool
deriving DecidableEq, Repr

/-- revents handed to `_process` -/
structure Rev where
  inn : Bool
  out : Bool
  hup : Bool
  err : Bool
  nval : Bool
deriving DecidableEq, Repr

def Rev.nvalOnly : Rev := ⟨false, false, false, false, true⟩

/-- select(2): readable = POLLIN|POLLHUP|POLLERR, writable = POLLOUT|POLLERR -/
def selReadable (b : Bits) : Bool := b.inn || b.hup || b.err
def selWritable (b : Bits) : Bool := b.out || b.err

inductive EvKind | read | write | disconnect
deriving DecidableEq, Repr

/-- a fired `_read(fd)` / `_write(fd)` / `_disconnect(fd)`; `chan = none` is `self.parent` -/
structure Event where
  kind : EvKind
  obj : Obj
  chan : Option Chan
deriving DecidableEq, Repr

inductive Kind | select | poll | epoll
deriving DecidableEq, Repr

/-! ## poller state -/

structure State where
  kind : Kind
  read : List Obj                 -- self._read   (list: double registration is possible)
  write : List Obj                -- self._write
  targets : Obj → Option Chan     -- self._targets
  map : Nat → Option Obj          -- self._map            (Poll, EPoll)
  kin : Nat → Bool                -- poll/epoll object: number registered for IN
  kout : Nat → Bool               -- …for OUT
  w : World

def State.init (k : Kind) : State :=
  ⟨k, [], [], fun _ => none, fun _ => none, fun _ => false, fun _ => false, World.init⟩

def State.isReading (s : State) (o : Obj) : Bool := decide (o ∈ s.read)
def State.isWriting (s : State) (o : Obj) : Bool := decide (o ∈ s.write)

/-! ### BasePoller -/

def baseAddReader (s : State) (o : Obj) (c : Chan) : State :=
  { s with read := s.read ++ [o], targets := upd s.targets o (some c) }

def baseAddWriter (s : State) (o : Obj) (c : Chan) : State :=
  { s with write := s.write ++ [o], targets := upd s.targets o (some c) }

/-- `if not (fd in read or fd in write) and fd in targets: del targets[fd]` -/
def dropTargetIfUnused (s : State) (o : Obj) : State :=
  if o ∈ s.read ∨ o ∈ s.write then s else { s with targets := upd s.targets o none }

def baseRemoveReader (s : State) (o : Obj) : State :=
  dropTargetIfUnused { s with read := s.read.erase o } o

def baseRemoveWriter (s : State) (o : Obj) : State :=
  dropTargetIfUnused { s with write := s.write.erase o } o

def baseDiscard (s : State) (o : Obj) : State :=
  { s with read := s.read.filter (· ≠ o), write := s.write.filter (· ≠ o),
           targets := upd s.targets o none }

/-! ### Poll / EPoll registration -/

/-- `self._poller.unregister(f)` (absent: KeyError / ENOENT, swallowed) -/
def unregister (s : State) (f : Nat) : State :=
  { s with kin := upd s.kin f false, kout := upd s.kout f false }

/-- [D2] forget every number still mapped to the (closed) object -/
def purge (s : State) (o : Obj) : State :=
  { s with kin := fun f => if s.map f = some o then false else s.kin f,
           kout := fun f => if s.map f = some o then false else s.kout f,
           map := fun f => if s.map f = some o then none else s.map f }

/-- `_updateRegistration(fd)`; the Bool says "raised ValueError" (register of a closed socket) -/
def updateRegistration (s : State) (o : Obj) : State × Bool :=
  match s.kind with
  | .select => (s, false)
  | .poll =>
    match s.w.fno o with
    | some f =>
      let s1 := unregister s f
      if o ∈ s.read ∨ o ∈ s.write then
        ({ s1 with kin := upd s1.kin f (decide (o ∈ s.read)), kout := upd s1.kout f (decide (o ∈ s.write)),
                   map := upd s1.map f (some o) }, false)
      else
        ({ (baseDiscard s1 o) with map := upd s1.map f none }, false)
    | none =>
      let s1 := purge s o
      if o ∈ s.read ∨ o ∈ s.write then (s1, true) else (baseDiscard s1 o, false)
  | .epoll =>
    match s.w.fno o with
    | some f =>
      let s1 := unregister s f
      if o ∈ s.read ∨ o ∈ s.write then
        ({ s1 with kin := upd s1.kin f (decide (o ∈ s.read)), kout := upd s1.kout f (decide (o ∈ s.write)),
                   map := upd s1.map f (some o) }, false)
      else
        ({ (baseDiscard s1 o) with map := upd s1.map f none }, false)   -- [D4] `_map[f]` is forgotten (C12 fix)
    | none =>
      -- unregister(-1): ValueError whose args[0] is a str, so the EBADF branch is not taken
      if o ∈ s.read ∨ o ∈ s.write then (s, true) else (baseDiscard s o, false)

/-! ### one `_generate_events` round with timeout 0 -/

def closedIn (s : State) (o : Obj) : Bool := (s.w.fno o).isNone

/-- `_preenDescriptors`: discard every listed descriptor on which select raises (the closed ones) -/
def preen (s : State) : State :=
  ((s.read ++ s.write).filter (closedIn s)).foldl baseDiscard s

def bitsOf (s : State) (rd : Nat → Bits) (o : Obj) : Bits :=
  match s.w.fno o with
  | some f => rd f
  | none => ⟨false, false, false, false⟩

def selectRound (s : State) (rd : Nat → Bits) : State × List Event :=
  if (s.read ++ s.write).any (closedIn s) then (preen s, [])
  else
    (s, (s.write.filter (fun o => selWritable (bitsOf s rd o))).map (fun o => ⟨.write, o, s.targets o⟩)
        ++ (s.read.filter (fun o => selReadable (bitsOf s rd o))).map (fun o => ⟨.read, o, s.targets o⟩))

/-- the kernel's answer for number `f` at poll time (assumption: level-triggered; a poll object
    keeps a closed number and reports POLLNVAL, or the state of whatever file has the number
    now; epoll has dropped it) -/
def kernelRev (s : State) (rd : Nat → Bits) (f : Nat) : Option Rev :=
  if s.kin f || s.kout f then
    match s.w.owner f with
    | none => if s.kind = .poll then some Rev.nvalOnly else none
    | some _ =>
      let b := rd f
      let ev : Rev := ⟨s.kin f && b.inn, s.kout f && b.out, b.hup, b.err, false⟩
      if ev.inn || ev.out || ev.hup || ev.err then some ev else none
  else none

def tape (s : State) (fs : List Nat) (rd : Nat → Bits) : List (Nat × Rev) :=
  fs.filterMap (fun f => (kernelRev s rd f).map (fun ev => (f, ev)))

/-- `event & self._disconnected_flag` -/
def disconnectedFlag (k : Kind) (ev : Rev) : Bool :=
  ev.hup || ev.err || (k = .poll && ev.nval)

/-- [D3] Poll: the mapped object no longer has this number (closed; the number may have been
    reused): whatever the kernel said is replaced by POLLNVAL -/
def effRev (s : State) (f : Nat) (o : Obj) (ev0 : Rev) : Rev :=
  if s.kind = .poll ∧ s.w.fno o ≠ some f then Rev.nvalOnly else ev0

def process (s : State) (f : Nat) (ev0 : Rev) : State × List Event :=
  match s.map f with
  | none => (s, [])
  | some o =>
    let ev := effRev s f o ev0
    if disconnectedFlag s.kind ev && !ev.inn then
      let s1 := baseDiscard (unregister s f) o
      ({ s1 with map := upd s1.map f none }, [⟨.disconnect, o, s.targets o⟩])
    else
      (s, (if ev.inn then [⟨.read, o, s.targets o⟩] else [])
          ++ (if ev.out then [⟨.write, o, s.targets o⟩] else []))

def processAll (s : State) : List (Nat × Rev) → State × List Event
  | [] => (s, [])
  | (f, ev) :: rest =>
    let (s1, e1) := process s f ev
    let (s2, e2) := processAll s1 rest
    (s2, e1 ++ e2)

/-- one round; `fs` = the numbers the caller wants the kernel asked about (all ever used),
    `rd` = true readiness of the open files -/
def round (s : State) (fs : List Nat) (rd : Nat → Bits) : State × List Event :=
  match s.kind with
  | .select => selectRound s rd
  | _ => processAll s (tape s fs rd)

/-! ## operations and runs -/

inductive Op
  | addReader (o : Obj) (c : Chan)
  | addWriter (o : Obj) (c : Chan)
  | removeReader (o : Obj)
  | removeWriter (o : Obj)
  | discard (o : Obj)
  | opn (o : Obj) (f : Nat)         -- environment: a new object is created with number f
  | close (o : Obj)                 -- environment: o.close()
  | poll (fs : List Nat) (rd : Nat → Bits)

/-- outcome of an operation as an observer sees it -/
inductive Out
  | ok
  | raised                          -- the call raised (ValueError from register of a closed socket)
  | bad                             -- not a possible operation (unknown object, number in use, …): skipped
  | events (es : List Event)

def close (s : State) (o : Obj) (f : Nat) : State :=
  let s1 := { s with w := s.w.close o f }
  match s.kind with
  | .epoll => unregister s1 f          -- the kernel drops a closed file from the epoll set
  | _ => s1

def outOf (r : State × Bool) : State × Out := (r.1, if r.2 then .raised else .ok)

def step (s : State) : Op → State × Out
  | .addReader o c => if s.w.known o then outOf (updateRegistration (baseAddReader s o c) o) else (s, .bad)
  | .addWriter o c => if s.w.known o then outOf (updateRegistration (baseAddWriter s o c) o) else (s, .bad)
  | .removeReader o => if s.w.known o then outOf (updateRegistration (baseRemoveReader s o) o) else (s, .bad)
  | .removeWriter o => if s.w.known o then outOf (updateRegistration (baseRemoveWriter s o) o) else (s, .bad)
  | .discard o => if s.w.known o then outOf (updateRegistration (baseDiscard s o) o) else (s, .bad)
  | .opn o f => if s.w.canOpen o f then ({ s with w := s.w.opn o f }, .ok) else (s, .bad)
  | .close o =>
    match s.w.fno o with
    | some f => (close s o f, .ok)
    | none => (s, .bad)
  | .poll fs rd =>
    if fs.Nodup then
      let (s1, es) := round s fs rd
      (s1, .events es)
    else (s, .bad)

/-- run a history, collecting what each operation showed -/
def runFrom (s : State) : List Op → State × List (Op × Out)
  | [] => (s, [])
  | op :: rest =>
    let (s1, o) := step s op
    let (s2, t) := runFrom s1 rest
    (s2, (op, o) :: t)

def run (k : Kind) (ops : List Op) : State × List (Op × Out) := runFrom (State.init k) ops

def trace (k : Kind) (ops : List Op) : List (Op × Out) := (run k ops).2

end Poller
end CV

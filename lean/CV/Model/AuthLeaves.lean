import CV.Model.AuthSpec
import CV.Model.Md5
/-
The stdlib leaves of `check_auth`, inside the model (C20).

CV/Model/Auth.lean is parametric in `Leaves`; here every leaf is an executable Lean
definition, so that `concreteLeaves : Leaves` makes `checkAuth` a function of the header
*text* (and the table) alone.  Each definition mirrors the CPython 3.12 code named with it
and is compared with the real function on every run of the C20 check (`cvdriver authleaf`).

  a2bBase64       binascii.a2b_base64(data)  (non-strict), which is `base64.decodebytes`:

      quad_pos = 0; leftchar = 0; pads = 0
      for this_ch in data:
          if this_ch == '=':
              if quad_pos >= 2 and quad_pos + ++pads >= 4: goto done      # stop, keep the output
              continue
          this_ch = table_a2b_base64[this_ch]
          if this_ch >= 64: continue                                      # not in the alphabet: skipped
          pads = 0
          switch quad_pos: 0: leftchar = this_ch                              -> 1
                           1: emit (leftchar << 2) | (this_ch >> 4); leftchar = this_ch & 0x0f -> 2
                           2: emit (leftchar << 4) | (this_ch >> 2); leftchar = this_ch & 0x03 -> 3
                           3: emit (leftchar << 6) | this_ch                  -> 0
      if quad_pos != 0: raise binascii.Error        # "1 more than a multiple of 4" / "Incorrect padding"
      done: return output

  utf8Decode      bytes.decode('utf-8') (strict): shortest form only, no surrogates, <= U+10FFFF
  utf8Encode      str.encode('utf-8')
  parseHttpList   urllib.request.parse_http_list   (quoted there in full)
  parseKeqvList   urllib.request.parse_keqv_list
  strip           str.strip()  (the 29 code points with str.isspace(); checked exhaustively
                  against the running interpreter by the `spaces` parameter obligation)

and the *client side* used by the concrete theorems: an RFC 4648 encoder, the header a
Basic client sends (`basicHeader`), the header an RFC 2617 Digest client sends
(`digestHeader` of a parameter list, `Client`).
-/
namespace CV
namespace Auth

/-! ### base64 -/

/-- `table_a2b_base64` : value of an alphabet character, none = not in the alphabet -/
def b64Val (c : UInt8) : Option Nat :=
  let n := c.toNat
  if 65 ≤ n ∧ n ≤ 90 then some (n - 65)
  else if 97 ≤ n ∧ n ≤ 122 then some (n - 71)
  else if 48 ≤ n ∧ n ≤ 57 then some (n + 4)
  else if n = 43 then some 62
  else if n = 47 then some 63
  else none

/-- `binascii.a2b_base64` in non-strict mode, from the state `(quad_pos, leftchar, pads)`;
    none = `binascii.Error` -/
def a2bGo (qp left pads : Nat) : Bytes → Option Bytes
  | [] => if qp = 0 then some [] else none
  | c :: cs =>
    if c = 61 then
      if 2 ≤ qp ∧ 4 ≤ qp + (pads + 1) then some []
      else a2bGo qp left (if 2 ≤ qp then pads + 1 else pads) cs
    else
      match b64Val c with
      | none => a2bGo qp left pads cs
      | some v =>
        if qp = 0 then a2bGo 1 v 0 cs
        else if qp = 1 then (a2bGo 2 (v % 16) 0 cs).map (UInt8.ofNat (left * 4 + v / 16) :: ·)
        else if qp = 2 then (a2bGo 3 (v % 4) 0 cs).map (UInt8.ofNat (left * 16 + v / 4) :: ·)
        else (a2bGo 0 0 0 cs).map (UInt8.ofNat (left * 64 + v) :: ·)

def a2bBase64 (data : Bytes) : Option Bytes := a2bGo 0 0 0 data

/-- alphabet character of a 6-bit value (RFC 4648 table 1) -/
def b64Chr (n : Nat) : UInt8 :=
  if n < 26 then UInt8.ofNat (65 + n)
  else if n < 52 then UInt8.ofNat (71 + n)
  else if n < 62 then UInt8.ofNat (n - 4)
  else if n = 62 then 43
  else 47

/-- RFC 4648 section 4 encoder (with padding), what `base64.b64encode` produces -/
def b64Encode : Bytes → Bytes
  | [] => []
  | [a] => [b64Chr (a.toNat / 4), b64Chr (a.toNat % 4 * 16), 61, 61]
  | [a, b] => [b64Chr (a.toNat / 4), b64Chr (a.toNat % 4 * 16 + b.toNat / 16), b64Chr (b.toNat % 16 * 4), 61]
  | a :: b :: c :: rest =>
    b64Chr (a.toNat / 4) :: b64Chr (a.toNat % 4 * 16 + b.toNat / 16)
      :: b64Chr (b.toNat % 16 * 4 + c.toNat / 64) :: b64Chr (c.toNat % 64) :: b64Encode rest

/-! ### UTF-8 -/

/-- `chr(c).encode('utf-8')` -/
def utf8EncodeChar (c : Char) : Bytes :=
  let n := c.toNat
  if n < 0x80 then [UInt8.ofNat n]
  else if n < 0x800 then [UInt8.ofNat (0xC0 + n / 64), UInt8.ofNat (0x80 + n % 64)]
  else if n < 0x10000 then
    [UInt8.ofNat (0xE0 + n / 4096), UInt8.ofNat (0x80 + n / 64 % 64), UInt8.ofNat (0x80 + n % 64)]
  else
    [UInt8.ofNat (0xF0 + n / 262144), UInt8.ofNat (0x80 + n / 4096 % 64),
     UInt8.ofNat (0x80 + n / 64 % 64), UInt8.ofNat (0x80 + n % 64)]

/-- `s.encode('utf-8')` -/
def utf8Encode (s : Str) : Bytes := s.flatMap utf8EncodeChar

/-- continuation byte 10xxxxxx -/
def isCont (b : UInt8) : Bool := 0x80 ≤ b.toNat && b.toNat < 0xC0

/-- `bs.decode('utf-8')`, errors='strict': none = UnicodeDecodeError.  Only shortest forms,
    no surrogates (U+D800..U+DFFF), nothing above U+10FFFF. -/
def utf8Decode : Bytes → Option Str
  | [] => some []
  | b0 :: rest =>
    let n0 := b0.toNat
    if n0 < 0x80 then (utf8Decode rest).map (Char.ofNat n0 :: ·)
    else if n0 < 0xC2 then none                     -- stray continuation byte, overlong C0 / C1
    else if n0 < 0xE0 then
      match rest with
      | b1 :: rest1 =>
        if isCont b1 then
          (utf8Decode rest1).map (Char.ofNat ((n0 - 0xC0) * 64 + (b1.toNat - 0x80)) :: ·)
        else none
      | [] => none
    else if n0 < 0xF0 then
      match rest with
      | b1 :: b2 :: rest2 =>
        let n := (n0 - 0xE0) * 4096 + (b1.toNat - 0x80) * 64 + (b2.toNat - 0x80)
        if isCont b1 && isCont b2 && 0x800 ≤ n && !(0xD800 ≤ n && n < 0xE000) then
          (utf8Decode rest2).map (Char.ofNat n :: ·)
        else none
      | _ => none
    else if n0 < 0xF5 then
      match rest with
      | b1 :: b2 :: b3 :: rest3 =>
        let n := (n0 - 0xF0) * 262144 + (b1.toNat - 0x80) * 4096 + (b2.toNat - 0x80) * 64 + (b3.toNat - 0x80)
        if isCont b1 && isCont b2 && isCont b3 && 0x10000 ≤ n && n < 0x110000 then
          (utf8Decode rest3).map (Char.ofNat n :: ·)
        else none
      | _ => none
    else none

/-! ### parse_http_list / parse_keqv_list -/

/-- `str.isspace()` of a single character (Unicode White_Space + U+001C..U+001F) -/
def isSpace (c : Char) : Bool :=
  let n := c.toNat
  (9 ≤ n && n ≤ 13) || (28 ≤ n && n ≤ 32) || n == 0x85 || n == 0xA0 || n == 0x1680
  || (0x2000 ≤ n && n ≤ 0x200A) || n == 0x2028 || n == 0x2029 || n == 0x202F || n == 0x205F
  || n == 0x3000

/-- `s.strip()` -/
def strip (s : Str) : Str := ((s.dropWhile isSpace).reverse.dropWhile isSpace).reverse

/-- the loop of `parse_http_list` from the state `(escape, quote, part)`; the result is `res`
    (before the final `strip` of every part):

      for cur in s:
          if escape: part += cur; escape = False; continue
          if quote:
              if cur == '\\': escape = True; continue
              elif cur == '"': quote = False
              part += cur; continue
          if cur == ',': res.append(part); part = ''; continue
          if cur == '"': quote = True
          part += cur
      if part: res.append(part)
-/
def hlGo (esc quote : Bool) (part : Str) : Str → List Str
  | [] => if part.isEmpty then [] else [part]
  | c :: cs =>
    if esc then hlGo false quote (part ++ [c]) cs
    else if quote then
      if c = '\\' then hlGo true true part cs
      else hlGo false (c != '"') (part ++ [c]) cs
    else if c = ',' then part :: hlGo false false [] cs
    else hlGo false (c == '"') (part ++ [c]) cs

/-- `parse_http_list(s)` -/
def parseHttpList (s : Str) : List Str := (hlGo false false [] s).map strip

/-- `parsed[k] = v` on a dict kept as its item list (insertion order, one entry per key) -/
def upsert (d : KV) (k v : Str) : KV :=
  match d with
  | [] => [(k, v)]
  | (k', v') :: rest => if k' = k then (k, v) :: rest else (k', v') :: upsert rest k v

/-- `if v[0] == '"' and v[-1] == '"': v = v[1:-1]`; none = IndexError (empty value) -/
def unquote (v : Str) : Option Str :=
  match v with
  | [] => none
  | c :: tl => if c = '"' ∧ v.getLast? = some '"' then some tl.dropLast else some v

/-- `parse_keqv_list(l)` continuing from the dict `d`; none = ValueError (no '=') / IndexError -/
def keqvGo (d : KV) : List Str → Option KV
  | [] => some d
  | e :: es =>
    match splitFirst '=' e with
    | none => none
    | some (k, v) =>
      match unquote v with
      | none => none
      | some v' => keqvGo (upsert d k v') es

def parseKeqvList (l : List Str) : Option KV := keqvGo [] l

/-- the `kv` leaf: `parse_keqv_list(parse_http_list(params))` -/
def kvLeaf (params : Str) : Option KV := parseKeqvList (parseHttpList params)

/-! ### all leaves -/

/-- `md5(s.encode('utf-8')).hexdigest()` -/
def md5Hex (s : Str) : Str := CV.Md5.hexdigest (utf8Encode s)

/-- every leaf computed inside the model: `checkAuth … concreteLeaves` reads the header text only -/
def concreteLeaves : Leaves :=
  { H := md5Hex
    b64 := fun params => a2bBase64 (utf8Encode params)
    utf8 := utf8Decode
    kv := kvLeaf }

/-! ### the client side -/

/-- an ASCII byte string as text (`bytes.decode('ascii')`) -/
def asciiStr (bs : Bytes) : Str := bs.map (fun b => Char.ofNat b.toNat)

/-- the Authorization value a Basic client sends for `user` / `pass` (RFC 2617 section 2,
    user-pass in UTF-8): `'Basic ' + b64encode((user + ':' + pass).encode()).decode()` -/
def basicHeader (user pass : Str) : Str :=
  "Basic ".toList ++ asciiStr (b64Encode (utf8Encode user ++ 58 :: utf8Encode pass))

/-- one `key=value` / `key="value"` parameter of a Digest header -/
structure Item where
  k : Str
  v : Str
  quoted : Bool
  deriving Repr, DecidableEq

/-- quoted-string content: `"` and `\` are written as quoted-pairs -/
def escQ (v : Str) : Str := v.flatMap (fun c => if c = '"' ∨ c = '\\' then ['\\', c] else [c])

def renderItem (i : Item) : Str :=
  i.k ++ '=' :: (if i.quoted then '"' :: (escQ i.v ++ ['"']) else i.v)

/-- the parameters joined with `", "` -/
def renderItems : List Item → Str
  | [] => []
  | [i] => renderItem i
  | i :: j :: is => renderItem i ++ ',' :: ' ' :: renderItems (j :: is)

def digestHeader (items : List Item) : Str := "Digest ".toList ++ renderItems items

def itemsKV (items : List Item) : KV := items.map (fun i => (i.k, i.v))

/-- token character of a parameter name / an unquoted value -/
def tokChar (c : Char) : Bool := c != ',' && c != '"' && !isSpace c

/-- what a parameter must satisfy to be transmitted verbatim: the name is made of token
    characters other than '='; an unquoted value is a non-empty token; a quoted value is
    ANY text -/
def Item.ok (i : Item) : Bool :=
  i.k.all (fun c => tokChar c && c != '=') && (i.quoted || (!i.v.isEmpty && i.v.all tokChar))

/-- the dict `parse_keqv_list` builds from these pairs (a later duplicate replaces the value) -/
def dictOf (l : KV) : KV := l.foldl (fun d e => upsert d e.1 e.2) []

/-- an RFC 2617 Digest client: what it knows when it answers a challenge -/
structure Client where
  user : Str
  realm : Str
  nonce : Str
  uri : Str
  /-- `none` = no algorithm parameter, `some false` = MD5, `some true` = MD5-sess -/
  alg : Option Bool
  /-- `none` = no qop (RFC 2069 compatibility), `some (nc, cnonce)` = qop=auth -/
  qop : Option (Str × Str)
  deriving Repr, DecidableEq

/-- the parameters in the order and quoting of RFC 2617 3.2.2 (algorithm, qop and nc unquoted) -/
def Client.items (c : Client) (response : Str) : List Item :=
  [⟨"username".toList, c.user, true⟩, ⟨"realm".toList, c.realm, true⟩,
   ⟨"nonce".toList, c.nonce, true⟩, ⟨"uri".toList, c.uri, true⟩]
  ++ (match c.alg with
      | none => []
      | some s => [⟨"algorithm".toList, if s then MD5sess else MD5, false⟩])
  ++ [⟨"response".toList, response, true⟩]
  ++ (match c.qop with
      | none => []
      | some (nc, cn) => [⟨"qop".toList, qAuth, false⟩, ⟨"nc".toList, nc, false⟩, ⟨"cnonce".toList, cn, true⟩])

/-- what the client can be asked to do: nc is a non-empty token, MD5-sess needs a cnonce -/
def Client.ok (c : Client) : Bool :=
  (match c.qop with
   | none => true
   | some (nc, _) => !nc.isEmpty && nc.all tokChar)
  && (c.alg != some true || c.qop.isSome)

/-- RFC 2617 3.2.2.1 request-digest the client computes for `password` (the response
    parameter itself does not enter the computation) -/
def Client.response (H : Str → Str) (c : Client) (password method : Str) : Str :=
  rfcResponse H (itemsKV (c.items [])) c.user password c.realm method

/-- the Authorization value the client sends -/
def Client.header (H : Str → Str) (c : Client) (password method : Str) : Str :=
  digestHeader (c.items (c.response H password method))

end Auth
end CV

import CV.Model.Basic
/-
Model of circuits/web/parsers/http.py : HttpParser.execute and what it calls
(as the code is after the three `fix:` commits of C13).  Self-contained; C14 extends it.

    def execute(self, data, length):
        if length == 0:
            self.__on_message_complete = True
            return length
        nb_parsed = 0
        while True:
            if not self.__on_firstline:
                self._buf.append(data); data = b''.join(self._buf); self._buf = [data]
                idx = data.find(b'\r\n')
                if idx < 0: return length
                self.__on_firstline = True
                first_line = str(data[:idx], 'unicode_escape')
                rest = data[idx + 2:]; data = b''
                if self._parse_firstline(first_line): self._buf = [rest]
                else: return nb_parsed                       # errno = BAD_FIRST_LINE
            elif not self.__on_headers_complete:
                if data: self._buf.append(data); data = b''
                try:
                    to_parse = b''.join(self._buf)
                    ret = self._parse_headers(to_parse)
                    if ret is False: return length
                except InvalidHeader: self.errno = INVALID_HEADER; return nb_parsed
            elif not self.__on_message_complete:
                self.__on_message_begin = True
                if data: self._buf.append(data); data = b''
                ret = self._parse_body()
                if ret is None: return length
                if ret < 0: return ret
                if ret == 0: self.__on_message_complete = True; return length
            else:
                return 0

    _parse_headers(data):  data == CRLF -> headers complete, _buf = [], 0
                           idx = data.find(CRLF CRLF); < 0 -> False (wait)
                           ... lex data[:idx] into Headers (InvalidHeader) ...
                           clen / chunked / clen_rest; _buf = [data[idx+4:]]; headers complete
    _parse_body():         204 and len(_buf) == 0 -> complete
                           not chunked: body_part = join(_buf)
                               empty and clen is None -> complete iff not self._status (requests)
                               clen_rest -= len(body_part); body.append; _buf = []; complete iff clen_rest <= 0
                           chunked: size, rest = _parse_chunk_size(join(_buf))
                               size == 0 -> 0 (complete)        [only once the trailer section has ended]
                               size None or len(rest) < size -> None (wait)
                               len(rest) - size < 2 -> None (wait)   [was: INVALID_CHUNK]
                               (the two waits are one test in the model: len(rest) < size + 2)
                               body.append(rest[:size]); _buf = [rest[size+2:]]; loop
    _parse_chunk_size(data): idx = data.find(CRLF); < 0 -> (None, None)
                           int(line.split(b';')[0].strip(), 16)  (InvalidChunkSize -> errno INVALID_CHUNK, -1)
                           size == 0: (0, None) if _parse_trailers(rest) else (None, None)
    _parse_trailers(data): data[:2] == CRLF or data.find(CRLF CRLF) >= 0

The *lexical* leaf functions are parameters (`Lex`): decoding of the first line
(`unicode_escape`, `split`, regexes, `urlsplit`), of a complete header block into `Headers`
(+ the framing facts read from it), and of a chunk-size line (`int(.., 16)`).  Segmentation can
only matter through *which byte strings are handed to them*; that is what is modelled.
The byte strings handed over are kept as ghost fields (`firstLine`, `hdrBlock`).

`_buf` is modelled by its join, `_body` by its join (that is what `recv_body` returns).
`over` is a ghost flag: it is raised exactly where the code reads bytes *beyond the end of the
message* (data after completion, more body than Content-Length, bytes after an empty header
block, a body on a request without framing headers): the places where the code's behaviour
legitimately depends on the segmentation because the stream is not a single message.

Not modelled: `decompress` (Content-Encoding gzip/deflate), kind=2 auto-detection (unused by
circuits), Python exceptions of the leaf functions (C14).  A negative chunk size is InvalidChunkSize
(`lex.chunk = none`) since the fix commit "a negative chunk size is an invalid chunk size".
-/
namespace CV
namespace Http

def CRLF : Bytes := [13, 10]
def CRLF2 : Bytes := [13, 10, 13, 10]

/-- Python `bytes.find(pat)` (first occurrence) for a non-empty pattern -/
def find (pat : Bytes) : Bytes → Option Nat
  | [] => none
  | a :: rest =>
    if (a :: rest).take pat.length = pat then some 0 else (find pat rest).map (· + 1)

inductive Kind | request | response
  deriving DecidableEq, Repr

/-- what the parser / the components read off a successfully parsed first line -/
structure FirstLine where
  vmajor : Nat
  vminor : Nat
  status : Option Nat          -- `_status_code` (`_status` is set iff this is); none for a request line
  deriving DecidableEq, Repr

/-- `headers.get('content-length')` and `int()` of it -/
inductive Clen
  | absent
  | bad                        -- present, `int()` raises ValueError
  | val (n : Int)
  deriving DecidableEq, Repr

/-- what the parser / the components read off a successfully parsed header block -/
structure HdrInfo where
  clen : Clen
  te : Bool                    -- Transfer-Encoding value, lower-cased, == 'chunked'
  host : Bool                  -- a non-empty Host header
  upgrade : Bool               -- `is_upgrade()`
  deriving DecidableEq, Repr

def noHdrs : HdrInfo := ⟨.absent, false, false, false⟩

/-- the lexical leaf functions (parameters; instantiated by the code itself in the tie) -/
structure Lex where
  first : Kind → Bytes → Option FirstLine     -- none = InvalidRequestLine
  hdrs : Bytes → Option HdrInfo               -- none = InvalidHeader
  chunk : Bytes → Option Nat                  -- chunk-size line (before CRLF); none = InvalidChunkSize
  pathOk : Bytes → Option Bytes → Bool        -- server only: the canonical-path guard passes

def maxsize : Int := 9223372036854775807

/-- parser state without the carry-over buffer -/
structure Core where
  kind : Kind
  onFirst : Bool := false
  hdrDone : Bool := false
  msgBegin : Bool := false
  complete : Bool := false
  errno : Option Nat := none       -- BAD_FIRST_LINE 0, INVALID_HEADER 1, INVALID_CHUNK 2
  exn : Bool := false              -- a Python exception left execute() (clen_rest is None)
  firstLine : Option Bytes := none -- ghost: bytes handed to the first-line lexer
  fl : Option FirstLine := none
  hdrBlock : Option Bytes := none  -- ghost: bytes handed to the header lexer (none: empty block)
  hi : Option HdrInfo := none
  chunked : Bool := false
  clen : Option Int := none
  clenRest : Option Int := none
  body : Bytes := []
  over : Bool := false             -- ghost: bytes beyond the end of the message were read
  deriving DecidableEq, Repr

structure PState where
  core : Core
  buf : Bytes := []
  deriving DecidableEq, Repr

def init (k : Kind) : PState := ⟨{ kind := k }, []⟩

def Core.status (c : Core) : Option Nat :=
  match c.fl with
  | some f => f.status
  | none => none

/-- `_parse_trailers`: the trailer section after the last chunk has ended -/
def trailersDone (d : Bytes) : Bool := d.take 2 = CRLF || (find CRLF2 d).isSome

/-- bytes after the end of the trailer section -/
def trailerRest (d : Bytes) : Bytes :=
  if d.take 2 = CRLF then d.drop 2
  else match find CRLF2 d with
    | some i => d.drop (i + 4)
    | none => []

theorem find_lt {pat x : Bytes} {i : Nat} (h : find pat x = some i) : i < x.length := by
  induction x generalizing i with
  | nil => simp [find] at h
  | cons a r ih =>
    unfold find at h
    split at h
    · cases h; simp
    · cases hr : find pat r with
      | none => simp [hr] at h
      | some j =>
        simp [hr] at h
        have := ih hr
        simp; omega

/-- result of one pass of `_parse_body` in chunked mode -/
inductive ChunkR
  | stop (p : PState)               -- execute() returns with this state
  | more (c : Core) (x : Bytes)     -- one chunk consumed; the `while True` loop goes round again

/-- one pass of `_parse_body` (chunked) on the joined buffer `x` -/
def chunkStep (lex : Lex) (c : Core) (x : Bytes) : ChunkR :=
  match find CRLF x with
  | none => .stop ⟨c, x⟩                                   -- size None: wait
  | some idx =>
    match lex.chunk (x.take idx) with
    | none => .stop ⟨{ c with errno := some 2 }, x⟩        -- InvalidChunkSize
    | some size =>
      let rest := x.drop (idx + 2)
      if size = 0 then
        if trailersDone rest then
          .stop ⟨{ c with complete := true, over := c.over || !(trailerRest rest).isEmpty }, x⟩
        else .stop ⟨c, x⟩                                  -- wait for the end of the trailer section
      else if rest.length < size + 2 then .stop ⟨c, x⟩     -- wait for the chunk data and its CRLF
      else .more { c with body := c.body ++ rest.take size } (rest.drop (size + 2))

theorem chunkStep_more_lt {lex : Lex} {c c' : Core} {x x' : Bytes}
    (h : chunkStep lex c x = .more c' x') : x'.length < x.length := by
  unfold chunkStep at h
  split at h
  · cases h
  · rename_i idx hf
    have := find_lt hf
    split at h
    · cases h
    · dsimp only at h
      split at h
      · split at h <;> cases h
      · split at h
        · cases h
        · cases h
          simp only [List.length_drop]
          omega

/-- the chunk loop of `_parse_body` / `execute` on the joined buffer `x` -/
def chunkLoop (lex : Lex) (c : Core) (x : Bytes) : PState :=
  match _h : chunkStep lex c x with
  | .stop p => p
  | .more c' x' => chunkLoop lex c' x'
termination_by x.length
decreasing_by exact chunkStep_more_lt _h

/-- body phase on the joined buffer `x`; `nil` = the Python list `_buf` is empty -/
def execBody (lex : Lex) (c : Core) (x : Bytes) (nil : Bool) : PState :=
  let c := { c with msgBegin := true }
  if c.status = some 204 && nil then ⟨{ c with complete := true }, x⟩
  else if !c.chunked then
    if x.isEmpty && c.clen.isNone then
      if c.status.isNone then ⟨{ c with complete := true }, x⟩ else ⟨c, x⟩
    else
      match c.clenRest with
      | none => ⟨{ c with exn := true }, x⟩           -- TypeError: None - int
      | some r =>
        let r' := r - x.length
        ⟨{ c with clenRest := some r', body := c.body ++ x, complete := decide (r' ≤ 0),
                  over := c.over || decide (r' < 0)
                            || (c.clen.isNone && c.status.isNone) }, []⟩
  else chunkLoop lex c x

/-- header phase on the joined buffer `x` (`_parse_headers(to_parse)`) -/
def execHeaders (lex : Lex) (c : Core) (x : Bytes) : PState :=
  if x = CRLF then
    execBody lex { c with hdrDone := true, hi := some noHdrs } [] true
  else
    let c := { c with over := c.over || decide (x.take 2 = CRLF) }
    match find CRLF2 x with
    | none => ⟨c, x⟩
    | some idx =>
      let block := x.take idx
      let c := { c with hdrBlock := some block }
      match lex.hdrs block with
      | none => ⟨{ c with errno := some 1 }, x⟩
      | some h =>
        let c := { c with hdrDone := true, hi := some h }
        let c := match h.clen with
          | .absent => { c with chunked := h.te, clenRest := if h.te then none else some maxsize }
          | .bad => c
          | .val n => { c with clen := some n, clenRest := some n }
        execBody lex c (x.drop (idx + 4)) false

/-- first-line phase on the joined buffer `x` -/
def execFirst (lex : Lex) (c : Core) (x : Bytes) : PState :=
  match find CRLF x with
  | none => ⟨c, x⟩
  | some idx =>
    let line := x.take idx
    let c := { c with onFirst := true, firstLine := some line }
    match lex.first c.kind line with
    | none => ⟨{ c with errno := some 0 }, x⟩
    | some f => execHeaders lex { c with fl := some f } (x.drop (idx + 2))

/-- `HttpParser.execute(data, len(data))` -/
def exec (lex : Lex) (s : PState) (data : Bytes) : PState :=
  if data.isEmpty then ⟨{ s.core with complete := true }, s.buf⟩
  else if s.core.exn then s
  else if !s.core.onFirst then execFirst lex s.core (s.buf ++ data)
  else if !s.core.hdrDone then execHeaders lex s.core (s.buf ++ data)
  else if !s.core.complete then execBody lex s.core (s.buf ++ data) false
  else ⟨{ s.core with over := true }, s.buf⟩

/-- any number of reads -/
def execAll (lex : Lex) (s : PState) : List Bytes → PState
  | [] => s
  | d :: ds => execAll lex (exec lex s d) ds

/-- nothing went wrong and nothing beyond the message was read -/
def Core.bad (c : Core) : Bool := c.over || c.errno.isSome || c.exn

end Http
end CV

import CV.Model.Node
/-
Decidable statements of C19 over *observations* (evaluated by the driver on what the
implementation did; proved of the model in CV/Props/C19.lean).
-/
namespace CV
namespace Node

/-- a written packet is self-delimiting: it ends with the delimiter and has no `~` before it -/
def wireOk (w : Bytes) : Bool :=
  w.length ≥ 3 && (w.drop (w.length - 3) == DELIM) && !(w.take (w.length - 3)).contains TILDE

def countOf (n : Nat) (l : List Nat) : Nat := (l.filter (· == n)).length

/-- every sent id was dispatched exactly once and nothing else was dispatched -/
def onceOk (sent got : List Nat) : Bool :=
  sent.all (fun n => countOf n got == 1) && got.all (fun n => sent.contains n)

/-- every attribute the dispatcher relies on is protected by the exclusion set -/
def criticalOk (excl critical : List String) : Bool := critical.all (excl.contains ·)

mutual
def J.beq : J → J → Bool
  | .null, .null => true
  | .bool a, .bool b => a == b
  | .num r n z, .num r' n' z' => r == r' && n == n' && z == z'
  | .str a, .str b => a == b
  | .arr xs, .arr ys => beqArr xs ys
  | .obj xs, .obj ys => beqObj xs ys
  | _, _ => false
def beqArr : List J → List J → Bool
  | [], [] => true
  | x :: xs, y :: ys => J.beq x y && beqArr xs ys
  | _, _ => false
def beqObj : List (String × J) → List (String × J) → Bool
  | [], [] => true
  | (k, x) :: xs, (k', y) :: ys => k == k' && J.beq x y && beqObj xs ys
  | _, _ => false
end

/-- serialisation preserved name, args, kwargs, channels and the feedback flags:
    `none`, or the first field that differs -/
def sameEvent (a b : Ev) : Option String :=
  if a.name ≠ b.name then some "name"
  else if !beqArr a.args b.args then some "args"
  else if !beqObj a.kwargs b.kwargs then some "kwargs"
  else if !beqArr a.channels b.channels then some "channels"
  else if a.success ≠ b.success then some "success"
  else if a.failure ≠ b.failure then some "failure"
  else if a.notify ≠ b.notify then some "notify"
  else none

end Node
end CV

import CV.Model.Basic
/-
Model of the write path of a stream endpoint of circuits:

  * `Server`  (circuits/net/sockets.py)  one accepted connection `sock`:
        _buffers[sock] (deque), `sock in _closeq`, `sock in _clients`, poller.isWriting(sock)
  * `Client`  (circuits/net/sockets.py; TCPClient / UNIXClient share these methods):
        _buffer, _closeflag, _connected, poller.isWriting(_sock)
  * `File`    (circuits/io/file.py):
        _buffer, _closeflag, not _fd.closed, poller.isWriting(_fd)

The Python that is mirrored (after the `fix:` commits of C11; server shown, client and file
have the same shape and differ where noted at the definitions below):

    @handler('write')
    def write(self, sock, data):
        if sock not in self._clients:      # server only (`fix:` commit of C12)
            return
        if not self._poller.isWriting(sock):
            self._poller.addWriter(self, sock)
        self._buffers[sock].append(data)

    @handler('close')
    def close(self, sock=None):            # called with a connection
        if not self._buffers[sock]:
            self._close(sock)
        elif sock not in self._closeq:
            self._closeq.append(sock)

    @handler('_write', priority=1)
    def _on_write(self, sock):
        if self._buffers[sock]:
            data = self._buffers[sock].popleft()
            self._write(sock, data)
        if not self._buffers[sock]:
            if sock in self._closeq:
                self._closeq.remove(sock)
                self._close(sock)
            elif self._poller.isWriting(sock):
                self._poller.removeWriter(sock)

    def _write(self, sock, data):
        if sock not in self._clients:      # server only
            return
        try:
            nbytes = sock.send(data)
            if nbytes < len(data):
                self._buffers[sock].appendleft(data[nbytes:])
        except OSError as e:
            <errno dependent: requeue / fire(error) / self._close(sock)>, namely
              Server: e in (EINTR, EWOULDBLOCK, ENOBUFS) -> appendleft(data)
                      otherwise fire(error(sock, e)); self._close(sock)
              Client: e in (EPIPE, ENOTCONN) -> self._close()
                      e in (EINTR, EWOULDBLOCK, ENOBUFS) -> appendleft(data)     [fix: commit]
                      otherwise fire(error(e))            (payload dropped, endpoint stays open)
              File:   e in (EWOULDBLOCK, EINTR, ENOBUFS) -> appendleft(data); return   [fix: commit]
                      otherwise fire(error(e)); self._close()

    def _close(self, sock):
        if sock not in self._clients: return
        self._poller.discard(sock); del self._buffers[sock]; self._clients.remove(sock)
        sock.shutdown(2); sock.close(); self.fire(disconnect(sock))

What the `except OSError` branch does for an errno is a *parameter* of the model
(`ErrAct`, three booleans: payload pushed back to the front / `error` event fired /
endpoint closed).  The harness measures the table on the live code for every errno known to
Python and the driver evaluates the theorems' hypothesis `goodActs` on it (DESIGN 2.4).

The operating system is an input: every `writable` op carries the outcome that `send()` /
`os.write()` will have *if it is called* (accept k bytes, or raise errno e).  One thing about
the OS is built in: a send on a socket that the endpoint has already closed raises EBADF.

The model is a plain state machine `step : State → Op → State × List Ev`; the emitted
events are exactly what an outside observer (socket double, poller double, event capture)
sees.  `CV/Model/StreamSpec.lean` states the property over such event lists, independently
of this file.  (C12 reuses `State`/`step` for the per-connection write side.)
-/
namespace CV
namespace Stream

inductive Kind | server | client | file
  deriving DecidableEq, Repr

/-- outcome of one `send` / `os.write` call, decided by the OS -/
inductive Outcome
  | accept (k : Nat)      -- accepts `min k len` bytes
  | refuse (errno : Nat)  -- raises OSError(errno)
  deriving DecidableEq, Repr

inductive Op
  | write (p : Bytes)          -- `write` event with payload p
  | close                      -- `close` event for this endpoint
  | writable (o : Outcome)     -- `_write` event from the poller; `o` is used iff send is called
  deriving DecidableEq, Repr

/-- what an observer sees -/
inductive Ev
  | wr (p : Bytes)         -- a write event was delivered (input, echoed)
  | closeReq               -- a close event was delivered (input, echoed)
  | acc (b : Bytes)        -- send() was called and the OS accepted exactly these bytes
  | refuse (errno : Nat)   -- send() was called and raised errno
  | sockClose              -- shutdown()/close() called on the socket / fd
  | evErr                  -- an `error` event was fired
  | evDisc                 -- `disconnect(sock)` / `disconnected()` / `closed()` was fired
  | raised                 -- the handler raised (File: fileno() of a closed file)
  | bd (interest : Bool)   -- end of the op; is the endpoint registered as a writer?
  deriving DecidableEq, Repr

/-- what the `except OSError` branch of `_write` does for one errno -/
structure ErrAct where
  requeue : Bool
  error : Bool
  close : Bool
  deriving DecidableEq, Repr

structure State where
  kind : Kind
  buf : List Bytes := []       -- the deque of unsent payloads
  closeReq : Bool := false     -- `_closeflag` / `sock in _closeq`
  isOpen : Bool := true        -- `sock in _clients` / `_connected` / `not _fd.closed`
  interest : Bool := false     -- `poller.isWriting(sock)`
  deriving DecidableEq, Repr

def init (k : Kind) : State := { kind := k }

def EBADF : Nat := 9

/-- `_close`: nothing if already closed; otherwise drop interest and buffer, close the
    socket, fire the disconnect event.  Client/File also reset `_closeflag`; the server's
    `_closeq` is not touched by `_close`. -/
def doClose (s : State) : State × List Ev :=
  if s.isOpen then
    ({ s with buf := [], isOpen := false, interest := false,
              closeReq := (if s.kind = .server then s.closeReq else false) },
     [.sockClose, .evDisc])
  else (s, [])

/-- the OS refuses a send on a descriptor the endpoint has closed -/
def effective (s : State) (o : Outcome) : Outcome :=
  if s.isOpen then o else .refuse EBADF

/-- `_write(data)` once the payload `p` has been popped (`s.buf` is the rest) and the
    send is really attempted -/
def attempt (act : Nat → ErrAct) (s : State) (p : Bytes) (o : Outcome) : State × List Ev :=
  match effective s o with
  | .accept k =>
    let n := min k p.length
    let s1 := if n < p.length then { s with buf := p.drop n :: s.buf } else s
    (s1, [.acc (p.take n)])
  | .refuse e =>
    let a := act e
    let s1 := if a.requeue then { s with buf := p :: s.buf } else s
    let ev1 := if a.error then [Ev.evErr] else []
    let (s2, ev2) := if a.close then doClose s1 else (s1, [])
    (s2, Ev.refuse e :: ev1 ++ ev2)

/-- second half of `_on_write`: when the buffer is empty, carry out a pending close,
    otherwise drop writer interest -/
def afterWrite (s : State) : State × List Ev :=
  match s.buf with
  | _ :: _ => (s, [])
  | [] =>
    if s.closeReq then
      doClose (if s.kind = .server then { s with closeReq := false } else s)
    else ({ s with interest := false }, [])

/-- the handler part of an op (without the boundary marker) -/
def stepCore (act : Nat → ErrAct) (s : State) : Op → State × List Ev
  | .write p =>
    if s.kind = .server ∧ s.isOpen = false then
      -- server: `if sock not in self._clients: return` (C12 fix: a late write leaves no trace)
      (s, [.wr p])
    else ({ s with interest := true, buf := s.buf ++ [p] }, [.wr p])
  | .close =>
    match s.buf with
    | [] => let (s1, ev) := doClose s; (s1, .closeReq :: ev)
    | _ :: _ => ({ s with closeReq := true }, [.closeReq])
  | .writable o =>
    match s.buf with
    | [] => afterWrite s
    | p :: rest =>
      let s0 := { s with buf := rest }
      if s.isOpen || s.kind = .client then
        -- open endpoint; or a client, whose `_write` has no guard (the OS refuses: EBADF)
        let (s1, ev1) := attempt act s0 p o
        let (s2, ev2) := afterWrite s1
        (s2, ev1 ++ ev2)
      else if s.kind = .server then
        -- `if sock not in self._clients: return` : payload dropped, nothing sent
        afterWrite s0
      else
        -- file: `self._fd.fileno()` raises ValueError on a closed file; handler aborted
        (s0, [.raised])

def step (act : Nat → ErrAct) (s : State) (op : Op) : State × List Ev :=
  let (s1, ev) := stepCore act s op
  (s1, ev ++ [.bd s1.interest])

/-- run a whole op sequence; all events in order -/
def run (act : Nat → ErrAct) (s : State) : List Op → State × List Ev
  | [] => (s, [])
  | op :: ops =>
    let (s1, e1) := step act s op
    let (s2, e2) := run act s1 ops
    (s2, e1 ++ e2)

/-- the events of a run from the initial state -/
def trace (act : Nat → ErrAct) (k : Kind) (ops : List Op) : List Ev :=
  (run act (init k) ops).2

end Stream
end CV

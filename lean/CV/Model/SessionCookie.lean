import CV.Model.Session
/-
How the session id travels (circuits/web/sessions.py `Sessions.request`, circuits/web/wrappers.py):

  class Request:   self.cookie = SimpleCookie();  cookie = self.headers.get('Cookie')
                   if cookie is not None: self.cookie.load(cookie)
  class Response:  self.cookie = self.request.cookie            # ONE jar: request cookies are echoed
                   prepare(): for v in self.cookie.values(): headers.add_header('Set-Cookie', v.OutputString())
  class Sessions:  def __init__(self, name='circuits', ...): self._name = name
      def request(self, request, response):
          if self.name in request.cookie:
              sid = request.cookie[self._name].value
              sid = verify_session(request, sid)
          else:
              sid = create_session(request)
          request.session = self.store.load(sid)
          response.cookie[self.name] = sid

`Jar` is `request.cookie` after `SimpleCookie.load` (a dict: name -> value, names distinct and
case-sensitive); the stdlib parser is a leaf: the harness hands the parsed jar of the live request
to the model.  `CV.Session.Req.cookie` (the model of CV/Model/Session.lean) is
`jar.lookup name` for the CONFIGURED name - nothing else of the jar is read.
-/
namespace CV
namespace Session

abbrev Jar := List (Str × Str)

structure ReqJ where
  ip : Str
  agent : Str
  jar : Jar
  deriving Repr, DecidableEq

/-- what `Sessions(name).request` reads of the request -/
def ReqJ.toReq (name : Str) (r : ReqJ) : Req := ⟨r.ip, r.agent, r.jar.lookup name⟩

/-- `response.cookie[name] = v` on the jar (a dict: replace in place, else append) -/
def jarSet (jar : Jar) (name v : Str) : Jar :=
  if jar.any (fun p => p.1 = name) then jar.map (fun p => if p.1 = name then (name, v) else p)
  else jar ++ [(name, v)]

structure StepJ where
  req : ReqJ
  u : Str
  act : Act
  deriving Repr, DecidableEq

def StepJ.toStep (name : Str) (s : StepJ) : Step := ⟨s.req.toReq name, s.u, s.act⟩

structure ObsJ where
  sid : Str                 -- request.session.sid
  contents : List Entry     -- dict(request.session) as loaded
  setCookie : Jar           -- response.cookie afterwards: one Set-Cookie line per entry
  deriving Repr, DecidableEq

def ObsJ.toObs (o : ObsJ) : Obs := ⟨o.sid, o.contents⟩

/-- `Sessions(name).request` + what the request then does with its session -/
def stepJ (W : Str → Str) (name : Str) (st : Store) (s : StepJ) : Store × ObsJ :=
  let r := step W st (s.toStep name)
  (r.1, ⟨r.2.sid, r.2.contents, jarSet s.req.jar name r.2.sid⟩)

def runJ (W : Str → Str) (name : Str) (st : Store) : List StepJ → Store × List ObsJ
  | [] => (st, [])
  | s :: ss =>
    let (st1, o) := stepJ W name st s
    let (st2, os) := runJ W name st1 ss
    (st2, o :: os)

end Session
end CV

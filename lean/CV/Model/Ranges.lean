import CV.Model.StaticPath
/-
Model of circuits/web/utils.py `get_ranges` (after the `fix:` commit "get_ranges: validate and
clamp") and of the range part of circuits/web/tools.py `serve_file`.

  def _range_int(value):
      if value.isascii() and value.isdigit():
          try: return int(value)
          except ValueError: return None        # more digits than sys.get_int_max_str_digits()
      return None

  def get_ranges(headervalue, content_length):
      if not headervalue: return None
      result = []
      if '=' not in headervalue: return None
      bytesunit, byteranges = headervalue.split('=', 1)
      if bytesunit.strip().lower() != 'bytes': return None
      for brange in byteranges.split(','):
          if '-' not in brange: return None
          start, stop = (x.strip() for x in brange.split('-', 1))
          if start:
              start = _range_int(start)
              if start is None: return None
              if stop:
                  stop = _range_int(stop)
                  if stop is None or stop < start: return None
                  stop = min(stop, content_length - 1)
              else:
                  stop = content_length - 1
              if start >= content_length: continue
              if (start, stop + 1) not in result: result.append((start, stop + 1))
          else:
              if not stop: return None
              suffix = _range_int(stop)
              if suffix is None: return None
              if suffix == 0 or content_length == 0: continue
              start = max(content_length - suffix, 0)
              if (start, content_length) not in result: result.append((start, content_length))
      if len(result) > 1 and stddev([x[1] - x[0] for x in result]) > 2.0: raise RangeUnsatisfiable()
      return result

  serve_file:   (request.protocol >= (1, 1) only; otherwise the whole file)
      r = get_ranges(request.headers.get('Range'), c_len)
      if r == []:  Content-Range: bytes */c_len ; 416
      if r:  one range  -> 206, Content-Range: bytes start-(stop-1)/c_len, Content-Length: stop-start,
                           bodyfile.seek(start); body = bodyfile.read(stop-start)
             several    -> 206 multipart/byteranges, per part the same header and bytes
      else: whole file, Content-Length: c_len

`stddev(...) > 2.0` is modelled exactly over the integers:
  sqrt(sum((x-avg)^2)/n) > 2  <=>  n*sum(x^2) - (sum x)^2 > 4*n^2 .
`maxDigits` is `sys.get_int_max_str_digits()` (0 = no limit), a parameter read from the
running interpreter.
-/
namespace CV
namespace Ranges
open StaticPath (Str split)

/-! ### lexing helpers (Python `str` methods) -/

/-- `str.isspace()` of one character -/
def isPyWs (c : Char) : Bool :=
  let n := c.toNat
  (9 ≤ n && n ≤ 13) || (28 ≤ n && n ≤ 32) || n = 0x85 || n = 0xA0 || n = 0x1680 ||
  (0x2000 ≤ n && n ≤ 0x200A) || n = 0x2028 || n = 0x2029 || n = 0x202F || n = 0x205F || n = 0x3000

/-- `s.strip()` -/
def strip (s : Str) : Str := ((s.dropWhile isPyWs).reverse.dropWhile isPyWs).reverse

/-- `s.split(sep, 1)` : text before the first `sep`, and the text after it if there is one -/
def splitFirst (sep : Char) : Str → Str × Option Str
  | [] => ([], none)
  | c :: r =>
    if c = sep then ([], some r)
    else let (a, b) := splitFirst sep r; (c :: a, b)

def isAsciiDigit (c : Char) : Bool := '0' ≤ c && c ≤ '9'

def natOfDigits (s : Str) : Nat := s.foldl (fun a c => a * 10 + (c.toNat - 48)) 0

/-- `_range_int` -/
def rangeInt (maxDigits : Nat) (s : Str) : Option Nat :=
  if s ≠ [] ∧ s.all isAsciiDigit ∧ (maxDigits = 0 ∨ s.length ≤ maxDigits) then some (natOfDigits s) else none

def asciiLower (c : Char) : Char := if 'A' ≤ c ∧ c ≤ 'Z' then Char.ofNat (c.toNat + 32) else c

/-- `bytesunit.strip().lower() == 'bytes'` -/
def isBytesUnit (u : Str) : Bool := (strip u).map asciiLower = ['b', 'y', 't', 'e', 's']

/-! ### `get_ranges` -/

/-- what one `brange` does to the loop -/
inductive Step where
  | malformed                 -- `return None`
  | skip                      -- `continue`
  | range (a b : Nat)         -- candidate `(start, stop)` for `result`
  deriving Repr, DecidableEq

/-- body of the `for brange` loop -/
def parseOne (md len : Nat) (brange : Str) : Step :=
  match splitFirst '-' brange with
  | (_, none) => .malformed
  | (a, some b) =>
    let start := strip a
    let stop := strip b
    if start ≠ [] then
      match rangeInt md start with
      | none => .malformed
      | some st =>
        if stop ≠ [] then
          match rangeInt md stop with
          | none => .malformed
          | some sp =>
            if sp < st then .malformed
            else
              -- stop = min(sp, len - 1); (start, stop + 1)
              if st ≥ len then .skip else .range st (min sp (len - 1) + 1)
        else
          if st ≥ len then .skip else .range st (len - 1 + 1)
    else
      if stop = [] then .malformed
      else match rangeInt md stop with
        | none => .malformed
        | some n => if n = 0 ∨ len = 0 then .skip else .range (len - n) len

/-- result of `get_ranges` -/
inductive RR where
  | none                              -- `None`: serve the whole file
  | unsat                             -- `raise RangeUnsatisfiable()`
  | ranges (rs : List (Nat × Nat))    -- `[]` means 416 as well
  deriving Repr, DecidableEq

def sumLen (rs : List (Nat × Nat)) : Nat := (rs.map (fun r => r.2 - r.1)).sum
def sumSq (rs : List (Nat × Nat)) : Nat := (rs.map (fun r => (r.2 - r.1) * (r.2 - r.1))).sum

/-- `stddev([stop - start ...]) > 2.0`, exactly -/
def spreadTooWide (rs : List (Nat × Nat)) : Bool :=
  rs.length * sumSq rs > sumLen rs * sumLen rs + 4 * rs.length * rs.length

def finish (rs : List (Nat × Nat)) : RR :=
  if rs.length > 1 ∧ spreadTooWide rs then .unsat else .ranges rs

def addRange (acc : List (Nat × Nat)) (r : Nat × Nat) : List (Nat × Nat) :=
  if r ∈ acc then acc else acc ++ [r]

def loop (md len : Nat) : List Str → List (Nat × Nat) → RR
  | [], acc => finish acc
  | br :: rest, acc =>
    match parseOne md len br with
    | .malformed => .none
    | .skip => loop md len rest acc
    | .range a b => loop md len rest (addRange acc (a, b))

def getRanges (md : Nat) (hv : Option Str) (len : Nat) : RR :=
  match hv with
  | none => .none
  | some h =>
    if h = [] then .none else
    match splitFirst '=' h with
    | (_, none) => .none
    | (u, some brs) => if isBytesUnit u then loop md len (split ',' brs) [] else .none

/-! ### the range part of `serve_file` -/

/-- one part: first-byte-pos, last-byte-pos, total (the numbers of `Content-Range`), bytes -/
structure Part where
  first : Nat
  last : Nat
  total : Nat
  body : Bytes
  deriving Repr, DecidableEq

inductive Resp where
  | full (clen : Nat) (body : Bytes)           -- 200, Content-Length, the whole file
  | e416 (star : Option Nat)                   -- 416; `Content-Range: bytes */n` if present
  | single (clen : Nat) (p : Part)             -- 206 with Content-Length
  | multi (ps : List Part)                     -- 206 multipart/byteranges
  deriving Repr, DecidableEq

/-- `bodyfile.seek(a); bodyfile.read(b - a)` -/
def readAt (file : Bytes) (a b : Nat) : Bytes := (file.drop a).take (b - a)

def partOf (file : Bytes) (r : Nat × Nat) : Part :=
  ⟨r.1, r.2 - 1, file.length, readAt file r.1 r.2⟩

def serveRange (md : Nat) (http11 : Bool) (hv : Option Str) (file : Bytes) : Resp :=
  if ¬ http11 then .full file.length file else
  match getRanges md hv file.length with
  | .none => .full file.length file
  | .unsat => .e416 none
  | .ranges [] => .e416 (some file.length)
  | .ranges [r] => .single (r.2 - r.1) (partOf file r)
  | .ranges rs => .multi (rs.map (partOf file))

/-! ### independent reading of the header (RFC 7233 sec. 2.1) and the spec on responses -/

inductive RSpec where
  | fromTo (a b : Nat)     -- first-byte-pos "-" last-byte-pos
  | fromOn (a : Nat)       -- first-byte-pos "-"
  | suffix (n : Nat)       -- "-" suffix-length
  deriving Repr, DecidableEq

/-- one byte-range-spec; `none` = syntactically invalid (which invalidates the header) -/
def parseSpec (md : Nat) (s : Str) : Option RSpec :=
  match splitFirst '-' s with
  | (_, none) => none
  | (a, some b) =>
    match strip a, strip b with
    | [], [] => none
    | [], n => (rangeInt md n).map .suffix
    | f, [] => (rangeInt md f).map .fromOn
    | f, l =>
      match rangeInt md f, rangeInt md l with
      | some x, some y => if y < x then none else some (.fromTo x y)
      | _, _ => none

/-- the header as a list of specs; `none` = absent, wrong unit or invalid -/
def parseHeader (md : Nat) (hv : Option Str) : Option (List RSpec) :=
  match hv with
  | none => none
  | some h =>
    match splitFirst '=' h with
    | (_, none) => none
    | (u, some rest) => if isBytesUnit u then (split ',' rest).mapM (parseSpec md) else none

/-- the byte interval `[a, b)` a spec selects in an entity of `len` bytes, if satisfiable -/
def satisfy (len : Nat) : RSpec → Option (Nat × Nat)
  | .fromTo a b => if a < len ∧ a ≤ b then some (a, min (b + 1) len) else none
  | .fromOn a => if a < len then some (a, len) else none
  | .suffix n => if 0 < n ∧ 0 < len then some (len - n, len) else none

def slice (file : Bytes) (a b : Nat) : Bytes := (file.take b).drop a

/-- a part is exact: in bounds, labelled with its own position, carrying exactly those bytes -/
def partOk (file : Bytes) (sat : List (Nat × Nat)) (p : Part) : Bool :=
  p.first ≤ p.last && p.last < file.length && p.total = file.length &&
  (p.first, p.last + 1) ∈ sat && p.body = slice file p.first (p.last + 1)

/-- Spec on an observed response (statement of the property for Range requests):
    no / invalid header or HTTP/1.0: the whole file; nothing satisfiable: 416 with `*/len` if
    labelled; otherwise 206 with exactly the requested satisfiable intervals, each exact —
    except that a request for several distinct intervals may be refused with 416. -/
def respOk (md : Nat) (http11 : Bool) (hv : Option Str) (file : Bytes) (r : Resp) : Bool :=
  let whole := r = .full file.length file
  if ¬ http11 then whole else
  match parseHeader md hv with
  | none => whole
  | some specs =>
    let sat := specs.filterMap (satisfy file.length)
    match r with
    | .full _ _ => false
    | .e416 star =>
      (star = none || star = some file.length) &&
      (sat = [] || sat.any (fun x => sat.any (fun y => x ≠ y)))
    | .single clen p =>
      partOk file sat p && clen = p.last + 1 - p.first && sat.all (fun x => x = (p.first, p.last + 1))
    | .multi ps =>
      ps.length ≥ 2 && ps.all (partOk file sat) &&
      sat.all (fun x => ps.any (fun p => x = (p.first, p.last + 1)))

/-! ### dispatcher and range handling together -/

inductive Answer where
  | pass
  | notfound
  | listing (loc : Str)
  | served (loc : Str) (r : Resp)
  deriving Repr, DecidableEq

/-- `Static._on_request` followed by `serve_file`: which file, and which bytes of it.
    `content` gives the bytes of a file (the file system's other half). -/
def respond (unq : Str → Str) (fs : StaticPath.FS) (content : Str → Bytes) (md : Nat)
    (cfg : StaticPath.Cfg) (http11 : Bool) (hv : Option Str) (reqPath : Str) : Answer :=
  match StaticPath.serve unq fs cfg reqPath with
  | .pass => .pass
  | .notfound => .notfound
  | .listing l => .listing l
  | .file l => .served l (serveRange md http11 hv (content l))

end Ranges
end CV

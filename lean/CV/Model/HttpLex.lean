import CV.Model.HttpParse
/-
The lexical leaf functions of circuits/web/parsers/http.py (and of circuits/web/headers.py as
far as framing needs them) as concrete, total, executable definitions on bytes: the
instantiation `concreteLex` of the parameter `Lex` of CV/Model/HttpParse.lean.

    METHOD_RE  = re.compile('^[A-Z0-9$-_.]{1,20}$')          # `$-_` is the range 0x24..0x5F
    VERSION_RE = re.compile(r'^HTTP/(\d+).(\d+)$')            # `.` = any char but '\n'
    STATUS_RE  = re.compile(r'^(\d{3})(?:\s+([\s\w]*))$')
    HEADER_RE  = re.compile('[\\x00-\\x1F\\x7F()<>@,;:/\\[\\]={} \\t\\\\"]')

    first_line = str(data[:idx], 'unicode_escape')            # execute()

    def _parse_request_line(self, line):
        bits = line.split(None, 2)
        if len(bits) != 3: raise InvalidRequestLine(line)
        if not METHOD_RE.match(bits[0]): raise InvalidRequestLine(...)
        self._method = bits[0].upper()
        self._url = bits[1]
        parts = urlsplit(bits[1])
        ...
        if parts.fragment: raise InvalidRequestLine(...)
        match = VERSION_RE.match(bits[2])
        if match is None: raise InvalidRequestLine(...)
        self._version = (int(match.group(1)), int(match.group(2)))

    def _parse_response_line(self, line):
        bits = line.split(None, 1)
        if len(bits) != 2: raise InvalidRequestLine(line)
        matchv = VERSION_RE.match(bits[0])              -> None: InvalidRequestLine
        self._version = (int(matchv.group(1)), int(matchv.group(2)))
        matchs = STATUS_RE.match(bits[1])               -> None: InvalidRequestLine
        self._status = bits[1]; self._status_code = int(matchs.group(1)); self._reason = matchs.group(2)

    def _parse_headers(self, data):                      # data[:idx] = the header block
        lines = [str(line, 'unicode_escape') + '\r\n' for line in data[:idx].split(b'\r\n')]
        while len(lines):
            curr = lines.pop(0)
            if curr.find(':') < 0: raise InvalidHeader(...)
            name, value = curr.split(':', 1)
            name = name.rstrip(' \t').upper()
            if HEADER_RE.search(name): raise InvalidHeader(...)
            if value.endswith('\r\n'): value = value[:-2]
            name, value = name.strip(), [value.lstrip()]
            while len(lines) and lines[0].startswith((' ', '\t')):
                curr = lines.pop(0)
                if curr.endswith('\r\n'): curr = curr[:-2]
                value.append(curr)
            value = ''.join(value).rstrip()
            self._headers.add_header(name, value)
        clen = self._headers.get('content-length')
        te = self._headers.get('transfer-encoding', '').lower()
        if clen is not None:
            with contextlib.suppress(ValueError): self._clen_rest = self._clen = int(clen)
        else:
            self._chunked = te == 'chunked'

    def is_upgrade(self):
        hconn = self._headers.get('connection', '').lower()
        return 'upgrade' in [x.strip() for x in hconn.split(',')]

    def _parse_chunk_size(self, data):                   # line = data[:idx]
        chunk_size = line.split(b';', 1)[0].strip()
        try: chunk_size = int(chunk_size, 16)
        except ValueError: raise InvalidChunkSize(chunk_size)
        if chunk_size < 0: raise InvalidChunkSize(chunk_size)

    class Headers(CaseInsensitiveDict):                  # keys: str(key).title()
        def append(self, key, value):
            if key not in self: self[key] = [value] if key.lower() == 'set-cookie' else value
            else: ... self[key] = ', '.join([self[key], value])       # (list.append for Set-Cookie)
        def add_header(self, _name, _value): self.append(_name, '; '.join([_value]))

Representation.  A Python `str` obtained by `str(bytes, 'unicode_escape')` from bytes without
a backslash is the latin-1 reading: one character per byte, code point = byte value.  Such
strings are modelled by their bytes (`Bytes`), and the *Unicode-aware* `str` operations the code
applies to them (`split(None)`, `strip`, `\s`, `\w`, `\d`, `upper`, `lower`, `int`) by their
restriction to code points < 256 (tables below; the harness checks all 256 code points against
the live Python as parameter obligations).

Explicit refusals (`Lx.unsupported`, never a guess; the harness then keeps the implementation's
own value for that string and counts it):
  * a backslash anywhere in a first line / header block (`unicode_escape` escapes);
  * a first line longer than 4000 characters, a Content-Length value longer than 4000 characters
    (`int()` of more than 4300 decimal digits raises ValueError: sys.int_info.default_max_str_digits);
  * a request target that contains `//` together with `[`, `]` or a byte >= 0x80 (`urlsplit` may raise
    ValueError for the network location); otherwise the only thing `_parse_request_line` uses of
    `urlsplit` for accepting or rejecting the line is `parts.fragment`, which is non-empty iff
    the first `#` of the target is followed by at least one character (modelled);
    `parts.path` / `parts.query` / `parts.scheme` are not modelled (they stay with the implementation);
  * a header name with a byte >= 0x80 (`str.upper()` / `str.title()` leave latin-1: U+00B5, U+00DF, U+00FF).
    For the names that remain (ASCII, none of HEADER_RE's characters) `name.strip()` is the identity
    and two names have the same `Headers` key (`.title()`) iff they are equal after `.upper()`.
`int(bytes, 16)` has no digit limit (power-of-two base), so `lexChunk` refuses nothing.

The raw lines are modelled without the `'\r\n'` the code appends to and strips from each of them again
(`'\r\n'` holds no `:`; `startswith((' ', '\t'))` is false for the empty line).
`Set-Cookie` values are kept in a list by `Headers`; none of the framing look-ups asks for that name.
kind=2 (auto-detect) is not used by circuits and not modelled.
-/
namespace CV
namespace Http

/-- outcome of a modelled leaf function -/
inductive Lx (α : Type) where
  | unsupported            -- outside the modelled domain (the model refuses to answer)
  | invalid                -- the code raises InvalidRequestLine / InvalidHeader / InvalidChunkSize
  | ok (v : α)
  deriving DecidableEq, Repr

def Lx.toOption {α : Type} : Lx α → Option α
  | .ok v => some v
  | _ => none

def Lx.map {α β : Type} (f : α → β) : Lx α → Lx β
  | .ok v => .ok (f v)
  | .invalid => .invalid
  | .unsupported => .unsupported

def Lx.bind {α β : Type} (x : Lx α) (f : α → Lx β) : Lx β :=
  match x with
  | .ok v => f v
  | .invalid => .invalid
  | .unsupported => .unsupported

/-! ### character classes on code points < 256 -/

/-- `str.isspace()` = `\s` = what `str.split(None)` / `str.strip()` remove -/
def isUSpace (b : UInt8) : Bool :=
  let n := b.toNat
  (9 ≤ n && n ≤ 13) || (28 ≤ n && n ≤ 32) || n == 133 || n == 160

/-- C `isspace` in the C locale: what `bytes.strip()` and `int(bytes)` skip -/
def isASpace (b : UInt8) : Bool :=
  let n := b.toNat
  (9 ≤ n && n ≤ 13) || n == 32

/-- what `int(str)` skips on both sides (U+001C..U+001F are not skipped) -/
def isIntSpace (b : UInt8) : Bool :=
  let n := b.toNat
  (9 ≤ n && n ≤ 13) || n == 32 || n == 133 || n == 160

/-- `\d` -/
def isDigit (b : UInt8) : Bool := 48 ≤ b.toNat && b.toNat ≤ 57

/-- `\w` -/
def isWord (b : UInt8) : Bool :=
  let n := b.toNat
  (48 ≤ n && n ≤ 57) || (65 ≤ n && n ≤ 90) || (97 ≤ n && n ≤ 122) || n == 95 ||
  n == 170 || n == 178 || n == 179 || n == 181 || n == 185 || n == 186 || (188 ≤ n && n ≤ 190) ||
  (192 ≤ n && n ≤ 214) || (216 ≤ n && n ≤ 246) || 248 ≤ n

/-- a character of METHOD_RE's class `[A-Z0-9$-_.]` -/
def isMethodCh (b : UInt8) : Bool := 36 ≤ b.toNat && b.toNat ≤ 95

/-- a character of HEADER_RE's class -/
def hdrSpecial (b : UInt8) : Bool :=
  let n := b.toNat
  n ≤ 32 || n == 127 || n == 34 || n == 40 || n == 41 || n == 44 || n == 47 || n == 58 || n == 59 ||
  n == 60 || n == 61 || n == 62 || n == 64 || n == 91 || n == 92 || n == 93 || n == 123 || n == 125

def upperA (b : UInt8) : UInt8 := if 97 ≤ b.toNat ∧ b.toNat ≤ 122 then b - 32 else b
def lowerA (b : UInt8) : UInt8 := if 65 ≤ b.toNat ∧ b.toNat ≤ 90 then b + 32 else b

/-- `_PyLong_DigitValue` -/
def digVal (b : UInt8) : Option Nat :=
  let n := b.toNat
  if 48 ≤ n ∧ n ≤ 57 then some (n - 48)
  else if 97 ≤ n ∧ n ≤ 122 then some (n - 87)
  else if 65 ≤ n ∧ n ≤ 90 then some (n - 55)
  else none

/-! ### Python string functions -/

def rstripP (p : UInt8 → Bool) (s : Bytes) : Bytes := (s.reverse.dropWhile p).reverse
def stripP (p : UInt8 → Bool) (s : Bytes) : Bytes := rstripP p (s.dropWhile p)

/-- `str.split(None, n)` -/
def pySplit : Nat → Bytes → List Bytes
  | 0, s =>
    let s' := s.dropWhile isUSpace
    if s'.isEmpty then [] else [s']
  | n + 1, s =>
    let s' := s.dropWhile isUSpace
    if s'.isEmpty then []
    else s'.takeWhile (fun b => !isUSpace b) :: pySplit n (s'.dropWhile (fun b => !isUSpace b))

/-- `bytes.split(b'\r\n')` -/
def splitCRLF : Bytes → List Bytes
  | [] => [[]]
  | [a] => [[a]]
  | a :: b :: r =>
    if a = 13 ∧ b = 10 then [] :: splitCRLF r
    else match splitCRLF (b :: r) with
      | l :: ls => (a :: l) :: ls
      | [] => [[a]]

/-- `str.split(',')` -/
def splitOn (c : UInt8) : Bytes → List Bytes
  | [] => [[]]
  | a :: r =>
    if a = c then [] :: splitOn c r
    else match splitOn c r with
      | l :: ls => (a :: l) :: ls
      | [] => [[a]]

/-- value of a string of ASCII decimal digits -/
def decVal (s : Bytes) : Nat := s.foldl (fun acc b => acc * 10 + (b.toNat - 48)) 0

/-- the digit part of `int(s, base)`: digits below `base`, single underscores between digits;
    `need` = a digit must come next (at the start and after an underscore) -/
def intBody (base : Nat) : Nat → Bool → Bytes → Option Nat
  | acc, need, [] => if need then none else some acc
  | acc, need, b :: r =>
    if b = 95 then (if need then none else intBody base acc true r)
    else match digVal b with
      | some v => if v < base then intBody base (acc * base + v) false r else none
      | none => none

/-- the optional `0x` / `0X` of base 16, after which one underscore is allowed -/
def strip0x (s : Bytes) : Bytes :=
  if s.head? == some 48 && ((s.drop 1).head? == some 120 || (s.drop 1).head? == some 88) then
    (if (s.drop 2).head? == some 95 then s.drop 3 else s.drop 2)
  else s

/-- `int(s, base)` for base 10 / 16 on a string whose surrounding whitespace is already removed:
    optional sign, for base 16 an optional prefix, digits -/
def pyIntCore (base : Nat) (s : Bytes) : Option Int :=
  let neg := s.head? == some 45
  let s := if s.head? == some 43 || s.head? == some 45 then s.drop 1 else s
  let s := if base = 16 then strip0x s else s
  match intBody base 0 true s with
  | none => none
  | some n => some (if neg then -(n : Int) else (n : Int))

/-! ### first line -/

def httpSlash : Bytes := [72, 84, 84, 80, 47]

/-- `VERSION_RE.match(s)` and `int()` of its two groups (greedy `\d+`, backtracking, `$` also
    before a final newline) -/
def lexVersion (s : Bytes) : Option (Nat × Nat) :=
  if s.take 5 ≠ httpSlash then none
  else
    let r0 := s.drop 5
    let r := if r0.getLast? = some 10 then r0.dropLast else r0
    let d1 := r.takeWhile isDigit
    match r.dropWhile isDigit with
    | [] =>
      -- digits only: the first group gives back two of them (one for `.`, one for the second group)
      if 3 ≤ d1.length then some (decVal (d1.take (d1.length - 2)), decVal (d1.drop (d1.length - 1))) else none
    | sep :: d2 =>
      if !d1.isEmpty && sep != 10 && !d2.isEmpty && d2.all isDigit then some (decVal d1, decVal d2) else none

/-- `STATUS_RE.match(s)`: status code and reason phrase -/
def lexStatus (s : Bytes) : Option (Nat × Bytes) :=
  let code := s.take 3
  let rest := s.drop 3
  if code.length = 3 && code.all isDigit && (rest.head?.map isUSpace == some true)
      && rest.all (fun b => isUSpace b || isWord b) then
    some (decVal code, rest.dropWhile isUSpace)
  else none

structure ReqLine where
  method : Bytes
  target : Bytes
  vmajor : Nat
  vminor : Nat
  deriving DecidableEq, Repr

structure StatusLine where
  vmajor : Nat
  vminor : Nat
  code : Nat
  reason : Bytes
  deriving DecidableEq, Repr

/-- `pat` occurs in `x` -/
def hasSub (pat : Bytes) : Bytes → Bool
  | [] => pat.isEmpty
  | a :: r => (a :: r).take pat.length == pat || hasSub pat r

/-- `urlsplit(target)` may raise ValueError (only for a network location) -/
def urlRefused (t : Bytes) : Bool :=
  hasSub [47, 47] t && t.any (fun b => b == 91 || b == 93 || 128 ≤ b.toNat)

/-- `urlsplit(target).fragment` is non-empty -/
def hasFragment (t : Bytes) : Bool := 2 ≤ (t.dropWhile (fun b => b != 35)).length

def methodOk (m : Bytes) : Bool := 1 ≤ m.length && m.length ≤ 20 && m.all isMethodCh

/-- a backslash (unicode_escape) or too long for the modelled `int()` -/
def lineRefused (line : Bytes) : Bool := line.contains 92 || 4000 < line.length

/-- `_parse_request_line` on the latin-1 reading of `line` -/
def lexRequestLine (line : Bytes) : Lx ReqLine :=
  if lineRefused line then .unsupported
  else match pySplit 2 line with
    | [m, t, v] =>
      if !methodOk m then .invalid
      else if urlRefused t then .unsupported
      else if hasFragment t then .invalid
      else match lexVersion v with
        | none => .invalid
        | some (a, b) => .ok ⟨m.map upperA, t, a, b⟩
    | _ => .invalid

/-- `_parse_response_line` on the latin-1 reading of `line` -/
def lexStatusLine (line : Bytes) : Lx StatusLine :=
  if lineRefused line then .unsupported
  else match pySplit 1 line with
    | [v, st] =>
      match lexVersion v with
      | none => .invalid
      | some (a, b) =>
        match lexStatus st with
        | none => .invalid
        | some (code, reason) => .ok ⟨a, b, code, reason⟩
    | _ => .invalid

/-- `_parse_firstline` for kind 0 / 1: what the parser keeps of the line -/
def lexFirst (k : Kind) (line : Bytes) : Lx FirstLine :=
  match k with
  | .request => (lexRequestLine line).map fun r => ⟨r.vmajor, r.vminor, none⟩
  | .response => (lexStatusLine line).map fun r => ⟨r.vmajor, r.vminor, some r.code⟩

/-! ### header block -/

abbrev Field := Bytes × Bytes

def isSpTab (b : UInt8) : Bool := b == 32 || b == 9

/-- `line.startswith((' ', '\t'))` -/
def startsSpTab (l : Bytes) : Bool := l.head?.map isSpTab == some true

/-- one `name: value` line: (upper-cased name, value after `lstrip()`) -/
def lexHeaderLine (l : Bytes) : Lx Field :=
  if !l.contains 58 then .invalid
  else
    let name := (rstripP isSpTab (l.takeWhile (fun b => b != 58))).map upperA
    let value := (l.dropWhile (fun b => b != 58)).drop 1
    if name.any (fun b => 128 ≤ b.toNat) then .unsupported
    else if name.any hdrSpecial then .invalid
    else .ok (name, value.dropWhile isUSpace)

/-- the field under construction is complete: `''.join(value).rstrip()` -/
def closeField : Option Field → List Field
  | none => []
  | some (n, v) => [(n, rstripP isUSpace v)]

/-- the `while len(lines)` loop; `cur` = the field whose continuation lines are being consumed -/
def lexLines : Option Field → List Bytes → Lx (List Field)
  | cur, [] => .ok (closeField cur)
  | cur, l :: ls =>
    match cur, startsSpTab l with
    | some (n, v), true => lexLines (some (n, v ++ l)) ls
    | _, _ =>
      match lexHeaderLine l with
      | .ok f => (lexLines (some f) ls).map fun fs => closeField cur ++ fs
      | .invalid => .invalid
      | .unsupported => .unsupported

/-- the sequence of `add_header(name, value)` calls `_parse_headers` makes for a header block -/
def lexFieldList (block : Bytes) : Lx (List Field) :=
  if block.contains 92 then .unsupported else lexLines none (splitCRLF block)

/-- `Headers.get(name)` after the `add_header` calls `fs` (name given upper-cased) -/
def hdrGet : List Field → Bytes → Option Bytes
  | [], _ => none
  | (n, v) :: fs, name =>
    if n = name then
      some (fs.foldl (fun acc f => if f.1 = name then acc ++ [44, 32] ++ f.2 else acc) v)
    else hdrGet fs name

def nContentLength : Bytes := [67, 79, 78, 84, 69, 78, 84, 45, 76, 69, 78, 71, 84, 72]
def nTransferEncoding : Bytes := [84, 82, 65, 78, 83, 70, 69, 82, 45, 69, 78, 67, 79, 68, 73, 78, 71]
def nConnection : Bytes := [67, 79, 78, 78, 69, 67, 84, 73, 79, 78]
def nHost : Bytes := [72, 79, 83, 84]
def sChunked : Bytes := [99, 104, 117, 110, 107, 101, 100]
def sUpgrade : Bytes := [117, 112, 103, 114, 97, 100, 101]

/-- `headers.get('content-length')` and `int()` of it -/
def clenOfFields (fs : List Field) : Lx Clen :=
  match hdrGet fs nContentLength with
  | none => .ok .absent
  | some v =>
    if 4000 < v.length then .unsupported
    else match pyIntCore 10 (stripP isIntSpace v) with
      | none => .ok .bad
      | some n => .ok (.val n)

/-- the framing facts the parser and the components read off the `Headers` -/
def infoOfFields (fs : List Field) : Lx HdrInfo :=
  (clenOfFields fs).map fun cl =>
    { clen := cl
      te := ((hdrGet fs nTransferEncoding).getD []).map lowerA == sChunked
      host := !((hdrGet fs nHost).getD []).isEmpty
      upgrade := (splitOn 44 (((hdrGet fs nConnection).getD []).map lowerA)).any
                   fun x => stripP isUSpace x == sUpgrade }

/-- `_parse_headers` on a complete header block -/
def lexHdrs (block : Bytes) : Lx HdrInfo := (lexFieldList block).bind infoOfFields

/-! ### chunk-size line -/

/-- `_parse_chunk_size` on the line before the CRLF (a negative size is InvalidChunkSize).
    `int()` skips the whitespace `strip()` has already removed. -/
def lexChunk (line : Bytes) : Lx Nat :=
  match pyIntCore 16 (stripP isASpace (line.takeWhile (fun b => b != 59))) with
  | none => .invalid
  | some n => if n < 0 then .invalid else .ok n.toNat

/-! ### the instantiation -/

/-- the lexers of the code; the canonical-path guard (`Request`, `urlsplit`, `quote`) stays a parameter.
    `unsupported` is read as "not accepted": every theorem about `concreteLex` that assumes a
    string is accepted therefore speaks about modelled strings only. -/
def concreteLex (pathOk : Bytes → Option Bytes → Bool) : Lex where
  first k l := (lexFirst k l).toOption
  hdrs b := (lexHdrs b).toOption
  chunk l := (lexChunk l).toOption
  pathOk := pathOk

end Http
end CV

import CV.Model.StaticPath
/-
Model of the `dirlisting` branch of circuits/web/dispatchers/static.py (`Static._on_request`),
after the `fix:` commit "static: percent-encode the parent link of a directory listing":

    directory = os.path.abspath(os.path.join(self.docroot, path))
    cur_dir = os.path.join(self.path, path) if self.path else ''
    if not path:
        url_up = ''
    else:
        url_up = os.path.join('/', os.path.split(path)[0]) if self.path is None else os.path.join(cur_dir, '..')
        url_up = '<li><a href="%s">%s</a></li>' % (escape(quote(url_up), True), '..')
    listing = []
    for item in os.listdir(directory):
        if not item.startswith('.'):
            url = os.path.join('/', path, cur_dir, item)
            location = os.path.abspath(os.path.join(self.docroot, path, item))
            if os.path.isdir(location):
                li = '<li><a href="%s/">%s/</a></li>' % (escape(quote(url), True), escape(item))
            else:
                li = '<li><a href="%s">%s</a></li>' % (escape(quote(url), True), escape(item))
            listing.append(li)

`path` is the decoded, slash-stripped rest of the request path (`rel` of `StaticPath.relOf`).
`os.listdir(directory)` is a parameter (`ls`): the names of the directory in the order the
operating system gives them.  Stdlib leaves re-implemented here and validated by the
correspondence check (ops `quote`, `escape`): `urllib.parse.quote` (safe='/', UTF-8),
`html.escape(s, quote=True)`; `os.path.split(p)[0]` is `StaticPath.dirname`.
-/
namespace CV
namespace StaticListing
open CV.StaticPath

/-! ### `urllib.parse.quote(s)` (safe = '/', encoding UTF-8) -/

/-- UTF-8 encoding of one character -/
def utf8 (c : Char) : List Nat :=
  let n := c.toNat
  if n < 0x80 then [n]
  else if n < 0x800 then [0xC0 + n / 64, 0x80 + n % 64]
  else if n < 0x10000 then [0xE0 + n / 4096, 0x80 + n / 64 % 64, 0x80 + n % 64]
  else [0xF0 + n / 262144, 0x80 + n / 4096 % 64, 0x80 + n / 64 % 64, 0x80 + n % 64]

def hexDigit (n : Nat) : Char :=
  if n < 10 then Char.ofNat (48 + n) else Char.ofNat (55 + n)

/-- `%XX`, upper-case hexadecimal -/
def pct (b : Nat) : Str := ['%', hexDigit (b / 16), hexDigit (b % 16)]

/-- never quoted: `A-Za-z0-9_.-~` and the `safe` argument `/` -/
def safeChar (c : Char) : Bool :=
  ('A' ≤ c && c ≤ 'Z') || ('a' ≤ c && c ≤ 'z') || ('0' ≤ c && c ≤ '9') ||
  c = '_' || c = '.' || c = '-' || c = '~' || c = '/'

def quoteChar (c : Char) : Str := if safeChar c then [c] else (utf8 c).flatMap pct

def quote (s : Str) : Str := s.flatMap quoteChar

/-! ### `html.escape(s, quote=True)` -/

def escChar (c : Char) : Str :=
  if c = '&' then ['&', 'a', 'm', 'p', ';']
  else if c = '<' then ['&', 'l', 't', ';']
  else if c = '>' then ['&', 'g', 't', ';']
  else if c = '"' then ['&', 'q', 'u', 'o', 't', ';']
  else if c = '\'' then ['&', '#', 'x', '2', '7', ';']
  else [c]

def escape (s : Str) : Str := s.flatMap escChar

/-! ### the listing -/

structure Entry where
  name : Str        -- the text shown (before `escape`, without the `/` marker)
  href : Str        -- value of the `href` attribute (before `escape`, which leaves it unchanged)
  isDir : Bool
  deriving Repr, DecidableEq

/-- `cur_dir = os.path.join(self.path, path) if self.path else ''` -/
def curDir (cfg : Cfg) (rel : Str) : Str :=
  match cfg.pfx with
  | none => []
  | some p => if p = [] then [] else join p rel

/-- `url = os.path.join('/', path, cur_dir, item)` -/
def entryUrl (cfg : Cfg) (rel item : Str) : Str :=
  join (join (join ['/'] rel) (curDir cfg rel)) item

/-- `item.startswith('.')` -/
def hidden (n : Str) : Bool := n.head? = some '.'

/-- `location = os.path.abspath(os.path.join(self.docroot, path, item))` -/
def entryLoc (cfg : Cfg) (rel item : Str) : Str := normpath (join (join cfg.docroot rel) item)

def entryOf (fs : FS) (cfg : Cfg) (rel item : Str) : Entry :=
  let d := fs (entryLoc cfg rel item) == some Kind.dir
  ⟨item, quote (entryUrl cfg rel item) ++ (if d then ['/'] else []), d⟩

/-- the `<li>` entries of the listing of `rel`, in order, for `ls = os.listdir(directory)` -/
def entries (fs : FS) (cfg : Cfg) (rel : Str) (ls : List Str) : List Entry :=
  (ls.filter (fun n => !hidden n)).map (entryOf fs cfg rel)

/-- the `href` of the `..` entry (`none`: no such entry) -/
def parentLink (cfg : Cfg) (rel : Str) : Option Str :=
  if rel = [] then none
  else some (quote (match cfg.pfx with
    | none => join ['/'] (dirname rel)
    | some _ => join (curDir cfg rel) dotdot))

/-- the text of one `<li>` line -/
def liLine (e : Entry) : Str :=
  "<li><a href=\"".toList ++ escape e.href ++ "\">".toList ++ escape e.name ++
    (if e.isDir then ['/'] else []) ++ "</a></li>".toList

def upLine (h : Str) : Str :=
  "<li><a href=\"".toList ++ escape h ++ "\">..</a></li>".toList

structure Listing where
  loc : Str                   -- the directory listed
  up : Option Str
  items : List Entry
  deriving Repr, DecidableEq

/-- `Static._on_request` when it answers with a listing: which directory, which parent link,
    which entries.  `ls` answers `os.listdir` for the listed directory. -/
def serveListing (unq : Str → Str) (fs : FS) (ls : Str → List Str) (cfg : Cfg) (reqPath : Str) : Option Listing :=
  match relOf unq cfg reqPath with
  | none => none
  | some rel =>
    match serveRel fs cfg rel with
    | .listing loc => some ⟨loc, parentLink cfg rel, entries fs cfg rel (ls loc)⟩
    | _ => none

/-- the `..` href of the code before the fix "percent-encode the parent link" (kept for the witness) -/
def parentLinkLegacy (cfg : Cfg) (rel : Str) : Option Str :=
  if rel = [] then none
  else some (match cfg.pfx with
    | none => join ['/'] (dirname rel)
    | some _ => join (curDir cfg rel) dotdot)

/-- `ls` is what `os.listdir(dir)` reports for the file system `fs`: every child of `dir` once
    (children are named by clean path components) -/
def LsOk (fs : FS) (dir : Str) (ls : List Str) : Prop :=
  ls.Nodup ∧ ∀ n, n ∈ ls ↔ (cleanSeg n = true ∧ (fs (dir ++ '/' :: n)).isSome = true)

/-- every href of a listing page: the entries' and the parent link -/
def Listing.hrefs (l : Listing) : List Str := l.up.toList ++ l.items.map (·.href)

/-- the name of a `<li>` href "leads back" to its entry: the dispatcher answers the href with the
    node `loc/name` (a file), or - for a directory - with its listing or one of its default documents -/
def leadsTo (unq : Str → Str) (fs : FS) (cfg : Cfg) (loc : Str) (e : Entry) : Bool :=
  let child := loc ++ '/' :: e.name
  match serve unq fs cfg e.href with
  | .file l => l = child || (e.isDir && cfg.defaults.any (fun d => l = child ++ '/' :: d))
  | .listing l => e.isDir && l = child
  | _ => false

end StaticListing
end CV

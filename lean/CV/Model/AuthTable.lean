import CV.Model.AuthSpec
/-
Every shape of the `users` argument of `check_auth` (circuits/web/tools.py), evaluated PER CALL,
and sequences of checks on one request object.

          if isinstance(users, Callable):
              try:
                  users = users()                      # backward compatibility: expect a dict
                  if not isinstance(users, dict):
                      raise ValueError('Authentication users must be a dict')
                  password = users.get(ah['username'], None)
              except TypeError:
                  password = users(ah['username'])     # returns a password (encrypted or clear text)
          else:
              if not isinstance(users, dict):
                  raise ValueError('Authentication users must be a dict')
              password = users.get(ah['username'], None)
          if password is not None and checkResponse(...):
              request.login = ah['username']; return True
          request.login = False
      return False

The table is evaluated after the Authorization value was parsed (no header / unparsable header:
the table is never touched) and exactly once per call.  A dict may have been mutated and a
callable may answer differently (also: in a different shape) every time, so a `Table` is a
function of the CALL INDEX; `Table.at k` is what evaluating it yields during call `k` (`Ans`).

`runCalls` threads the one piece of state `check_auth` leaves on the request object
(`request.login`) through a sequence of calls `check_auth` / `basic_auth` / `digest_auth`, each
with its own realm / encrypt / table: the theorems of CV/Props/C20.lean say that what call `k`
answers is a function of the header and of `table.at k` alone.
-/
namespace CV
namespace Auth

/-- what `users(username)` answers -/
inductive NameAns where
  | pw (p : Str)     -- a str
  | absent           -- None
  | raises           -- any exception (it escapes `check_auth`)
  deriving Repr, DecidableEq

/-- what evaluating the `users` argument yields inside ONE call of `check_auth` -/
inductive Ans where
  | dict (t : List (Str × Str))   -- it is a dict / `users()` returned this dict
  | byName (g : Str → NameAns)    -- `users()` raised TypeError (it takes the user name): `users(name)`
  | nonDict                       -- not a dict / `users()` returned something else: ValueError
  | raises                        -- `users()` raised something other than TypeError

/-- the `users` argument; the index is the number of the call that evaluates it -/
inductive Table where
  | dict (t : Nat → List (Str × Str))        -- a (mutable) dict: its contents at call k
  | notDict                                  -- neither callable nor dict
  | callDict (t : Nat → List (Str × Str))    -- `lambda: {...}`
  | callName (g : Nat → Str → NameAns)       -- `lambda username: ...`
  | callOther                                -- a callable returning a non-dict
  | callRaises                               -- a callable that raises
  | callAny (a : Nat → Ans)                  -- a callable behaving differently from call to call

def Table.at : Table → Nat → Ans
  | .dict t, k => .dict (t k)
  | .notDict, _ => .nonDict
  | .callDict t, k => .dict (t k)
  | .callName g, k => .byName (g k)
  | .callOther, _ => .nonDict
  | .callRaises, _ => .raises
  | .callAny a, k => a k

/-- `password = ...` : the lookup of the user name in this call's answer -/
def Ans.password : Ans → Str → Res (Option Str)
  | .dict t, u => .val (t.lookup u)
  | .byName g, u =>
    match g u with
    | .pw p => .val (some p)
    | .absent => .val none
    | .raises => .raised
  | .nonDict, _ => .raised
  | .raises, _ => .raised

/-- `check_auth` with the table's answer of this call (cf. `checkAuth`, the dict-only model) -/
def checkAuthA (pol : Policy) (L : Leaves) (enc : Enc) (realm method : Str) (ans : Ans) :
    Option Str → Out
  | none => .noHeader
  | some cred =>
    match parseAuthorization L cred with
    | .raised => .raised
    | .val none => if pol.errTruthy then .errObj else .refused
    | .val (some ah) =>
      match ans.password ah.username with
      | .raised => .raised
      | .val password =>
        let verdict : Res Bool :=
          if pol.checkNone || password.isSome then checkResponse L.H enc ah password realm method
          else .val false
        match verdict with
        | .raised => .raised
        | .val true => .ok ah.username
        | .val false => .refused

def basicAuthA (pol : Policy) (L : Leaves) (enc : Enc) (realm method : Str) (ans : Ans)
    (hdr : Option Str) : Front :=
  match (checkAuthA pol L enc realm method ans hdr).truthy with
  | none => .raised
  | some true => .letThrough
  | some false => if realm.contains '"' then .raised else .unauthorized

def digestAuthA (pol : Policy) (L : Leaves) (realm method : Str) (ans : Ans)
    (hdr : Option Str) : Front :=
  match (checkAuthA pol L .dflt realm method ans hdr).truthy with
  | none => .raised
  | some true => .letThrough
  | some false => .unauthorized

/-! ### sequences of checks on one request object -/

/-- `request.login` -/
inductive Login where
  | unset            -- None (the class attribute)
  | no               -- False
  | user (u : Str)
  deriving Repr, DecidableEq

inductive FrontEnd where
  | check
  | basic
  | digest
  deriving Repr, DecidableEq

structure Call where
  front : FrontEnd
  enc : Enc
  realm : Str
  table : Table

/-- the `encrypt` a call runs with (`digest_auth` passes none on) -/
def Call.encUsed (c : Call) : Enc :=
  match c.front with
  | .digest => .dflt
  | _ => c.enc

/-- what the caller of one front end observes -/
inductive CallObs where
  | check (o : Out)
  | front (f : Front)
  deriving Repr, DecidableEq

/-- the request obtained the protected result -/
def CallObs.granted : CallObs → Bool
  | .check o => o.truthy == some true
  | .front f => f == .letThrough

/-- `request.login` after `check_auth` ended with `o` (an exception escapes before any assignment) -/
def loginAfter (prev : Login) : Out → Login
  | .ok u => .user u
  | .refused => .no
  | .noHeader => prev
  | .errObj => prev
  | .raised => prev

/-- one call, given the table's answer during it -/
def callOut (pol : Policy) (L : Leaves) (method : Str) (hdr : Option Str) (c : Call) (ans : Ans) : Out :=
  checkAuthA pol L c.encUsed c.realm method ans hdr

def callObs (pol : Policy) (L : Leaves) (method : Str) (hdr : Option Str) (c : Call) (ans : Ans) : CallObs :=
  match c.front with
  | .check => .check (checkAuthA pol L c.enc c.realm method ans hdr)
  | .basic => .front (basicAuthA pol L c.enc c.realm method ans hdr)
  | .digest => .front (digestAuthA pol L c.realm method ans hdr)

/-- calls number `k`, `k+1`, … on ONE request whose `login` attribute is `lg`:
    what each call answers and what `request.login` is afterwards -/
def runCalls (pol : Policy) (L : Leaves) (method : Str) (hdr : Option Str) :
    Login → Nat → List Call → List (CallObs × Login)
  | _, _, [] => []
  | lg, k, c :: cs =>
    let ans := c.table.at k
    let lg' := loginAfter lg (callOut pol L method hdr c ans)
    (callObs pol L method hdr c ans, lg') :: runCalls pol L method hdr lg' (k + 1) cs

/-! ### the statement on one observed call (spec on impl) -/

/-- the answer holds password `p` for user `u` -/
def Ans.holds (a : Ans) (u p : Str) : Bool := a.password u == .val (some p)

/-- the credentials carried by the header verify against what THIS call's answer holds for
    their own user name -/
def verifiedByA (L : Leaves) (enc : Enc) (realm method : Str) (ans : Ans) (hdr : Option Str) : Bool :=
  match hdr with
  | none => false
  | some cred =>
    match credsOf L cred with
    | none => false
    | some c =>
      match ans.password c.username with
      | .val (some p) => Verifies L.H enc c c.username p realm method
      | _ => false

def soundOnA (L : Leaves) (enc : Enc) (realm method : Str) (ans : Ans) (hdr : Option Str)
    (granted : Bool) : Bool :=
  !granted || verifiedByA L enc realm method ans hdr

def mustAcceptA (L : Leaves) (enc : Enc) (realm method : Str) (ans : Ans) (hdr : Option Str) :
    Option Str :=
  match hdr with
  | none => none
  | some cred =>
    match credsOf L cred with
    | none => none
    | some c =>
      match ans.password c.username with
      | .val (some p) =>
        if wellFormed enc c && Verifies L.H enc c c.username p realm method then some c.username
        else none
      | _ => none

def completeOnA (L : Leaves) (enc : Enc) (realm method : Str) (ans : Ans) (hdr : Option Str)
    (login : Option Str) : Bool :=
  match mustAcceptA L enc realm method ans hdr with
  | none => true
  | some u => login == some u

end Auth
end CV

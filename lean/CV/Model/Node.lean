import CV.Model.Basic
/-
Model of circuits/node/protocol.py + circuits/node/utils.py (after the `fix:` commits of C19).

  DELIMITER = b'~~~'

  def add_buffer(self, data=''):
      if data: self.__buffer += data
      packets = self.__buffer.split(DELIMITER)
      self.__buffer = b''
      last = len(packets) - 1
      for i, packet in enumerate(packets):
          try:
              self.__process_packet(packet)
          except ValueError:                 # undecodable / not (yet) JSON
              if i == last:                  # not terminated by the delimiter: rest still to come
                  self.__buffer = packet

  def __process_packet(self, packet):
      packet = packet.decode('utf-8')
      data = json.loads(packet)              # ValueError -> add_buffer
      if isinstance(data, dict) and 'value' in data and 'name' not in data:
          self.__process_packet_value(packet)
      else:
          self.__process_packet_call(packet)

JSON itself (`json.loads`, `json.dumps`, UTF-8 decoding) is an *oracle*: the model is
parametric in `parse : Bytes → PRes`; the driver instantiates it with a table that the
harness fills from the real `json.loads`.  Everything the node code does with the parsed
value (`load_event`, `load_value`, the META_EXCLUDE filter, firewalls, id bookkeeping,
`dump_event`, `dump_value`) is modelled on the JSON tree `J`.
-/
namespace CV
namespace Node

def TILDE : UInt8 := 126
def DELIM : Bytes := [126, 126, 126]

/-! ## framing -/

/-- put `b` in front of the first piece -/
def consB (b : UInt8) (r : List Bytes × Bytes) : List Bytes × Bytes :=
  match r.1 with
  | [] => ([], b :: r.2)
  | p :: ps => ((b :: p) :: ps, r.2)

/-- `x.split(b'~~~')` : (pieces that were terminated by a delimiter, last piece);
    leftmost, non-overlapping, exactly like `bytes.split` -/
def splitD : Bytes → List Bytes × Bytes
  | [] => ([], [])
  | b :: rest =>
    if DELIM.isPrefixOf (b :: rest) then
      let r := splitD (rest.drop 2)
      ([] :: r.1, r.2)
    else consB b (splitD rest)
termination_by x => x.length
decreasing_by all_goals (simp only [List.length_drop, List.length_cons]; omega)

/-- outcome of `__process_packet(piece)` as seen by `add_buffer` -/
inductive POut where
  | valueError   -- `ValueError` (UnicodeDecodeError / JSONDecodeError): not (yet) a packet
  | raised       -- another exception leaves add_buffer (the `read` handler fails; loop survives)
  | done         -- returned normally (dispatched, routed or rejected as malformed)
  deriving DecidableEq, Repr

/-- the terminated pieces in order: dropped on ValueError, abort on another exception -/
def procPieces (proc : Bytes → POut) : List Bytes → List Bytes × Bool
  | [] => ([], false)
  | p :: ps =>
    match proc p with
    | .raised => ([], true)
    | .valueError => procPieces proc ps
    | .done => let r := procPieces proc ps; (p :: r.1, r.2)

structure FeedRes where
  buf : Bytes
  done : List Bytes      -- pieces whose processing returned normally, in order
  aborted : Bool
  deriving Repr

/-- one `add_buffer(data)` -/
def feed (proc : Bytes → POut) (buf data : Bytes) : FeedRes :=
  let r := splitD (buf ++ data)
  let d := procPieces proc r.1
  if d.2 then ⟨[], d.1, true⟩
  else match proc r.2 with
    | .raised => ⟨[], d.1, true⟩
    | .valueError => ⟨r.2, d.1, false⟩
    | .done => ⟨[], d.1 ++ [r.2], false⟩

/-- any number of reads (an aborted read loses the rest of *that* read only) -/
def feedAll (proc : Bytes → POut) (buf : Bytes) : List Bytes → Bytes × List Bytes × Bool
  | [] => (buf, [], false)
  | d :: ds =>
    let r := feed proc buf d
    let r2 := feedAll proc r.buf ds
    (r2.1, r.done ++ r2.2.1, r.aborted || r2.2.2)

/-- `json.dumps(data).replace('~', '\\u007e')` on the encoded bytes: `~` can only occur inside
    JSON strings, where `~` denotes the same character -/
def escTilde (x : Bytes) : Bytes :=
  x.flatMap (fun b => if b = TILDE then [92, 117, 48, 48, 55, 101] else [b])

/-- what is written for one packet -/
def wire (body : Bytes) : Bytes := escTilde body ++ DELIM

/-- the stream of a list of packet bodies -/
def stream (pkts : List Bytes) : Bytes := (pkts.map (· ++ DELIM)).flatten

/-! ## JSON trees (the parsed packet) -/

inductive J where
  | null
  | bool (b : Bool)
  | num (repr : String) (nat : Option Nat) (zero : Bool)  -- text, value if a natural number, == 0
  | str (s : String)
  | arr (xs : List J)
  | obj (kvs : List (String × J))

/-- result of `json.loads(piece.decode('utf-8'))` -/
inductive PRes where
  | valueError
  | raised            -- e.g. RecursionError on absurd nesting
  | parsed (j : J)

namespace J

def lookup (k : String) : List (String × J) → Option J
  | [] => none
  | (k', v) :: r => if k' = k then some v else lookup k r

/-- `bool(x)` -/
def truthy : J → Bool
  | null => false
  | bool b => b
  | num _ _ z => !z
  | str s => s ≠ ""
  | arr xs => !xs.isEmpty
  | obj kvs => !kvs.isEmpty

/-- iteration (`tuple(x)`, `*x`): list elements, characters, dict keys -/
def iter : J → Option (List J)
  | arr xs => some xs
  | str s => some (s.toList.map (fun c => str (String.ofList [c])))
  | obj kvs => some (kvs.map (fun kv => str kv.1))
  | _ => none

def hashable : J → Bool
  | arr _ => false
  | obj _ => false
  | _ => true

def isStr : J → Bool
  | str _ => true
  | _ => false

/-- dict key that an id compares equal to: `some n` for the number n (True == 1, False == 0) -/
def natKey : J → Option Nat
  | num _ n _ => n
  | bool true => some 1
  | bool false => some 0
  | _ => none

end J

/-- one element of the sequence given to `dict(seq)`: must iterate to exactly two items,
    the first hashable -/
def pairOf (x : J) : Option (J × J) :=
  match x.iter with
  | some [k, v] => if k.hashable then some (k, v) else none
  | _ => none

/-- `dict(x)`: `none` = TypeError/ValueError -/
def pyDict : J → Option (List (J × J))
  | .obj kvs => some (kvs.map (fun kv => (J.str kv.1, kv.2)))
  | .arr xs => xs.mapM pairOf
  | .str s => if s = "" then some [] else none
  | _ => none

/-! ## events -/

structure Ev where
  name : String
  args : List J
  kwargs : List (String × J)
  success : Bool
  failure : Bool
  notify : Bool
  channels : List J
  attrs : List (String × J)     -- further instance attributes (set by the user or from `meta`)

/-- `Event.create(name, *args, **kwargs)` leaves these to the class: what a locally
    created event carries in the fields the dispatcher reads -/
def Ev.local (name : String) (args : List J) (kwargs : List (String × J)) : Ev :=
  ⟨name, args, kwargs, false, false, false, [], []⟩

/-- attribute read, the way the dispatcher does it (`getattr(e, k, default)`): an entry of
    `attrs` shadows nothing that `META_EXCLUDE` protects, see `C19.meta_safe` -/
def Ev.attr (e : Ev) (k : String) : Option J := J.lookup k e.attrs

def setAttr (attrs : List (String × J)) (k : String) (v : J) : List (String × J) :=
  attrs.filter (·.1 ≠ k) ++ [(k, v)]

/-- the filter both loaders apply to `meta` -/
def metaOk (excl : List String) (k : String) : Bool :=
  !(k.startsWith "__") && !excl.contains k

def applyMeta (excl : List String) (attrs : List (String × J)) : List (String × J) → List (String × J)
  | [] => attrs
  | (k, v) :: r => applyMeta excl (if metaOk excl k then setAttr attrs k v else attrs) r

inductive Load (α : Type) where
  | drop          -- TypeError / ValueError / LookupError: caught, packet ignored
  | raised        -- another exception: leaves add_buffer
  | ok (a : α)

/-- keyword names that collide with the parameters of `Event.__init__(self, …)`;
    `Event.create(cls, _name, /, …)` takes its own two positionally (fix) -/
def kwClash (k : String) : Bool := k = "self"

def strKeys : List (J × J) → Option (List (String × J))
  | [] => some []
  | (.str k, v) :: r => (strKeys r).map ((k, v) :: ·)
  | _ => none

/-- `load_event(s)` on the parsed tree -/
def loadEvent (excl : List String) (d : J) : Load (Ev × J) :=
  match d with
  | .obj f =>
    match J.lookup "name" f, J.lookup "args" f, J.lookup "kwargs" f with
    | some (.str name), some a, some (.obj kw) =>
      match a.iter with
      | none => .drop
      | some args =>
        if name.toList.contains (Char.ofNat 0) || kw.any (fun kv => kwClash kv.1) then .drop else
        match J.lookup "success" f, J.lookup "failure" f, J.lookup "notify" f, J.lookup "channels" f with
        | some su, some fa, some no, some ch =>
          match ch.iter with
          | none => .drop
          | some chans =>
            if !chans.all J.hashable then .drop else      -- `hash(e.channels)` (fix)
            match J.lookup "meta" f with
            | none => .drop
            | some m =>
              match pyDict m with
              | none => .drop
              | some pairs =>
                match strKeys pairs with
                | none => .raised                        -- `k.startswith` on a non-str key
                | some kvs =>
                  match J.lookup "id" f with
                  | none => .drop
                  | some id =>
                    .ok (⟨name, args, kw, su.truthy, fa.truthy, no.truthy, chans,
                          applyMeta excl [] kvs⟩, id)
        | _, _, _, _ => .drop
    | _, _, _ => .drop
  | _ => .drop

/-- `load_value(s)`: value, id, errors, filtered meta -/
def loadValue (excl : List String) (d : J) : Load (J × J × J × List (String × J)) :=
  match d with
  | .obj f =>
    match J.lookup "meta" f with
    | none => .drop
    | some (.obj m) =>
      match J.lookup "value" f, J.lookup "id" f, J.lookup "errors" f with
      | some v, some id, some er => .ok (v, id, er, m.filter (fun kv => metaOk excl kv.1))
      | _, _, _ => .drop
    | some _ => .raised                                  -- `.items()` on a non-dict
  | _ => .drop

/-- `dump_event(e, id)` before `json.dumps` -/
def dumpEvent (excl : List String) (e : Ev) (id : J) : J :=
  .obj [("id", id), ("name", .str e.name), ("args", .arr e.args), ("kwargs", .obj e.kwargs),
        ("success", .bool e.success), ("failure", .bool e.failure), ("channels", .arr e.channels),
        ("notify", .bool e.notify), ("meta", .obj (e.attrs.filter (fun kv => !excl.contains kv.1)))]

/-- `dump_value(v)` before `json.dumps`; `attrs` are those of `v.event` -/
def dumpValue (excl : List String) (id errors value : J) (attrs : List (String × J)) : J :=
  .obj [("id", id), ("errors", errors), ("value", value),
        ("meta", .obj (attrs.filter (fun kv => !excl.contains kv.1 && !kv.1.startsWith "__")))]

/-- value packet or call packet (`__process_packet`, after the fix: decided on the parsed
    top-level keys, not on a substring) -/
def isValuePacket : J → Bool
  | .obj f => (J.lookup "value" f).isSome && (J.lookup "name" f).isNone
  | _ => false

/-! ## one Protocol instance -/

structure Pending where
  id : Nat
  finished : Bool
  values : List J        -- what `Value.setValue` accumulated (one entry per result packet)
  errors : J             -- `ev.errors`: the flag of the packet, unless `meta` carries an `errors` of its own
  metas : List (String × J)

structure Proto where
  buf : Bytes := []
  nid : Nat := 0
  pending : List Pending := []

/-- what one processed packet does -/
inductive Eff where
  | fire (e : Ev) (id : J)            -- `self.fire(event, *event.channels)` with node_call_id = id
  | write (pkt : J)                   -- `self.fire(write(packet))`, packet = dumps(pkt) + DELIM
  | resolve (id : Nat) (value errors : J)   -- a waiting call got its answer

structure Cfg where
  excl : List String
  sendOk : Ev → Bool
  recvOk : Ev → Bool

/-- does processing the parsed packet raise out of add_buffer? (pure in the packet) -/
def raisesJ (excl : List String) (j : J) : Bool :=
  if isValuePacket j then
    match loadValue excl j with
    | .raised => true
    | .ok (_, id, _, _) => !id.hashable           -- `self.__events.get(id)`
    | .drop => false
  else
    match loadEvent excl j with
    | .raised => true
    | _ => false

def procOf (excl : List String) (parse : Bytes → PRes) (p : Bytes) : POut :=
  match parse p with
  | .valueError => .valueError
  | .raised => .raised
  | .parsed j => if raisesJ excl j then .raised else .done

def resolvePending (ps : List Pending) (n : Nat) (v er : J) (m : List (String × J)) : List Pending :=
  ps.map (fun p => if p.id = n then { p with finished := true, values := p.values ++ [v],
                                             errors := m.foldl (fun a kv => if kv.1 = "errors" then kv.2 else a) er,
                                             metas := m.foldl (fun a kv => setAttr a kv.1 kv.2) p.metas } else p)

/-- `__process_packet_call` / `__process_packet_value` for a packet that does not raise -/
def processJ (c : Cfg) (s : Proto) (j : J) : Proto × List Eff :=
  if isValuePacket j then
    match loadValue c.excl j with
    | .ok (v, id, er, m) =>
      match id.natKey with
      | some n =>
        if s.pending.any (·.id = n) then
          ({ s with pending := resolvePending s.pending n v er m }, [.resolve n v er])
        else (s, [])
      | none => (s, [])
    | _ => (s, [])
  else
    match loadEvent c.excl j with
    | .ok (e, id) =>
      if c.recvOk e then (s, [.fire e id])
      else (s, [.write (dumpValue c.excl id (.bool false) .null e.attrs)])
    | _ => (s, [])

def processAll (c : Cfg) (parse : Bytes → PRes) (s : Proto) : List Bytes → Proto × List Eff
  | [] => (s, [])
  | p :: ps =>
    match parse p with
    | .parsed j =>
      let r := processJ c s j
      let r2 := processAll c parse r.1 ps
      (r2.1, r.2 ++ r2.2)
    | _ => processAll c parse s ps

/-- `read` handler: add_buffer(data) -/
def recv (c : Cfg) (parse : Bytes → PRes) (s : Proto) (data : Bytes) : Proto × List Eff × Bool :=
  let r := feed (procOf c.excl parse) s.buf data
  let r2 := processAll c parse { s with buf := r.buf } r.done
  (r2.1, r2.2, r.aborted)

/-- any number of reads -/
def recvAll (c : Cfg) (parse : Bytes → PRes) (s : Proto) : List Bytes → Proto × List Eff
  | [] => (s, [])
  | d :: ds =>
    let r := recv c parse s d
    let r2 := recvAll c parse r.1 ds
    (r2.1, r.2.1 ++ r2.2)

/-- `send(event)` up to the first `yield`: blocked by the firewall, or written (and
    registered as pending unless `node_without_result`) -/
def send (c : Cfg) (s : Proto) (e : Ev) (noResult : Bool) : Proto × List Eff :=
  if !c.sendOk e then (s, [])
  else
    let id := s.nid
    let pkt := dumpEvent c.excl e (.num (toString id) (some id) (id == 0))
    ({ s with nid := id + 1,
              pending := if noResult then s.pending
                         else s.pending ++ [⟨id, false, [], .null, []⟩] },
     [.write pkt])

/-- the waiting generator looks at its entry -/
def poll (s : Proto) (id : Nat) : Option Pending := s.pending.find? (·.id = id)

def finish (s : Proto) (id : Nat) : Proto := { s with pending := s.pending.filter (·.id ≠ id) }

/-- `result_handler`: the `<name>_success` event of a received call sends the value back -/
def sendResult (c : Cfg) (id : J) (value : J) (attrs : List (String × J)) : Eff :=
  .write (dumpValue c.excl id (.bool false) value attrs)

end Node
end CV

import CV.Model.Stream
/-
The statement of C11 as a decidable predicate over what an observer of ONE endpoint sees
(`List Ev`), written without reference to the model's algorithm: no payload boundaries, no
deque, no close flag.  The spec keeps one byte string, `pending` = everything written to the
open endpoint that the OS has not accepted yet, and demands

  not-next-bytes      every chunk the OS accepts is exactly the front of `pending`
                      (nothing lost, repeated or reordered; partial sends and transient
                      refusals change nothing)
  send-after-close    no byte is accepted after the endpoint closed its socket
  close-before-drain  the socket is closed only when `pending` is empty, or after a fatal
                      send error
  fatal-unsignalled   a fatal send error is followed, before the op is over, by an `error`
                      or disconnect event
  stalled             at the end of an op an open, healthy endpoint with pending bytes is
                      registered as a writer (otherwise the bytes are never handed over)

"accepted is an exact prefix of what was written" is the invariant `accepted ++ pending =
written`, which `not-next-bytes` maintains; it is proved in CV/Props/C11.lean.

`osBad` records that the *operating system* (not the code) behaved impossibly: bytes
accepted on a socket after it reported a fatal error.  The theorems assume it does not.

The driver evaluates `check` on the implementation's own event stream (spec on impl).
-/
namespace CV
namespace Stream

def EAGAIN : Nat := 11   -- == EWOULDBLOCK on Linux (checked by the harness)
def EINTR : Nat := 4
def ENOBUFS : Nat := 105

/-- the transient refusals named by the property; every other errno is fatal -/
def specTransient (e : Nat) : Bool := e == EAGAIN || e == EINTR || e == ENOBUFS

inductive Clause
  | notNextBytes | sendAfterClose | closeBeforeDrain | fatalUnsignalled | stalled
  deriving DecidableEq, Repr

def Clause.name : Clause → String
  | .notNextBytes => "not-next-bytes"
  | .sendAfterClose => "send-after-close"
  | .closeBeforeDrain => "close-before-drain"
  | .fatalUnsignalled => "fatal-unsignalled"
  | .stalled => "stalled"

structure SpecSt where
  pending : Bytes := []      -- written to the open endpoint, not yet accepted
  closed : Bool := false     -- the socket has been closed
  dead : Bool := false       -- a fatal send error has occurred
  owed : Bool := false       -- ... and has not been signalled yet
  bad : Option Clause := none
  osBad : Bool := false
  -- ghost totals, used only to state the prefix theorem
  written : Bytes := []
  accepted : Bytes := []
  deriving DecidableEq, Repr

def SpecSt.fail (σ : SpecSt) (c : Clause) : SpecSt :=
  match σ.bad with
  | none => { σ with bad := some c }
  | some _ => σ

def specStep (σ : SpecSt) : Ev → SpecSt
  | .wr p =>
    if σ.closed then σ
    else { σ with pending := σ.pending ++ p, written := σ.written ++ p }
  | .closeReq => σ
  | .acc b =>
    if σ.closed then σ.fail .sendAfterClose
    else if σ.dead then { σ with osBad := true }
    else if b.isPrefixOf σ.pending then
      { σ with pending := σ.pending.drop b.length, accepted := σ.accepted ++ b }
    else σ.fail .notNextBytes
  | .refuse e =>
    if σ.closed || specTransient e then σ
    else { σ with dead := true, owed := true }
  | .sockClose =>
    if σ.closed then σ
    else
      let σ1 := { σ with closed := true }
      if !σ.dead && !σ.pending.isEmpty then σ1.fail .closeBeforeDrain else σ1
  | .evErr => { σ with owed := false }
  | .evDisc => { σ with owed := false }
  | .raised => σ
  | .bd interest =>
    let σ1 := if σ.owed then { σ.fail .fatalUnsignalled with owed := false } else σ
    if !interest && !σ.closed && !σ.dead && !σ.pending.isEmpty then σ1.fail .stalled else σ1

def specRun (σ : SpecSt) (evs : List Ev) : SpecSt := evs.foldl specStep σ

/-- the verdict over a whole observation: `none` = the property holds on it -/
def check (evs : List Ev) : Option Clause := (specRun {} evs).bad

/-- the OS was consistent on this observation -/
def osOk (evs : List Ev) : Bool := !(specRun {} evs).osBad

/-! Totals read directly off an observation (used to state the theorems; independent of
    `specStep`). -/

/-- all bytes the OS accepted, in order -/
def acceptedOf : List Ev → Bytes
  | [] => []
  | .acc b :: r => b ++ acceptedOf r
  | _ :: r => acceptedOf r

/-- all bytes written to the endpoint before it closed its socket, in order
    (`closed` = the socket is already closed at the start of the list) -/
def writtenOf (closed : Bool) : List Ev → Bytes
  | [] => []
  | .wr p :: r => if closed then writtenOf closed r else p ++ writtenOf closed r
  | .sockClose :: r => writtenOf true r
  | _ :: r => writtenOf closed r

/-- Hypothesis of the theorems about the measured errno table: the code pushes the payload
    back (and does not close) on the transient errnos, and signals every other errno by an
    `error` event or by closing (which fires the disconnect event). -/
def goodAct (e : Nat) (a : ErrAct) : Bool :=
  if specTransient e then a.requeue && !a.close else a.error || a.close

def GoodActs (act : Nat → ErrAct) : Prop := ∀ e, goodAct e (act e) = true

/-- decidable form for a finite table with a default, as the driver receives it -/
def tableAct (tbl : List (Nat × ErrAct)) (dflt : ErrAct) (e : Nat) : ErrAct :=
  match tbl.lookup e with
  | some a => a
  | none => dflt

def goodTable (tbl : List (Nat × ErrAct)) (dflt : ErrAct) : Bool :=
  tbl.all (fun ea => goodAct ea.1 ea.2)
    && [EAGAIN, EINTR, ENOBUFS].all (fun e => (tbl.lookup e).isSome)
    && (dflt.error || dflt.close)

end Stream
end CV

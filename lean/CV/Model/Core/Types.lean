import CV.Model.Core.Queue
import CV.Model.Core.Value
/-
State of the core machine: the model of `Manager` / `BaseComponent` / `Event` / `Value`
(circuits/core/manager.py, components.py, events.py, values.py) for one thread.

Identifiers are small naturals: components, handlers, events, generators, wait states
are indices into the tables of `St`.  User code is data: a handler's body is a `Prog`
(list of `Act`) from the program table.
-/
namespace CV.Core

/-- a channel value: `'*'`, a string, or a component instance -/
inductive Chan
  | star
  | named (n : Nat)
  | inst (c : Nat)
  deriving DecidableEq, Repr

/-- event names.  `sfx` is the chain of `Event.child` suffixes
    (1 done, 2 success, 3 failure, 4 complete, 5 value_changed). -/
structure Name where
  base : Nat
  sfx : List Nat := []
  deriving DecidableEq, Repr

namespace Name
def registered : Name := ⟨900, []⟩
def unregistered : Name := ⟨901, []⟩
def prepareUnregister : Name := ⟨902, []⟩
def started : Name := ⟨903, []⟩
def stopped : Name := ⟨904, []⟩
def generateEvents : Name := ⟨905, []⟩
def exception : Name := ⟨906, []⟩
def child (n : Name) (s : Nat) : Name := ⟨n.base, n.sfx ++ [s]⟩
end Name

def sfxDone : Nat := 1
def sfxSuccess : Nat := 2
def sfxFailure : Nat := 3
def sfxComplete : Nat := 4
def sfxValueChanged : Nat := 5

/-- exit code carried by `SystemExit` / `stop(code)`; Python `None` is `none` -/
abbrev Code := Option Nat

/-- event template: what user code constructs before `fire` -/
structure Tmpl where
  name : Name
  success : Bool := false
  failure : Bool := false
  complete : Bool := false
  notify : Bool := false
  successChans : Option (List Chan) := none
  completeChans : Option (List Chan) := none
  deriving DecidableEq, Repr

/-- user code -/
inductive Act
  | fire (t : Nat) (target : Option Chan) (prio : Int) (cancel : Bool)
  | stopEv
  | ret (v : Nat)
  | raise
  | yld (v : Option Nat)
  | call (t : Nat) (target : Option Chan) (timeout : Option Nat) (catch_ : Bool)
  | wait (name : Name) (target : Option Chan) (timeout : Option Nat) (catch_ : Bool)
  | addH (h : Nat)                       -- owner.addHandler(h)  (h pre-declared, owner fixed)
  | rmH (h : Nat) (byName : Option Name) -- owner.removeHandler(h[, name])
  | reg (c p : Nat)
  | unreg (c : Nat)
  | flush
  | stopMgr (c : Nat) (code : Code)
  | sysExit (code : Code)
  | kbdInt
  | timerNew (t : Nat)                   -- create + register timer t (C09)
  | timerReset (t : Nat)
  deriving DecidableEq, Repr

abbrev Prog := List Act

def Act.yields : Act → Bool
  | .yld _ => true
  | .call .. => true
  | .wait .. => true
  | _ => false

/-- a handler body is a generator function iff it contains a yield -/
def Prog.isGen (p : Prog) : Bool := p.any Act.yields

inductive HKind
  | user (prog : Nat)
  | prepUnregComplete
  | waitEvent (w : Nat)
  | waitDone (w : Nat)
  | waitTick (w : Nat)
  | timer (t : Nat)
  | fallbackGE
  | fallbackExc
  deriving DecidableEq, Repr

/-- kind code used in the log for framework handlers -/
def HKind.code : HKind → Nat
  | .user _ => 0
  | .waitEvent _ => 1
  | .waitDone _ => 2
  | .waitTick _ => 3
  | .prepUnregComplete => 4
  | .timer _ => 5
  | .fallbackGE => 6
  | .fallbackExc => 7

structure Handler where
  owner : Nat
  names : List Name          -- [] = declared without names (catch-all / global)
  chan : Option Chan         -- None: falls back to the owner's channel
  prio : Int := 0
  kind : HKind
  deriving DecidableEq, Repr

structure Ev where
  name : Name
  chans : List Chan := []
  parentEv : Option Nat := none
  success : Bool := false
  failure : Bool := false
  complete : Bool := false
  notify : Bool := false
  successChans : Option (List Chan) := none
  completeChans : Option (List Chan) := none
  alertDone : Bool := false
  waiting : Int := 0
  stopped : Bool := false
  cancelled : Bool := false
  cause : Option Nat := none
  effects : Int := 0
  selfDone : Bool := false   -- ghost: the event's own "done" step (eventDone / cancelled skip) has decremented `effects`
  val : Val := {}
  mgr : Nat := 0             -- Value.manager: the component `fire` was called on
  arg : Nat := 0             -- first argument when it is a component (prepare_unregister etc.)
  timeLeft : Int := -1       -- generate_events only; unit = clock ticks, < 0 = unlimited
  geHandler : Option Nat := none  -- generate_events only: `event.handler`
  deriving Repr

/-- a task key: (event, generator, parent generator) - compared as a tuple, like Python -/
structure Task where
  e : Nat
  g : Nat
  parent : Option Nat
  deriving DecidableEq, Repr

/-- generator objects -/
inductive GenRec
  | user (e h owner : Nat) (rest : Prog) (step : Nat) (pendingCatch : Option Bool) (started : Bool)
  | wait (w : Nat)
  | exc (w : Nat) (fired : Bool)            -- `(e for e in (ExceptionWrapper(TimeoutError()),))`
  | one (v : Option Nat) (consumed : Bool)  -- `(val for val in (value,))`
  | dead                                    -- a generator that has finished or raised
  deriving Repr

/-- `_State` of one `waitEvent` call plus the variables its closures capture -/
structure WaitSt where
  owner : Nat
  evObj : Option Nat
  evName : Name
  timeout : Int
  run : Bool := false
  flag : Bool := false
  event : Option Nat := none
  taskEvent : Nat := 0
  task : Nat := 0            -- generator id of this waitEvent/callEvent generator
  parentGen : Nat := 0
  hEvent : Nat := 0
  hDone : Nat := 0
  hTick : Option Nat := none
  isCall : Option (Nat × Option Chan) := none   -- callEvent: template and target, fired at first `next`
  chanArg : Option Chan := none                 -- waitEvent(name, channel)
  started : Bool := false
  timedOut : Bool := false                      -- `state.timed_out`: `_on_tick` has fired the TimeoutError task
  deriving Repr

structure TimerSt where
  interval : Int
  persist : Bool
  tmpl : Nat
  target : Option Chan
  comp : Nat                 -- the Timer component
  parent : Nat               -- where it registers
  expiry : Int := 0
  created : Bool := false    -- the harness creates each Timer object at most once
  ev : Option Nat := none    -- `Timer.event`: one event object, fired again and again
  deriving Repr

/-- handler table entry: key `none` is the `'*'` bucket of `_handlers` -/
abbrev HKey := Option Name

structure Comp where
  parent : Nat
  root : Nat
  children : List Nat := []
  chan : Chan := .star
  htab : List (HKey × Nat) := []      -- `_handlers`: (name bucket, handler)
  globals : List Nat := []            -- `_globals`
  pending : Bool := false             -- `_unregister_pending`
  eq : EQ := {}
  tasks : List Task := []             -- `_tasks` (a set)
  cache : List ((Name × List Chan) × List Nat) := []
  dirty : Bool := false               -- `_cache_needs_refresh`
  running : Bool := false
  executing : Bool := false           -- `_executing_thread is not None`
  flushing : Bool := false            -- `_flushing_thread is not None`
  currently : Option Nat := none      -- `_currently_handling`
  exitCode : Code := none             -- `_exit_code`
  deriving Repr

/-- the observation log (ghost history); the implementation harness records the same -/
inductive Entry
  | fire (e : Nat) (name : Name) (chans : List Chan) (prio : Int)
  | disp (e : Nat)                       -- `_dispatcher` entered
  | inv (e h step : Nat)                 -- user handler body entered / resumed
  | task (e g : Nat)                     -- `processTask` entered (g = canonical generator key)
  | resumed (e h : Nat) (src : Nat) (v : Collapsed) (errors : Bool)  -- caller resumed with a Value
  | timeout (e h : Nat) (caught : Bool)  -- TimeoutError thrown into the caller
  | idle (d : Int)                       -- idle wait of the fallback generator
  | batch (n : Nat)                      -- `dispatchEvents` starts a new batch of n events
  | exit (e h : Nat)                     -- user handler call returned (or raised)
  | hinv (e kind owner : Nat)            -- framework handler invoked (kind code, owning component)
  deriving DecidableEq, Repr

inductive Exn
  | sysExit (code : Code)
  | fuel
  | blocked                 -- the loop would sleep for ever (no other thread in the model)
  | unregistrable
  | inadmissible            -- register(c, p) outside the property's precondition
  | apiRaised               -- an external API call (removeHandler, …) raised in the caller's frame
  deriving DecidableEq, Repr

structure St where
  comps : List Comp := []
  hs : List Handler := []
  evs : List Ev := []
  gens : List GenRec := []
  waits : List WaitSt := []
  timers : List TimerSt := []
  progs : List Prog := []
  tmpls : List Tmpl := []
  log : List Entry := []        -- newest first
  tape : List Entry := []       -- the implementation's log, oldest first: resolves free choices
  clock : Int := 0
  timeoutTicks : Int := 6       -- TIMEOUT (0.1 s) in clock ticks of 1/64 s, rounded down
  deriving Repr

end CV.Core

/-
L0 layer: `Value.setValue` for plain (non-Value) results (circuits/core/values.py 72-120).

  def setValue(self, value):
      if self.result and isinstance(self._value, list): self._value.append(value)
      elif self.result: self._value = [self._value]; self._value.append(value)
      else: self._value = value
      update(self, value):  o.result = True; o.inform()        (value is not None)

A handler result is a token `val n` or the error triple `err`.
-/
namespace CV.Core

inductive VItem
  | val (n : Nat)
  | err
  deriving DecidableEq, Repr

structure Val where
  result : Bool := false
  errors : Bool := false
  promise : Bool := false
  items : List VItem := []      -- `_value`: unset = [], single = [x] with isList = false
  isList : Bool := false
  deriving DecidableEq, Repr

/-- the storage part of `setValue` (the `inform()` it triggers is done by the machine) -/
def Val.set (v : Val) (x : VItem) : Val :=
  if v.result && v.isList then { v with items := v.items ++ [x] }
  else if v.result then { v with items := v.items ++ [x], isList := true }
  else { v with items := [x], isList := false, result := true }

/-- what the property statement says the value must be, given the produced results in order -/
inductive Collapsed
  | unset
  | single (x : VItem)
  | many (xs : List VItem)
  deriving DecidableEq, Repr

def collapse : List VItem → Collapsed
  | [] => .unset
  | [x] => .single x
  | xs => .many xs

def Val.view (v : Val) : Collapsed :=
  if !v.result then .unset
  else if v.isList then .many v.items
  else match v.items with
    | [x] => .single x
    | xs => .many xs

end CV.Core

import CV.Model.Core.Pure
/-
The core machine: a big-step interpreter of `Manager` for one thread, with fuel
(user programs may loop for ever; theorems are about runs that return).

Every function mirrors one Python function and is commented with it.  Choices the code
leaves to `set` iteration order (handlers of equal priority, tasks within a tick, equal
heap keys after `drainFrom`) are resolved by the `tape` - the implementation's own log -
and all theorems hold for every tape.
-/
namespace CV.Core

abbrev M := ExceptT Exn (StateM St)

/-! ### table access (monadic views of the primitives of `Pure.lean`) -/

def getComp (c : Nat) : M Comp := do return (← get).comp c
def getEv (e : Nat) : M Ev := do return (← get).ev e
def getH (h : Nat) : M Handler := do return (← get).handler h
def modComp (c : Nat) (f : Comp → Comp) : M Unit := modify (·.modComp c f)
def modEv (e : Nat) (f : Ev → Ev) : M Unit := modify (·.modEv e f)
def modWait (w : Nat) (f : WaitSt → WaitSt) : M Unit := modify (·.modWait w f)
def getWait (w : Nat) : M WaitSt := do return (← get).wait w
def rootOf (c : Nat) : M Nat := do return (← get).rootOf c

/-- append to the log and advance the tape in step with it -/
def logE (x : Entry) : M Unit := modify (·.logE x)

def tapeHead : M (Option Entry) := do return (← get).tape.head?

def newEv (e : Ev) : M Nat := do
  let s ← get
  set (s.addEv e)
  return s.evs.length

def newH (h : Handler) : M Nat := do
  let s ← get
  set (s.addH h)
  return s.hs.length

def newGen (g : GenRec) : M Nat := do
  let s ← get
  set (s.addGen g)
  return s.gens.length

/-- canonical key of a generator for the log: user generators are named by their handler
    invocation; helper generators by the user generator they belong to -/
def genKey (g : Nat) : M Nat := do return g

/-! ### handler tables, firing, Value, tasks, tree: the pure functions of `Pure.lean` -/

/-- `addHandler(method)` on the handler's owner -/
def addHandler (h : Nat) : M Unit := modify (·.addHandler h)

/-- `removeHandler(method, event=None)`; `false` = KeyError / ValueError raised -/
def removeHandler (h : Nat) (byName : Option Name) : M Bool := do
  let r := (← get).removeHandler h byName
  set r.2
  return r.1

/-- `fireEvent` after the event object exists: set channels and Value, then `root._fire` -/
def fireRaw (self : Nat) (e : Nat) (chans : List Chan) (prio : Int) : M Unit :=
  modify (·.fireRaw self e chans prio)

def childEv (p : Nat) (sfx : Nat) : M Nat := do
  let s ← get
  set (s.childEv p sfx)
  return s.evs.length

/-- `Value.inform(force)` -/
def inform (e : Nat) (force : Bool) : M Unit := modify (·.inform e force)

/-- `event.value.value = x` -/
def setValue (e : Nat) (x : VItem) : M Unit := modify (·.setValue e x)

/-! ### completion bookkeeping (manager.py `_eventDone`, `_effectDone`) -/

def effectDone : Nat → Nat → Nat → Bool → M Unit
  | 0, _, _, _ => throw .fuel
  | fuel + 1, r, e, announce => do
    let ev ← getEv e
    match ev.cause with
    | none => return
    | some cause =>
      let eff := ev.effects - 1
      modEv e fun x => { x with effects := eff }
      if eff > 0 then return
      if ev.complete && announce then
        let c ← childEv e sfxComplete
        fireRaw r c (ev.completeChans.getD ev.chans) 0
      modEv e fun x => { x with cause := none, effects := 0 }
      -- `event = cause`; an event that is its own cause has just lost the attribute
      if cause == e then return
      effectDone fuel r cause true

def eventDone (fuel : Nat) (r : Nat) (e : Nat) (err : Bool) : M Unit := do
  let ev ← getEv e
  if ev.waiting != 0 then return
  if ev.alertDone then
    let c ← childEv e sfxDone
    fireRaw r c ev.chans 0
  let ev ← getEv e
  if !err && !ev.val.errors && ev.success then
    let c ← childEv e sfxSuccess
    fireRaw r c (ev.successChans.getD ev.chans) 0
  modEv e fun x => { x with selfDone := true }
  effectDone fuel r e true

/-! ### tasks -/

def registerTask (c : Nat) (t : Task) : M Unit := modify (·.registerTask c t)

def unregisterTask (c : Nat) (t : Task) : M Unit := modify (·.unregisterTask c t)

/-! ### generate_events (events.py 301-330) -/

def reduceTimeLeft (e : Nat) (t : Int) : M Unit := modify (·.reduceTimeLeft e t)

/-! ### tree (components.py 123-197, manager.py 405-417) -/

def updateRoot : Nat → Nat → Nat → M Unit
  | 0, _, _ => throw .fuel
  | fuel + 1, c, root => do
    modComp c fun x => { x with root := root }
    let x ← getComp c
    for d in x.children do
      updateRoot fuel d root

def fireTmplEv (self : Nat) (ev : Ev) (target : Option Chan) (prio : Int) : M Nat := do
  let s ← get
  set (s.fireTmplEv self ev target prio)
  return s.evs.length

/-- `BaseComponent.register(parent)` -/
def register (fuel : Nat) (c p : Nat) : M Unit := do
  if !((← get).admissible c p) then throw .inadmissible
  let pc ← getComp p
  modComp c fun x => { x with parent := p, root := pc.root }
  if p != c then
    -- parent.registerChild(self)
    let cc ← getComp c
    let r := pc.root
    let rc ← getComp r
    if cc.executing then
      if rc.executing then throw .unregistrable
      modComp r fun x => { x with executing := true }
      modComp c fun x => { x with executing := false }
    modComp p fun x => { x with children := if x.children.contains c then x.children else x.children ++ [c] }
    let cc ← getComp c
    let rc ← getComp r
    let (rq, cq) := rc.eq.drainFrom cc.eq
    if r != c then
      modComp r fun x => { x with eq := rq, dirty := true }
      modComp c fun x => { x with eq := cq }
    updateRoot fuel c pc.root
    let _ ← fireTmplEv c { name := Name.registered, arg := c } none 0
  else
    updateRoot fuel c pc.root

/-- `BaseComponent.unregister()` -/
def unregister (c : Nat) : M Unit := modify (·.unregister c)

/-- `_do_prepare_unregister_complete` -/
def doPrepareUnregisterComplete (fuel : Nat) (c : Nat) : M Unit := do
  modComp c fun x => { x with pending := false }
  let _ ← fireTmplEv c { name := Name.unregistered, arg := c } none 0
  let cc ← getComp c
  if cc.parent != c then
    let p := cc.parent
    let pc ← getComp p
    modComp p fun x => { x with children := x.children.erase c }
    modComp pc.root fun x => { x with dirty := true }
    modComp c fun x => { x with parent := c }
  updateRoot fuel c c
  modComp c fun x => { x with dirty := true }

/-! ### user code: one action
    (`Outcome`, `GenYield`, `HCtx`, `mkEvOfTmpl`, `hkey` live in `Pure.lean`) -/

mutual

/-- `self.stop(code)` (manager.py `stop`) on component `c` -/
def stopMgr : Nat → Nat → Code → M Unit
  | 0, _, _ => throw .fuel
  | fuel + 1, c, code => do
    let cc ← getComp c
    if !cc.running then return
    modComp c fun x => { x with running := false }
    let _ ← fireTmplEv c { name := Name.stopped, arg := c } none 0
    let r ← rootOf c
    let rc ← getComp r
    if !rc.executing then
      tick fuel c
      tick fuel c
      tick fuel c
    else if code.isSome then
      modComp r fun x => { x with exitCode := code }
      return
    if code.isSome then throw (.sysExit code)

/-- one action of user code; `none` = go on, `some o` = the body ends with outcome `o` -/
def doAct : Nat → HCtx → Act → M (Option Outcome)
  | 0, _, _ => throw .fuel
  | fuel + 1, ctx, a => do
    match a with
    | .fire t target prio cancel =>
      let e ← fireTmplEv ctx.self (mkEvOfTmpl (← get) t) target prio
      if cancel then modEv e fun x => { x with cancelled := true }
      return none
    | .stopEv =>
      match ctx.ev with
      | some e => modEv e fun x => { x with stopped := true }
      | none => pure ()
      return none
    | .ret v => return some (.value v)
    | .raise => return some .raised
    | .yld _ => return none      -- handled by the generator stepper
    | .call .. => return none
    | .wait .. => return none
    | .addH h =>
      if ((← get).handler h).kind.code == 0 then addHandler h; return none
      else return some .raised
    | .rmH h byName =>
      if ← removeHandler h byName then return none else return some .raised
    | .reg c p => register fuel c p; return none
    | .unreg c => unregister c; return none
    | .flush => flush fuel ctx.self; return none
    | .stopMgr c code => stopMgr fuel c code; return none
    | .sysExit code => return some (.sysExit code)
    | .kbdInt => return some .kbdInt
    | .timerNew t => timerNew fuel t; return none
    | .timerReset t =>
      modify fun s => { s with timers := s.timers.modify t fun x =>
        if x.created then { x with expiry := s.clock + x.interval } else x }
      return none

/-- run a plain (non-generator) body -/
def runActs : Nat → HCtx → Prog → M Outcome
  | 0, _, _ => throw .fuel
  | _, _, [] => return .none
  | fuel + 1, ctx, a :: rest => do
    match ← doAct fuel ctx a with
    | some o => return o
    | none => runActs fuel ctx rest

/-- advance user generator `g` until its next yield -/
def stepGen : Nat → Nat → M GenYield
  | 0, _ => throw .fuel
  | fuel + 1, g => do
    let s ← get
    match s.gens.getD g (.one none true) with
    | .user e h owner rest step pc sd =>
      match rest with
      | [] =>
        modify fun s => { s with gens := s.gens.set g .dead }
        return .stop
      | a :: rest' =>
        let setRest (r : Prog) (pcv : Option Bool) : M Unit :=
          modify fun s => { s with gens := s.gens.set g (.user e h owner r step pcv sd) }
        let kill : M Unit := modify fun s => { s with gens := s.gens.set g .dead }
        match a with
        | .yld v => setRest rest' none; return .plain v
        | .call t target timeout catch_ =>
          let w := s.waits.length
          let tm := s.tmpls.getD t { name := ⟨0, []⟩ }
          let gid ← newGen (.wait w)
          modify fun s => { s with waits := s.waits ++ [{
            owner := owner, evObj := none, evName := tm.name,
            timeout := match timeout with | some n => (n : Int) | none => -1,
            task := gid, isCall := some (t, target) }] }
          setRest rest' (some catch_)
          return .sub w
        | .wait name target timeout catch_ =>
          let w := s.waits.length
          let gid ← newGen (.wait w)
          modify fun s => { s with waits := s.waits ++ [{
            owner := owner, evObj := none, evName := name,
            timeout := match timeout with | some n => (n : Int) | none => -1,
            task := gid, isCall := none, chanArg := target }] }
          setRest rest' (some catch_)
          return .sub w
        | .ret _ => kill; return .stop      -- `return v` in a generator: StopIteration
        | _ =>
          setRest rest' none
          match ← doAct fuel ⟨owner, some e⟩ a with
          | none => stepGen fuel g
          | some .raised => kill; return .raised
          | some (.sysExit code) => kill; return .sysExit code
          | some .kbdInt => kill; return .kbdInt
          | some _ => kill; return .stop
    | _ => return .stop

/-- resume a user generator (after logging why) and name the step in the log -/
def resumeGen : Nat → Nat → M GenYield
  | 0, _ => throw .fuel
  | fuel + 1, g => do
    let s ← get
    match s.gens.getD g (.one none true) with
    | .user e h owner rest step pc sd =>
      if sd then
        modify fun s => { s with gens := s.gens.set g (.user e h owner rest (step + 1) pc true) }
        logE (.inv e h (step + 1))
      else
        -- first `next()`: the body starts; the invocation itself was logged by the dispatcher
        modify fun s => { s with gens := s.gens.set g (.user e h owner rest step pc true) }
      stepGen fuel g
    | _ => return .stop

/-- first `next()` of a callEvent / waitEvent generator: runs up to `yield state` -/
def startWait : Nat → Nat → M Unit
  | 0, _ => throw .fuel
  | _ + 1, w => modify (·.startWait w)

/-- `processTask(event, task, parent)` (manager.py) on root `r` -/
def processTask : Nat → Nat → Task → M Unit
  | 0, _, _ => throw .fuel
  | fuel + 1, r, t => do
    logE (.task t.e t.g)
    let rc ← getComp r
    let handling := rc.currently
    modComp r fun x => { x with currently := some t.e }
    let e := t.e
    -- the three exits of the try block
    let stopIteration : M Unit := do
      modEv e fun x => { x with waiting := x.waiting - 1 }
      unregisterTask r t
      match t.parent with
      | some p => registerTask r ⟨e, p, none⟩
      | none =>
        let ev ← getEv e
        if ev.waiting == 0 then
          inform e true
          eventDone fuel r e false
    let errorBranch (resumed : Bool) : M Unit := do
      unregisterTask r t
      modEv e fun x => { x with val := x.val.set .err }
      inform e false
      modEv e fun x => { x with val := { x.val with errors := true } }
      inform e true
      let ev ← getEv e
      if ev.failure then
        let c ← childEv e sfxFailure
        fireRaw r c ev.chans 0
      let x ← newEv { name := Name.exception, arg := e }
      let rcomp ← getComp r
      fireRaw r x [rcomp.chan] 0
      if t.parent.isNone || resumed then
        modEv e fun x => { x with waiting := x.waiting - (if resumed then 2 else 1) }
        let ev ← getEv e
        if ev.waiting == 0 then eventDone fuel r e true
    -- what to do with a value obtained from a user generator that was resumed via `parent`
    let afterParent (p : Nat) (y : GenYield) (viaThrow : Bool) : M Unit := do
      match y with
      | .sub w2 =>
        if viaThrow then
          -- (val for val in (generator,)) registered as a task: outside the modelled programs
          let g1 ← newGen (.one none false)
          registerTask r ⟨e, g1, some p⟩
        else
          startWait fuel w2
          modWait w2 fun x => { x with taskEvent := e, parentGen := p }
      | .plain v =>
        if viaThrow then
          let g1 ← newGen (.one v false)
          registerTask r ⟨e, g1, some p⟩
        else
          modEv e fun x => { x with waiting := x.waiting - 1 }
          match v with
          | some n => setValue e (.val n)
          | none => pure ()
          registerTask r ⟨e, p, none⟩
      | .stop => stopIteration
      | .raised => errorBranch true
      | .sysExit code => stopMgr fuel r code
      | .kbdInt => stopMgr fuel r none
    let body : M Unit := do
      let s ← get
      match s.gens.getD t.g (.one none true) with
      | .user .. =>
        match ← resumeGen fuel t.g with
        | .plain (some n) => setValue e (.val n)
        | .plain none => pure ()
        | .sub w =>
          modEv e fun x => { x with waiting := x.waiting + 1 }
          unregisterTask r ⟨e, t.g, none⟩
          startWait fuel w
          modWait w fun x => { x with taskEvent := e, parentGen := t.g }
        | .stop => stopIteration
        | .raised => errorBranch false
        | .sysExit code => stopMgr fuel r code
        | .kbdInt => stopMgr fuel r none
      | .wait w =>
        -- resumed after `yield state`: removeHandler(_on_done_handler); yield CallValue(state.event.value)
        let ws ← getWait w
        if !(← removeHandler ws.hDone (some (ws.evName.child sfxDone))) then
          errorBranch false
        else
          match ws.event, t.parent with
          | some src, some p =>
            unregisterTask r t
            let sev ← getEv src
            match (← get).gens.getD p (.one none true) with
            | .user pe ph _ _ _ _ _ =>
              logE (.resumed pe ph src sev.val.view sev.val.errors)
              let y ← resumeGenSilent fuel p
              afterParent p y false
            | _ => pure ()
          | _, _ => stopIteration
      | .exc w fired =>
        if fired then stopIteration
        else
          modify fun s => { s with gens := s.gens.set t.g (.exc w true) }
          unregisterTask r t
          match t.parent with
          | some p =>
            match (← get).gens.getD p (.one none true) with
            | .user pe ph powner rest step pc _ =>
              let caught := pc.getD false
              logE (.timeout pe ph caught)
              if caught then
                let y ← resumeGenSilent fuel p
                afterParent p y true
              else
                modify fun s => { s with gens := s.gens.set p .dead }
                let _ := (rest, powner, step)
                errorBranch true
            | _ => pure ()
          | none => errorBranch false
      | .dead => stopIteration
      | .one v consumed =>
        if consumed then stopIteration
        else
          modify fun s => { s with gens := s.gens.set t.g (.one v true) }
          match v with
          | some n => setValue e (.val n)
          | none => pure ()
    tryCatch body fun ex => do
      modComp r fun x => { x with currently := handling }
      throw ex
    modComp r fun x => { x with currently := handling }

/-- resume a user generator whose resumption was already logged by the caller -/
def resumeGenSilent : Nat → Nat → M GenYield
  | 0, _ => throw .fuel
  | fuel + 1, g => do
    let s ← get
    match s.gens.getD g (.one none true) with
    | .user e h owner rest step pc sd =>
      modify fun s => { s with gens := s.gens.set g (.user e h owner rest (step + 1) pc true) }
      stepGen fuel g
    | _ => return .stop

/-- invoke handler `h` for event `e` (the call in `_dispatcher`'s loop) -/
def invoke : Nat → Nat → Nat → Nat → M Outcome
  | 0, _, _, _ => throw .fuel
  | fuel + 1, r, h, e => do
    let hd ← getH h
    if hd.kind.code != 0 then logE (.hinv e hd.kind.code (hkey (← get) hd))
    match hd.kind with
    | .user p =>
      logE (.inv e h 0)
      let prog := (← get).progs.getD p []
      if prog.isGen then
        let g ← newGen (.user e h hd.owner prog 0 none false)
        logE (.exit e h)
        return .gen g
      else
        let o ← tryCatch (runActs fuel ⟨hd.owner, some e⟩ prog) fun ex => do
          logE (.exit e h)
          throw ex
        logE (.exit e h)
        return o
    | .prepUnregComplete =>
      -- _on_prepare_unregister_complete(self, event, e, value): event.parent is the prepare_unregister
      doPrepareUnregisterComplete fuel hd.owner
      return .none
    | .waitEvent w =>
      let ws ← getWait w
      if !ws.run && !ws.timedOut && (ws.evObj.isNone || ws.evObj == some e) then
        if !(← removeHandler ws.hEvent (some ws.evName)) then return .raised
        modEv e fun x => { x with alertDone := true }
        modWait w fun x => { x with run := true, event := some e }
      return .none
    | .waitDone w =>
      let ws ← getWait w
      let ev ← getEv e
      if !ws.flag && !ws.timedOut && (ws.event.isSome && ws.event == ev.parentEv) then
        modWait w fun x => { x with flag := true }
        registerTask ws.owner ⟨ws.taskEvent, ws.task, some ws.parentGen⟩
        if ws.timeout ≥ 0 then
          match ws.hTick with
          | some ht => if !(← removeHandler ht (some Name.generateEvents)) then return .raised
          | none => return .raised
      return .none
    | .waitTick w =>
      let ws ← getWait w
      if ws.flag || ws.timedOut then return .none
      if ws.timeout == 0 then
        modWait w fun x => { x with timedOut := true }
        let g ← newGen (.exc w false)
        registerTask ws.owner ⟨ws.taskEvent, g, some ws.parentGen⟩
        if !(← removeHandler ws.hDone (some (ws.evName.child sfxDone))) then return .raised
        match ws.hTick with
        | some ht => if !(← removeHandler ht (some Name.generateEvents)) then return .raised
        | none => pure ()
        if !ws.run then
          if !(← removeHandler ws.hEvent (some ws.evName)) then return .raised
      else if ws.timeout > 0 then
        modWait w fun x => { x with timeout := x.timeout - 1 }
      return .none
    | .timer t => timerTick fuel t e; return .none
    | .fallbackGE =>
      -- FallBackGenerator._on_generate_events (helpers.py 31-58), single-threaded reading
      let ev ← getEv e
      if ev.timeLeft == 0 then
        modEv e fun x => { x with stopped := true }
      else if ev.timeLeft > 0 then
        logE (.idle ev.timeLeft)
        modify fun s => { s with clock := s.clock + ev.timeLeft }
        reduceTimeLeft e 0
        modEv e fun x => { x with stopped := true }
      else
        let _ := r
        throw .blocked
      return .none
    | .fallbackExc => return .none

/-- `Timer._on_generate_events` (timers.py) -/
def timerTick : Nat → Nat → Nat → M Unit
  | 0, _, _ => throw .fuel
  | _ + 1, t, e => modify (·.timerTick t e)

/-- `Timer(...).register(parent)`: the component and its handler are pre-declared; this
    performs `__init__` (expiry) and the registration -/
def timerNew : Nat → Nat → M Unit
  | 0, _ => throw .fuel
  | fuel + 1, t => do
    let s ← get
    match s.timers[t]? with
    | none => return
    | some tm =>
      if tm.created then return
      modify fun s => { s with timers := s.timers.modify t fun x => { x with expiry := s.clock + x.interval, created := true } }
      register fuel tm.comp tm.parent

/-- `_dispatcher(event, channels, remaining)` on root `r` -/
def dispatcher : Nat → Nat → Nat → Nat → M Unit
  | 0, _, _, _ => throw .fuel
  | fuel + 1, r, e, remaining => do
    logE (.disp e)
    let ev ← getEv e
    if ev.cancelled then
      modEv e fun x => { x with selfDone := true }
      effectDone fuel r e false
      return
    if ev.complete then
      if ev.cause.isNone then modEv e fun x => { x with cause := some e }
      modEv e fun x => { x with effects := 1, selfDone := false }
    let rc ← getComp r
    if rc.dirty then modComp r fun x => { x with cache := [], dirty := false }
    let rc ← getComp r
    let key := (ev.name, ev.chans)
    let handlers ← match rc.cache.lookup key with
      | some hs => pure hs
      | none => do
        let s ← get
        let all := ev.chans.flatMap (fun ch => collect s (s.comps.length + 1) r ev.name ch)
        let sorted := all.mergeSort (fun a b => (s.hs.getD a dfltHandler).prio ≥ (s.hs.getD b dfltHandler).prio)
        let sorted ← if ev.name == Name.generateEvents then do
            let h ← newH { owner := r, names := [Name.generateEvents], chan := none, prio := -100, kind := .fallbackGE }
            pure (sorted ++ [h])
          else if ev.name == Name.exception && sorted.isEmpty then do
            let h ← newH { owner := r, names := [Name.exception], chan := some .star, kind := .fallbackExc }
            pure (sorted ++ [h])
          else pure sorted
        modComp r fun x => { x with cache := (key, sorted) :: x.cache }
        pure sorted
    modComp r fun x => { x with currently := some e }
    if ev.name == Name.generateEvents then
      let rc ← getComp r
      if remaining > 0 || rc.eq.len > 0 || !rc.running then reduceTimeLeft e 0
      else if !rc.tasks.isEmpty then reduceTimeLeft e (← get).timeoutTicks
    let err ← handlerLoop fuel r e handlers false .none
    modComp r fun x => { x with currently := none }
    eventDone fuel r e err

/-- the `for event_handler in event_handlers` loop; returns whether `err` is set.
    `stale` is the Python local `value`, which is *not* reset per iteration: after a handler
    that raised KeyboardInterrupt / SystemExit the previous handler's result is applied again. -/
def handlerLoop : Nat → Nat → Nat → List Nat → Bool → Outcome → M Bool
  | 0, _, _, _, _, _ => throw .fuel
  | _, _, _, [], err, _ => return err
  | fuel + 1, r, e, h0 :: rest0, err, stale => do
    -- free choice among the handlers that share the head's priority: follow the tape
    let s ← get
    let p0 := (s.hs.getD h0 dfltHandler).prio
    let group := (h0 :: rest0).takeWhile (fun h => (s.hs.getD h dfltHandler).prio == p0)
    let h := match s.tape.head? with
      | some (.inv e' h' 0) => if e' == e && group.contains h' then h' else h0
      | some (.hinv e' k o) =>
        if e' == e then
          (group.find? (fun h => let hd := s.hs.getD h dfltHandler; hd.kind.code == k && hkey s hd == o)).getD h0
        else h0
      | _ => h0
    let rest := (h0 :: rest0).erase h
    modEv e fun x => { x with geHandler := some h }
    let o ← invoke fuel r h e
    let mut err := err
    let mut value := o
    match o with
    | .kbdInt =>
      stopMgr fuel r none
      value := stale
    | .sysExit code =>
      stopMgr fuel r code
      value := stale
    | .raised =>
      err := true
      modEv e fun x => { x with val := { x.val with errors := true } }
      let ev ← getEv e
      if ev.failure then
        let c ← childEv e sfxFailure
        fireRaw r c ev.chans 0
      let x ← newEv { name := Name.exception, arg := e }
      let rcomp ← getComp r
      fireRaw r x [rcomp.chan] 0
    | _ => pure ()
    -- `if value is not None:`
    match value with
    | .raised => setValue e .err
    | .gen g =>
      modEv e fun x => { x with waiting := x.waiting + 1, val := { x.val with promise := true } }
      registerTask r ⟨e, g, none⟩
    | .value v => setValue e (.val v)
    | _ => pure ()
    let ev ← getEv e
    if ev.name == Name.generateEvents then
      let rc ← getComp r
      if !rc.tasks.isEmpty then reduceTimeLeft e (← get).timeoutTicks
    if ev.stopped then return err
    handlerLoop fuel r e rest err value

/-- `dispatchEvents` loop on root `r` -/
def dispatchLoop : Nat → Nat → M Unit
  | 0, _ => throw .fuel
  | fuel + 1, r => do
    let rc ← getComp r
    let s ← get
    let pick (cands : List QItem) : Option QItem :=
      match s.tape.head? with
      | some (.disp e) => cands.find? (fun c => c.ev == e)
      | _ => none
    match rc.eq.pop pick with
    | none => return
    | some (it, q) =>
      modComp r fun x => { x with eq := q }
      dispatcher fuel r it.ev q.batch
      dispatchLoop fuel r

/-- `flushEvents()` -> `root._flush()` -/
def flush : Nat → Nat → M Unit
  | 0, _ => throw .fuel
  | fuel + 1, c => do
    let r ← rootOf c
    let rc ← getComp r
    let old := rc.flushing
    if rc.eq.batch == 0 then logE (.batch rc.eq.queue.length)
    modComp r fun x => { x with flushing := true, eq := x.eq.begin }
    tryCatch (dispatchLoop fuel r) fun ex => do
      modComp r fun x => { x with flushing := old }
      throw ex
    modComp r fun x => { x with flushing := old }

/-- `tick()` on component `c` (uses `c`'s own `_tasks`, `_running`, `_queue`; `flush` goes to the root) -/
def tick : Nat → Nat → M Unit
  | 0, _ => throw .fuel
  | fuel + 1, c => do
    let cc ← getComp c
    if !cc.tasks.isEmpty then
      -- the ticking thread counts as the flushing thread while tasks run
      let old := cc.flushing
      modComp c fun x => { x with flushing := true }
      tryCatch (taskLoop fuel c cc.tasks) fun ex => do
        modComp c fun x => { x with flushing := old }
        throw ex
      modComp c fun x => { x with flushing := old }
    let cc ← getComp c
    if cc.running then
      -- loop overhead: every iteration of a running loop takes one clock tick
      modify fun s => { s with clock := s.clock + 1 }
      let e ← newEv { name := Name.generateEvents, timeLeft := -1 }
      fireRaw c e [.star] 0
    let cc ← getComp c
    if cc.eq.len > 0 then flush fuel c

/-- `for task in self._tasks.copy(): self.processTask(*task)` in tape order -/
def taskLoop : Nat → Nat → List Task → M Unit
  | 0, _, _ => throw .fuel
  | _, _, [] => return
  | fuel + 1, c, t0 :: rest0 => do
    let s ← get
    let t := match s.tape.head? with
      | some (.task e g) => ((t0 :: rest0).find? (fun t => t.e == e && t.g == g)).getD t0
      | _ => t0
    processTask fuel c t
    taskLoop fuel c ((t0 :: rest0).erase t)

end

/-- `run()` on component `c`: returns the exit code it leaves with (`none` = normal return) -/
def runLoop : Nat → Nat → M Unit
  | 0, _ => throw .fuel
  | fuel + 1, c => do
    let cc ← getComp c
    if cc.running || cc.eq.len > 0 then
      tick fuel c
      runLoop fuel c

/-- `while len(self._queue): self.tick()` in `run`'s `finally` -/
def drainLoop : Nat → Nat → M Unit
  | 0, _ => throw .fuel
  | fuel + 1, c => do
    let cc ← getComp c
    if cc.eq.len > 0 then
      tick fuel c
      drainLoop fuel c

def run (fuel : Nat) (c : Nat) : M Unit := do
  modComp c fun x => { x with running := true }
  let r ← rootOf c
  modComp r fun x => { x with executing := true }
  let _ ← fireTmplEv c { name := Name.started, arg := c } none 0
  let body : M Unit := do
    runLoop fuel c
    tick fuel c
    tick fuel c
    tick fuel c
  -- try: body / finally: tick  (only SystemExit-like exceptions exist in the model)
  tryCatch (do body; tick fuel c; drainLoop fuel c) fun ex => do
    match ex with
    | .sysExit _ => tryCatch (do tick fuel c; drainLoop fuel c) (fun _ => pure ())
    | _ => pure ()
    throw ex
  let r ← rootOf c
  modComp r fun x => { x with executing := false }
  let rc ← getComp r
  modComp r fun x => { x with exitCode := none }
  match rc.exitCode with
  | some code => throw (.sysExit (some code))
  | none => pure ()

end CV.Core

/-
L0 layer: `_EventQueue` (circuits/core/manager.py 120-155).

  def append(self, event, channel, priority):
      self._counter += 1
      self._queue.append((priority, self._counter, (event, channel)))
  def dispatchEvents(self, dispatcher):
      if self._flush_batch == 0:
          self._flush_batch = count = len(self._queue)
          while count: count -= 1; heappush(self._priority_queue, self._queue.popleft())
      while self._flush_batch > 0:
          self._flush_batch -= 1  # Decrement first!
          (event, channels) = heappop(self._priority_queue)[2]
          dispatcher(event, channels, self._flush_batch)
  def drainFrom(self, other_queue):
      self._queue.extend(other_queue._queue); other_queue._queue.clear()

The heap is abstracted as a list from which the minimum `(prio, seq)` is extracted.  Equal
keys can only arise through `drainFrom` (two counters); which of them `heapq` returns is
then left to a choice function (`pick`), and every theorem holds for every choice.
-/
namespace CV.Core

structure QItem where
  prio : Int
  seq : Nat
  ev : Nat
  deriving DecidableEq, Repr

def QItem.le (a b : QItem) : Bool := a.prio < b.prio || (a.prio == b.prio && a.seq ≤ b.seq)
def QItem.keyEq (a b : QItem) : Bool := a.prio == b.prio && a.seq == b.seq

structure EQ where
  queue : List QItem := []     -- the deque, oldest first
  heap : List QItem := []      -- the priority queue (as a bag)
  counter : Nat := 0           -- next sequence number (`_counter + 1`)
  batch : Nat := 0             -- `_flush_batch`
  deriving Repr

def EQ.len (q : EQ) : Nat := q.queue.length + q.heap.length

def EQ.append (q : EQ) (ev : Nat) (prio : Int) : EQ :=
  { q with queue := q.queue ++ [⟨prio, q.counter, ev⟩], counter := q.counter + 1 }

/-- start of `dispatchEvents`: snapshot the deque into the heap iff no batch is in progress -/
def EQ.begin (q : EQ) : EQ :=
  if q.batch = 0 then { q with batch := q.queue.length, heap := q.heap ++ q.queue, queue := [] }
  else q

/-- a minimal element of the heap (first one in list order) -/
def minItem : List QItem → Option QItem
  | [] => none
  | a :: rest =>
    match minItem rest with
    | none => some a
    | some m => if a.le m then some a else some m

/-- all heap entries whose key equals the minimum key -/
def minCands (h : List QItem) : List QItem :=
  match minItem h with
  | none => []
  | some m => h.filter (fun a => a.keyEq m)

/-- one iteration of the `while`: decrement first, then pop the item chosen among the
    minimal ones.  `none` when the loop condition is false or (unreachable) the heap is empty. -/
def EQ.pop (q : EQ) (pick : List QItem → Option QItem) : Option (QItem × EQ) :=
  if q.batch = 0 then none
  else
    let cands := minCands q.heap
    match (match pick cands with
           | some c => if cands.contains c then some c else cands.head?
           | none => cands.head?) with
    | none => none
    | some it => some (it, { q with batch := q.batch - 1, heap := q.heap.erase it })

def EQ.drainFrom (q other : EQ) : EQ × EQ :=
  ({ q with queue := q.queue ++ other.queue }, { other with queue := [] })

end CV.Core

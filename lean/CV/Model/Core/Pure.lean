import CV.Model.Core.Types
/-
Pure layer of the core machine: every piece of `Manager` code during which no *other*
code can run, written as a plain function `St → St` (or `St → α × St`).

Both interpreters are built from these functions:
  * `CV.Model.Core.Machine` (big-step, monad `M`) wraps them with `modify` / `modifyGet`;
  * `CV.Model.Core.Step` (small-step) applies them directly, one per step.

Conventions
  * primitives: `St.comp/ev/handler/wait/gen` read a table with a default, `St.modComp/modEv/
    modWait/modTimer/setGen` change one row, `St.addEv/addH/addGen/addWait` append a row (the
    new id is the *old* table length), `St.logE` prepends to the log and pops the tape.
    Nothing else touches the fields of `St` directly except `clock` and `timers`.
  * a function that can fail (KeyError in `removeHandler`, …) returns `Bool × St`
    (`false` = the Python code raised); the state is the one reached when it raised.
-/
namespace CV.Core

/-! ### defaults and table access -/

def dfltComp : Comp := { parent := 0, root := 0 }
def dfltEv : Ev := { name := ⟨0, []⟩ }
def dfltHandler : Handler := { owner := 0, names := [], chan := none, kind := .fallbackExc }
def dfltWait : WaitSt := { owner := 0, evObj := none, evName := ⟨0, []⟩, timeout := -1 }
def dfltGen : GenRec := .one none true

namespace St

def comp (s : St) (c : Nat) : Comp := s.comps.getD c dfltComp
def ev (s : St) (e : Nat) : Ev := s.evs.getD e dfltEv
def handler (s : St) (h : Nat) : Handler := s.hs.getD h dfltHandler
def wait (s : St) (w : Nat) : WaitSt := s.waits.getD w dfltWait
def gen (s : St) (g : Nat) : GenRec := s.gens.getD g dfltGen
def rootOf (s : St) (c : Nat) : Nat := (s.comp c).root

def modComp (s : St) (c : Nat) (f : Comp → Comp) : St := { s with comps := s.comps.modify c f }
def modEv (s : St) (e : Nat) (f : Ev → Ev) : St := { s with evs := s.evs.modify e f }
def modWait (s : St) (w : Nat) (f : WaitSt → WaitSt) : St := { s with waits := s.waits.modify w f }
def modTimer (s : St) (t : Nat) (f : TimerSt → TimerSt) : St := { s with timers := s.timers.modify t f }
def setGen (s : St) (g : Nat) (x : GenRec) : St := { s with gens := s.gens.set g x }

/-- append to the log and advance the tape in step with it -/
def logE (s : St) (x : Entry) : St := { s with log := x :: s.log, tape := s.tape.drop 1 }

/-- new table rows; the id of the new row is the old length of the table -/
def addEv (s : St) (e : Ev) : St := { s with evs := s.evs ++ [e] }
def addH (s : St) (h : Handler) : St := { s with hs := s.hs ++ [h] }
def addGen (s : St) (g : GenRec) : St := { s with gens := s.gens ++ [g] }
def addWait (s : St) (w : WaitSt) : St := { s with waits := s.waits ++ [w] }

def tick1 (s : St) (d : Int) : St := { s with clock := s.clock + d }

end St

/-- `l.append(x)` unless present (sets are kept as duplicate-free lists) -/
def addUniq {α} [BEq α] (l : List α) (x : α) : List α := if l.contains x then l else l ++ [x]

/-! ### handler tables (manager.py 373-403) -/

/-- `addHandler(method)` on the handler's owner -/
def St.addHandler (s : St) (h : Nat) : St :=
  let hd := s.handler h
  let c := hd.owner
  let s1 :=
    if hd.names.isEmpty && hd.chan == some .star then
      s.modComp c fun x => { x with globals := addUniq x.globals h }
    else if hd.names.isEmpty then
      s.modComp c fun x => { x with htab := addUniq x.htab (none, h) }
    else
      hd.names.foldl (fun s n => s.modComp c fun x => { x with htab := addUniq x.htab (some n, h) }) s
  s1.modComp (s1.rootOf c) fun x => { x with dirty := true }

/-- remove `(k, h)` for every key in turn; stops at the first missing one (`KeyError`) -/
def rmKeys (h : Nat) : List (HKey × Nat) → List HKey → Bool × List (HKey × Nat)
  | htab, [] => (true, htab)
  | htab, k :: ks => if htab.contains (k, h) then rmKeys h (htab.erase (k, h)) ks else (false, htab)

/-- `removeHandler(method, event=None)`; `false` = KeyError / ValueError raised -/
def St.removeHandler (s : St) (h : Nat) (byName : Option Name) : Bool × St :=
  let hd := s.handler h
  let c := hd.owner
  let bare := byName.isNone && hd.names.isEmpty
  let isGlobal := hd.chan == some .star
  let s1 := if bare && isGlobal then s.modComp c fun x => { x with globals := x.globals.erase h } else s
  let keys : List HKey :=
    if bare && !isGlobal then [none]
    else match byName with
      | some n => [some n]
      | none => hd.names.map some
  let res := rmKeys h (s1.comp c).htab keys
  let s2 := s1.modComp c fun x => { x with htab := res.2 }
  -- the cache flag is set before the loop over the names: also when the removal fails half-way
  (res.1, s2.modComp (s2.rootOf c) fun x => { x with dirty := true })

/-! ### matching (manager.py 342-371) -/

/-- the test in `getHandlers` for one handler of component `c` -/
def chanOk (compChan : Chan) (c : Nat) (hd : Handler) (target : Chan) : Bool :=
  let hc := hd.chan.getD compChan
  target == .star || hc == .star || hc == target || target == .inst c

/-- `getHandlers(event, channel)` : recursion over the subtree, with fuel = tree size bound -/
def collect (s : St) : Nat → Nat → Name → Chan → List Nat
  | 0, _, _, _ => []
  | fuel + 1, c, name, target =>
    let x := s.comps.getD c dfltComp
    let own := (x.htab.filter (fun p => p.1 == none || p.1 == some name)).map (·.2)
    let own := own.eraseDups
    let own := own.filter (fun h => chanOk x.chan c (s.hs.getD h dfltHandler) target)
    let sub := x.children.flatMap (fun d => collect s fuel d name target)
    (own ++ x.globals ++ sub).eraseDups

/-! ### firing (manager.py `_fire`, `fireEvent`) and Value (values.py) -/

/-- the part of `_fire` that depends on who is firing: cause tracking for `complete`
    inside the executing / flushing thread, waking a pending generate_events otherwise -/
def St.fireContext (s : St) (r e : Nat) : St :=
  let rc := s.comp r
  if rc.executing || rc.flushing then
    match rc.currently with
    | some h =>
      if (s.ev h).cause.isSome then
        (s.modEv e fun x => { x with cause := some h, effects := 1, selfDone := false }).modEv h
          fun x => { x with effects := x.effects + 1 }
      else s
    | none => s
  else
    match rc.currently with
    | some h =>
      if (s.ev h).name == Name.generateEvents then
        s.modEv h fun x => { x with timeLeft := if x.timeLeft < 0 || x.timeLeft > 0 then 0 else x.timeLeft }
      else s
    | none => s

/-- `fireEvent` after the event object exists: set channels and Value, then `root._fire` -/
def St.fireRaw (s : St) (self e : Nat) (chans : List Chan) (prio : Int) : St :=
  let s1 := s.modEv e fun x => { x with chans := chans, val := {}, mgr := self }
  let r := s1.rootOf self
  let s2 := s1.fireContext r e
  let s3 := s2.modComp r fun x => { x with eq := x.eq.append e prio }
  s3.logE (.fire e (s3.ev e).name chans prio)

/-- `event.child(sfx, …)`: a new event object; its id is `s.evs.length` -/
def St.childEv (s : St) (p : Nat) (sfx : Nat) : St :=
  s.addEv { name := (s.ev p).name.child sfx, parentEv := some p }

/-- create the child event `sfx` of `p` and fire it from `self` -/
def St.fireChild (s : St) (self p sfx : Nat) (chans : List Chan) : St :=
  (s.childEv p sfx).fireRaw self s.evs.length chans 0

/-- `Value.inform(force)` -/
def St.inform (s : St) (e : Nat) (force : Bool) : St :=
  let ev := s.ev e
  if ev.val.promise && !force then s
  else if ev.notify then s.fireChild ev.mgr e sfxValueChanged [.inst ev.mgr]
  else s

/-- `event.value.value = x` -/
def St.setValue (s : St) (e : Nat) (x : VItem) : St :=
  (s.modEv e fun ev => { ev with val := ev.val.set x }).inform e false

/-- `fire(Ev(...), target)` from component `self`; the new event's id is `s.evs.length` -/
def St.fireTmplEv (s : St) (self : Nat) (ev : Ev) (target : Option Chan) (prio : Int) : St :=
  let s1 := s.addEv ev
  let chans := match target with
    | some t => [t]
    | none => [(s1.comp self).chan]
  s1.fireRaw self s.evs.length chans prio

def mkEvOfTmpl (s : St) (t : Nat) : Ev :=
  let tm := s.tmpls.getD t { name := ⟨0, []⟩ }
  { name := tm.name, success := tm.success, failure := tm.failure, complete := tm.complete,
    notify := tm.notify, successChans := tm.successChans, completeChans := tm.completeChans }

/-! ### completion bookkeeping (manager.py `_eventDone`, `_effectDone`) -/

/-- one iteration of the `while True` in `_effectDone`; `some cause` = go round again -/
def St.effectDone1 (s : St) (r e : Nat) (announce : Bool) : Option Nat × St :=
  let ev := s.ev e
  match ev.cause with
  | none => (none, s)
  | some cause =>
    let eff := ev.effects - 1
    let s1 := s.modEv e fun x => { x with effects := eff }
    if eff > 0 then (none, s1)
    else
      let s2 := if ev.complete && announce
        then s1.fireChild r e sfxComplete (ev.completeChans.getD ev.chans) else s1
      let s3 := s2.modEv e fun x => { x with cause := none, effects := 0 }
      -- `event = cause`; an event that is its own cause has just lost the attribute
      if cause == e then (none, s3) else (some cause, s3)

/-- `_eventDone` up to the call of `_effectDone`; `false` = returned early (waitingHandlers) -/
def St.eventDonePre (s : St) (r e : Nat) (err : Bool) : Bool × St :=
  let ev := s.ev e
  if ev.waiting != 0 then (false, s)
  else
    let s1 := if ev.alertDone then s.fireChild r e sfxDone ev.chans else s
    let ev1 := s1.ev e
    let s2 := if !err && !ev1.val.errors && ev1.success
      then s1.fireChild r e sfxSuccess (ev1.successChans.getD ev1.chans) else s1
    (true, s2.modEv e fun x => { x with selfDone := true })

/-! ### tasks -/

def St.registerTask (s : St) (c : Nat) (t : Task) : St :=
  s.modComp (s.rootOf c) fun x => { x with tasks := addUniq x.tasks t }

def St.unregisterTask (s : St) (c : Nat) (t : Task) : St :=
  s.modComp (s.rootOf c) fun x => { x with tasks := x.tasks.erase t }

/-! ### generate_events (events.py 301-330) -/

def St.reduceTimeLeft (s : St) (e : Nat) (t : Int) : St :=
  s.modEv e fun x =>
    if t ≥ 0 && (x.timeLeft < 0 || x.timeLeft > t) then { x with timeLeft := t } else x

/-! ### tree (components.py 123-197, manager.py 405-417) -/

/-- `register(parent)` up to the `updateRoot` recursion; `false` = "Components must be
    registered before they are started" raised.  The root handed to `updateRoot` is
    `(s.comp p).root` of the state *before*. -/
def St.registerPre (s : St) (c p : Nat) : Bool × St :=
  let pc := s.comp p
  let s1 := s.modComp c fun x => { x with parent := p, root := pc.root }
  if p != c then
    let r := pc.root
    let clash := (s1.comp c).executing && (s1.comp r).executing
    if clash then (false, s1)
    else
      let s2 := if (s1.comp c).executing
        then (s1.modComp r fun x => { x with executing := true }).modComp c fun x => { x with executing := false }
        else s1
      let s3 := s2.modComp p fun x => { x with children := addUniq x.children c }
      let dr := (s3.comp r).eq.drainFrom (s3.comp c).eq
      let s4 := if r != c
        then (s3.modComp r fun x => { x with eq := dr.1, dirty := true }).modComp c fun x => { x with eq := dr.2 }
        else s3
      (true, s4)
  else (true, s1)

/-- `_updateRoot(root)` over a work list of components (preorder), all at once: no other code
    runs in between.  Fuel = number of components + 1, enough for any forest. -/
def St.updateRootAll : Nat → List Nat → Nat → St → St
  | 0, _, _, s => s
  | _, [], _, s => s
  | fuel + 1, x :: rest, root, s =>
    let s1 := s.modComp x fun y => { y with root := root }
    St.updateRootAll fuel ((s1.comp x).children ++ rest) root s1

/-- the precondition the property puts on `register(c, p)`: `c` is a detached root with no
    unregistration pending and `p` lies outside `c`'s subtree (`p.root ≠ c`), and not both trees
    are being executed (the code raises UnregistrableError then); self-registration (`p = c`) of a
    detached component is the degenerate case the code allows.  The model refuses anything else
    (`Exn.inadmissible`): such histories are outside the quantifier. -/
def St.admissible (s : St) (c p : Nat) : Bool :=
  c < s.comps.length && p < s.comps.length && (s.comp c).parent == c &&
  (p == c || (!(s.comp c).pending && (s.comp p).root != c &&
              !((s.comp c).executing && (s.comp (s.comp p).root).executing)))

/-- the tail of `register`: `self.fire(registered(self, parent))` -/
def St.registerFin (s : St) (c : Nat) : St :=
  s.fireTmplEv c { name := Name.registered, arg := c } none 0

/-- `BaseComponent.unregister()` -/
def St.unregister (s : St) (c : Nat) : St :=
  let cc := s.comp c
  if cc.pending || cc.parent == c then s
  else
    let s1 := s.modComp c fun x => { x with pending := true }
    let s2 := s1.modComp cc.root fun x => { x with dirty := true }
    s2.fireTmplEv c { name := Name.prepareUnregister, complete := true,
                      completeChans := some [.inst c], arg := c } none 0

/-- `_do_prepare_unregister_complete` up to the `updateRoot` recursion -/
def St.prepUnregPre (s : St) (c : Nat) : St :=
  let s1 := s.modComp c fun x => { x with pending := false }
  let s2 := s1.fireTmplEv c { name := Name.unregistered, arg := c } none 0
  let cc := s2.comp c
  if cc.parent != c then
    let p := cc.parent
    let pc := s2.comp p
    let s3 := s2.modComp p fun x => { x with children := x.children.erase c }
    let s4 := s3.modComp pc.root fun x => { x with dirty := true }
    s4.modComp c fun x => { x with parent := c }
  else s2

/-- the tail of `_do_prepare_unregister_complete` -/
def St.prepUnregFin (s : St) (c : Nat) : St :=
  s.modComp c fun x => { x with dirty := true }

/-! ### user code -/

inductive Outcome
  | none
  | value (v : Nat)
  | gen (g : Nat)
  | raised
  | sysExit (code : Code)
  | kbdInt
  deriving Repr

/-- result of advancing a user generator -/
inductive GenYield
  | plain (v : Option Nat)
  | sub (w : Nat)            -- yielded a fresh callEvent / waitEvent generator (wait state id)
  | stop
  | raised
  | sysExit (code : Code)
  | kbdInt
  deriving Repr

structure HCtx where
  self : Nat                  -- the component the code belongs to
  ev : Option Nat             -- the event being handled (handlers only)
  deriving Repr

/-- identity of a framework handler in the log: the waitEvent generator for the three
    temporary handlers, the owning component otherwise -/
def hkey (s : St) (hd : Handler) : Nat :=
  match hd.kind with
  | .waitEvent w => (s.waits.getD w dfltWait).task
  | .waitDone w => (s.waits.getD w dfltWait).task
  | .waitTick w => (s.waits.getD w dfltWait).task
  | _ => hd.owner

/-- `self.fire(tmpl(), target, priority=prio)`, then `event.cancel()` if asked -/
def St.actFire (s : St) (self t : Nat) (target : Option Chan) (prio : Int) (cancel : Bool) : St :=
  let s1 := s.fireTmplEv self (mkEvOfTmpl s t) target prio
  if cancel then s1.modEv s.evs.length fun x => { x with cancelled := true } else s1

/-- `event.stop()` -/
def St.actStopEv (s : St) (ev : Option Nat) : St :=
  match ev with
  | some e => s.modEv e fun x => { x with stopped := true }
  | none => s

/-- `timer.reset()` -/
def St.timerReset (s : St) (t : Nat) : St :=
  s.modTimer t fun x => if x.created then { x with expiry := s.clock + x.interval } else x

/-- `Timer.__init__` for a timer that is not yet created: set the expiry.
    The registration `register tm.comp tm.parent` follows. -/
def St.timerCreate (s : St) (t : Nat) : St :=
  s.modTimer t fun x => { x with expiry := s.clock + x.interval, created := true }

/-- `Timer._on_generate_events` (timers.py) -/
def St.timerTick (s : St) (t e : Nat) : St :=
  match s.timers[t]? with
  | none => s
  | some tm =>
    if !tm.created then s
    else
      let now := s.clock
      if now ≥ tm.expiry then
        let cc := s.comp tm.comp
        if cc.pending then s
        else
          -- `self.fire(self.event, *self.channels)`: the same event object every time
          let te := tm.ev.getD s.evs.length
          let s1 := match tm.ev with
            | some _ => s
            | none => (s.addEv (mkEvOfTmpl s tm.tmpl)).modTimer t fun x => { x with ev := some s.evs.length }
          let chans := match tm.target with
            | some tg => [tg]
            | none => [cc.chan]
          let s2 := s1.fireRaw tm.comp te chans 0
          let s3 := if tm.persist
            then s2.modTimer t fun x => { x with expiry := s2.clock + x.interval }
            else s2.unregister tm.comp
          s3.reduceTimeLeft e 0
      else s.reduceTimeLeft e (tm.expiry - now)

/-! ### generators: `callEvent` / `waitEvent` (manager.py 491-567) -/

/-- first `next()` of a callEvent / waitEvent generator: runs up to `yield state` -/
def St.startWait (s : St) (w : Nat) : St :=
  let ws := s.wait w
  let self := ws.owner
  -- callEvent: value = self.fire(event, *channels); then waitEvent(event, *event.channels)
  let s1 := match ws.isCall with
    | some (t, target) => s.fireTmplEv self (mkEvOfTmpl s t) target 0
    | none => s
  let evObj : Option Nat := match ws.isCall with
    | some _ => some s.evs.length
    | none => none
  let chan : Option Chan := match ws.isCall with
    | some _ => (s1.ev s.evs.length).chans.head?
    | none => ws.chanArg
  let hEvent := s1.hs.length
  let s2 := (s1.addH { owner := self, names := [ws.evName], chan := chan, kind := .waitEvent w }).addHandler hEvent
  let hDone := s2.hs.length
  let s3 := (s2.addH { owner := self, names := [ws.evName.child sfxDone], chan := chan, kind := .waitDone w }).addHandler hDone
  let hTick : Option Nat := if ws.timeout ≥ 0 then some s3.hs.length else none
  let s4 := if ws.timeout ≥ 0
    then (s3.addH { owner := self, names := [Name.generateEvents], chan := chan, kind := .waitTick w }).addHandler s3.hs.length
    else s3
  s4.modWait w fun x => { x with evObj := evObj, hEvent := hEvent, hDone := hDone, hTick := hTick, started := true }

end CV.Core

/-
The handler choice of `handlerLoop` (CV/Model/Core/Machine.lean), restated as a pure list
function so that the order theorems of C02 can be proved about it.

`chooseNext prioOf hint hs` restates exactly the three lines of `handlerLoop`

    let group := (h0 :: rest0).takeWhile (fun h => prio h == p0)      -- p0 = prio h0
    let h     := <the handler named by the tape if it is in `group`, else h0>
    let rest  := (h0 :: rest0).erase h

with `prioOf h = (s.hs.getD h dfltHandler).prio` and `hint` = the handler the tape names
(`some h'` for `.inv e h' 0` with `e' == e`; the result of the `group.find?` for `.hinv`;
`none` otherwise).  Every tape case of `handlerLoop` yields either an element of `group` or
`h0`, which is what `hint` being honoured only when `group.contains` it expresses.
`handlerLoop` is meant to call this function (integration pending: Machine.lean is not edited
here); until then this file is a restatement, core Lean only.

`chooseIter` iterates the choice the way the `for event_handler in event_handlers` loop does
(circuits/core/manager.py `_dispatcher`), with an arbitrary hint per step; cutting the fuel
at `k+1` is the loop `break`ing on `event.stopped` after the `k`-th handler.
-/
namespace CV.Core

/-- one step of the handler loop: the handler run next and the handlers still to run -/
def chooseNext (prioOf : Nat → Int) (hint : Option Nat) : List Nat → Option (Nat × List Nat)
  | [] => none
  | h0 :: rest0 =>
    let group := (h0 :: rest0).takeWhile (fun h => prioOf h == prioOf h0)
    let h := match hint with
      | some h' => if group.contains h' then h' else h0
      | none => h0
    some (h, (h0 :: rest0).erase h)

/-- the handlers run by at most `n` iterations of the loop, in order; `hints i` is the hint
    available at step `i` -/
def chooseIter (prioOf : Nat → Int) : Nat → (Nat → Option Nat) → List Nat → List Nat
  | 0, _, _ => []
  | n + 1, hints, hs =>
    match chooseNext prioOf (hints 0) hs with
    | none => []
    | some (h, rest) => h :: chooseIter prioOf n (fun i => hints (i + 1)) rest

end CV.Core

import CV.Model.Core.Queue
/-
Op language for the `_EventQueue` layer exactly as the machine uses it
(CV/Model/Core/Machine.lean): `fireRaw` calls `EQ.append`, `flush` calls `EQ.begin`,
every iteration of `dispatchLoop` calls `EQ.pop` with a tape-derived `pick`.

`EQ.drainFrom` (register/unregister moving a deque between managers) is NOT part of this
language: it concatenates items stamped by two different counters and can therefore create
equal `(prio, seq)` keys and non-increasing `seq` in the deque.  What holds across a drain
is C07's business; C02 speaks about one manager's queue between drains.
-/
namespace CV.Core

inductive QOp where
  | app (ev : Nat) (prio : Int)                       -- `fire`: `_queue.append`
  | flushBegin                                        -- entry of `dispatchEvents`
  | pop (pick : List QItem → Option QItem)            -- one iteration of the `while`

/-- apply one op; the second component is the item handed to the dispatcher, if any.
    A `pop` when the loop condition is false (`batch = 0`) changes nothing. -/
def QOp.apply (q : EQ) : QOp → EQ × Option QItem
  | .app ev prio => (q.append ev prio, none)
  | .flushBegin => (q.begin, none)
  | .pop pick =>
    match q.pop pick with
    | none => (q, none)
    | some (it, q') => (q', some it)

/-- run a list of ops; the popped (= dispatched) items in order -/
def runOps (q : EQ) : List QOp → EQ × List QItem
  | [] => (q, [])
  | op :: ops =>
    let r := op.apply q
    let rr := runOps r.1 ops
    (rr.1, (match r.2 with | some it => [it] | none => []) ++ rr.2)

def QOp.isPop : QOp → Bool
  | .pop _ => true
  | _ => false

def QOp.isFlush : QOp → Bool
  | .flushBegin => true
  | _ => false

/-- the items the `app` ops of `ops` put into the deque, when the counter starts at `c` -/
def appItems (c : Nat) : List QOp → List QItem
  | [] => []
  | .app ev prio :: ops => ⟨prio, c, ev⟩ :: appItems (c + 1) ops
  | _ :: ops => appItems c ops

/-- `ops` is the remainder of a pass that still has `k` items in the heap: exactly `k` pops,
    and every (nested) `flushBegin` happens while the batch is still in progress, i.e.
    strictly before the last pop has been made. -/
def midPass : Nat → List QOp → Bool
  | k, [] => k == 0
  | k, .app _ _ :: ops => midPass k ops
  | k, .flushBegin :: ops => k != 0 && midPass k ops
  | k, .pop _ :: ops => k != 0 && midPass (k - 1) ops

end CV.Core

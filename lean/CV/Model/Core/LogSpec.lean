import CV.Model.Core.Types
/-
Decidable spec predicates over the observation log (C02), evaluated by the driver on the
IMPLEMENTATION's log (`spec …` ops) and on the model's own log.  They are written from the
property statement, not from the queue implementation: a "pass" takes the events queued at its
beginning, in ascending priority and FIFO among equals; events fired meanwhile wait.

Single root only (all components attached before the first fire); the harness uses them only then.
-/
namespace CV.Core

structure PItem where
  prio : Int
  ord : Nat
  ev : Nat
  deriving DecidableEq, Repr

def PItem.le (a b : PItem) : Bool := a.prio < b.prio || (a.prio == b.prio && a.ord ≤ b.ord)

structure PassSt where
  pending : List PItem := []     -- fired, not yet taken by a pass (oldest first)
  expected : List Nat := []      -- the rest of the current pass, in the order it must be dispatched
  count : Nat := 0
  ok : Bool := true
  deriving Repr

/-- one log entry -/
def passStep (s : PassSt) : Entry → PassSt
  | .fire e _ _ p => { s with pending := s.pending ++ [⟨p, s.count, e⟩], count := s.count + 1 }
  | .batch n =>
    if !s.expected.isEmpty || n != s.pending.length then { s with ok := false }
    else { s with expected := (s.pending.mergeSort (fun a b => a.le b)).map (·.ev), pending := [] }
  | .disp e =>
    match s.expected with
    | x :: rest => if x == e then { s with expected := rest } else { s with ok := false }
    | [] => { s with ok := false }
  | _ => s

/-- the log respects "priority then FIFO per pass; nothing fired during a pass overtakes" -/
def passOrderOk (log : List Entry) : Bool := (log.foldl passStep {}).ok

/-- per event: the user handlers invoked for it (step 0 entries), in order -/
def invokedFor (log : List Entry) (e : Nat) : List Nat :=
  log.filterMap fun x => match x with
    | .inv e' h 0 => if e' == e then some h else none
    | _ => none

def descending (prioOf : Nat → Int) : List Nat → Bool
  | [] => true
  | [_] => true
  | a :: b :: rest => decide (prioOf a ≥ prioOf b) && descending prioOf (b :: rest)

/-- handlers of every event ran in non-increasing priority -/
def handlerOrderOk (prioOf : Nat → Int) (log : List Entry) : Bool :=
  let evs := (log.filterMap fun x => match x with | .disp e => some e | _ => none).eraseDups
  evs.all fun e => descending prioOf (invokedFor log e)

end CV.Core

import CV.Model.Core.Pure
/-
The core machine, SMALL-STEP.

Same semantics as the big-step interpreter `CV.Model.Core.Machine` (which mirrors
circuits/core/manager.py function by function), but as a transition function

    step : Cfg → Cfg           (total, not recursive, no fuel)

on configurations `Cfg = (st, stack of continuation frames, return register, pending exception)`.
An invariant is proved by `cases` on the top frame: every arm of `step` is a short composition
of the pure functions of `Pure.lean` / the section "pure pieces" below, plus pushes and pops.

Calling convention
  * "call f" = push `f`'s entry frame on top of the caller's continuation frame;
  * "return" = pop; a callee that returns a value writes it to `Cfg.ret` when it pops
    (`Outcome` from a handler / body, `GenYield` from a generator step) and the frame
    directly below reads it (`Ret.outcome`, `Ret.yield`);
  * "raise ex" = set `Cfg.exn := some ex`; while it is set, `step` pops frames (`unwind`);
    frames with a `finally` (`ptFin`, `invokeFin`, `flushFin`, `tickFin`) do their cleanup
    while being popped, `runCatch`/`runRethrow` implement `run()`'s `try/finally: self.tick()`.
  * there is no fuel: `Exn.fuel` is never produced by `step`; only `runN` counts steps.

The log, the tape, the id allocation order and every field of `St` evolve exactly as in
`Machine.lean`; this is checked by `tools/diff_core.py` (model against model) and by the
fuzzers with `CORE_MODEL=core2` (model against the real code).
-/
namespace CV.Core

/-! ## pure pieces of the big-step `mutual` block -/

/-! ### `stop()` -/

/-- `stop()` after the `if not self.running: return`: `_running = False; fire(stopped)` -/
def St.stopBegin (s : St) (c : Nat) : St :=
  (s.modComp c fun x => { x with running := false }).fireTmplEv c { name := Name.stopped, arg := c } none 0

/-- `stop(code)` called inside the executing thread: remember the exit code for `run()` -/
def St.stopSetCode (s : St) (r : Nat) (code : Code) : St :=
  if code.isSome then s.modComp r fun x => { x with exitCode := code } else s

/-! ### generators -/

/-- `yield self.call(tmpl(), target, timeout=…)`: the callEvent generator object + its state -/
def St.genCall (s : St) (owner t : Nat) (target : Option Chan) (timeout : Option Nat) : St :=
  let tm := s.tmpls.getD t { name := ⟨0, []⟩ }
  (s.addGen (.wait s.waits.length)).addWait
    { owner := owner, evObj := none, evName := tm.name,
      timeout := match timeout with | some n => (n : Int) | none => -1,
      task := s.gens.length, isCall := some (t, target) }

/-- `yield self.wait(name, target, timeout=…)` -/
def St.genWait (s : St) (owner : Nat) (name : Name) (target : Option Chan) (timeout : Option Nat) : St :=
  (s.addGen (.wait s.waits.length)).addWait
    { owner := owner, evObj := none, evName := name,
      timeout := match timeout with | some n => (n : Int) | none => -1,
      task := s.gens.length, isCall := none, chanArg := target }

/-- bookkeeping of `next(g)` / `g.send` / `g.throw` on a user generator before its body
    continues: the step counter, the `started` flag and (unless the caller logged the reason
    already: `silent`) the log entry of a resumption -/
def St.resumeGenPre (s : St) (g : Nat) (silent : Bool) : St :=
  match s.gen g with
  | .user e h owner rest step pc sd =>
    if silent then s.setGen g (.user e h owner rest (step + 1) pc true)
    else if sd then (s.setGen g (.user e h owner rest (step + 1) pc true)).logE (.inv e h (step + 1))
    else s.setGen g (.user e h owner rest step pc true)
  | _ => s

def Outcome.toYield : Outcome → GenYield
  | .raised => .raised
  | .sysExit code => .sysExit code
  | .kbdInt => .kbdInt
  | _ => .stop

/-! ### `processTask`: the exits of its `try` block -/

/-- `except StopIteration:` ; `true` = `_eventDone(event)` follows -/
def St.stopIteration (s : St) (r : Nat) (t : Task) : Bool × St :=
  let e := t.e
  let s1 := (s.modEv e fun x => { x with waiting := x.waiting - 1 }).unregisterTask r t
  match t.parent with
  | some p => (false, s1.registerTask r ⟨e, p, none⟩)
  | none => if (s1.ev e).waiting == 0 then (true, s1.inform e true) else (false, s1)

/-- `self.fire(exception(*err, handler=…, fevent=event))` -/
def St.fireException (s : St) (r e : Nat) : St :=
  s.fireTmplEv r { name := Name.exception, arg := e } none 0

/-- `except BaseException:` ; `true` = `_eventDone(event, err)` follows -/
def St.errorBranch (s : St) (r : Nat) (t : Task) (resumed : Bool) : Bool × St :=
  let e := t.e
  let s1 := s.unregisterTask r t
  let s2 := (s1.modEv e fun x => { x with val := x.val.set .err }).inform e false
  let s3 := (s2.modEv e fun x => { x with val := { x.val with errors := true } }).inform e true
  let ev := s3.ev e
  let s4 := if ev.failure then s3.fireChild r e sfxFailure ev.chans else s3
  let s5 := s4.fireException r e
  if t.parent.isNone || resumed then
    let s6 := s5.modEv e fun x => { x with waiting := x.waiting - (if resumed then 2 else 1) }
    ((s6.ev e).waiting == 0, s6)
  else (false, s5)

/-- the task's own generator yielded a callEvent / waitEvent generator -/
def St.ownSub (s : St) (r : Nat) (t : Task) (w : Nat) : St :=
  let e := t.e
  let s1 := (s.modEv e fun x => { x with waiting := x.waiting + 1 }).unregisterTask r ⟨e, t.g, none⟩
  (s1.startWait w).modWait w fun x => { x with taskEvent := e, parentGen := t.g }

/-- `event.value.value = v` for an optional value (`None` is not stored) -/
def St.setValueOpt (s : St) (e : Nat) (v : Option Nat) : St :=
  match v with
  | some n => s.setValue e (.val n)
  | none => s

/-- the parent generator, resumed with the result of a call/wait, yielded again -/
def St.parentSub (s : St) (r : Nat) (t : Task) (p w2 : Nat) (viaThrow : Bool) : St :=
  if viaThrow then
    -- (val for val in (generator,)) registered as a task: outside the modelled programs
    (s.addGen (.one none false)).registerTask r ⟨t.e, s.gens.length, some p⟩
  else
    (s.startWait w2).modWait w2 fun x => { x with taskEvent := t.e, parentGen := p }

def St.parentPlain (s : St) (r : Nat) (t : Task) (p : Nat) (v : Option Nat) (viaThrow : Bool) : St :=
  if viaThrow then
    (s.addGen (.one v false)).registerTask r ⟨t.e, s.gens.length, some p⟩
  else
    (((s.modEv t.e fun x => { x with waiting := x.waiting - 1 }).setValueOpt t.e v)).registerTask r ⟨t.e, p, none⟩

/-! ### framework handlers -/

/-- `_on_event` of `waitEvent` -/
def St.onWaitEvent (s : St) (w e : Nat) : Outcome × St :=
  let ws := s.wait w
  if !ws.run && !ws.timedOut && (ws.evObj.isNone || ws.evObj == some e) then
    let r := s.removeHandler ws.hEvent (some ws.evName)
    if !r.1 then (.raised, r.2)
    else (.none, (r.2.modEv e fun x => { x with alertDone := true }).modWait w
                    fun x => { x with run := true, event := some e })
  else (.none, s)

/-- `_on_done` of `waitEvent` -/
def St.onWaitDone (s : St) (w e : Nat) : Outcome × St :=
  let ws := s.wait w
  let ev := s.ev e
  -- `if state.flag or state.timed_out: return` : a repeated or stale invocation does nothing
  if !ws.flag && !ws.timedOut && (ws.event.isSome && ws.event == ev.parentEv) then
    let s1 := (s.modWait w fun x => { x with flag := true }).registerTask ws.owner
                ⟨ws.taskEvent, ws.task, some ws.parentGen⟩
    if ws.timeout ≥ 0 then
      match ws.hTick with
      | some ht =>
        let r := s1.removeHandler ht (some Name.generateEvents)
        if !r.1 then (.raised, r.2) else (.none, r.2)
      | none => (.raised, s1)
    else (.none, s1)
  else (.none, s)

/-- `_on_tick` of `waitEvent` -/
def St.onWaitTick (s : St) (w : Nat) : Outcome × St :=
  let ws := s.wait w
  -- `if state.flag or state.timed_out: return` : a stale invocation (handler list computed before this
  -- handler was removed) does nothing, the outcome is already decided
  if ws.flag || ws.timedOut then (.none, s)
  else if ws.timeout == 0 then
    let s1 := ((s.modWait w fun x => { x with timedOut := true }).addGen (.exc w false)).registerTask ws.owner
      ⟨ws.taskEvent, s.gens.length, some ws.parentGen⟩
    let r1 := s1.removeHandler ws.hDone (some (ws.evName.child sfxDone))
    if !r1.1 then (.raised, r1.2)
    else
      let r2 := match ws.hTick with
        | some ht => r1.2.removeHandler ht (some Name.generateEvents)
        | none => (true, r1.2)
      if !r2.1 then (.raised, r2.2)
      else if !ws.run then
        let r3 := r2.2.removeHandler ws.hEvent (some ws.evName)
        if !r3.1 then (.raised, r3.2) else (.none, r3.2)
      else (.none, r2.2)
  else if ws.timeout > 0 then (.none, s.modWait w fun x => { x with timeout := x.timeout - 1 })
  else (.none, s)

/-- `FallBackGenerator._on_generate_events` (helpers.py 31-58), single-threaded reading;
    `false` = it would sleep for ever (`Exn.blocked`) -/
def St.onFallbackGE (s : St) (e : Nat) : Bool × St :=
  let ev := s.ev e
  if ev.timeLeft == 0 then (true, s.modEv e fun x => { x with stopped := true })
  else if ev.timeLeft > 0 then
    let s1 := ((s.logE (.idle ev.timeLeft)).tick1 ev.timeLeft).reduceTimeLeft e 0
    (true, s1.modEv e fun x => { x with stopped := true })
  else (false, s)

/-! ### `_dispatcher` -/

/-- cache miss in `_dispatcher`: collect, sort, add the fallback handler, store in the cache -/
def St.computeHandlers (s : St) (r : Nat) (name : Name) (chans : List Chan) : List Nat × St :=
  let all := chans.flatMap (fun ch => collect s (s.comps.length + 1) r name ch)
  let sorted := all.mergeSort (fun a b => (s.hs.getD a dfltHandler).prio ≥ (s.hs.getD b dfltHandler).prio)
  let res : List Nat × St :=
    if name == Name.generateEvents then
      (sorted ++ [s.hs.length],
       s.addH { owner := r, names := [Name.generateEvents], chan := none, prio := -100, kind := .fallbackGE })
    else if name == Name.exception && sorted.isEmpty then
      (sorted ++ [s.hs.length],
       s.addH { owner := r, names := [Name.exception], chan := some .star, kind := .fallbackExc })
    else (sorted, s)
  (res.1, res.2.modComp r fun x => { x with cache := ((name, chans), res.1) :: x.cache })

/-- the `complete` bookkeeping at the start of `_dispatcher` -/
def St.dispComplete (s : St) (e : Nat) (ev : Ev) : St :=
  if ev.complete then
    (if ev.cause.isNone then s.modEv e fun x => { x with cause := some e } else s).modEv e
      fun x => { x with effects := 1, selfDone := false }
  else s

/-- `if self._cache_needs_refresh: …` -/
def St.cacheRefresh (s : St) (r : Nat) : St :=
  if (s.comp r).dirty then s.modComp r fun x => { x with cache := [], dirty := false } else s

/-- cache lookup, falling back to `computeHandlers` -/
def St.lookupHandlers (s : St) (r : Nat) (name : Name) (chans : List Chan) : List Nat × St :=
  match (s.comp r).cache.lookup (name, chans) with
  | some hs => (hs, s)
  | none => s.computeHandlers r name chans

/-- the `generate_events` special case before the handler loop -/
def St.dispGE (s : St) (r e remaining : Nat) (name : Name) : St :=
  if name == Name.generateEvents then
    let rc := s.comp r
    if remaining > 0 || rc.eq.len > 0 || !rc.running then s.reduceTimeLeft e 0
    else if !rc.tasks.isEmpty then s.reduceTimeLeft e s.timeoutTicks
    else s
  else s

/-- `_dispatcher` up to the handler loop; `none` = the event was cancelled -/
def St.dispatchPre (s : St) (r e remaining : Nat) : Option (List Nat) × St :=
  let s0 := s.logE (.disp e)
  let ev := s0.ev e
  if ev.cancelled then (none, s0.modEv e fun x => { x with selfDone := true })
  else
    let s1 := (s0.dispComplete e ev).cacheRefresh r
    let res := s1.lookupHandlers r ev.name ev.chans
    let s2 := res.2.modComp r fun x => { x with currently := some e }
    (some res.1, s2.dispGE r e remaining ev.name)

/-- free choice among the handlers that share the head's priority: follow the tape -/
def St.chooseHandler (s : St) (e h0 : Nat) (rest0 : List Nat) : Nat :=
  let p0 := (s.hs.getD h0 dfltHandler).prio
  let group := (h0 :: rest0).takeWhile (fun h => (s.hs.getD h dfltHandler).prio == p0)
  match s.tape.head? with
  | some (.inv e' h' 0) => if e' == e && group.contains h' then h' else h0
  | some (.hinv e' k o) =>
    if e' == e then
      (group.find? (fun h => let hd := s.hs.getD h dfltHandler; hd.kind.code == k && hkey s hd == o)).getD h0
    else h0
  | _ => h0

/-- `except BaseException:` in the handler loop -/
def St.handlerRaised (s : St) (r e : Nat) : St :=
  let s1 := s.modEv e fun x => { x with val := { x.val with errors := true } }
  let ev := s1.ev e
  let s2 := if ev.failure then s1.fireChild r e sfxFailure ev.chans else s1
  s2.fireException r e

/-- `if value is not None: …` -/
def St.applyValue (s : St) (r e : Nat) (value : Outcome) : St :=
  match value with
  | .raised => s.setValue e .err
  | .gen g =>
    (s.modEv e fun x => { x with waiting := x.waiting + 1, val := { x.val with promise := true } }).registerTask r ⟨e, g, none⟩
  | .value v => s.setValue e (.val v)
  | _ => s

/-- `if isinstance(event, generate_events) and self._tasks: event.reduce_time_left(TIMEOUT)` -/
def St.geTasksCheck (s : St) (r e : Nat) : St :=
  if (s.ev e).name == Name.generateEvents then
    if !(s.comp r).tasks.isEmpty then s.reduceTimeLeft e s.timeoutTicks else s
  else s

/-! ### queue, flush, tick, run -/

/-- one `heappop` of `dispatchEvents`; equal keys are resolved by the tape -/
def St.popEvent (s : St) (r : Nat) : Option (QItem × EQ) :=
  (s.comp r).eq.pop fun cands =>
    match s.tape.head? with
    | some (.disp e) => cands.find? (fun c => c.ev == e)
    | _ => none

/-- `_flush` up to the dispatch loop -/
def St.flushBegin (s : St) (r : Nat) : St :=
  let rc := s.comp r
  (if rc.eq.batch == 0 then s.logE (.batch rc.eq.queue.length) else s).modComp r
    fun x => { x with flushing := true, eq := x.eq.begin }

/-- `tick()` after the tasks: `if self._running: self.fire(generate_events(…), "*")` -/
def St.tickGenerate (s : St) (c : Nat) : St :=
  if (s.comp c).running then
    -- loop overhead: every iteration of a running loop takes one clock tick
    let s1 := s.tick1 1
    (s1.addEv { name := Name.generateEvents, timeLeft := -1 }).fireRaw c s1.evs.length [.star] 0
  else s

/-- which task of `self._tasks.copy()` comes next: follow the tape -/
def St.chooseTask (s : St) (t0 : Task) (rest0 : List Task) : Task :=
  match s.tape.head? with
  | some (.task e g) => ((t0 :: rest0).find? (fun t => t.e == e && t.g == g)).getD t0
  | _ => t0

/-- `run()` up to the `try:` -/
def St.runBegin (s : St) (c : Nat) : St :=
  let s1 := s.modComp c fun x => { x with running := true }
  (s1.modComp (s1.rootOf c) fun x => { x with executing := true }).fireTmplEv c
    { name := Name.started, arg := c } none 0

/-- `run()` after the `try/finally`: leave the executing state; the result is `_exit_code` -/
def St.runEnd (s : St) (c : Nat) : Code × St :=
  let r := s.rootOf c
  let s1 := s.modComp r fun x => { x with executing := false }
  ((s1.comp r).exitCode, s1.modComp r fun x => { x with exitCode := none })

/-! ## configurations -/

/-- continuation points of the Python control flow (see `step` for what each one does) -/
inductive Frame
  /-- `_effectDone(e, announce)`: one iteration of its `while True` per step -/
  | effectDone (r e : Nat) (announce : Bool)
  /-- `_eventDone(e, err)` entered -/
  | eventDone (r e : Nat) (err : Bool)
  /-- `updateRoot`: components whose `root` is still to be set (preorder work list) -/
  | updateRoot (todo : List Nat) (root : Nat)
  /-- `c.register(p)` entered -/
  | register (c p : Nat)
  /-- `register` after `updateRoot`: fire `registered` -/
  | registerFin (c : Nat)
  /-- `_do_prepare_unregister_complete` after `updateRoot`; returns `Outcome.none` -/
  | prepUnregFin (c : Nat)
  /-- `c.stop(code)` entered -/
  | stopMgr (c : Nat) (code : Code)
  /-- `n` more `self.tick()` calls in a row (inline ticks of `stop()`, tail of `run()`) -/
  | ticks (c : Nat) (n : Nat)
  /-- `stop(code)` after its inline ticks: `if code is not None: sys.exit(code)` -/
  | stopFin (code : Code)
  /-- `Timer(…).register(parent)` (act `timerNew`) entered -/
  | timerNew (t : Nat)
  /-- a plain (non-generator) body with its remaining actions; returns an `Outcome` -/
  | acts (ctx : HCtx) (rest : Prog)
  /-- external `do c act` after the action: `SystemExit`/`KeyboardInterrupt` → `stop` -/
  | doFin (c : Nat)
  | drainQ (c : Nat)                     -- `while len(self._queue): self.tick()` at the end of run()
  /-- user generator `g` running until its next `yield`; returns a `GenYield` -/
  | stepGen (g : Nat)
  /-- `processTask(*t)` entered -/
  | processTask (r : Nat) (t : Task)
  /-- `processTask` inside its `try`: advance the task's generator -/
  | ptBody (r : Nat) (t : Task)
  /-- `processTask` after the task's own user generator was advanced (reads `GenYield`) -/
  | ptOwn (r : Nat) (t : Task)
  /-- `processTask` after the parent generator `p` was resumed via send / throw -/
  | ptParent (r : Nat) (t : Task) (p : Nat) (viaThrow : Bool)
  /-- `processTask`'s `finally: self._currently_handling = handling` -/
  | ptFin (r : Nat) (handling : Option Nat)
  /-- `_dispatcher(e, …)` entered -/
  | dispatcher (r e remaining : Nat)
  /-- the `for event_handler in event_handlers` loop between two handlers -/
  | hLoop (r e : Nat) (hs : List Nat) (err : Bool) (stale : Outcome)
  /-- the call `event_handler(event, …)` -/
  | invoke (r h e : Nat)
  /-- after a plain user handler body (normally or by exception): log its exit -/
  | invokeFin (e h : Nat)
  /-- the handler returned / raised (reads the `Outcome`): the `except` clauses -/
  | hAfter (r e : Nat) (rest : List Nat) (err : Bool) (stale : Outcome)
  /-- rest of the loop body: `if value is not None …`, GE check, `if event.stopped: break` -/
  | hApply (r e : Nat) (rest : List Nat) (err : Bool) (value : Outcome)
  /-- `_dispatcher` after the handler loop -/
  | dispFin (r e : Nat) (err : Bool)
  /-- the `while self._flush_batch > 0` loop of `dispatchEvents` -/
  | dispatchLoop (r : Nat)
  /-- `c.flush()` entered -/
  | flush (c : Nat)
  /-- `_flush`'s `finally: self._flushing_thread = old_flushing` -/
  | flushFin (r : Nat) (old : Bool)
  /-- `c.tick()` entered -/
  | tick (c : Nat)
  /-- `for task in self._tasks.copy(): self.processTask(*task)` between two tasks -/
  | taskLoop (c : Nat) (ts : List Task)
  /-- `tick`'s `finally` around the task loop: restore the flushing thread -/
  | tickFin (c : Nat) (old : Bool)
  /-- `tick` after the tasks: fire `generate_events`, then flush if the queue is non-empty -/
  | tickGen (c : Nat)
  /-- `c.run()` entered -/
  | run (c : Nat)
  /-- `while self.running or len(self._queue): self.tick()` -/
  | runLoop (c : Nat)
  /-- end of `run`'s `try` block: on `SystemExit` run the `finally: self.tick()` -/
  | runCatch (c : Nat)
  /-- after the tick of `run`'s `finally`: re-raise `ex` (whatever that tick did) -/
  | runRethrow (ex : Exn)
  /-- `run` after its `try`: leave the executing state, `sys.exit(_exit_code)` -/
  | runFin (c : Nat)
  deriving Repr

/-- the return register -/
inductive Ret
  | none
  | out (o : Outcome)
  | yld (y : GenYield)
  deriving Repr

def Ret.outcome : Ret → Outcome
  | .out o => o
  | _ => .none

def Ret.yield : Ret → GenYield
  | .yld y => y
  | _ => .stop

structure Cfg where
  st : St
  stack : List Frame := []
  ret : Ret := .none
  exn : Option Exn := none
  deriving Repr

def done (c : Cfg) : Bool := c.stack.isEmpty

/-! ## one action of user code -/

/-- what one `Act` does besides changing the state: go on with the next action, end the
    body with an outcome, or call into the framework (push a frame) and then go on -/
inductive ActKind
  | next
  | out (o : Outcome)
  | call (f : Frame)

structure ActRes where
  st : St
  kind : ActKind

/-- one action of user code (big-step `doAct`) -/
def actStep (s : St) (ctx : HCtx) : Act → ActRes
  | .fire t target prio cancel => ⟨s.actFire ctx.self t target prio cancel, .next⟩
  | .stopEv => ⟨s.actStopEv ctx.ev, .next⟩
  | .ret v => ⟨s, .out (.value v)⟩
  | .raise => ⟨s, .out .raised⟩
  | .yld _ => ⟨s, .next⟩      -- handled by the generator stepper
  | .call .. => ⟨s, .next⟩
  | .wait .. => ⟨s, .next⟩
  -- only declared user handlers can be added by user code (ids are a model artefact: an out-of-range id or
  -- the id of a framework handler record is refused, like `admissible` does for register)
  | .addH h => if (s.handler h).kind.code == 0 then ⟨s.addHandler h, .next⟩ else ⟨s, .out .raised⟩
  | .rmH h byName => ⟨(s.removeHandler h byName).2, if (s.removeHandler h byName).1 then .next else .out .raised⟩
  | .reg c p => ⟨s, .call (.register c p)⟩
  | .unreg c => ⟨s.unregister c, .next⟩
  | .flush => ⟨s, .call (.flush ctx.self)⟩
  | .stopMgr c code => ⟨s, .call (.stopMgr c code)⟩
  | .sysExit code => ⟨s, .out (.sysExit code)⟩
  | .kbdInt => ⟨s, .out .kbdInt⟩
  | .timerNew t => ⟨s, .call (.timerNew t)⟩
  | .timerReset t => ⟨s.timerReset t, .next⟩

/-! ## the arms of `step`
Every function takes the configuration `c` (top frame already removed: `k` is the rest of
the stack) and the fields of the top frame, and returns the next configuration. -/

namespace Cfg

/-- pop the top frame -/
def pop (c : Cfg) (k : List Frame) (s : St) : Cfg := { c with st := s, stack := k }
/-- pop the top frame and return `v` -/
def popRet (c : Cfg) (k : List Frame) (s : St) (v : Ret) : Cfg := { c with st := s, stack := k, ret := v }
/-- pop the top frame and raise `ex` -/
def raise (c : Cfg) (k : List Frame) (s : St) (ex : Exn) : Cfg := { c with st := s, stack := k, exn := some ex }
/-- replace the top frame by `fs` -/
def goto (c : Cfg) (k : List Frame) (s : St) (fs : List Frame) : Cfg := { c with st := s, stack := fs ++ k }

def effectDone (c : Cfg) (k : List Frame) (r e : Nat) (announce : Bool) : Cfg :=
  match (c.st.effectDone1 r e announce).1 with
  | some cause => c.goto k (c.st.effectDone1 r e announce).2 [.effectDone r cause true]
  | none => c.pop k (c.st.effectDone1 r e announce).2

def eventDone (c : Cfg) (k : List Frame) (r e : Nat) (err : Bool) : Cfg :=
  if (c.st.eventDonePre r e err).1 then c.goto k (c.st.eventDonePre r e err).2 [.effectDone r e true]
  else c.pop k (c.st.eventDonePre r e err).2

def updateRoot (c : Cfg) (k : List Frame) (todo : List Nat) (root : Nat) : Cfg :=
  c.pop k (St.updateRootAll (c.st.comps.length + 1) todo root c.st)

def register (c : Cfg) (k : List Frame) (x p : Nat) : Cfg :=
  let root := (c.st.comp p).root
  if !(c.st.admissible x p) then c.raise k c.st .inadmissible
  else if (c.st.registerPre x p).1 then
    -- `_updateRoot` runs in the same step: no other code can observe the intermediate roots
    if p != x then
      c.goto k (St.updateRootAll (c.st.comps.length + 1) [x] root (c.st.registerPre x p).2) [.registerFin x]
    else c.pop k (St.updateRootAll (c.st.comps.length + 1) [x] root (c.st.registerPre x p).2)
  else c.raise k (c.st.registerPre x p).2 .unregistrable

def registerFin (c : Cfg) (k : List Frame) (x : Nat) : Cfg := c.pop k (c.st.registerFin x)

def prepUnregFin (c : Cfg) (k : List Frame) (x : Nat) : Cfg := c.popRet k (c.st.prepUnregFin x) (.out .none)

def stopMgr (c : Cfg) (k : List Frame) (x : Nat) (code : Code) : Cfg :=
  if !(c.st.comp x).running then c.pop k c.st
  else
    let s1 := c.st.stopBegin x
    let r := s1.rootOf x
    if !(s1.comp r).executing then c.goto k s1 [.ticks x 3, .stopFin code]
    else c.pop k (s1.stopSetCode r code)

def ticks (c : Cfg) (k : List Frame) (x : Nat) (n : Nat) : Cfg :=
  match n with
  | 0 => c.pop k c.st
  | n + 1 => c.goto k c.st [.tick x, .ticks x n]

def stopFin (c : Cfg) (k : List Frame) (code : Code) : Cfg :=
  if code.isSome then c.raise k c.st (.sysExit code) else c.pop k c.st

def timerNew (c : Cfg) (k : List Frame) (t : Nat) : Cfg :=
  match c.st.timers[t]? with
  | none => c.pop k c.st
  | some tm =>
    if tm.created then c.pop k c.st
    else c.goto k (c.st.timerCreate t) [.register tm.comp tm.parent]

def acts (c : Cfg) (k : List Frame) (ctx : HCtx) (prog : Prog) : Cfg :=
  match prog with
  | [] => c.popRet k c.st (.out .none)
  | a :: rest =>
    match (actStep c.st ctx a).kind with
    | .next => c.goto k (actStep c.st ctx a).st [.acts ctx rest]
    | .out o => c.popRet k (actStep c.st ctx a).st (.out o)
    | .call f => c.goto k (actStep c.st ctx a).st [f, .acts ctx rest]

def doFin (c : Cfg) (k : List Frame) (x : Nat) : Cfg :=
  match c.ret.outcome with
  | .sysExit code => c.goto k c.st [.stopMgr x code]
  | .kbdInt => c.goto k c.st [.stopMgr x none]
  | .raised => c.raise k c.st .apiRaised
  | _ => c.pop k c.st

/-- a user generator body: one action per step (big-step `stepGen`) -/
def stepGen (c : Cfg) (k : List Frame) (g : Nat) : Cfg :=
  let s := c.st
  match s.gen g with
  | .user e h owner rest step _pc sd =>
    match rest with
    | [] => c.popRet k (s.setGen g .dead) (.yld .stop)
    | a :: rest' =>
      match a with
      | .yld v => c.popRet k (s.setGen g (.user e h owner rest' step none sd)) (.yld (.plain v))
      | .call t target timeout catch_ =>
        c.popRet k ((s.genCall owner t target timeout).setGen g (.user e h owner rest' step (some catch_) sd))
          (.yld (.sub s.waits.length))
      | .wait name target timeout catch_ =>
        c.popRet k ((s.genWait owner name target timeout).setGen g (.user e h owner rest' step (some catch_) sd))
          (.yld (.sub s.waits.length))
      | .ret _ => c.popRet k (s.setGen g .dead) (.yld .stop)      -- `return v` in a generator: StopIteration
      | _ =>
        let res := actStep (s.setGen g (.user e h owner rest' step none sd)) ⟨owner, some e⟩ a
        match res.kind with
        | .next => c.goto k res.st [.stepGen g]
        | .out o => c.popRet k (res.st.setGen g .dead) (.yld o.toYield)
        | .call f => c.goto k res.st [f, .stepGen g]
  | _ => c.popRet k s (.yld .stop)

def processTask (c : Cfg) (k : List Frame) (r : Nat) (t : Task) : Cfg :=
  let s1 := c.st.logE (.task t.e t.g)
  c.goto k (s1.modComp r fun x => { x with currently := some t.e })
    [.ptBody r t, .ptFin r (s1.comp r).currently]

/-- continue with the `except StopIteration` exit of `processTask` -/
def contStop (c : Cfg) (k : List Frame) (s : St) (r : Nat) (t : Task) : Cfg :=
  if (s.stopIteration r t).1 then c.goto k (s.stopIteration r t).2 [.eventDone r t.e false]
  else c.pop k (s.stopIteration r t).2

/-- continue with the `except BaseException` exit of `processTask` -/
def contError (c : Cfg) (k : List Frame) (s : St) (r : Nat) (t : Task) (resumed : Bool) : Cfg :=
  if (s.errorBranch r t resumed).1 then c.goto k (s.errorBranch r t resumed).2 [.eventDone r t.e true]
  else c.pop k (s.errorBranch r t resumed).2

/-- `ptBody` for a callEvent / waitEvent generator resumed after `yield state` -/
def ptBodyWait (c : Cfg) (k : List Frame) (r : Nat) (t : Task) (w : Nat) : Cfg :=
  let ws := c.st.wait w
  let rm := c.st.removeHandler ws.hDone (some (ws.evName.child sfxDone))
  if !rm.1 then c.contError k rm.2 r t false
  else
    match ws.event, t.parent with
    | some src, some p =>
      let s1 := rm.2.unregisterTask r t
      match s1.gen p with
      | .user pe ph _ _ _ _ _ =>
        let s2 := s1.logE (.resumed pe ph src (s1.ev src).val.view (s1.ev src).val.errors)
        c.goto k (s2.resumeGenPre p true) [.stepGen p, .ptParent r t p false]
      | _ => c.pop k s1
    | _, _ => c.contStop k rm.2 r t

/-- `ptBody` for the generator that throws `TimeoutError` into the caller -/
def ptBodyExc (c : Cfg) (k : List Frame) (r : Nat) (t : Task) (w : Nat) (fired : Bool) : Cfg :=
  if fired then c.contStop k c.st r t
  else
    let s1 := (c.st.setGen t.g (.exc w true)).unregisterTask r t
    match t.parent with
    | some p =>
      match s1.gen p with
      | .user pe ph _ _ _ pc _ =>
        let caught := pc.getD false
        let s2 := s1.logE (.timeout pe ph caught)
        if caught then c.goto k (s2.resumeGenPre p true) [.stepGen p, .ptParent r t p true]
        else c.contError k (s2.setGen p .dead) r t true
      | _ => c.pop k s1
    | none => c.contError k s1 r t false

def ptBody (c : Cfg) (k : List Frame) (r : Nat) (t : Task) : Cfg :=
  match c.st.gen t.g with
  | .user .. => c.goto k (c.st.resumeGenPre t.g false) [.stepGen t.g, .ptOwn r t]
  | .wait w => c.ptBodyWait k r t w
  | .exc w fired => c.ptBodyExc k r t w fired
  | .dead => c.contStop k c.st r t
  | .one v consumed =>
    if consumed then c.contStop k c.st r t
    else c.pop k ((c.st.setGen t.g (.one v true)).setValueOpt t.e v)

def ptOwn (c : Cfg) (k : List Frame) (r : Nat) (t : Task) : Cfg :=
  match c.ret.yield with
  | .plain v => c.pop k (c.st.setValueOpt t.e v)
  | .sub w => c.pop k (c.st.ownSub r t w)
  | .stop => c.contStop k c.st r t
  | .raised => c.contError k c.st r t false
  | .sysExit code => c.goto k c.st [.stopMgr r code]
  | .kbdInt => c.goto k c.st [.stopMgr r none]

def ptParent (c : Cfg) (k : List Frame) (r : Nat) (t : Task) (p : Nat) (viaThrow : Bool) : Cfg :=
  match c.ret.yield with
  | .sub w2 => c.pop k (c.st.parentSub r t p w2 viaThrow)
  | .plain v => c.pop k (c.st.parentPlain r t p v viaThrow)
  | .stop => c.contStop k c.st r t
  | .raised => c.contError k c.st r t true
  | .sysExit code => c.goto k c.st [.stopMgr r code]
  | .kbdInt => c.goto k c.st [.stopMgr r none]

/-- `finally: self._currently_handling = handling` (normal exit and unwinding alike) -/
def ptFin (c : Cfg) (k : List Frame) (r : Nat) (handling : Option Nat) : Cfg :=
  c.pop k (c.st.modComp r fun x => { x with currently := handling })

def dispatcher (c : Cfg) (k : List Frame) (r e remaining : Nat) : Cfg :=
  match (c.st.dispatchPre r e remaining).1 with
  | none => c.goto k (c.st.dispatchPre r e remaining).2 [.effectDone r e false]
  | some hs => c.goto k (c.st.dispatchPre r e remaining).2 [.hLoop r e hs false .none]

def hLoop (c : Cfg) (k : List Frame) (r e : Nat) (hs : List Nat) (err : Bool) (stale : Outcome) : Cfg :=
  match hs with
  | [] => c.goto k c.st [.dispFin r e err]
  | h0 :: rest0 =>
    let h := c.st.chooseHandler e h0 rest0
    c.goto k (c.st.modEv e fun x => { x with geHandler := some h })
      [.invoke r h e, .hAfter r e ((h0 :: rest0).erase h) err stale]

/-- a user handler: log the invocation; a generator function returns its generator at once -/
def invokeUser (c : Cfg) (k : List Frame) (s : St) (h e : Nat) (owner p : Nat) : Cfg :=
  let s1 := s.logE (.inv e h 0)
  let prog := s1.progs.getD p []
  if prog.isGen then
    c.popRet k ((s1.addGen (.user e h owner prog 0 none false)).logE (.exit e h)) (.out (.gen s1.gens.length))
  else c.goto k s1 [.acts ⟨owner, some e⟩ prog, .invokeFin e h]

def invoke (c : Cfg) (k : List Frame) (_r h e : Nat) : Cfg :=
  let hd := c.st.handler h
  let s := if hd.kind.code != 0 then c.st.logE (.hinv e hd.kind.code (hkey c.st hd)) else c.st
  match hd.kind with
  | .user p => c.invokeUser k s h e hd.owner p
  | .prepUnregComplete =>
    -- _on_prepare_unregister_complete(self, event, e, value): event.parent is the prepare_unregister
    c.goto k (St.updateRootAll (s.comps.length + 1) [hd.owner] hd.owner (s.prepUnregPre hd.owner)) [.prepUnregFin hd.owner]
  | .waitEvent w => c.popRet k (s.onWaitEvent w e).2 (.out (s.onWaitEvent w e).1)
  | .waitDone w => c.popRet k (s.onWaitDone w e).2 (.out (s.onWaitDone w e).1)
  | .waitTick w => c.popRet k (s.onWaitTick w).2 (.out (s.onWaitTick w).1)
  | .timer t => c.popRet k (s.timerTick t e) (.out .none)
  | .fallbackGE =>
    if (s.onFallbackGE e).1 then c.popRet k (s.onFallbackGE e).2 (.out .none)
    else c.raise k (s.onFallbackGE e).2 .blocked
  | .fallbackExc => c.popRet k s (.out .none)

/-- `runActs` returned or raised: log the exit; the outcome / exception passes through -/
def invokeFin (c : Cfg) (k : List Frame) (e h : Nat) : Cfg := c.pop k (c.st.logE (.exit e h))

/-- the `except` clauses of the handler loop.  `stale` is the Python local `value`, which is
    *not* reset per iteration: after a handler that raised KeyboardInterrupt / SystemExit the
    previous handler's result is applied again. -/
def hAfter (c : Cfg) (k : List Frame) (r e : Nat) (rest : List Nat) (err : Bool) (stale : Outcome) : Cfg :=
  match c.ret.outcome with
  | .kbdInt => c.goto k c.st [.stopMgr r none, .hApply r e rest err stale]
  | .sysExit code => c.goto k c.st [.stopMgr r code, .hApply r e rest err stale]
  | .raised => c.goto k (c.st.handlerRaised r e) [.hApply r e rest true .raised]
  | .none => c.goto k c.st [.hApply r e rest err .none]
  | .value v => c.goto k c.st [.hApply r e rest err (.value v)]
  | .gen g => c.goto k c.st [.hApply r e rest err (.gen g)]

def hApply (c : Cfg) (k : List Frame) (r e : Nat) (rest : List Nat) (err : Bool) (value : Outcome) : Cfg :=
  let s1 := c.st.applyValue r e value
  if (s1.ev e).stopped then c.goto k (s1.geTasksCheck r e) [.dispFin r e err]
  else c.goto k (s1.geTasksCheck r e) [.hLoop r e rest err value]

def dispFin (c : Cfg) (k : List Frame) (r e : Nat) (err : Bool) : Cfg :=
  c.goto k (c.st.modComp r fun x => { x with currently := none }) [.eventDone r e err]

def dispatchLoop (c : Cfg) (k : List Frame) (r : Nat) : Cfg :=
  match c.st.popEvent r with
  | none => c.pop k c.st
  | some (it, q) =>
    c.goto k (c.st.modComp r fun x => { x with eq := q }) [.dispatcher r it.ev q.batch, .dispatchLoop r]

def flush (c : Cfg) (k : List Frame) (x : Nat) : Cfg :=
  let r := c.st.rootOf x
  c.goto k (c.st.flushBegin r) [.dispatchLoop r, .flushFin r (c.st.comp r).flushing]

/-- `finally: self._flushing_thread = old_flushing` (normal exit and unwinding alike) -/
def flushFin (c : Cfg) (k : List Frame) (r : Nat) (old : Bool) : Cfg :=
  c.pop k (c.st.modComp r fun x => { x with flushing := old })

def tick (c : Cfg) (k : List Frame) (x : Nat) : Cfg :=
  let cc := c.st.comp x
  if !cc.tasks.isEmpty then
    -- the ticking thread counts as the flushing thread while tasks run
    c.goto k (c.st.modComp x fun y => { y with flushing := true })
      [.taskLoop x cc.tasks, .tickFin x cc.flushing, .tickGen x]
  else c.goto k c.st [.tickGen x]

def taskLoop (c : Cfg) (k : List Frame) (x : Nat) (ts : List Task) : Cfg :=
  match ts with
  | [] => c.pop k c.st
  | t0 :: rest0 =>
    let t := c.st.chooseTask t0 rest0
    c.goto k c.st [.processTask x t, .taskLoop x ((t0 :: rest0).erase t)]

def tickFin (c : Cfg) (k : List Frame) (x : Nat) (old : Bool) : Cfg :=
  c.pop k (c.st.modComp x fun y => { y with flushing := old })

def tickGen (c : Cfg) (k : List Frame) (x : Nat) : Cfg :=
  let s1 := c.st.tickGenerate x
  if (s1.comp x).eq.len > 0 then c.goto k s1 [.flush x] else c.pop k s1

def run (c : Cfg) (k : List Frame) (x : Nat) : Cfg :=
  c.goto k (c.st.runBegin x) [.runLoop x, .ticks x 4, .drainQ x, .runCatch x, .runFin x]

def runLoop (c : Cfg) (k : List Frame) (x : Nat) : Cfg :=
  let cc := c.st.comp x
  if cc.running || cc.eq.len > 0 then c.goto k c.st [.tick x, .runLoop x] else c.pop k c.st

/-- the drain loop in `run`'s `finally` -/
def drainQ (c : Cfg) (k : List Frame) (x : Nat) : Cfg :=
  if (c.st.comp x).eq.len > 0 then c.goto k c.st [.tick x, .drainQ x] else c.pop k c.st

def runFin (c : Cfg) (k : List Frame) (x : Nat) : Cfg :=
  match (c.st.runEnd x).1 with
  | some code => c.raise k (c.st.runEnd x).2 (.sysExit (some code))
  | none => c.pop k (c.st.runEnd x).2

/-- `run`'s `try … finally: self.tick()` when an exception arrives: for `SystemExit` the
    exception is parked, the tick runs, `runRethrow` raises it again -/
def runCatchExn (c : Cfg) (k : List Frame) (x : Nat) (ex : Exn) : Cfg :=
  match ex with
  | .sysExit _ => { c with stack := .tick x :: .drainQ x :: .runRethrow ex :: k, exn := none }
  | _ => c.pop k c.st

/-- re-raise the parked exception (an exception of the `finally` tick is dropped) -/
def runRethrow (c : Cfg) (k : List Frame) (ex : Exn) : Cfg := c.raise k c.st ex

end Cfg

/-! ## the transition function -/

/-- normal execution of the top frame `f` (`k` = rest of the stack) -/
def stepFrame (c : Cfg) (k : List Frame) : Frame → Cfg
  | .effectDone r e announce => c.effectDone k r e announce
  | .eventDone r e err => c.eventDone k r e err
  | .updateRoot todo root => c.updateRoot k todo root
  | .register x p => c.register k x p
  | .registerFin x => c.registerFin k x
  | .prepUnregFin x => c.prepUnregFin k x
  | .stopMgr x code => c.stopMgr k x code
  | .ticks x n => c.ticks k x n
  | .stopFin code => c.stopFin k code
  | .timerNew t => c.timerNew k t
  | .acts ctx rest => c.acts k ctx rest
  | .doFin x => c.doFin k x
  | .drainQ x => c.drainQ k x
  | .stepGen g => c.stepGen k g
  | .processTask r t => c.processTask k r t
  | .ptBody r t => c.ptBody k r t
  | .ptOwn r t => c.ptOwn k r t
  | .ptParent r t p viaThrow => c.ptParent k r t p viaThrow
  | .ptFin r handling => c.ptFin k r handling
  | .dispatcher r e remaining => c.dispatcher k r e remaining
  | .hLoop r e hs err stale => c.hLoop k r e hs err stale
  | .invoke r h e => c.invoke k r h e
  | .invokeFin e h => c.invokeFin k e h
  | .hAfter r e rest err stale => c.hAfter k r e rest err stale
  | .hApply r e rest err value => c.hApply k r e rest err value
  | .dispFin r e err => c.dispFin k r e err
  | .dispatchLoop r => c.dispatchLoop k r
  | .flush x => c.flush k x
  | .flushFin r old => c.flushFin k r old
  | .tick x => c.tick k x
  | .taskLoop x ts => c.taskLoop k x ts
  | .tickFin x old => c.tickFin k x old
  | .tickGen x => c.tickGen k x
  | .run x => c.run k x
  | .runLoop x => c.runLoop k x
  | .runCatch _ => c.pop k c.st
  | .runRethrow ex => c.runRethrow k ex
  | .runFin x => c.runFin k x

/-- an exception `ex` is pending: pop the top frame `f`, running its `finally` if it has one -/
def unwind (c : Cfg) (k : List Frame) (ex : Exn) : Frame → Cfg
  | .ptFin r handling => c.ptFin k r handling
  | .invokeFin e h => c.invokeFin k e h
  | .flushFin r old => c.flushFin k r old
  | .tickFin x old => c.tickFin k x old
  | .runCatch x => c.runCatchExn k x ex
  | .runRethrow ex0 => c.runRethrow k ex0
  | _ => c.pop k c.st

def step (c : Cfg) : Cfg :=
  match c.stack with
  | [] => c
  | f :: k =>
    match c.exn with
    | some ex => unwind c k ex f
    | none => stepFrame c k f

/-- iterate `step` until the stack is empty; the only place with fuel -/
def runN : Nat → Cfg → Cfg
  | 0, c => c
  | n + 1, c => if done c then c else runN n (step c)

/-! ## entry points (the driver's ops) -/

def Cfg.start (s : St) (fs : List Frame) : Cfg := { st := s, stack := fs }

/-- external `do c act`: the action runs outside any handler (no current event) -/
def startDo (s : St) (c : Nat) (a : Act) : Cfg := .start s [.acts ⟨c, none⟩ [a], .doFin c]
def startTick (s : St) (c : Nat) : Cfg := .start s [.tick c]
def startFlush (s : St) (c : Nat) : Cfg := .start s [.flush c]
def startRun (s : St) (c : Nat) : Cfg := .start s [.run c]

end CV.Core

import CV.Model.Basic
/-
Model of `_EventQueue` (circuits/core/manager.py 120-155) as it is used concurrently by the
loop thread and by foreign firing threads, at source-line granularity.

    def append(self, event, channel, priority):
        self._counter += 1                                              -- qIncr t
        self._queue.append((priority, self._counter, (event, channel))) -- qApp  t  (reads the counter *now*)

    def dispatchEvents(self, dispatcher):
        if self._flush_batch == 0:
            self._flush_batch = count = len(self._queue)                -- qSnap n
            while count:
                count -= 1
                heappush(self._priority_queue, self._queue.popleft())   -- (the move; see note)
        while self._flush_batch > 0:
            self._flush_batch -= 1
            (event, channels) = heappop(self._priority_queue)[2]        -- qPop tid seq
            dispatcher(event, channels, self._flush_batch)

All events of the model have the same priority (0), so the heap order is the order of the
counter stamped into the entry; entries with equal counters (possible: two threads may both
increment before either appends) compare through `Event.__gt__/__le__` (always False) and may
come out in either order - the acceptor `qPop` therefore admits *any* entry whose counter is
minimal in the batch.

Note on the move: firers only ever append to the right end of the deque and never look at
the heap, the loop moves exactly the `count` left-most entries.  The model performs the move
atomically at the line that reads `len(self._queue)`; `batch ++ dq` (what the arming block's
`remaining > 0 or len(self._queue)` looks at) is the same either way.

`fired` and `log` are ghost histories: entries in the order appended / dispatched.
-/
namespace CV
namespace Wake

structure Ev where
  tid : Nat
  seq : Nat
  ctr : Nat
  isGe : Bool
deriving DecidableEq, Repr

structure QS where
  ctr : Nat := 0
  pend : List Nat := []      -- threads that executed `_counter += 1` and not yet the append
  dq : List Ev := []         -- `_queue` (deque), left = head
  batch : List Ev := []      -- `_priority_queue` (heap), kept in insertion order
  log : List Ev := []        -- ghost: dispatched entries, in order
  fired : List Ev := []      -- ghost: appended entries, in order
deriving Repr

/-- undispatched entries: what `remaining > 0 or len(self._queue)` is about -/
def QS.pending (q : QS) : List Ev := q.batch ++ q.dq

def qIncr (q : QS) (t : Nat) : QS :=
  { q with ctr := q.ctr + 1, pend := t :: q.pend }

def qApp (q : QS) (t seq : Nat) (isGe : Bool) : Option QS :=
  if t ∈ q.pend then
    let e : Ev := ⟨t, seq, q.ctr, isGe⟩
    some { q with pend := q.pend.filter (· ≠ t), dq := q.dq ++ [e], fired := q.fired ++ [e] }
  else none

def qSnap (q : QS) (n : Nat) : Option QS :=
  if q.batch = [] ∧ n = q.dq.length then some { q with batch := q.dq, dq := [] } else none

/-- split a list at the first entry carrying `(tid, seq)` -/
def splitAtEv (tid seq : Nat) : List Ev → Option (List Ev × Ev × List Ev)
  | [] => none
  | e :: es =>
    if e.tid = tid ∧ e.seq = seq then some ([], e, es)
    else match splitAtEv tid seq es with
      | some (p, x, r) => some (e :: p, x, r)
      | none => none

/-- `heappop`: the entry the implementation dispatched must have a minimal counter -/
def qPop (q : QS) (tid seq : Nat) : Option (QS × Ev) :=
  match splitAtEv tid seq q.batch with
  | some (p, x, r) =>
    if q.batch.all (fun y => x.ctr ≤ y.ctr) then
      some ({ q with batch := p ++ r, log := q.log ++ [x] }, x)
    else none
  | none => none

end Wake
end CV

import CV.Model.WebSocket
/-
Model of the WebSocket *endpoints*: how `WebSocketCodec` (CV.WS) is installed by

  circuits/web/websockets/client.py      WebSocketClient._on_response
      self._codec = WebSocketCodec(data=response.body.read(), channel=self._wschannel).register(self)
  circuits/web/websockets/dispatcher.py  WebSocketsDispatcher._on_request / _on_disconnect
      codec = WebSocketCodec(request.sock, channel=self._wschannel)      # no data=: request.body is not handed over
      self._codecs[request.sock] = codec ; codec.register(self)
      ...
      del self._codecs[sock] ; self._requests.pop(sock, None)            # on disconnect (the codec unregisters itself)

and which bytes of the raw connection reach it.  Before the codec exists every read goes to the HTTP
parser (circuits/web/parsers/http.py, `HttpParser.execute`), which joins what it has so far and looks for

      idx = data.find(b'\r\n')            # end of the request / status line
      ...
      idx = data.find(b'\r\n\r\n')        # `_parse_headers`, in what follows the first line
      rest = data[idx + 4:] ; self._buf = [rest]          -> `_parse_body`: `self._body.append(b''.join(self._buf))`

so the head ends at the first CRLFCRLF behind the first line, in whichever read it completes, and what
follows it *in that read* is the message "body" (`recv_body()`): `response.body` on the client side
(circuits/protocols/http.py fires `response` at once for an upgrade), `request.body` on the server side
(circuits/web/http.py fires `request` at once when there is no Content-Length).  Every later read is
taken by the codec's own `read` handler (priority 10, `event.stop()`), for its socket only.

`splitHead` is that search on the joined buffer (first occurrence in a prefix = first occurrence in
every extension, so searching the joined buffer read after read is what the incremental parser does).
Not modelled: the shortcut `if data == b'\r\n'` of `_parse_headers` (a head without any header line) -
an upgrade head always has header lines; the driver refuses such input (`unsupported-headerless`).

The dispatcher's per-socket table `_codecs` is `Table` (socket identity -> codec state).
-/
namespace CV
namespace WSE
open CV.WS

def crlf : Bytes := [13, 10]
def crlf2 : Bytes := [13, 10, 13, 10]

/-- `i = data.find(pat)` and the split behind the match: `(data[:i+len(pat)], data[i+len(pat):])` -/
def splitAfter (pat : Bytes) : Bytes → Option (Bytes × Bytes)
  | [] => none
  | x :: xs =>
    if pat.isPrefixOf (x :: xs) then some (pat, (x :: xs).drop pat.length)
    else match splitAfter pat xs with
      | some (a, b) => some (x :: a, b)
      | none => none

/-- the head of an HTTP message in the joined buffer: `(head incl. CRLFCRLF, what follows it)`;
    `none` = the parser waits for more -/
def splitHead (buf : Bytes) : Option (Bytes × Bytes) :=
  match splitAfter crlf buf with
  | none => none
  | some (line, r) =>
    match splitAfter crlf2 r with
    | none => none
    | some (h, rest) => some (line ++ h, rest)

/-- the first line is directly followed by an empty line (the unmodelled shortcut) -/
def headerless (buf : Bytes) : Bool :=
  match splitAfter crlf buf with
  | some (_, r) => crlf.isPrefixOf r
  | none => false

/-- reads while no codec is installed: `(head, bytes behind the head in the completing read, later reads)` -/
def hsFeed (buf : Bytes) : List Bytes → Option (Bytes × Bytes × List Bytes)
  | [] => none
  | r :: rs =>
    match splitHead (buf ++ r) with
    | some (h, left) => some (h, left, rs)
    | none => hsFeed (buf ++ r) rs

inductive Side where
  | client | server
  deriving Repr, DecidableEq

/-- the `data=` the codec is created with -/
def initialData : Side → Bytes → Bytes
  | Side.client, left => left     -- client.py: data=response.body.read()
  | Side.server, _ => []          -- dispatcher.py: WebSocketCodec(request.sock, channel=...) - request.body stays unread

/-- what the codec is fed: its initial data (decoded in `_on_registered`), then every later read -/
def codecReads (side : Side) (segs : List Bytes) : Option (List Bytes) :=
  match hsFeed [] segs with
  | some (_, left, later) => some (initialData side left :: later)
  | none => none

/-- everything the endpoint emits for the raw reads `segs` of one connection (`cs`: the local close
    was sent before the first frame is decoded) -/
def endpointOuts (side : Side) (cs : Bool) (segs : List Bytes) : List Out :=
  match codecReads side segs with
  | some reads => (feedAll { closeSent := cs } reads).2
  | none => []

/-! ### several connections: the dispatcher's `_codecs` table -/

/-- `_codecs`: socket identity -> state of its codec -/
abbrev Table := Nat → Option St

inductive Ev where
  | upgrade (sock : Nat)                    -- `_on_request`: `self._codecs[sock] = WebSocketCodec(sock, ...)`
  | read (sock : Nat) (data : Bytes)        -- raw `read(sock, data)`: only the codec of `sock` takes it
  | disconnect (sock : Nat)                 -- `_on_disconnect`: `del self._codecs[sock]`
  deriving Repr, DecidableEq

def Ev.sock : Ev → Nat
  | Ev.upgrade s => s
  | Ev.read s _ => s
  | Ev.disconnect s => s

def Table.set (t : Table) (k : Nat) (v : Option St) : Table := fun j => if j = k then v else t j

/-- one event; outputs are tagged with the socket they are delivered / written for -/
def step (t : Table) : Ev → Table × List (Nat × Out)
  | Ev.upgrade s => (t.set s (some {}), [])
  | Ev.read s d =>
    match t s with
    | none => (t, [])
    | some st =>
      let r := feed st d
      (t.set s (some r.1), r.2.map (fun o => (s, o)))
  | Ev.disconnect s => (t.set s none, [])

def run (t : Table) : List Ev → Table × List (Nat × Out)
  | [] => (t, [])
  | e :: es =>
    let r1 := step t e
    let r2 := run r1.1 es
    (r2.1, r1.2 ++ r2.2)

def emptyTable : Table := fun _ => none

end WSE
end CV

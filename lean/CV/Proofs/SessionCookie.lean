import CV.Model.SessionCookie
import CV.Proofs.Session
/-
Helper lemmas for C20 (cookie name / Set-Cookie): `runJ` is `run` on what `Sessions(name)` reads
of each request; `jarSet` is a dict assignment.  Core Lean only.
-/
namespace CV.Session

theorem runJ_eq (W : Str → Str) (name : Str) (steps : List StepJ) :
    ∀ st, (runJ W name st steps).1 = (run W st (steps.map (StepJ.toStep name))).1 ∧
      (runJ W name st steps).2.map ObsJ.toObs = (run W st (steps.map (StepJ.toStep name))).2 := by
  induction steps with
  | nil => intro st; exact ⟨rfl, rfl⟩
  | cons s ss ih =>
    intro st
    obtain ⟨h1, h2⟩ := ih (step W st (s.toStep name)).1
    simp only [runJ, run, stepJ, List.map_cons]
    exact ⟨h1, by simp [ObsJ.toObs, h2]⟩

theorem lookup_jarSet_self (jar : Jar) (name v : Str) : (jarSet jar name v).lookup name = some v := by
  unfold jarSet
  induction jar with
  | nil => simp
  | cons p ps ih =>
    by_cases hp : p.1 = name
    · simp [hp]
    · have hb : (name == p.1) = false := by simpa using fun e => hp e.symm
      simp only [List.any_cons, hp, decide_false, Bool.false_or, List.map_cons, if_false, List.cons_append] at ih ⊢
      split
      · rename_i ha
        simp only [ha, if_true] at ih
        obtain ⟨a, b⟩ := p
        simp only [List.lookup] at *
        simp only [hb]
        exact ih
      · rename_i ha
        simp only [ha] at ih
        obtain ⟨a, b⟩ := p
        simp only [List.lookup] at *
        simp only [hb]
        exact ih

theorem lookup_jarSet_other (jar : Jar) (name v n : Str) (hn : n ≠ name) :
    (jarSet jar name v).lookup n = jar.lookup n := by
  unfold jarSet
  induction jar with
  | nil =>
    have hb : (n == name) = false := by simpa using hn
    simp [List.lookup, hb]
  | cons p ps ih =>
    obtain ⟨a, b⟩ := p
    by_cases hp : a = name
    · subst hp
      have hb : (n == a) = false := by simpa using hn
      simp only [List.any_cons, decide_true, Bool.true_or, if_true, List.map_cons, List.lookup, hb]
      clear ih
      induction ps with
      | nil => rfl
      | cons q qs ih2 =>
        obtain ⟨c, d⟩ := q
        by_cases hq : c = a
        · subst hq; simp [List.lookup, hb, ih2]
        · simp only [List.map_cons, hq, if_false, List.lookup]
          split <;> simp_all
    · simp only [List.any_cons, hp, decide_false, Bool.false_or, List.map_cons, if_false, List.cons_append] at ih ⊢
      split
      · rename_i ha
        simp only [ha, if_true] at ih
        simp only [List.lookup]
        split
        · rfl
        · exact ih
      · rename_i ha
        simp only [ha] at ih
        simp only [List.lookup]
        split
        · rfl
        · exact ih

end CV.Session

import CV.Model.AuthLeaves
/-
Helper lemmas for C20: `parse_keqv_list(parse_http_list(·))` (model `kvLeaf`) reads back the
parameter list a client renders with `renderItems`.  Core Lean only.
-/
namespace CV.Auth

theorem splitFirst_append {α} [DecidableEq α] (c : α) (a b : List α) (h : c ∉ a) :
    splitFirst c (a ++ c :: b) = some (a, b) := by
  induction a with
  | nil => simp [splitFirst]
  | cons x xs ih =>
    have hx : x ≠ c := fun e => h (by simp [e])
    have hxs : c ∉ xs := fun e => h (by simp [e])
    simp [splitFirst, hx, ih hxs]

/-! ### the scanner of parse_http_list -/

/-- outside quotes, characters other than ',' and '"' are appended to the current part -/
theorem hlGo_tok (t : Str) (ht : ∀ c ∈ t, c ≠ ',' ∧ c ≠ '"') (part rest : Str) :
    hlGo false false part (t ++ rest) = hlGo false false (part ++ t) rest := by
  induction t generalizing part with
  | nil => simp
  | cons c t ih =>
    have hc := ht c (by simp)
    have := ih (fun x hx => ht x (by simp [hx])) (part ++ [c])
    simp only [List.cons_append]
    rw [hlGo]
    have hb : (c == '"') = false := by simp [hc.2]
    simp only [Bool.false_eq_true, if_false, hc.1, hb]
    simpa using this

/-- inside quotes, an escaped value followed by the closing quote appends the value and the quote -/
theorem hlGo_quoted (v : Str) (part rest : Str) :
    hlGo false true part (escQ v ++ '"' :: rest) = hlGo false false (part ++ v ++ ['"']) rest := by
  induction v generalizing part with
  | nil =>
    simp only [escQ, List.flatMap_nil, List.nil_append, List.append_nil]
    rw [hlGo]
    simp
  | cons c v ih =>
    have hstep : escQ (c :: v) = (if c = '"' ∨ c = '\\' then ['\\', c] else [c]) ++ escQ v := by
      simp [escQ]
    rw [hstep]
    by_cases hc : c = '"' ∨ c = '\\'
    · rw [if_pos hc]
      simp only [List.cons_append, List.nil_append]
      rw [hlGo]
      simp only [Bool.false_eq_true, if_false, if_true]
      rw [hlGo]
      simp only [if_true]
      rw [ih]
      simp
    · rw [if_neg hc]
      simp only [List.cons_append, List.nil_append]
      have h1 : c ≠ '"' := fun e => hc (Or.inl e)
      have h2 : c ≠ '\\' := fun e => hc (Or.inr e)
      rw [hlGo]
      have hb : (c != '"') = true := by simp [h1]
      simp only [Bool.false_eq_true, if_false, if_true, h2, hb]
      rw [ih]
      simp

/-- the text `parse_http_list` collects for one parameter -/
def itemPart (i : Item) : Str := i.k ++ '=' :: (if i.quoted then '"' :: (i.v ++ ['"']) else i.v)

theorem tok_of_tokChar {c : Char} (h : tokChar c = true) : c ≠ ',' ∧ c ≠ '"' ∧ isSpace c = false := by
  simp only [tokChar, Bool.and_eq_true, bne_iff_ne, ne_eq, Bool.not_eq_true'] at h
  exact ⟨h.1.1, h.1.2, h.2⟩

theorem Item.ok_k {i : Item} (h : i.ok = true) : ∀ c ∈ i.k, c ≠ ',' ∧ c ≠ '"' ∧ isSpace c = false ∧ c ≠ '=' := by
  intro c hc
  simp only [Item.ok, Bool.and_eq_true, List.all_eq_true] at h
  have := h.1 c hc
  simp only [Bool.and_eq_true, bne_iff_ne, ne_eq] at this
  obtain ⟨h1, h2, h3⟩ := tok_of_tokChar this.1
  exact ⟨h1, h2, h3, this.2⟩

theorem Item.ok_v {i : Item} (h : i.ok = true) (hq : i.quoted = false) :
    i.v ≠ [] ∧ ∀ c ∈ i.v, c ≠ ',' ∧ c ≠ '"' ∧ isSpace c = false := by
  simp only [Item.ok, Bool.and_eq_true, hq, Bool.false_or, List.all_eq_true, Bool.not_eq_true',
    List.isEmpty_eq_false_iff] at h
  exact ⟨h.2.1, fun c hc => tok_of_tokChar (h.2.2 c hc)⟩

theorem hlGo_item (i : Item) (hi : i.ok = true) (part rest : Str) :
    hlGo false false part (renderItem i ++ rest) = hlGo false false (part ++ itemPart i) rest := by
  have hk := Item.ok_k hi
  unfold renderItem itemPart
  rw [List.append_assoc, hlGo_tok i.k (fun c hc => ⟨(hk c hc).1, (hk c hc).2.1⟩)]
  simp only [List.cons_append]
  rw [hlGo]
  simp only [Bool.false_eq_true, if_false, show ('=' : Char) ≠ ',' by decide,
    show (('=' : Char) == '"') = false by decide]
  cases hq : i.quoted
  · obtain ⟨_, hv⟩ := Item.ok_v hi hq
    simp only [Bool.false_eq_true, if_false]
    rw [hlGo_tok i.v (fun c hc => ⟨(hv c hc).1, (hv c hc).2.1⟩)]
    simp
  · simp only [if_true, List.cons_append]
    rw [hlGo]
    simp only [Bool.false_eq_true, if_false, show ('"' : Char) ≠ ',' by decide,
      show (('"' : Char) == '"') = true by decide]
    rw [show escQ i.v ++ ['"'] ++ rest = escQ i.v ++ '"' :: rest by simp, hlGo_quoted]
    simp

/-! ### strip -/

theorem dropWhile_space_append (pre x : Str) (hpre : ∀ c ∈ pre, isSpace c = true)
    (hx : ∀ a, x.head? = some a → isSpace a = false) : (pre ++ x).dropWhile isSpace = x := by
  induction pre with
  | nil =>
    cases x with
    | nil => rfl
    | cons a t => simp [List.dropWhile, hx a rfl]
  | cons c cs ih =>
    simp only [List.cons_append, List.dropWhile, hpre c (by simp)]
    exact ih (fun y hy => hpre y (by simp [hy]))

theorem strip_eq (pre x : Str) (hpre : ∀ c ∈ pre, isSpace c = true)
    (hh : ∀ a, x.head? = some a → isSpace a = false)
    (hl : ∀ a, x.getLast? = some a → isSpace a = false) : strip (pre ++ x) = x := by
  unfold strip
  rw [dropWhile_space_append pre x hpre hh]
  have := dropWhile_space_append [] x.reverse (by simp) (by simpa [List.head?_reverse] using hl)
  simp only [List.nil_append] at this
  rw [this, List.reverse_reverse]

theorem itemPart_head (i : Item) (hi : i.ok = true) : ∀ a, (itemPart i).head? = some a → isSpace a = false := by
  intro a ha
  unfold itemPart at ha
  cases hk : i.k with
  | nil =>
    simp [hk] at ha
    subst ha
    decide
  | cons c t =>
    simp [hk] at ha
    subst ha
    exact (Item.ok_k hi c (by simp [hk])).2.2.1

theorem itemPart_last (i : Item) (hi : i.ok = true) : ∀ a, (itemPart i).getLast? = some a → isSpace a = false := by
  intro a ha
  unfold itemPart at ha
  cases hq : i.quoted
  · obtain ⟨hne, hv⟩ := Item.ok_v hi hq
    simp only [hq, Bool.false_eq_true, if_false] at ha
    rw [show i.k ++ '=' :: i.v = (i.k ++ ['=']) ++ i.v by simp, List.getLast?_append] at ha
    cases hlast : i.v.getLast? with
    | none => exact absurd (List.getLast?_eq_none_iff.mp hlast) hne
    | some b =>
      rw [hlast] at ha
      cases ha
      exact (hv _ (List.mem_of_getLast? hlast)).2.2
  · simp only [hq, if_true] at ha
    rw [show i.k ++ '=' :: '"' :: (i.v ++ ['"']) = (i.k ++ '=' :: '"' :: i.v) ++ ['"'] by simp,
      List.getLast?_concat] at ha
    cases ha
    decide

theorem itemPart_ne_nil (i : Item) : itemPart i ≠ [] := by
  unfold itemPart; simp

/-- `parse_http_list` of a rendered parameter list: one part per parameter -/
theorem hl_items (items : List Item) (hok : ∀ i ∈ items, i.ok = true) (hne : items ≠ [])
    (pre : Str) (hpre : ∀ c ∈ pre, isSpace c = true) :
    (hlGo false false pre (renderItems items)).map strip = items.map itemPart := by
  induction items generalizing pre with
  | nil => exact absurd rfl hne
  | cons i is ih =>
    have hi := hok i (by simp)
    cases is with
    | nil =>
      have : renderItems [i] = renderItem i ++ [] := by simp [renderItems]
      rw [this, hlGo_item i hi, hlGo]
      have hne' : (pre ++ itemPart i).isEmpty = false := by
        simp [itemPart_ne_nil]
      simp only [hne', Bool.false_eq_true, if_false, List.map_cons, List.map_nil]
      rw [strip_eq pre _ hpre (itemPart_head i hi) (itemPart_last i hi)]
    | cons j js =>
      have : renderItems (i :: j :: js) = renderItem i ++ (',' :: ' ' :: renderItems (j :: js)) := by
        simp [renderItems]
      rw [this, hlGo_item i hi, hlGo]
      simp only [Bool.false_eq_true, if_false, if_true]
      rw [hlGo]
      simp only [Bool.false_eq_true, if_false, show (' ' : Char) ≠ ',' by decide,
        show ((' ' : Char) == '"') = false by decide, List.nil_append, List.map_cons]
      rw [strip_eq pre _ hpre (itemPart_head i hi) (itemPart_last i hi)]
      rw [ih (fun x hx => hok x (by simp [hx])) (by simp) [' '] (by simp; decide)]
      simp

/-! ### parse_keqv_list -/

theorem unquote_quoted (v : Str) : unquote ('"' :: (v ++ ['"'])) = some v := by
  unfold unquote
  have : ('"' :: (v ++ ['"'])).getLast? = some '"' := by
    rw [show '"' :: (v ++ ['"']) = ('"' :: v) ++ ['"'] by simp, List.getLast?_concat]
  simp [this]

theorem unquote_tok (v : Str) (hne : v ≠ []) (hv : ∀ c ∈ v, c ≠ '"') : unquote v = some v := by
  cases v with
  | nil => exact absurd rfl hne
  | cons c t =>
    have : c ≠ '"' := hv c (by simp)
    simp [unquote, this]

theorem keqv_item (i : Item) (hi : i.ok = true) (d : KV) (es : List Str) :
    keqvGo d (itemPart i :: es) = keqvGo (upsert d i.k i.v) es := by
  have hk := Item.ok_k hi
  have hs : splitFirst '=' (itemPart i) = some (i.k, if i.quoted then '"' :: (i.v ++ ['"']) else i.v) :=
    splitFirst_append '=' _ _ (fun hm => (hk _ hm).2.2.2 rfl)
  have hu : unquote (if i.quoted then '"' :: (i.v ++ ['"']) else i.v) = some i.v := by
    cases hq : i.quoted
    · obtain ⟨hne, hv⟩ := Item.ok_v hi hq
      simp only [Bool.false_eq_true, if_false]
      exact unquote_tok _ hne (fun c hc => (hv c hc).2.1)
    · simp only [if_true]
      exact unquote_quoted _
  rw [keqvGo, hs]
  simp only [hu]

theorem keqv_items (items : List Item) (hok : ∀ i ∈ items, i.ok = true) (d : KV) :
    keqvGo d (items.map itemPart) = some ((itemsKV items).foldl (fun d e => upsert d e.1 e.2) d) := by
  induction items generalizing d with
  | nil => simp [keqvGo, itemsKV]
  | cons i is ih =>
    simp only [List.map_cons]
    rw [keqv_item i (hok i (by simp)), ih (fun x hx => hok x (by simp [hx]))]
    simp [itemsKV]

/-- the tokeniser reads back what the client rendered -/
theorem kvLeaf_render (items : List Item) (hok : ∀ i ∈ items, i.ok = true) :
    kvLeaf (renderItems items) = some (dictOf (itemsKV items)) := by
  unfold kvLeaf parseKeqvList parseHttpList dictOf
  cases items with
  | nil => simp [renderItems, hlGo, keqvGo, itemsKV]
  | cons i is =>
    rw [hl_items (i :: is) hok (by simp) [] (by simp)]
    exact keqv_items _ hok []

theorem upsert_new (d : KV) (k v : Str) (h : k ∉ d.map Prod.fst) : upsert d k v = d ++ [(k, v)] := by
  induction d with
  | nil => rfl
  | cons e es ih =>
    obtain ⟨k', v'⟩ := e
    have hk : k' ≠ k := fun e => h (by simp [e])
    have := ih (fun hm => h (by simp [hm]))
    simp [upsert, hk, this]

theorem foldl_upsert_nodup (l d : KV) (h : (d ++ l).map Prod.fst |>.Nodup) :
    l.foldl (fun d e => upsert d e.1 e.2) d = d ++ l := by
  induction l generalizing d with
  | nil => simp
  | cons e es ih =>
    obtain ⟨k, v⟩ := e
    have hk : k ∉ d.map Prod.fst := by
      simp only [List.map_append, List.map_cons, List.nodup_append, List.nodup_cons] at h
      intro hm
      exact h.2.2 k hm k (by simp) rfl
    simp only [List.foldl_cons]
    rw [upsert_new d k v hk, ih (d ++ [(k, v)]) (by simpa using h)]
    simp

/-- distinct parameter names: the dict is the list itself -/
theorem dictOf_nodup (l : KV) (h : (l.map Prod.fst).Nodup) : dictOf l = l := by
  unfold dictOf
  simpa using foldl_upsert_nodup l [] (by simpa using h)

end CV.Auth

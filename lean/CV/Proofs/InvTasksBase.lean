import CV.Proofs.CoreReach
import CV.Proofs.CoreStep
/-
waitingHandlers ACCOUNTING (serves C04 `eventDone_once`, `success_after_last_step`), part 1: definitions and the
effect of every primitive of `Pure.lean` on them.  Identifiers carry the prefix `t46_` / `T46`.

OBLIGATIONS of an event `e` (what `event.waitingHandlers` has to pay for):
  * every task-set entry `(e, g, parent)` of any component weighs `1`, plus `1` when it has a parent
    (`Task.t46_wt`): an ordinary generator task `(e, g, None)` stands for the generator handler `g`; a
    task with a parent - the resumption task of a `waitEvent` generator, the `TimeoutError` carrier, the
    one-shot value generator after a caught time-out - stands for itself AND for the suspended caller;
  * every wait state that is started and has neither seen `_on_done` (`flag`) nor timed out weighs `2`
    on its `task_event` (`WaitSt.t46_wt`): the `call`/`wait` and the suspended caller;
  * a `.ptParent r t p v` frame weighs `2` on `t.e` (`Frame.t46_wt`): the resumption task has been
    unregistered and the caller `p` is running / has just returned its next yield.
`St.t46_D s e = waiting e - (task weights) - (wait weights)` is the SLACK of `e`; the invariant is
`frame weights ≤ slack` (CV/Proofs/InvTasksMain.lean).  Equality does not hold in the model nor in the
code: `waitingHandlers` leaks upwards (see the report in CV/Props/C04.lean).

Two relations between states, both preorders that every primitive respects (the `CoreStep` pattern):
  * `St.T46M s s'`   the slack of no event decreases;
  * `St.T46G ex s s'` task sets only grow, except that the task `ex` may disappear, and stay duplicate-free.
-/
namespace CV.Core

/-! ## generic list lemmas -/

theorem t46_sum_modify {α} (g : α → Int) (f : α → α) (d : α) : ∀ (l : List α) (i : Nat),
    ((l.modify i f).map g).sum =
      (l.map g).sum + (if i < l.length then g (f (l.getD i d)) - g (l.getD i d) else 0) := by
  intro l
  induction l with
  | nil => intro i; simp
  | cons a l ih =>
    intro i
    cases i with
    | zero => simp [List.modify_zero_cons]; omega
    | succ n =>
      rw [List.modify_succ_cons, List.map_cons, List.sum_cons, ih n, List.map_cons, List.sum_cons]
      simp only [List.length_cons, Nat.add_lt_add_iff_right, List.getD_cons_succ]
      omega

theorem t46_getD_modify {α} (f : α → α) (d : α) (l : List α) (i j : Nat) :
    (l.modify i f).getD j d = if i = j ∧ j < l.length then f (l.getD j d) else l.getD j d := by
  rw [List.getD_eq_getElem?_getD, List.getElem?_modify, List.getD_eq_getElem?_getD]
  by_cases hj : j < l.length
  · rw [List.getElem?_eq_getElem hj]
    by_cases hi : i = j
    · simp [hi, hj]
    · simp [hi]
  · rw [List.getElem?_eq_none (Nat.le_of_not_lt hj)]
    simp [hj]

/-! ## weights -/

/-- weight of a task-set entry for event `e` -/
def Task.t46_wt (e : Nat) (t : Task) : Int := if t.e = e then (if t.parent.isSome then 2 else 1) else 0

def t46_sumTasks (e : Nat) (l : List Task) : Int := (l.map (Task.t46_wt e)).sum

/-- started, `_on_done` not seen, not timed out: the caller is suspended in this `call`/`wait` and no
    resumption task / `TimeoutError` task exists yet -/
def WaitSt.t46_pending (w : WaitSt) : Bool := w.started && !w.flag && !w.timedOut

def WaitSt.t46_wt (e : Nat) (w : WaitSt) : Int := if w.t46_pending = true ∧ w.taskEvent = e then 2 else 0

def Frame.t46_wt (e : Nat) : Frame → Int
  | .ptParent _ t _ _ => if t.e = e then 2 else 0
  | _ => 0

def t46_WF (e : Nat) (k : List Frame) : Int := (k.map (Frame.t46_wt e)).sum

def St.t46_WT (s : St) (e : Nat) : Int := (s.comps.map fun c => t46_sumTasks e c.tasks).sum
def St.t46_WW (s : St) (e : Nat) : Int := (s.waits.map (WaitSt.t46_wt e)).sum

/-- the slack of event `e`: `waitingHandlers` minus the obligations held in task sets and wait states -/
def St.t46_D (s : St) (e : Nat) : Int := (s.ev e).waiting - s.t46_WT e - s.t46_WW e

theorem Task.t46_wt_nonneg (e : Nat) (t : Task) : 0 ≤ t.t46_wt e := by
  unfold Task.t46_wt; repeat' split
  all_goals omega

theorem Task.t46_wt_le (e : Nat) (t : Task) : t.t46_wt e ≤ 2 := by
  unfold Task.t46_wt; repeat' split
  all_goals omega

theorem Frame.t46_wt_nonneg (e : Nat) (f : Frame) : 0 ≤ f.t46_wt e := by
  cases f <;> simp only [Frame.t46_wt] <;> first | omega | (split <;> omega)

theorem WaitSt.t46_wt_nonneg (e : Nat) (w : WaitSt) : 0 ≤ w.t46_wt e := by
  unfold WaitSt.t46_wt; split <;> omega

theorem t46_sumTasks_nonneg (e : Nat) (l : List Task) : 0 ≤ t46_sumTasks e l := by
  induction l with
  | nil => simp [t46_sumTasks]
  | cons a l ih =>
    simp only [t46_sumTasks, List.map_cons, List.sum_cons] at ih ⊢
    have := Task.t46_wt_nonneg e a; omega

theorem t46_WF_nonneg (e : Nat) (k : List Frame) : 0 ≤ t46_WF e k := by
  induction k with
  | nil => simp [t46_WF]
  | cons a l ih =>
    simp only [t46_WF, List.map_cons, List.sum_cons] at ih ⊢
    have := Frame.t46_wt_nonneg e a; omega

@[simp] theorem t46_WF_nil (e : Nat) : t46_WF e [] = 0 := rfl
@[simp] theorem t46_WF_cons (e : Nat) (f : Frame) (k : List Frame) : t46_WF e (f :: k) = f.t46_wt e + t46_WF e k := by
  simp [t46_WF]
theorem t46_WF_append (e : Nat) (a b : List Frame) : t46_WF e (a ++ b) = t46_WF e a + t46_WF e b := by
  simp [t46_WF]

theorem t46_sumTasks_append1 (e : Nat) (l : List Task) (t : Task) :
    t46_sumTasks e (l ++ [t]) = t46_sumTasks e l + t.t46_wt e := by
  simp [t46_sumTasks]

theorem t46_sumTasks_addUniq_le (e : Nat) (l : List Task) (t : Task) :
    t46_sumTasks e (addUniq l t) ≤ t46_sumTasks e l + t.t46_wt e := by
  unfold addUniq
  split
  · have := Task.t46_wt_nonneg e t; omega
  · rw [t46_sumTasks_append1]; omega

theorem t46_sumTasks_addUniq_ge (e : Nat) (l : List Task) (t : Task) :
    t46_sumTasks e l ≤ t46_sumTasks e (addUniq l t) := by
  unfold addUniq
  split
  · omega
  · rw [t46_sumTasks_append1]; have := Task.t46_wt_nonneg e t; omega

theorem t46_sumTasks_erase_mem (e : Nat) (t : Task) : ∀ (l : List Task), t ∈ l →
    t46_sumTasks e (l.erase t) = t46_sumTasks e l - t.t46_wt e := by
  intro l
  induction l with
  | nil => intro h; cases h
  | cons a l ih =>
    intro h
    rw [List.erase_cons]
    by_cases hab : a = t
    · subst hab; simp [t46_sumTasks]; omega
    · have hne : (a == t) = false := by simpa using hab
      rw [hne]
      have hm : t ∈ l := by
        rcases List.mem_cons.1 h with h1 | h1
        · exact absurd h1.symm hab
        · exact h1
      have := ih hm
      simp only [t46_sumTasks, List.map_cons, List.sum_cons, Bool.false_eq_true, if_false] at this ⊢
      omega

theorem t46_sumTasks_erase_le (e : Nat) (t : Task) (l : List Task) :
    t46_sumTasks e (l.erase t) ≤ t46_sumTasks e l := by
  by_cases h : t ∈ l
  · rw [t46_sumTasks_erase_mem e t l h]; have := Task.t46_wt_nonneg e t; omega
  · rw [List.erase_of_not_mem h]; omega

theorem t46_addUniq_nodup (l : List Task) (t : Task) (h : l.Nodup) : (addUniq l t).Nodup := by
  unfold addUniq
  split
  · exact h
  · rename_i hc
    have hn : t ∉ l := by simpa using hc
    rw [List.nodup_append]
    refine ⟨h, by simp, ?_⟩
    intro a ha b hb
    have : b = t := by simpa using hb
    subst this
    intro hab; subst hab; exact hn ha

theorem t46_mem_addUniq (l : List Task) (t x : Task) : x ∈ addUniq l t ↔ x ∈ l ∨ x = t := by
  unfold addUniq
  split
  · rename_i hc
    have hm : t ∈ l := by simpa using hc
    constructor
    · exact Or.inl
    · rintro (h | h)
      · exact h
      · subst h; exact hm
  · simp

/-! ## reading the tables after a primitive -/

theorem St.t46_comp_modComp (s : St) (c : Nat) (f : Comp → Comp) (x : Nat) :
    (s.modComp c f).comp x = if c = x ∧ x < s.comps.length then f (s.comp x) else s.comp x := by
  unfold St.modComp St.comp
  exact t46_getD_modify f dfltComp s.comps c x

theorem St.t46_ev_modEv (s : St) (e : Nat) (f : Ev → Ev) (x : Nat) :
    (s.modEv e f).ev x = if e = x ∧ x < s.evs.length then f (s.ev x) else s.ev x := by
  unfold St.modEv St.ev
  exact t46_getD_modify f dfltEv s.evs e x

theorem St.t46_wait_modWait (s : St) (w : Nat) (f : WaitSt → WaitSt) (x : Nat) :
    (s.modWait w f).wait x = if w = x ∧ x < s.waits.length then f (s.wait x) else s.wait x := by
  unfold St.modWait St.wait
  exact t46_getD_modify f dfltWait s.waits w x

theorem St.t46_comp_oor (s : St) (x : Nat) (h : ¬ x < s.comps.length) : s.comp x = dfltComp := by
  unfold St.comp
  rw [List.getD_eq_getElem?_getD, List.getElem?_eq_none (Nat.le_of_not_lt h)]; rfl

theorem St.t46_WT_modComp (s : St) (c : Nat) (f : Comp → Comp) (e : Nat) :
    (s.modComp c f).t46_WT e = s.t46_WT e +
      (if c < s.comps.length then t46_sumTasks e (f (s.comp c)).tasks - t46_sumTasks e (s.comp c).tasks else 0) := by
  unfold St.t46_WT St.modComp St.comp
  exact t46_sum_modify (fun c => t46_sumTasks e c.tasks) f dfltComp s.comps c

theorem St.t46_WW_modWait (s : St) (w : Nat) (f : WaitSt → WaitSt) (e : Nat) :
    (s.modWait w f).t46_WW e = s.t46_WW e +
      (if w < s.waits.length then (f (s.wait w)).t46_wt e - (s.wait w).t46_wt e else 0) := by
  unfold St.t46_WW St.modWait St.wait
  exact t46_sum_modify (WaitSt.t46_wt e) f dfltWait s.waits w

theorem St.t46_WW_addWait (s : St) (x : WaitSt) (e : Nat) : (s.addWait x).t46_WW e = s.t46_WW e + x.t46_wt e := by
  simp [St.t46_WW, St.addWait]

theorem St.t46_ev_addEv_waiting (s : St) (ev : Ev) (x : Nat) (h : ev.waiting = 0) :
    ((s.addEv ev).ev x).waiting = (s.ev x).waiting := by
  unfold St.addEv St.ev
  simp only [List.getD_eq_getElem?_getD]
  by_cases hx : x < s.evs.length
  · rw [List.getElem?_append_left hx]
  · have hx' : s.evs.length ≤ x := Nat.le_of_not_lt hx
    rw [List.getElem?_append_right hx', List.getElem?_eq_none hx']
    by_cases h0 : x - s.evs.length = 0
    · rw [h0]; simp [h, dfltEv]
    · have : ([ev] : List Ev)[x - s.evs.length]? = none := by
        apply List.getElem?_eq_none; simp; omega
      rw [this]

/-- the task set of one component after `registerTask` -/
theorem St.t46_tasks_registerTask (s : St) (c : Nat) (t : Task) (x : Nat) :
    ((s.registerTask c t).comp x).tasks =
      if s.rootOf c = x ∧ x < s.comps.length then addUniq (s.comp x).tasks t else (s.comp x).tasks := by
  unfold St.registerTask
  rw [St.t46_comp_modComp]
  split <;> rfl

theorem St.t46_tasks_unregisterTask (s : St) (c : Nat) (t : Task) (x : Nat) :
    ((s.unregisterTask c t).comp x).tasks =
      if s.rootOf c = x ∧ x < s.comps.length then (s.comp x).tasks.erase t else (s.comp x).tasks := by
  unfold St.unregisterTask
  rw [St.t46_comp_modComp]
  split <;> rfl

theorem St.t46_WT_registerTask_le (s : St) (c : Nat) (t : Task) (e : Nat) :
    (s.registerTask c t).t46_WT e ≤ s.t46_WT e + t.t46_wt e := by
  unfold St.registerTask
  rw [St.t46_WT_modComp]
  split
  · have := t46_sumTasks_addUniq_le e (s.comp (s.rootOf c)).tasks t
    dsimp only; omega
  · have := Task.t46_wt_nonneg e t; omega

theorem St.t46_WT_unregisterTask_le (s : St) (c : Nat) (t : Task) (e : Nat) :
    (s.unregisterTask c t).t46_WT e ≤ s.t46_WT e := by
  unfold St.unregisterTask
  rw [St.t46_WT_modComp]
  split
  · have := t46_sumTasks_erase_le e t (s.comp (s.rootOf c)).tasks
    dsimp only; omega
  · omega

theorem St.t46_WT_unregisterTask_mem (s : St) (c : Nat) (t : Task) (e : Nat)
    (h : t ∈ (s.comp (s.rootOf c)).tasks) :
    (s.unregisterTask c t).t46_WT e = s.t46_WT e - t.t46_wt e := by
  unfold St.unregisterTask
  rw [St.t46_WT_modComp]
  have hr : s.rootOf c < s.comps.length := by
    apply Classical.byContradiction
    intro hn
    rw [St.t46_comp_oor s _ hn] at h
    cases h
  rw [if_pos hr]
  have := t46_sumTasks_erase_mem e t _ h
  dsimp only; omega

/-! ## the slack relation -/

/-- the slack of no event decreases -/
def St.T46M (s s' : St) : Prop := ∀ e, s.t46_D e ≤ s'.t46_D e

namespace St.T46M
variable {s t : St}

theorem refl (s : St) : St.T46M s s := fun _ => Int.le_refl _
theorem trans {a b c : St} (h1 : St.T46M a b) (h2 : St.T46M b c) : St.T46M a c := fun e => Int.le_trans (h1 e) (h2 e)
theorem of_eq {t' : St} (h : St.T46M s t) (he : ∀ e, t'.t46_D e = t.t46_D e) : St.T46M s t' := fun e => by
  rw [he]; exact h e

theorem modComp (h : St.T46M s t) (c : Nat) (f : Comp → Comp) (hf : ∀ y : Comp, (f y).tasks = y.tasks) :
    St.T46M s (t.modComp c f) := by
  refine h.of_eq fun e => ?_
  unfold St.t46_D
  rw [St.t46_WT_modComp, hf]
  have : ∀ x, (t.modComp c f).ev x = t.ev x := fun _ => rfl
  have hw : (t.modComp c f).t46_WW e = t.t46_WW e := rfl
  rw [this, hw]; split <;> omega

theorem modEv (h : St.T46M s t) (e : Nat) (f : Ev → Ev) (hf : ∀ y : Ev, (f y).waiting = y.waiting) :
    St.T46M s (t.modEv e f) := by
  refine h.of_eq fun x => ?_
  unfold St.t46_D
  have h1 : (t.modEv e f).t46_WT x = t.t46_WT x := rfl
  have h2 : (t.modEv e f).t46_WW x = t.t46_WW x := rfl
  rw [h1, h2, St.t46_ev_modEv]
  split
  · rw [hf]
  · rfl

theorem modWait (h : St.T46M s t) (w : Nat) (f : WaitSt → WaitSt)
    (hf : ∀ y : WaitSt, (f y).t46_pending = y.t46_pending ∧ (f y).taskEvent = y.taskEvent) :
    St.T46M s (t.modWait w f) := by
  refine h.of_eq fun x => ?_
  unfold St.t46_D
  have h1 : (t.modWait w f).t46_WT x = t.t46_WT x := rfl
  have h2 : ∀ y, (t.modWait w f).ev y = t.ev y := fun _ => rfl
  rw [h1, h2, St.t46_WW_modWait]
  have : (f (t.wait w)).t46_wt x = (t.wait w).t46_wt x := by
    unfold WaitSt.t46_wt; rw [(hf _).1, (hf _).2]
  rw [this]; split <;> omega

theorem modTimer (h : St.T46M s t) (i : Nat) (f : TimerSt → TimerSt) : St.T46M s (t.modTimer i f) :=
  h.of_eq fun _ => rfl
theorem setGen (h : St.T46M s t) (g : Nat) (x : GenRec) : St.T46M s (t.setGen g x) := h.of_eq fun _ => rfl
theorem logE (h : St.T46M s t) (x : Entry) : St.T46M s (t.logE x) := h.of_eq fun _ => rfl
theorem addH (h : St.T46M s t) (x : Handler) : St.T46M s (t.addH x) := h.of_eq fun _ => rfl
theorem addGen (h : St.T46M s t) (g : GenRec) : St.T46M s (t.addGen g) := h.of_eq fun _ => rfl
theorem tick1 (h : St.T46M s t) (d : Int) : St.T46M s (t.tick1 d) := h.of_eq fun _ => rfl

theorem addEv (h : St.T46M s t) (ev : Ev) (hv : ev.waiting = 0) : St.T46M s (t.addEv ev) := by
  refine h.of_eq fun x => ?_
  unfold St.t46_D
  have h1 : (t.addEv ev).t46_WT x = t.t46_WT x := rfl
  have h2 : (t.addEv ev).t46_WW x = t.t46_WW x := rfl
  rw [h1, h2, St.t46_ev_addEv_waiting t ev x hv]

theorem addWait (h : St.T46M s t) (x : WaitSt) (hx : x.started = false) : St.T46M s (t.addWait x) := by
  refine h.of_eq fun e => ?_
  unfold St.t46_D
  have h1 : (t.addWait x).t46_WT e = t.t46_WT e := rfl
  have h2 : ∀ y, (t.addWait x).ev y = t.ev y := fun _ => rfl
  rw [h1, h2, St.t46_WW_addWait]
  have : x.t46_wt e = 0 := by simp [WaitSt.t46_wt, WaitSt.t46_pending, hx]
  rw [this]; omega

/-- `unregisterTask` alone can only increase the slack -/
theorem unregisterTask (h : St.T46M s t) (c : Nat) (x : Task) : St.T46M s (t.unregisterTask c x) := by
  refine h.trans fun e => ?_
  unfold St.t46_D
  have h1 : (t.unregisterTask c x).t46_WW e = t.t46_WW e := rfl
  have h2 : ∀ y, (t.unregisterTask c x).ev y = t.ev y := fun _ => rfl
  rw [h1, h2]
  have := St.t46_WT_unregisterTask_le t c x e
  omega

end St.T46M

/-! ## the task-set relation -/

/-- task sets only grow - except that the task `ex` may disappear - and stay duplicate-free -/
structure St.T46G (ex : Option Task) (s s' : St) : Prop where
  grow : ∀ x t, some t ≠ ex → t ∈ (s.comp x).tasks → t ∈ (s'.comp x).tasks
  nd : (∀ x, (s.comp x).tasks.Nodup) → ∀ x, (s'.comp x).tasks.Nodup

namespace St.T46G
variable {ex : Option Task} {s t : St}

theorem refl (s : St) : St.T46G ex s s := ⟨fun _ _ _ h => h, fun h => h⟩
theorem trans {a b c : St} (h1 : St.T46G ex a b) (h2 : St.T46G ex b c) : St.T46G ex a c :=
  ⟨fun x t hne h => h2.grow x t hne (h1.grow x t hne h), fun h => h2.nd (h1.nd h)⟩

theorem of_tasks {t' : St} (h : St.T46G ex s t) (he : ∀ x, (t'.comp x).tasks = (t.comp x).tasks) : St.T46G ex s t' :=
  ⟨fun x y hne hy => by rw [he]; exact h.grow x y hne hy, fun hn x => by rw [he]; exact h.nd hn x⟩

theorem modComp (h : St.T46G ex s t) (c : Nat) (f : Comp → Comp) (hf : ∀ y : Comp, (f y).tasks = y.tasks) :
    St.T46G ex s (t.modComp c f) := by
  refine h.of_tasks fun x => ?_
  rw [St.t46_comp_modComp]
  split
  · exact hf _
  · rfl

theorem modEv (h : St.T46G ex s t) (e : Nat) (f : Ev → Ev) : St.T46G ex s (t.modEv e f) := h.of_tasks fun _ => rfl
theorem modWait (h : St.T46G ex s t) (w : Nat) (f : WaitSt → WaitSt) : St.T46G ex s (t.modWait w f) := h.of_tasks fun _ => rfl
theorem modTimer (h : St.T46G ex s t) (i : Nat) (f : TimerSt → TimerSt) : St.T46G ex s (t.modTimer i f) := h.of_tasks fun _ => rfl
theorem setGen (h : St.T46G ex s t) (g : Nat) (x : GenRec) : St.T46G ex s (t.setGen g x) := h.of_tasks fun _ => rfl
theorem logE (h : St.T46G ex s t) (x : Entry) : St.T46G ex s (t.logE x) := h.of_tasks fun _ => rfl
theorem addEv (h : St.T46G ex s t) (e : Ev) : St.T46G ex s (t.addEv e) := h.of_tasks fun _ => rfl
theorem addH (h : St.T46G ex s t) (x : Handler) : St.T46G ex s (t.addH x) := h.of_tasks fun _ => rfl
theorem addGen (h : St.T46G ex s t) (g : GenRec) : St.T46G ex s (t.addGen g) := h.of_tasks fun _ => rfl
theorem addWait (h : St.T46G ex s t) (w : WaitSt) : St.T46G ex s (t.addWait w) := h.of_tasks fun _ => rfl
theorem tick1 (h : St.T46G ex s t) (d : Int) : St.T46G ex s (t.tick1 d) := h.of_tasks fun _ => rfl

theorem registerTask (h : St.T46G ex s t) (c : Nat) (x : Task) : St.T46G ex s (t.registerTask c x) := by
  refine h.trans ⟨fun y z _ hz => ?_, fun hn y => ?_⟩
  · rw [St.t46_tasks_registerTask]; split
    · exact (t46_mem_addUniq _ _ _).2 (Or.inl hz)
    · exact hz
  · rw [St.t46_tasks_registerTask]; split
    · exact t46_addUniq_nodup _ _ (hn y)
    · exact hn y

theorem unregisterTask (h : St.T46G ex s t) (c : Nat) (x : Task) (hx : ex = some x) :
    St.T46G ex s (t.unregisterTask c x) := by
  refine h.trans ⟨fun y z hne hz => ?_, fun hn y => ?_⟩
  · rw [St.t46_tasks_unregisterTask]; split
    · have : z ≠ x := fun e => hne (by rw [hx, e])
      exact (List.mem_erase_of_ne this).2 hz
    · exact hz
  · rw [St.t46_tasks_unregisterTask]; split
    · exact (hn y).erase _
    · exact hn y

end St.T46G

/-! ## the tactics -/

syntax "t46m1" : tactic
macro_rules | `(tactic| t46m1) => `(tactic| split)
macro_rules | `(tactic| t46m1) => `(tactic| with_reducible apply St.T46M.unregisterTask)
macro_rules | `(tactic| t46m1) => `(tactic| with_reducible apply St.T46M.tick1)
macro_rules | `(tactic| t46m1) => `(tactic| ((with_reducible apply St.T46M.addWait); case hx => exact rfl))
macro_rules | `(tactic| t46m1) => `(tactic| with_reducible apply St.T46M.addGen)
macro_rules | `(tactic| t46m1) => `(tactic| with_reducible apply St.T46M.addH)
macro_rules | `(tactic| t46m1) => `(tactic| ((with_reducible apply St.T46M.addEv); case hv => exact rfl))
macro_rules | `(tactic| t46m1) => `(tactic| with_reducible apply St.T46M.logE)
macro_rules | `(tactic| t46m1) => `(tactic| with_reducible apply St.T46M.setGen)
macro_rules | `(tactic| t46m1) => `(tactic| with_reducible apply St.T46M.modTimer)
macro_rules | `(tactic| t46m1) => `(tactic| ((with_reducible apply St.T46M.modWait); case hf => exact fun _ => ⟨rfl, rfl⟩))
macro_rules | `(tactic| t46m1) => `(tactic| ((with_reducible apply St.T46M.modEv); case hf => first | exact fun _ => rfl | (intro y; split <;> rfl)))
macro_rules | `(tactic| t46m1) => `(tactic| ((with_reducible apply St.T46M.modComp); case hf => exact fun _ => rfl))
macro_rules | `(tactic| t46m1) => `(tactic| with_reducible assumption)
macro_rules | `(tactic| t46m1) => `(tactic| with_reducible exact St.T46M.refl _)

macro "t46m" : tactic => `(tactic| repeat' t46m1)
macro "t46m_unfold" ids:ident+ : tactic => `(tactic| (unfold $[$ids]*; (try dsimp only); t46m))

syntax "t46g1" : tactic
macro_rules | `(tactic| t46g1) => `(tactic| split)
macro_rules | `(tactic| t46g1) => `(tactic| ((with_reducible apply St.T46G.unregisterTask); case hx => first | assumption | rfl))
macro_rules | `(tactic| t46g1) => `(tactic| with_reducible apply St.T46G.registerTask)
macro_rules | `(tactic| t46g1) => `(tactic| with_reducible apply St.T46G.tick1)
macro_rules | `(tactic| t46g1) => `(tactic| with_reducible apply St.T46G.addWait)
macro_rules | `(tactic| t46g1) => `(tactic| with_reducible apply St.T46G.addGen)
macro_rules | `(tactic| t46g1) => `(tactic| with_reducible apply St.T46G.addH)
macro_rules | `(tactic| t46g1) => `(tactic| with_reducible apply St.T46G.addEv)
macro_rules | `(tactic| t46g1) => `(tactic| with_reducible apply St.T46G.logE)
macro_rules | `(tactic| t46g1) => `(tactic| with_reducible apply St.T46G.setGen)
macro_rules | `(tactic| t46g1) => `(tactic| with_reducible apply St.T46G.modTimer)
macro_rules | `(tactic| t46g1) => `(tactic| with_reducible apply St.T46G.modWait)
macro_rules | `(tactic| t46g1) => `(tactic| with_reducible apply St.T46G.modEv)
macro_rules | `(tactic| t46g1) => `(tactic| ((with_reducible apply St.T46G.modComp); case hf => exact fun _ => rfl))
macro_rules | `(tactic| t46g1) => `(tactic| with_reducible assumption)
macro_rules | `(tactic| t46g1) => `(tactic| with_reducible exact St.T46G.refl _)

macro "t46g" : tactic => `(tactic| repeat' t46g1)
macro "t46g_unfold" ids:ident+ : tactic => `(tactic| (unfold $[$ids]*; (try dsimp only); t46g))

end CV.Core

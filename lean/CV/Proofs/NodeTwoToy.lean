import CV.Proofs.NodeTwoK
/-
C19: a toy instance of the two-party world (two calls, a four-packet "JSON") showing that the
hypotheses `n2_Hyp` of the once-and-back theorems are satisfiable.
-/
namespace CV
namespace Node


def n2_toyCalls : List Ev := [Ev.local "ping" [.str "x~~~y"] [], Ev.local "pong" [] [("value", .null)]]

/-- B's handler returns the call number as a string, and leaves an attribute on the event -/
def n2_toyBeh (k : Nat) (_e : Ev) : Option (J × List (String × J)) :=
  some (.str (toString k), [("seen", .bool true)])

def n2_toyExcl : List String := ["cause", "value"]

/-- a four-packet "JSON": `{c0}` `{c1}` are the two call packets, `{v0}` `{v1}` the two answers -/
def n2_toyDumps : J → Bytes
  | .obj (("id", .num _ (some n) _) :: ("name", _) :: _) => [123, 99, 48 + n.toUInt8, 125]
  | .obj (("id", .num _ (some n) _) :: ("errors", _) :: _) => [123, 118, 48 + n.toUInt8, 125]
  | _ => [63]

def n2_toyCallJ (i : Nat) : J := dumpEvent n2_toyExcl (n2_callEv n2_toyCalls i) (n2_idJ i)
def n2_toyAnsJ (i : Nat) : J :=
  dumpValue n2_toyExcl (n2_idJ i) (.bool false) (.str (toString i)) [("seen", .bool true)]

def n2_toyParse (p : Bytes) : PRes :=
  if p.length ≠ 4 then .valueError
  else if p = [123, 99, 48, 125] then .parsed (n2_toyCallJ 0)
  else if p = [123, 99, 49, 125] then .parsed (n2_toyCallJ 1)
  else if p = [123, 118, 48, 125] then .parsed (n2_toyAnsJ 0)
  else if p = [123, 118, 49, 125] then .parsed (n2_toyAnsJ 1)
  else .valueError

def n2_toyEnv : n2_Env :=
  ⟨n2_toyExcl, fun _ => true, fun _ => true, fun _ => true, fun _ => true, n2_toyParse, n2_toyDumps, n2_toyBeh⟩

theorem n2_toy_pkts : n2_callPkt n2_toyEnv n2_toyCalls 0 = [123, 99, 48, 125] ∧ n2_callPkt n2_toyEnv n2_toyCalls 1 = [123, 99, 49, 125] ∧
    n2_ansPkt n2_toyEnv n2_toyCalls 0 = [123, 118, 48, 125] ∧ n2_ansPkt n2_toyEnv n2_toyCalls 1 = [123, 118, 49, 125] := by
  refine ⟨?_, ?_, ?_, ?_⟩ <;> rfl

theorem n2_toy_short (q : Bytes) (h : q.length ≠ 4) : procOf n2_toyExcl n2_toyParse q = .valueError := by
  simp [procOf, n2_toyParse, h]

theorem n2_toy_good (p : Bytes) (hl : p.length = 4) (hn : TILDE ∉ p) (hd : procOf n2_toyExcl n2_toyParse p = .done) :
    Good (procOf n2_toyExcl n2_toyParse) p := by
  refine ⟨hn, hd, ?_, n2_toy_short _ (by simp [hl]), n2_toy_short _ (by simp [hl])⟩
  intro q r h hr
  apply n2_toy_short
  have h1 := congrArg List.length h
  have h2 : r.length > 0 := List.length_pos_iff.mpr hr
  simp at h1
  omega

theorem n2_toy_hyp : n2_Hyp n2_toyEnv n2_toyCalls where
  codec := ⟨rfl, rfl, rfl⟩
  wf := by
    intro i hi
    match i, hi with
    | 0, _ => exact ⟨by decide, by decide, by decide⟩
    | 1, _ => exact ⟨by decide, by decide, by decide⟩
  sendOk := fun _ _ => rfl
  recvOk := fun _ _ => rfl
  returns := fun _ _ => rfl
  callParse := by
    intro i hi
    match i, hi with
    | 0, _ => rfl
    | 1, _ => rfl
  callGood := by
    intro i hi
    match i, hi with
    | 0, _ => exact n2_toy_good _ rfl (by decide) rfl
    | 1, _ => exact n2_toy_good _ rfl (by decide) rfl
  ansParse := by
    intro i hi
    match i, hi with
    | 0, _ => rfl
    | 1, _ => rfl
  ansGood := by
    intro i hi
    match i, hi with
    | 0, _ => exact n2_toy_good _ rfl (by decide) rfl
    | 1, _ => exact n2_toy_good _ rfl (by decide) rfl

end Node
end CV


import CV.Model.NodeSpec
/-
Helper lemmas for C19: load_event / dump_event / the META_EXCLUDE filter.
-/
namespace CV
namespace Node

theorem strKeys_map (kvs : List (String × J)) :
    strKeys (kvs.map (fun kv => (J.str kv.1, kv.2))) = some kvs := by
  induction kvs with
  | nil => simp [strKeys]
  | cons kv r ih => obtain ⟨k, v⟩ := kv; simp [strKeys, ih]

theorem lookup_filter_ne (k k' : String) (h : k' ≠ k) (l : List (String × J)) :
    J.lookup k (l.filter (·.1 ≠ k')) = J.lookup k l := by
  induction l with
  | nil => simp [J.lookup]
  | cons kv r ih =>
    obtain ⟨a, v⟩ := kv
    simp only [ne_eq, decide_not] at ih ⊢
    by_cases ha : a = k'
    · have hak : a ≠ k := by rw [ha]; exact h
      simp [J.lookup, ha, ih, h]
    · by_cases hk : a = k
      · subst hk
        have : ¬ a = k' := ha
        simp [J.lookup, this]
      · simp [J.lookup, ha, hk, ih]

theorem lookup_append_none (k : String) (l m : List (String × J)) (h : J.lookup k m = none) :
    J.lookup k (l ++ m) = J.lookup k l := by
  induction l with
  | nil => simpa [J.lookup] using h
  | cons kv r ih =>
    obtain ⟨a, v⟩ := kv
    by_cases hk : a = k <;> simp [J.lookup, hk, ih]

theorem lookup_setAttr_ne (k k' : String) (v : J) (h : k' ≠ k) (l : List (String × J)) :
    J.lookup k (setAttr l k' v) = J.lookup k l := by
  unfold setAttr
  rw [lookup_append_none, lookup_filter_ne k k' h]
  simp [J.lookup, h]

/-- `meta` can never set an attribute named in the exclusion set -/
theorem applyMeta_excluded (excl : List String) (k : String) (hk : k ∈ excl) :
    ∀ (kvs attrs : List (String × J)), J.lookup k attrs = none → J.lookup k (applyMeta excl attrs kvs) = none := by
  intro kvs
  induction kvs with
  | nil => intro attrs h; simpa [applyMeta] using h
  | cons kv r ih =>
    intro attrs h
    obtain ⟨k', v⟩ := kv
    simp only [applyMeta]
    apply ih
    by_cases hm : metaOk excl k' = true
    · simp only [hm, if_true]
      have hne : k' ≠ k := by
        intro he
        simp [metaOk, he] at hm
        exact hm.2 hk
      rw [lookup_setAttr_ne k k' v hne]; exact h
    · simp only [hm]; exact h

/-- the result of `load_event`, whatever the packet: protected attributes untouched,
    channels usable as a cache key -/
theorem loadEvent_ok {excl : List String} {j : J} {e : Ev} {id : J} (h : loadEvent excl j = .ok (e, id)) :
    (∀ k ∈ excl, e.attr k = none) ∧ e.channels.all J.hashable = true := by
  unfold loadEvent at h
  repeat' split at h
  all_goals first
    | (cases h; done)
    | (cases h
       refine ⟨?_, ?_⟩
       · intro k hk
         exact applyMeta_excluded excl k hk _ [] (by simp [J.lookup])
       · simp_all)


/-! ## reads → packets → effects -/

theorem processJ_buf (c : Cfg) (s : Proto) (b : Bytes) (j : J) :
    processJ c { s with buf := b } j = ({ (processJ c s j).1 with buf := b }, (processJ c s j).2) := by
  unfold processJ
  split
  · split
    · split
      · split <;> rfl
      · rfl
    · rfl
  · split
    · split <;> rfl
    · rfl

theorem processAll_buf (c : Cfg) (parse : Bytes → PRes) (b : Bytes) :
    ∀ (l : List Bytes) (s : Proto),
      processAll c parse { s with buf := b } l =
        ({ (processAll c parse s l).1 with buf := b }, (processAll c parse s l).2) := by
  intro l
  induction l with
  | nil => intro s; rfl
  | cons p ps ih =>
    intro s
    simp only [processAll]
    split
    · rename_i j hj
      rw [processJ_buf, ih]
    · exact ih s

theorem processAll_append (c : Cfg) (parse : Bytes → PRes) :
    ∀ (a b : List Bytes) (s : Proto),
      processAll c parse s (a ++ b) =
        ((processAll c parse (processAll c parse s a).1 b).1,
         (processAll c parse s a).2 ++ (processAll c parse (processAll c parse s a).1 b).2) := by
  intro a
  induction a with
  | nil => intro b s; simp [processAll]
  | cons p ps ih =>
    intro b s
    simp only [List.cons_append, processAll]
    split
    · rw [ih]; simp [List.append_assoc]
    · exact ih b s

/-- reads are framing followed by packet processing -/
theorem recvAll_eq (c : Cfg) (parse : Bytes → PRes) :
    ∀ (segs : List Bytes) (s : Proto),
      recvAll c parse s segs =
        ({ (processAll c parse s (feedAll (procOf c.excl parse) s.buf segs).2.1).1 with
            buf := (feedAll (procOf c.excl parse) s.buf segs).1 },
         (processAll c parse s (feedAll (procOf c.excl parse) s.buf segs).2.1).2) := by
  intro segs
  induction segs with
  | nil => intro s; simp [recvAll, feedAll, processAll]
  | cons d ds ih =>
    intro s
    simp only [recvAll, recv, feedAll]
    rw [ih]
    rw [processAll_buf, processAll_append]
    simp [processAll_buf]

end Node
end CV

import CV.Proofs.NodeSymOne
import CV.Proofs.NodeTwoFw3
/-
C19: in the one-way symmetric world no event ever reaches A's application - under the hypotheses of the two-party
theorems B writes answer packets only, and A's reads turn them into `resolve` effects only.  This discharges the
hypothesis `a.fired = []` of `ns_oneway_gen`.
-/
namespace CV
namespace Node

section
variable {E : n2_Env} {calls : List Ev}

/-- what a read of A produces in a reachable two-party world: answers, nothing else -/
theorem n2f_recvA_effects (H : n2f_Hyp E calls) {w : n2_World} {s kB kA : Nat} {ao yo : List Nat}
    (I : n2f_Inv E calls w s kB kA ao yo) (n : Nat) :
    ∃ l : List Nat, (recv E.cA E.parse w.a (w.ba.take n)).2.1 =
      l.map (fun i => Eff.resolve i (n2f_val E calls i) (.bool false)) := by
  have haoN : ∀ i ∈ ao, i < calls.length := by
    intro i hi
    have := I.aoLt i hi; have := I.kBs; have := I.hs; omega
  have hG : ∀ p ∈ ao.map (n2f_ansPkt E calls), Good E.proc p := by
    intro p hp
    obtain ⟨i, hi, rfl⟩ := List.mem_map.mp hp
    exact H.ansGood i (haoN i hi)
  have hrx : n2_Rx E.proc (ao.map (n2f_ansPkt E calls)) (w.ba.take n ++ w.ba.drop n) w.a.buf
      ((ao.take kA).map (n2f_ansPkt E calls)) := by
    rw [List.take_append_drop]; exact I.rxA
  obtain ⟨hab, hrx'⟩ := n2_rx_read H.codec hG hrx
  have hpre := n2_rx_prefix H.codec hG hrx'
  obtain ⟨m, hkm, hml, hdn, hall⟩ := n2_prefix_split _ _ _ _ I.kAle hpre
  have hsplit : ao.take m = ao.take kA ++ (ao.take m).drop kA := by
    have := (List.take_append_drop kA (ao.take m)).symm
    rwa [List.take_take, Nat.min_eq_left hkm] at this
  have hndm : (ao.take m).Nodup := List.Nodup.sublist (List.take_sublist _ _) I.aoN
  rw [hsplit] at hndm
  have hnd := List.nodup_append.mp hndm
  have hmem : ∀ i ∈ (ao.take m).drop kA, i ∈ ao := fun i hi =>
    List.mem_of_mem_take (List.mem_of_mem_drop hi)
  have hcond : ∀ i ∈ (ao.take m).drop kA,
      i ∈ (List.range s).filter (fun i => !decide (i ∈ yo)) ∧ i ∉ ao.take kA ∧ i < calls.length := by
    intro i hi
    have hnot : i ∉ ao.take kA := fun h => hnd.2.2 i h i hi rfl
    refine ⟨?_, hnot, haoN i (hmem i hi)⟩
    have h1 := I.aoLt i (hmem i hi)
    have h2 := I.kBs
    have h3 : i ∉ yo := fun h => hnot (I.yoSub i h)
    simp [h3]; omega
  have hproc := n2f_procA E calls H _ _ (ao.take kA) w.a hnd.2.1 hcond I.pending
  have hfeed : feed (procOf E.cA.excl E.parse) w.a.buf (List.take n w.ba) =
      feed E.proc w.a.buf (List.take n w.ba) := rfl
  refine ⟨(ao.take m).drop kA, ?_⟩
  simp only [n2_recv_eq, hfeed, hdn, hproc]

theorem n2f_reach_recvA (H : n2f_Hyp E calls) {w : n2_World} (h : n2f_Reach E calls w) (n : Nat) :
    ∀ e id, Eff.fire e id ∉ (recv E.cA E.parse w.a (w.ba.take n)).2.1 := by
  obtain ⟨s, kB, kA, ao, yo, I⟩ := h
  obtain ⟨l, hl⟩ := n2f_recvA_effects H I n
  intro e id hm
  rw [hl] at hm
  obtain ⟨i, _, hi⟩ := List.mem_map.mp hm
  cases hi

end

theorem ns_absorb_nofire (dumps : J → Bytes) :
    ∀ (effs : List Eff) (s : ns_Side), (∀ e id, Eff.fire e id ∉ effs) → (ns_absorb dumps s effs).fired = s.fired := by
  intro effs
  induction effs with
  | nil => intro s _; rfl
  | cons ef r ih =>
    intro s h
    cases ef with
    | fire e id => exact absurd (List.mem_cons_self ..) (h e id)
    | write p => simp only [ns_absorb]; exact ih _ (fun e id hm => h e id (List.mem_cons_of_mem _ hm))
    | resolve n v er => simp only [ns_absorb]; exact ih _ (fun e id hm => h e id (List.mem_cons_of_mem _ hm))

/-- A's `fired` changes in A's reads only -/
theorem ns_step_afired (E : ns_Env) (w : ns_World) (st : Bool × ns_Op) :
    (∃ n, st = (false, .deliver n)) ∨ (ns_step E w st).a.fired = w.a.fired := by
  obtain ⟨side, op⟩ := st
  cases side with
  | true =>
    right
    obtain ⟨o, ho⟩ := ns_act_peer E.base.cB E.base.parse E.base.dumps E.base.beh w.b w.a op
    simp only [ns_step]; rw [ho]
  | false =>
    cases op with
    | deliver n => left; exact ⟨n, rfl⟩
    | send => right; simp only [ns_step, ns_act]; split <;> rfl
    | answer n =>
      right; simp only [ns_step, ns_act]
      split
      · rfl
      · split <;> rfl
    | poll n =>
      right; simp only [ns_step, ns_act]
      split
      · split <;> rfl
      · rfl

/-- the one-way symmetric run is the two-party run - no hypothesis on what reaches A's application -/
theorem ns_oneway_reach (E : ns_Env) (calls : List Ev) (H : n2f_Hyp E.base calls) (sched : List (Bool × ns_Op)) :
    ∀ w, ns_One w → w.a.fired = [] → n2f_Reach E.base calls (ns_proj2 w) →
      (ns_run E w sched).a.fired = [] ∧
      ns_proj2 (ns_run E w sched) = n2_run E.base (ns_proj2 w) (sched.filterMap ns_toN2) := by
  induction sched with
  | nil => intro w _ hf _; exact ⟨hf, rfl⟩
  | cons st r ih =>
    intro w h hf hr
    simp only [ns_run, List.foldl_cons]
    cases hn : ns_toN2 st with
    | none =>
      rw [ns_step_noop E w st h hf hn]
      simp only [List.filterMap_cons, hn]
      exact ih w h hf hr
    | some s2 =>
      have hp := ns_step_proj E w st s2 hn
      have hr' : n2f_Reach E.base calls (ns_proj2 (ns_step E w st)) := by
        rw [hp]; exact n2f_reach_step H hr s2
      have hf' : (ns_step E w st).a.fired = [] := by
        rcases ns_step_afired E w st with ⟨n, rfl⟩ | heq
        · simp only [ns_step, ns_act]
          rw [ns_absorb_nofire]
          · exact hf
          · exact n2f_reach_recvA (E := E.base) (w := ns_proj2 w) H hr n
        · rw [heq]; exact hf
      simp only [List.filterMap_cons, hn, n2_run, List.foldl_cons]
      rw [← hp]
      exact ih _ (ns_step_one E w st h).1 hf' hr'

/-! ## the two ends are interchangeable -/

def ns_swapW (w : ns_World) : ns_World := { a := w.b, b := w.a, aborted := w.aborted }

/-- the same environment seen from the other end -/
def ns_swapE (E : ns_Env) : ns_Env :=
  { base := { E.base with sendOkA := E.base.sendOkB, recvOkA := E.base.recvOkB, sendOkB := E.base.sendOkA,
                          recvOkB := E.base.recvOkA, beh := E.behA },
    behA := E.base.beh }

def ns_swapS (st : Bool × ns_Op) : Bool × ns_Op := (!st.1, st.2)

theorem ns_step_swap (E : ns_Env) (w : ns_World) (st : Bool × ns_Op) :
    ns_step (ns_swapE E) (ns_swapW w) (ns_swapS st) = ns_swapW (ns_step E w st) := by
  obtain ⟨side, op⟩ := st
  cases side <;> rfl

theorem ns_run_swap (E : ns_Env) (sched : List (Bool × ns_Op)) :
    ∀ w, ns_run (ns_swapE E) (ns_swapW w) (sched.map ns_swapS) = ns_swapW (ns_run E w sched) := by
  induction sched with
  | nil => intro w; rfl
  | cons st r ih =>
    intro w
    simp only [ns_run, List.map_cons, List.foldl_cons]
    rw [ns_step_swap]
    exact ih _

end Node
end CV

import CV.Proofs.HttpResp
import CV.Proofs.HttpHead
/-
C15: the property predicate `checkWire` (the one the driver evaluates on the implementation's
output) holds of every run of the model on one connection.
-/
namespace CV
namespace HttpResp
open CV.HttpSpec

def headOf (rq : Req) (r : Resp) : Head :=
  { v11 := rq.v11, status := r.status, reason := r.reason, hdrs := headers r (prepare rq r) }

def msgOf (rq : Req) (r : Resp) : Msg :=
  { head := headOf rq r, body := expectedBody rq r, willClose := (prepare rq r).close }

def wf (rq : Req) (r : Resp) : Bool :=
  neutral r.hdrs && wfHead r.status r.reason (headers r (prepare rq r))

theorem rfcDecode_delimited (rq : Req) (r : Resp) (rest : Bytes) (eof : Bool)
    (hw : wf rq r = true) (h : untilClose rq r = false) :
    rfcDecode rq.isHead (bytesOf (respond rq r) ++ rest) eof = .ok (msgOf rq r, rest) := by
  simp only [wf, Bool.and_eq_true] at hw
  have hb : bytesOf (respond rq r) ++ rest
      = renderHead rq.v11 r.status r.reason (headers r (prepare rq r)) ++ (bodyBytes rq r ++ rest) := by
    simp [respond, bytesOf, bodyBytes, List.append_assoc]
  unfold rfcDecode
  rw [hb, parseHead_renderHead _ _ _ _ _ hw.2]
  simp only [framingOf_headers r _ hw.1, decodeBody_delimited rq r rest eof h]
  simp [msgOf, headOf, framing, announces_prepare]
  intro a b c
  rw [noBody_eq] at a
  simp [untilClose, a, b, c] at h

theorem rfcDecode_untilClose (rq : Req) (r : Resp) (hw : wf rq r = true) (h : untilClose rq r = true) :
    rfcDecode rq.isHead (bytesOf (respond rq r)) true = .ok (msgOf rq r, []) := by
  simp only [wf, Bool.and_eq_true] at hw
  have hcl := untilClose_closes rq r h
  have hb : bytesOf (respond rq r)
      = renderHead rq.v11 r.status r.reason (headers r (prepare rq r)) ++ bodyBytes rq r := by
    simp [respond, bytesOf, bodyBytes]
  unfold rfcDecode
  rw [hb, parseHead_renderHead _ _ _ _ _ hw.2]
  simp only [framingOf_headers r _ hw.1, decodeBody_untilClose rq r h]
  simp [msgOf, headOf, framing, announces_prepare, hcl]

/-- what the application produced, as the harness states it -/
def expectOf (x : Req × Resp) : Expect :=
  { isHead := x.1.isHead, status := x.2.status, body := x.2.body.parts.flatten, hdrs := x.2.hdrs }

/-- what the harness extracts from the recorded events -/
def wireOf (as : List Act) : Wire :=
  { bytes := bytesOf (as.takeWhile (fun a => a != Act.close)),
    closed := hasClose as,
    afterClose := !((as.dropWhile (fun a => a != Act.close)).drop 1).isEmpty }

theorem hdrPresent_self (hs tl : List (Bytes × Bytes)) : hs.all (hdrPresent (hs ++ tl)) = true := by
  rw [List.all_eq_true]
  intro h hh
  simp only [hdrPresent, List.any_eq_true]
  exact ⟨h, by simp [hh], by simp⟩

/-- the checks `checkFrom` makes on one decoded message succeed for the model's own message -/
theorem step_checks (x : Req × Resp) :
    ((msgOf x.1 x.2).head.status != (expectOf x).status) = false
    ∧ (expectOf x).hdrs.all (hdrPresent (msgOf x.1 x.2).head.hdrs) = true
    ∧ ((msgOf x.1 x.2).body != (if noBody (expectOf x).isHead (expectOf x).status then [] else (expectOf x).body)) = false := by
  refine ⟨by simp [msgOf, headOf, expectOf], ?_, ?_⟩
  · simp only [msgOf, headOf, expectOf, headers_eq]
    exact hdrPresent_self _ _
  · simp only [msgOf, expectOf, expectedBody, noBody_eq]
    simp

/-- all acts of the answered part of a script: writes, then one close iff some response closes -/
def allActs (script : List (Req × Resp)) : List Act := (answered script).flatMap (fun x => respond x.1 x.2)

theorem checkFrom_model : ∀ (script : List (Req × Resp)) (i : Nat),
    (∀ x ∈ script, wf x.1 x.2 = true) →
    checkFrom i (bytesOf (allActs script)) (hasClose (allActs script)) (script.map expectOf) = .ok := by
  intro script
  induction script with
  | nil => intro i _; simp [allActs, answered, bytesOf, hasClose, checkFrom]
  | cons x xs ih =>
    intro i hw
    have hwx : wf x.1 x.2 = true := hw x (by simp)
    have hwxs : ∀ y ∈ xs, wf y.1 y.2 = true := fun y hy => hw y (by simp [hy])
    obtain ⟨c1, c2, _⟩ := step_checks x
    have c3 : expectedBody x.1 x.2
        = if noBody x.1.isHead (expectOf x).status then [] else (expectOf x).body := by
      simp only [expectOf, expectedBody, noBody_eq]
    cases hc : closes x with
    | true =>
      have hcl : (prepare x.1 x.2).close = true := hc
      have hall : allActs (x :: xs) = respond x.1 x.2 := by simp [allActs, answered, hc]
      have hclosed : hasClose (respond x.1 x.2) = true := by rw [hasClose_respond]; exact hcl
      have hdec : rfcDecode x.1.isHead (bytesOf (respond x.1 x.2)) true = .ok (msgOf x.1 x.2, []) := by
        cases hu : untilClose x.1 x.2 with
        | true => exact rfcDecode_untilClose x.1 x.2 hwx hu
        | false =>
          have := rfcDecode_delimited x.1 x.2 [] true hwx hu
          simpa using this
      rw [hall, hclosed]
      simp only [List.map_cons, checkFrom]
      have he : (expectOf x).isHead = x.1.isHead := rfl
      rw [he, hdec]
      simp only [c1, c2]
      simp [msgOf, hcl]
      exact c3
    | false =>
      have hcl : (prepare x.1 x.2).close = false := hc
      have hu : untilClose x.1 x.2 = false := by
        cases hu : untilClose x.1 x.2 with
        | false => rfl
        | true => rw [untilClose_closes x.1 x.2 hu] at hcl; exact absurd hcl (by simp)
      have hall : allActs (x :: xs) = respond x.1 x.2 ++ allActs xs := by
        simp [allActs, answered, hc]
      have hclosed : hasClose (allActs (x :: xs)) = hasClose (allActs xs) := by
        rw [hall, hasClose_append, hasClose_respond, hcl]; simp
      rw [hclosed, hall, bytesOf_append]
      simp only [List.map_cons, checkFrom]
      have he : (expectOf x).isHead = x.1.isHead := rfl
      rw [he, rfcDecode_delimited x.1 x.2 _ _ hwx hu]
      simp only [c1, c2]
      simp only [msgOf, hcl]
      simp only [bne_iff_ne, ne_eq, c3, not_true_eq_false, if_false, Bool.false_eq_true]
      simpa using ih (i + 1) hwxs

/-! ### what the harness extracts from the event list -/

def closeTail (b : Bool) : List Act := if b then [Act.close] else []

theorem finish_shape (p : Prep) (t : Bool) : ∃ ws, (∀ a ∈ ws, a ≠ Act.close) ∧ finish p t = ws ++ closeTail p.close := by
  refine ⟨if t && p.chunked then [Act.write sTerminator] else [], ?_, rfl⟩
  intro a ha
  split at ha
  · simp at ha; subst ha; simp
  · simp at ha

theorem respond_shape (x : Req × Resp) :
    ∃ ws, (∀ a ∈ ws, a ≠ Act.close) ∧ respond x.1 x.2 = ws ++ closeTail (closes x) := by
  unfold respond closes
  cases hn : (x.1.isHead || bodylessStatus x.2.status) with
  | true =>
    obtain ⟨ws, h1, h2⟩ := finish_shape (prepare x.1 x.2) false
    refine ⟨Act.write (renderHead x.1.v11 x.2.status x.2.reason (headers x.2 (prepare x.1 x.2))) :: ws, ?_, ?_⟩
    · intro a ha
      simp only [List.mem_cons] at ha
      rcases ha with ha | ha
      · subst ha; simp
      · exact h1 a ha
    · simp [bodyActs_nobody x.1 x.2 _ hn, h2]
  | false =>
    obtain ⟨ws, h1, h2⟩ := finish_shape (prepare x.1 x.2) true
    refine ⟨Act.write (renderHead x.1.v11 x.2.status x.2.reason (headers x.2 (prepare x.1 x.2))) :: ((pieces x.2.body).map (fun d => Act.write (frame (prepare x.1 x.2).chunked d)) ++ ws), ?_, ?_⟩
    · intro a ha
      simp only [List.mem_cons, List.mem_append, List.mem_map] at ha
      rcases ha with ha | ⟨d, _, ha⟩ | ha
      · subst ha; simp
      · subst ha; simp
      · exact h1 a ha
    · simp [bodyActs_body x.1 x.2 _ hn, h2, List.append_assoc]

theorem allActs_shape : ∀ script : List (Req × Resp),
    ∃ ws, (∀ a ∈ ws, a ≠ Act.close) ∧ allActs script = ws ++ closeTail (hasClose (allActs script)) := by
  intro script
  induction script with
  | nil => exact ⟨[], by simp, by simp [allActs, answered, hasClose, closeTail]⟩
  | cons x xs ih =>
    obtain ⟨wx, hx1, hx2⟩ := respond_shape x
    cases hc : closes x with
    | true =>
      have hall : allActs (x :: xs) = respond x.1 x.2 := by simp [allActs, answered, hc]
      have hcl : hasClose (respond x.1 x.2) = true := by rw [hasClose_respond]; exact hc
      exact ⟨wx, hx1, by rw [hall, hcl, hx2, hc]⟩
    | false =>
      obtain ⟨ws, h1, h2⟩ := ih
      have hall : allActs (x :: xs) = respond x.1 x.2 ++ allActs xs := by simp [allActs, answered, hc]
      have hclosed : hasClose (allActs (x :: xs)) = hasClose (allActs xs) := by
        rw [hall, hasClose_append, hasClose_respond]
        have : (prepare x.1 x.2).close = false := hc
        simp [this]
      refine ⟨wx ++ ws, ?_, ?_⟩
      · intro a ha
        rcases List.mem_append.mp ha with ha | ha
        · exact hx1 a ha
        · exact h1 a ha
      · rw [hclosed, hall, hx2, hc]
        simp only [closeTail, Bool.false_eq_true, if_false, List.append_nil, List.append_assoc]
        exact congrArg (wx ++ ·) h2

theorem wireOf_shape (ws : List Act) (b : Bool) (h : ∀ a ∈ ws, a ≠ Act.close) :
    (wireOf (ws ++ closeTail b)).bytes = bytesOf (ws ++ closeTail b)
    ∧ (wireOf (ws ++ closeTail b)).afterClose = false := by
  have hp : ∀ a ∈ ws, (fun a => a != Act.close) a = true := by
    intro a ha; simpa using h a ha
  cases b with
  | false =>
    simp only [closeTail, Bool.false_eq_true, if_false, List.append_nil, wireOf]
    rw [takeWhile_all _ _ hp, dropWhile_all _ _ hp]
    simp
  | true =>
    simp only [closeTail, if_true, wireOf]
    rw [takeWhile_append_stop _ ws Act.close [] hp (by simp),
        dropWhile_append_stop _ ws Act.close [] hp (by simp), bytesOf_append]
    simp [bytesOf]

/-- **The property predicate holds of every model run**: for every script of requests on a fresh
connection (well-formed heads), the RFC reader applied to what the model writes recovers every
answered response exactly, finds no stray byte, and the close event occurs iff announced. -/
theorem checkWire_run (script : List (Req × Resp)) (hw : ∀ x ∈ script, wf x.1 x.2 = true) :
    checkWire (wireOf (run Conn.fresh script)) (script.map expectOf) = .ok := by
  rw [run_clean script Conn.fresh rfl rfl]
  show checkWire (wireOf (allActs script)) _ = _
  obtain ⟨ws, h1, h2⟩ := allActs_shape script
  have hs := wireOf_shape ws (hasClose (allActs script)) h1
  rw [← h2] at hs
  unfold checkWire
  rw [hs.2]
  simp only [Bool.false_eq_true, if_false]
  rw [hs.1]
  exact checkFrom_model script 0 hw

end HttpResp
end CV

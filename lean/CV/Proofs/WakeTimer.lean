import CV.Proofs.Wake
/-
Helper lemmas about the Timer handler's part of the wake-up protocol (`hsetWnoResume`, `lAcq` at `tAcq`,
`tlwOther`, `lRel` at `tChk`/`tRel` of CV.Model.Wake) and the mutated protocol of seed C03-d
(`reduce_time_left` testing the time left outside the lock) for CV/Props/C03.lean.
-/
namespace CV
namespace Wake

/-- the loop thread is inside a Timer's `generate_events` handler (handler slot written, before the
    next handler's `event.handler = ...`) -/
def LPc.inTimer : LPc → Bool
  | .tAcq | .tChk | .tRel => true
  | _ => false

def Lab.isAppGe : Lab → Bool
  | .lAppGe _ _ => true
  | _ => false

def Lab.isPop : Lab → Bool
  | .pop _ _ => true
  | _ => false

theorem lowerTgt_tl_zero (s : St) (f : Firer) (h : s.tl = .zero) : (s.lowerTgt f).tl = .zero := by
  unfold St.lowerTgt; split <;> simp [h]

/-- no effect of either thread other than the creation of the next generate_events changes a time left of 0 -/
theorem step_zero_stays {s s' : St} {l : Lab} (hs : step s l = some s') (hl : l.isAppGe = false)
    (hz : s.tl = .zero) : s'.tl = .zero := by
  unfold step at hs
  cases l <;> simp only [Lab.isFirer, if_true, if_false, Bool.false_eq_true, stepLoop, stepFirer] at hs <;>
  (repeat' (split at hs)) <;>
  first
  | (cases hs; done)
  | (cases hl; done)
  | (injection hs with hs; subst hs
     first
     | exact hz
     | rfl
     | (simp only [lowerTgt_tl_zero _ _ hz]; done)
     | (exfalso; simp_all; done)
     | (simp_all; done))

theorem run_zero_stays {s s' : St} {ls : List Lab} (hr : run s ls = some s')
    (hl : ∀ l ∈ ls, l.isAppGe = false) (hz : s.tl = .zero) : s'.tl = .zero := by
  induction ls generalizing s with
  | nil => simp [run] at hr; subst hr; exact hz
  | cons l ls ih =>
    simp only [run] at hr
    split at hr
    · rename_i s1 hs1
      exact ih hr (fun l' hl' => hl l' (List.mem_cons_of_mem _ hl'))
        (step_zero_stays hs1 (hl l (List.mem_cons_self ..)) hz)
    · cases hr

/-- the wake signal is not consumed while the loop thread is inside the Timer handler -/
theorem step_timer_sig {s s' : St} {l : Lab} (hs : step s l = some s') (hp : s.lpc.inTimer = true) :
    s.sig ≤ s'.sig := by
  unfold step at hs
  cases l <;> simp only [Lab.isFirer, if_true, if_false, Bool.false_eq_true, stepLoop, stepFirer] at hs <;>
  (repeat' (split at hs)) <;>
  first
  | (cases hs; done)
  | (injection hs with hs; subst hs
     first
     | exact Nat.le_refl _
     | exact Nat.le_succ _
     | (simp only [St.lowerTgt]; split <;> exact Nat.le_refl _)
     | (simp_all [LPc.inTimer]; done))

/-- a step of the loop thread leaves "no firer inside its critical section" alone -/
theorem loop_step_cs {s s' : St} {l : Lab} (hs : stepLoop s l = some s') (hc : s.cs = none) :
    s'.cs = none := by
  cases l <;> simp only [stepLoop] at hs <;>
  (repeat' (split at hs)) <;>
  first
  | (cases hs; done)
  | (injection hs with hs; subst hs
     first
     | exact hc
     | simp [hc])

/-- only dispatching (`pop`) takes entries out of the queue -/
theorem loop_step_pending {s s' : St} {l : Lab} (hs : stepLoop s l = some s') (hl : l.isPop = false)
    (hq : s.q.pending ≠ []) : s'.q.pending ≠ [] := by
  cases l <;> simp only [stepLoop] at hs <;>
  (repeat' (split at hs)) <;>
  first
  | (cases hs; done)
  | (cases hl; done)
  | (injection hs with hs; subst hs
     first
     | exact hq
     | (rw [pending_qIncr]; exact hq)
     | exact pending_qApp ‹_›
     | (simp only [pending_qSnap ‹_›]; exact hq))

/-! ### the mutated protocol of seed C03-d

    # most calls do not reduce anything: only take the lock if there is work
    if time_left >= 0 and (self._time_left < 0 or self._time_left > time_left):     <- the test, outside
        with self._lock:
            self._time_left = time_left                                              <- unconditional

`will` records the outcome of the unlocked test (evaluated right after the handler slot was written);
the write under the lock happens iff `will`, whatever the time left is by then.  Everything else is
`CV.Wake.step`.  (When the test is false the mutant does not take the lock at all; the machine keeps the
`lAcq`/`lRel` pair there, which no other thread can tell from not taking it - the witness below does not
use that path.) -/

structure MSt where
  s : St
  will : Bool

def stepD (m : MSt) (l : Lab) : Option MSt :=
  match l with
  | .hsetWnoResume => (step m.s l).map (fun s' => ⟨s', decide (m.s.tl ≠ .zero)⟩)
  | .tlwOther =>
    if m.s.lpc = .tChk ∧ m.will = true then some ⟨{ m.s with tl := .pos, lpc := .tRel }, false⟩ else none
  | .lRel =>
    if m.s.lpc = .tChk then
      (if m.will = false ∧ m.s.lockL = true then some ⟨{ m.s with lockL := false, lpc := .setH }, false⟩ else none)
    else (step m.s l).map (fun s' => ⟨s', m.will⟩)
  | _ => (step m.s l).map (fun s' => ⟨s', m.will⟩)

def runD (m : MSt) : List Lab → Option MSt
  | [] => some m
  | l :: ls => match stepD m l with
    | some m' => runD m' ls
    | none => none

/-- first tick of the fallback variant with a Timer registered; the loop thread has written the handler slot
    and evaluated the test (time left < 0: "there is work") -/
def mutPrefix : List Lab :=
  [.lIncr, .lAppGe 1 .neg, .snap 2, .pop 0 0, .hwOther, .hwNone, .pop 0 1, .lAcq, .hwGe, .lRel, .hsetWnoResume]

/-- a foreign `fire()` runs completely: it lowers the time left to 0 and finds no `resume` to call -/
def mutFire : List Lab :=
  [.fAcq 1, .fHr 1 .ge, .fIncr 1, .fApp 1 0, .fTlwZero 1, .fHsetR 1 false, .fRel 1]

/-- the Timer handler continues (write under the lock), then the fallback waiter up to its `wait(T)` -/
def mutRest : List Lab :=
  [.lAcq, .tlwOther, .lRel, .hsetW, .lAcq, .tlr .pos, .clr, .lRel, .tlr .pos, .tlr .pos]

end Wake
end CV

import CV.Model.Line
import CV.Model.LineSpec
/-
Helper lemmas for C18 (line protocol).  Core Lean only.
-/
namespace CV
namespace Line

/-! ### `scan` -/

/-- scanning `a ++ b` = scanning `a`, then continuing on `b` with the piece left open by `a` -/
theorem scan_append (cur a b : Bytes) :
    scan cur (a ++ b) = ((scan cur a).1 ++ (scan (scan cur a).2 b).1, (scan (scan cur a).2 b).2) := by
  induction a generalizing cur with
  | nil => simp [scan]
  | cons c a ih =>
    by_cases h : c = LF
    · simp [scan, h, ih]
    · simp [scan, h, ih]

/-- no LF: nothing is emitted, everything is kept -/
theorem scan_noLF (cur a : Bytes) (h : LF ∉ a) : scan cur a = ([], cur ++ a) := by
  induction a generalizing cur with
  | nil => simp [scan]
  | cons c a ih =>
    have hc : c ≠ LF := fun e => h (by simp [e])
    have ha : LF ∉ a := fun e => h (by simp [e])
    simp [scan, hc, ih _ ha]

/-- a carried piece without LF may as well be part of the input -/
theorem scan_nil_append (buf x : Bytes) (h : LF ∉ buf) : scan [] (buf ++ x) = scan buf x := by
  rw [scan_append, scan_noLF [] buf h]; simp

theorem scan_cons_LF (cur rest : Bytes) :
    scan cur (LF :: rest) = (chomp cur :: (scan [] rest).1, (scan [] rest).2) := by
  simp [scan]

/-- the piece left open never contains LF -/
theorem scan_tail_noLF (cur x : Bytes) (h : LF ∉ cur) : LF ∉ (scan cur x).2 := by
  induction x generalizing cur with
  | nil => simpa [scan] using h
  | cons c x ih =>
    by_cases hc : c = LF
    · simp only [scan, hc, if_true]
      exact ih [] (by simp)
    · simp only [scan, hc, if_false]
      apply ih
      intro hm
      rcases List.mem_append.1 hm with hm | hm
      · exact h hm
      · simp at hm; exact hc hm.symm

/-! ### `chomp` -/

theorem chomp_append_CR (l : Bytes) : chomp (l ++ [CR]) = (l, true) := by
  simp [chomp]

theorem chomp_noCR (l : Bytes) (h : l.getLast? ≠ some CR) : chomp l = (l, false) := by
  simp [chomp, h]

theorem eq_dropLast_append_of_getLast? {α} (l : List α) (a : α) (h : l.getLast? = some a) :
    l = l.dropLast ++ [a] := by
  have hne : l ≠ [] := by intro e; simp [e] at h
  have h2 := List.getLast?_eq_some_getLast hne
  rw [h2] at h
  have := List.dropLast_concat_getLast hne
  simp at h
  rw [h] at this
  exact this.symm

/-- a chomped piece plus its terminator is the piece plus LF -/
theorem chomp_term (c : Bytes) : (chomp c).1 ++ term (chomp c).2 = c ++ [LF] := by
  unfold chomp
  by_cases h : c.getLast? = some CR
  · simp only [h, if_true, term]
    have : c = c.dropLast ++ [CR] := eq_dropLast_append_of_getLast? c CR h
    conv => rhs; rw [this]
    simp
  · simp [h, term]

theorem mem_dropLast_of {α} {a : α} {l : List α} (h : a ∈ l.dropLast) : a ∈ l :=
  List.dropLast_subset l h

theorem lineOk_chomp (c : Bytes) (h : LF ∉ c) : lineOk (chomp c) = true := by
  unfold chomp
  by_cases hc : c.getLast? = some CR
  · simp only [hc, if_true, lineOk]
    have : LF ∉ c.dropLast := fun e => h (mem_dropLast_of e)
    simp [this]
  · simp only [hc, if_false, lineOk]
    simp [h, hc]

/-! ### `rebuild` / `isReading` -/

theorem rebuild_nil (t : Bytes) : rebuild [] t = t := by simp [rebuild]

theorem rebuild_cons (l : Bytes × Bool) (ls : List (Bytes × Bool)) (t : Bytes) :
    rebuild (l :: ls) t = l.1 ++ term l.2 ++ rebuild ls t := by
  simp [rebuild]

theorem isReading_iff (x : Bytes) (ls : List (Bytes × Bool)) (t : Bytes) :
    isReading x ls t = true ↔ rebuild ls t = x ∧ (∀ l ∈ ls, lineOk l = true) ∧ LF ∉ t := by
  simp [isReading, and_assoc]

theorem lineOk_iff (l : Bytes × Bool) :
    lineOk l = true ↔ LF ∉ l.1 ∧ (l.2 = true ∨ l.1.getLast? ≠ some CR) := by
  simp [lineOk]

/-- the general form of `lines_exact`, for a scan that starts inside a piece -/
theorem scan_isReading (cur x : Bytes) (h : LF ∉ cur) :
    rebuild (scan cur x).1 (scan cur x).2 = cur ++ x ∧
    (∀ l ∈ (scan cur x).1, lineOk l = true) ∧ LF ∉ (scan cur x).2 := by
  refine ⟨?_, ?_, scan_tail_noLF cur x h⟩
  · induction x generalizing cur with
    | nil => simp [scan, rebuild]
    | cons c x ih =>
      by_cases hc : c = LF
      · subst hc
        rw [scan_cons_LF]
        simp only [rebuild_cons]
        rw [chomp_term, ih [] (by simp)]
        simp
      · have h' : LF ∉ cur ++ [c] := by
          intro hm
          rcases List.mem_append.1 hm with hm | hm
          · exact h hm
          · simp at hm; exact hc hm.symm
        simp only [scan, hc, if_false]
        rw [ih _ h']; simp
  · induction x generalizing cur with
    | nil => simp [scan]
    | cons c x ih =>
      by_cases hc : c = LF
      · subst hc
        rw [scan_cons_LF]
        intro l hl
        rcases List.mem_cons.1 hl with rfl | hl
        · exact lineOk_chomp cur h
        · exact ih [] (by simp) l hl
      · have h' : LF ∉ cur ++ [c] := by
          intro hm
          rcases List.mem_append.1 hm with hm | hm
          · exact h hm
          · simp at hm; exact hc hm.symm
        simp only [scan, hc, if_false]
        exact ih _ h'

/-- scanning one legal line followed by anything -/
theorem scan_line (l : Bytes × Bool) (rest : Bytes) (h : lineOk l = true) :
    scan [] (l.1 ++ term l.2 ++ rest) = (l :: (scan [] rest).1, (scan [] rest).2) := by
  obtain ⟨l1, tag⟩ := l
  rw [lineOk_iff] at h
  obtain ⟨hlf, hcr⟩ := h
  simp only at hlf hcr
  rw [List.append_assoc, scan_nil_append _ _ hlf]
  cases tag with
  | true =>
    have : CR ≠ LF := by decide
    simp only [term, if_true, List.cons_append, List.nil_append]
    rw [scan]
    simp only [this, if_false]
    rw [scan_cons_LF, chomp_append_CR]
  | false =>
    have hcr' : l1.getLast? ≠ some CR := by simpa using hcr
    simp only [term, Bool.false_eq_true, if_false, List.cons_append, List.nil_append]
    rw [scan_cons_LF, chomp_noCR _ hcr']

/-- the spec determines the reading -/
theorem reading_unique_aux (ls : List (Bytes × Bool)) (t x : Bytes)
    (hx : rebuild ls t = x) (hok : ∀ l ∈ ls, lineOk l = true) (ht : LF ∉ t) :
    scan [] x = (ls, t) := by
  induction ls generalizing x with
  | nil =>
    rw [rebuild_nil] at hx; subst hx
    rw [scan_noLF _ _ ht]; simp
  | cons l ls ih =>
    rw [rebuild_cons] at hx; subst hx
    rw [scan_line l _ (hok l (by simp))]
    rw [ih _ rfl (fun l' hl' => hok l' (by simp [hl']))]

/-! ### prefixes -/

theorem isPrefixOf_append_cons (l : Bytes) (a b : UInt8) (p q : Bytes) :
    (l ++ a :: p).isPrefixOf (l ++ b :: q) = (a == b && p.isPrefixOf q) := by
  induction l with
  | nil => simp [List.isPrefixOf]
  | cons c l ih => simp [ih]

theorem eq_append_drop_of_isPrefixOf (p x : Bytes) (h : p.isPrefixOf x = true) :
    x = p ++ x.drop p.length := by
  rw [List.isPrefixOf_iff_prefix] at h
  obtain ⟨t, rfl⟩ := h
  simp

/-! ### `untaggedOk` -/

theorem untaggedOk_sound (x : Bytes) (ls : List Bytes) (t : Bytes) (h : untaggedOk x ls t = true) :
    ∃ tl : List (Bytes × Bool), tl.map (·.1) = ls ∧ isReading x tl t = true := by
  induction ls generalizing x with
  | nil =>
    simp [untaggedOk] at h
    exact ⟨[], rfl, by rw [isReading_iff]; simp [rebuild, h.1, h.2]⟩
  | cons l ls ih =>
    simp only [untaggedOk, Bool.and_eq_true, Bool.not_eq_true'] at h
    obtain ⟨hl, h⟩ := h
    have hl' : LF ∉ l := by simpa using hl
    by_cases h1 : (l ++ [CR, LF]).isPrefixOf x = true
    · simp only [h1, if_true] at h
      obtain ⟨tl, hm, hr⟩ := ih _ h
      refine ⟨(l, true) :: tl, by simp [hm], ?_⟩
      rw [isReading_iff] at hr ⊢
      obtain ⟨hr1, hr2, hr3⟩ := hr
      refine ⟨?_, ?_, hr3⟩
      · rw [rebuild_cons, hr1]
        have := eq_append_drop_of_isPrefixOf _ _ h1
        simp only [term, if_true]
        simpa using this.symm
      · intro l' hl''
        rcases List.mem_cons.1 hl'' with rfl | hl''
        · rw [lineOk_iff]; exact ⟨hl', Or.inl rfl⟩
        · exact hr2 _ hl''
    · simp only [h1, Bool.false_eq_true, if_false] at h
      by_cases h2 : (l ++ [LF]).isPrefixOf x = true
      · simp only [h2, if_true, Bool.and_eq_true] at h
        obtain ⟨hcr, h⟩ := h
        obtain ⟨tl, hm, hr⟩ := ih _ h
        refine ⟨(l, false) :: tl, by simp [hm], ?_⟩
        rw [isReading_iff] at hr ⊢
        obtain ⟨hr1, hr2, hr3⟩ := hr
        refine ⟨?_, ?_, hr3⟩
        · rw [rebuild_cons, hr1]
          have := eq_append_drop_of_isPrefixOf _ _ h2
          simp only [term, Bool.false_eq_true, if_false]
          simpa using this.symm
        · intro l' hl''
          rcases List.mem_cons.1 hl'' with rfl | hl''
          · rw [lineOk_iff]; exact ⟨hl', Or.inr (by simpa using hcr)⟩
          · exact hr2 _ hl''
      · simp [h2] at h

theorem untaggedOk_complete (x : Bytes) (tl : List (Bytes × Bool)) (t : Bytes)
    (h : isReading x tl t = true) : untaggedOk x (tl.map (·.1)) t = true := by
  rw [isReading_iff] at h
  obtain ⟨hx, hok, ht⟩ := h
  induction tl generalizing x with
  | nil =>
    rw [rebuild_nil] at hx; subst hx
    simp [untaggedOk, ht]
  | cons l tl ih =>
    rw [rebuild_cons] at hx; subst hx
    have hl := hok l (by simp)
    rw [lineOk_iff] at hl
    obtain ⟨l1, tag⟩ := l
    obtain ⟨hlf, hcr⟩ := hl
    simp only at hlf hcr
    have ih' := fun x hx => ih x hx (fun l' hl' => hok l' (by simp [hl']))
    cases tag with
    | true =>
      simp only [List.map_cons, untaggedOk, term, if_true]
      have hp : (l1 ++ [CR, LF]).isPrefixOf (l1 ++ [CR, LF] ++ rebuild tl t) = true := by
        rw [List.isPrefixOf_iff_prefix]; exact List.prefix_append _ _
      have hd : (l1 ++ [CR, LF] ++ rebuild tl t).drop (l1.length + 2) = rebuild tl t := by
        have : l1.length + 2 = (l1 ++ [CR, LF]).length := by simp
        rw [this, List.drop_left]
      simp only [hp, if_true, hd]
      simp [hlf, ih' _ rfl]
    | false =>
      have hcr' : l1.getLast? ≠ some CR := by simpa using hcr
      simp only [List.map_cons, untaggedOk, term, Bool.false_eq_true, if_false]
      have hnp : (l1 ++ [CR, LF]).isPrefixOf (l1 ++ [LF] ++ rebuild tl t) = false := by
        have : l1 ++ [LF] ++ rebuild tl t = l1 ++ LF :: rebuild tl t := by simp
        rw [this, isPrefixOf_append_cons]
        have : (CR == LF) = false := by decide
        simp [this]
      have hp : (l1 ++ [LF]).isPrefixOf (l1 ++ [LF] ++ rebuild tl t) = true := by
        rw [List.isPrefixOf_iff_prefix]; exact List.prefix_append _ _
      have hd : (l1 ++ [LF] ++ rebuild tl t).drop (l1.length + 1) = rebuild tl t := by
        have : l1.length + 1 = (l1 ++ [LF]).length := by simp
        rw [this, List.drop_left]
      simp only [hnp, Bool.false_eq_true, if_false, hp, if_true, hd]
      simp [hlf, hcr', ih' _ rfl]

/-! ### `feed` / `feedAll` -/

theorem feed_eq (buf d : Bytes) :
    feed buf d = ((scan [] (buf ++ d)).2, (scan [] (buf ++ d)).1.map (·.1)) := by
  simp [feed, splitLines, splitT]

theorem feed_eq_scan (buf d : Bytes) (h : LF ∉ buf) :
    feed buf d = ((scan buf d).2, (scan buf d).1.map (·.1)) := by
  rw [feed_eq, scan_nil_append _ _ h]

theorem feed_buf_noLF (buf d : Bytes) : LF ∉ (feed buf d).1 := by
  rw [feed_eq]; exact scan_tail_noLF _ _ (by simp)

theorem feed_nil (buf : Bytes) (h : LF ∉ buf) : feed buf [] = (buf, []) := by
  rw [feed_eq_scan _ _ h]; simp [scan]

theorem feed_append (buf a b : Bytes) :
    feed buf (a ++ b) =
      ((feed (feed buf a).1 b).1, (feed buf a).2 ++ (feed (feed buf a).1 b).2) := by
  have h1 := feed_buf_noLF buf a
  rw [feed_eq_scan (feed buf a).1 b h1]
  rw [feed_eq, feed_eq, ← List.append_assoc, scan_append]
  simp

theorem feedAll_nil (buf : Bytes) : feedAll buf [] = (buf, []) := rfl

theorem feedAll_cons (buf d : Bytes) (ds : List Bytes) :
    feedAll buf (d :: ds) =
      ((feedAll (feed buf d).1 ds).1, (feed buf d).2 ++ (feedAll (feed buf d).1 ds).2) := by
  simp [feedAll]

theorem feedAll_eq_feed_flatten (buf : Bytes) (segs : List Bytes) (h : LF ∉ buf) :
    feedAll buf segs = feed buf segs.flatten := by
  induction segs generalizing buf with
  | nil => simp [feedAll_nil, feed_nil _ h]
  | cons d ds ih =>
    rw [feedAll_cons, List.flatten_cons, feed_append, ih _ (feed_buf_noLF buf d)]

theorem feedAll_buf_noLF (buf : Bytes) (segs : List Bytes) (h : LF ∉ buf) :
    LF ∉ (feedAll buf segs).1 := by
  induction segs generalizing buf with
  | nil => simpa [feedAll_nil] using h
  | cons d ds ih =>
    rw [feedAll_cons]; exact ih _ (feed_buf_noLF buf d)

/-! ### server mode -/

theorem lookup_filter_ne (bufs : Bufs) (s s' : Nat) (h : s' ≠ s) :
    (bufs.filter (fun x => !decide (x.1 = s))).lookup s' = bufs.lookup s' := by
  induction bufs with
  | nil => rfl
  | cons p bufs ih =>
    obtain ⟨k, v⟩ := p
    by_cases hk : k = s
    · subst hk
      have : (s' == k) = false := by simpa using h
      simp [List.filter, List.lookup, this, ih]
    · by_cases hk' : s' = k
      · subst hk'
        simp [List.filter, hk, List.lookup]
      · have : (s' == k) = false := by simpa using hk'
        simp [List.filter, hk, List.lookup, this, ih]

theorem getBuf_setBuf_same (bufs : Bufs) (s : Nat) (b : Bytes) : getBuf (setBuf bufs s b) s = b := by
  simp [getBuf, setBuf]

theorem getBuf_setBuf_ne (bufs : Bufs) (s s' : Nat) (b : Bytes) (h : s' ≠ s) :
    getBuf (setBuf bufs s b) s' = getBuf bufs s' := by
  have : (s' == s) = false := by simpa using h
  simp [getBuf, setBuf, List.lookup, this, lookup_filter_ne _ _ _ h]

theorem serverFeed_eq (bufs : Bufs) (s : Nat) (d : Bytes) :
    serverFeed bufs s d =
      (setBuf bufs s (feed (getBuf bufs s) d).1, (feed (getBuf bufs s) d).2.map (fun l => (s, l))) := by
  simp [serverFeed, feed]

theorem serverFeedAll_cons (bufs : Bufs) (s : Nat) (d : Bytes) (ds : List (Nat × Bytes)) :
    serverFeedAll bufs ((s, d) :: ds) =
      ((serverFeedAll (serverFeed bufs s d).1 ds).1,
       (serverFeed bufs s d).2 ++ (serverFeedAll (serverFeed bufs s d).1 ds).2) := by
  simp [serverFeedAll]

/-- the reads addressed to `s`, in order -/
def readsFor (s : Nat) (reads : List (Nat × Bytes)) : List Bytes :=
  (reads.filter (fun r => r.1 == s)).map (·.2)

/-- the lines emitted for `s`, in order -/
def linesFor (s : Nat) (out : List (Nat × Bytes)) : List Bytes :=
  (out.filter (fun r => r.1 == s)).map (·.2)

theorem linesFor_tag_same (s : Nat) (ls : List Bytes) :
    linesFor s (ls.map (fun l => (s, l))) = ls := by
  induction ls with
  | nil => rfl
  | cons l ls ih =>
    simp only [linesFor] at ih
    simp [linesFor, ih]

theorem linesFor_tag_ne (s s' : Nat) (ls : List Bytes) (h : s' ≠ s) :
    linesFor s (ls.map (fun l => (s', l))) = [] := by
  have : (s' == s) = false := by simpa using h
  induction ls with
  | nil => rfl
  | cons l ls ih =>
    simp only [linesFor] at ih
    simp [linesFor, this, ih]

theorem linesFor_append (s : Nat) (a b : List (Nat × Bytes)) :
    linesFor s (a ++ b) = linesFor s a ++ linesFor s b := by
  simp [linesFor]

theorem server_isolation_aux (bufs : Bufs) (reads : List (Nat × Bytes)) (s : Nat) :
    linesFor s (serverFeedAll bufs reads).2 = (feedAll (getBuf bufs s) (readsFor s reads)).2 ∧
    getBuf (serverFeedAll bufs reads).1 s = (feedAll (getBuf bufs s) (readsFor s reads)).1 := by
  induction reads generalizing bufs with
  | nil => simp [serverFeedAll, readsFor, linesFor, feedAll]
  | cons r reads ih =>
    obtain ⟨k, d⟩ := r
    rw [serverFeedAll_cons, serverFeed_eq]
    simp only [linesFor_append]
    by_cases hk : k = s
    · subst hk
      have hr : readsFor k ((k, d) :: reads) = d :: readsFor k reads := by
        simp [readsFor, List.filter]
      rw [hr, feedAll_cons, linesFor_tag_same]
      obtain ⟨ih1, ih2⟩ := ih (setBuf bufs k (feed (getBuf bufs k) d).1)
      rw [getBuf_setBuf_same] at ih1 ih2
      exact ⟨by rw [ih1], ih2⟩
    · have hks : (k == s) = false := by simpa using hk
      have hr : readsFor s ((k, d) :: reads) = readsFor s reads := by
        simp [readsFor, List.filter, hks]
      rw [hr, linesFor_tag_ne _ _ _ hk]
      obtain ⟨ih1, ih2⟩ := ih (setBuf bufs k (feed (getBuf bufs k) d).1)
      rw [getBuf_setBuf_ne _ _ _ _ (Ne.symm hk)] at ih1 ih2
      exact ⟨by simpa using ih1, ih2⟩

end Line
end CV

import CV.Model.HttpRespPath
import CV.Proofs.HttpSeq
/-
C15, handler-return paths: helper lemmas about `step` / `trace` (finite case analyses) and the
bridge from `pathActs` to `respond`.
-/
namespace CV
namespace HttpResp

/-- for every handler shape that exists, the decision code fires exactly the expected answer -/
theorem fired_trace (p : Path) (k : Kind) (s : Stage) (evs : List HttpEv) (h : trace p k s = some evs) :
    fired evs = [expected p s] := by
  cases p <;> cases k <;> cases s <;> simp [trace] at h <;> subst h <;>
    simp [fired, runEvents, step, once, expected, excFired, seenOf]

theorem pathActs_of_fired (rq : Req) (env : ErrEnv) (app : App) (b : Body) (evs : List HttpEv) (f : Fired)
    (h : fired evs = [f]) : pathActs rq env app b evs = respond rq (answer env app b f) := by
  simp [pathActs, h]

/-- once the request is marked handled, only direct results are answered -/
theorem runEvents_handled (evs : List HttpEv) (hn : HttpEv.success .none ∉ evs) :
    ∀ f ∈ runEvents true evs, f = Fired.respond := by
  induction evs with
  | nil => simp [runEvents]
  | cons e es ih =>
    have hne : e ≠ HttpEv.success .none := fun h => hn (by simp [h])
    have hes : HttpEv.success .none ∉ es := fun h => hn (by simp [h])
    have key : (step true e).1 = true ∧ ∀ f ∈ (step true e).2, f = Fired.respond := by
      cases e with
      | success s => cases s <;> simp_all [step, once]
      | changed c => cases c <;> simp [step]
      | failure e => simp [step, once]
      | exception o => cases o <;> simp [step, once]
    intro f hf
    simp only [runEvents] at hf
    rw [List.mem_append] at hf
    rcases hf with hf | hf
    · exact key.2 f hf
    · rw [key.1] at hf; exact ih hes f hf

/-- `httperror.__init__` sets `response.close = True`: such a response closes the connection -/
theorem prepare_close_of_force (rq : Req) (r : Resp) (h : r.forceClose = true) :
    (prepare rq r).close = true := by
  unfold prepare
  simp only [h, Bool.or_true]
  split
  · rfl
  · split
    · rfl
    · split
      · rfl
      · split <;> rfl

theorem answer_exc_force (env : ErrEnv) (app : App) (b : Body) (e : Exc) :
    (answer env app b (excFired e)).forceClose = true := by
  cases e <;> rfl

theorem excFired_ne_respond (e : Exc) : excFired e ≠ Fired.respond := by
  cases e <;> simp [excFired]

end HttpResp
end CV

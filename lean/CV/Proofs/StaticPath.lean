import CV.Model.StaticPath
/- Helper lemmas for C16 (paths): `split` is a monoid-like homomorphism, `normpath` of an
   absolute path is "slashes ++ clean components", containment by prefix implies containment
   as a tree node. Core Lean only. -/
namespace CV.StaticPath

theorem split_ne_nil (sep : Char) (s : Str) : split sep s ≠ [] := by
  induction s with
  | nil => simp [split]
  | cons c r ih =>
    unfold split
    split
    · simp
    · split <;> simp

theorem split_append_sep (sep : Char) (a b : Str) :
    split sep (a ++ sep :: b) = split sep a ++ split sep b := by
  induction a with
  | nil => simp [split]
  | cons c r ih =>
    simp only [List.cons_append]
    by_cases h : c = sep
    · simp [split, h, ih]
    · have hne := split_ne_nil sep r
      cases hr : split sep r with
      | nil => exact absurd hr hne
      | cons x xs => simp [split, h, ih, hr]

theorem split_noSep (sep : Char) (s : Str) (h : sep ∉ s) : split sep s = [s] := by
  induction s with
  | nil => simp [split]
  | cons c r ih =>
    have h1 : c ≠ sep := by intro e; apply h; simp [e]
    have h2 : sep ∉ r := by intro e; apply h; simp [e]
    simp [split, h1, ih h2]

theorem split_mem_noSep (sep : Char) (s : Str) : ∀ x ∈ split sep s, sep ∉ x := by
  induction s with
  | nil => simp [split]
  | cons c r ih =>
    intro x hx
    by_cases h : c = sep
    · simp [split, h] at hx
      rcases hx with rfl | hx
      · simp
      · exact ih x hx
    · have hne := split_ne_nil sep r
      cases hr : split sep r with
      | nil => exact absurd hr hne
      | cons y ys =>
        simp [split, h, hr] at hx
        rw [hr] at ih
        rcases hx with rfl | hx
        · intro hm
          simp at hm
          rcases hm with e | hm
          · exact h e.symm
          · exact ih y (by simp) hm
        · exact ih x (by simp [hx])

theorem cleanSeg_iff (s : Str) :
    cleanSeg s = true ↔ s ≠ [] ∧ s ≠ ['.'] ∧ s ≠ dotdot ∧ '/' ∉ s := by
  simp [cleanSeg, and_assoc]

theorem joinSlash_append_single (cs : List Str) (c : Str) (h : cs ≠ []) :
    joinSlash (cs ++ [c]) = joinSlash cs ++ '/' :: c := by
  induction cs with
  | nil => exact absurd rfl h
  | cons x xs ih =>
    cases xs with
    | nil => simp [joinSlash]
    | cons y ys =>
      have := ih (by simp)
      simp only [List.cons_append] at this ⊢
      simp [joinSlash, this]

theorem split_joinSlash (cs : List Str) (h : cs ≠ []) (hc : ∀ c ∈ cs, '/' ∉ c) :
    split '/' (joinSlash cs) = cs := by
  induction cs with
  | nil => exact absurd rfl h
  | cons x xs ih =>
    cases xs with
    | nil => simpa [joinSlash] using split_noSep '/' x (hc x (by simp))
    | cons y ys =>
      simp only [joinSlash]
      rw [split_append_sep, split_noSep '/' x (hc x (by simp)), ih (by simp) (fun c hm => hc c (by simp [hm]))]
      rfl

theorem split_replicate_slash (k : Nat) (t : Str) :
    split '/' (List.replicate k '/' ++ t) = List.replicate k [] ++ split '/' t := by
  induction k with
  | zero => simp
  | succ n ih => simp [List.replicate_succ, split, ih]


/-! ### `normpath` on absolute paths -/

def AllClean (st : List Str) : Prop := ∀ c ∈ st, cleanSeg c = true

theorem stepR_clean (st : List Str) (c : Str) (h : AllClean st) (hc : '/' ∉ c) : AllClean (stepR st c) := by
  unfold stepR
  split
  · exact h
  · split
    · intro x hx; exact h x (List.mem_of_mem_tail hx)
    · rename_i h1 h2
      intro x hx
      simp at hx
      rcases hx with rfl | hx
      · rw [cleanSeg_iff]; simp at h1; exact ⟨h1.1, h1.2, h2, hc⟩
      · exact h x hx

theorem pushComp_abs (st : List Str) (c : Str) (h : AllClean st) : pushComp true st c = stepR st c := by
  have hh : st.head? ≠ some dotdot := by
    intro e
    cases st with
    | nil => simp at e
    | cons x xs =>
      simp at e
      have := h x (by simp)
      rw [cleanSeg_iff] at this
      exact this.2.2.1 e
  unfold pushComp stepR
  by_cases h1 : c = [] ∨ c = ['.']
  · simp [h1]
  · by_cases h2 : c = dotdot
    · simp [h2, hh]
    · simp [h1, h2]

theorem foldl_pushComp_abs (segs : List Str) (st : List Str) (h : AllClean st) (hs : ∀ c ∈ segs, '/' ∉ c) :
    segs.foldl (pushComp true) st = segs.foldl stepR st ∧ AllClean (segs.foldl stepR st) := by
  induction segs generalizing st with
  | nil => exact ⟨rfl, h⟩
  | cons c r ih =>
    simp only [List.foldl_cons]
    rw [pushComp_abs st c h]
    exact ih (stepR st c) (stepR_clean st c h (hs c (by simp))) (fun x hx => hs x (by simp [hx]))

theorem allClean_reverse (st : List Str) (h : AllClean st) : AllClean st.reverse := by
  intro c hc; exact h c (by simpa using hc)

theorem resolveSegs_clean (segs : List Str) (hs : ∀ c ∈ segs, '/' ∉ c) : AllClean (resolveSegs [] segs) := by
  unfold resolveSegs
  exact allClean_reverse _ (foldl_pushComp_abs segs [] (by intro c hc; simp at hc) hs).2

theorem initialSlashes_pos (x : Str) (h : x.head? = some '/') : 1 ≤ initialSlashes x ∧ initialSlashes x ≤ 2 := by
  match x with
  | [] => simp at h
  | c :: r =>
    simp at h; subst h
    match r with
    | [] => simp [initialSlashes]
    | d :: r2 =>
      by_cases hd : d = '/'
      · subst hd
        match r2 with
        | [] => simp [initialSlashes]
        | e :: r3 =>
          by_cases he : e = '/'
          · subst he; simp [initialSlashes]
          · unfold initialSlashes; split <;> simp_all
      · unfold initialSlashes; split <;> simp_all

/-- `normpath` of an absolute path: the kept slashes, then the resolved components joined -/
theorem normpath_abs (x : Str) (h : x.head? = some '/') :
    normpath x = List.replicate (initialSlashes x) '/' ++ joinSlash (resolveSegs [] (split '/' x)) := by
  have hk := initialSlashes_pos x h
  have hx : x ≠ [] := by intro e; simp [e] at h
  have hb : (initialSlashes x != 0) = true := by simp; omega
  have hf := (foldl_pushComp_abs (split '/' x) [] (by intro c hc; simp at hc) (split_mem_noSep '/' x)).1
  unfold normpath normComps resolveSegs
  rw [hb, hf]
  simp only [hx, if_false]
  have : List.replicate (initialSlashes x) '/' ++ joinSlash (List.foldl stepR [] (split '/' x)).reverse ≠ [] := by
    intro e
    have := congrArg List.length e
    simp at this
    omega
  simp [this]

/-! ### resolving an already normalised path changes nothing -/

theorem foldl_stepR_clean (cs st : List Str) (h : AllClean cs) : cs.foldl stepR st = cs.reverse ++ st := by
  induction cs generalizing st with
  | nil => simp
  | cons c r ih =>
    have hc := h c (by simp)
    rw [cleanSeg_iff] at hc
    have : stepR st c = c :: st := by simp [stepR, hc.1, hc.2.1, hc.2.2.1]
    simp only [List.foldl_cons, this]
    rw [ih (c :: st) (fun x hx => h x (by simp [hx]))]
    simp

theorem foldl_stepR_empties (k : Nat) (st : List Str) : (List.replicate k ([] : Str)).foldl stepR st = st := by
  induction k with
  | zero => simp
  | succ n ih => simp [List.replicate_succ, stepR, ih]

theorem resolve_empties_clean (k : Nat) (cs : List Str) (h : AllClean cs) :
    resolveSegs [] (List.replicate k [] ++ cs) = cs := by
  simp [resolveSegs, List.foldl_append, foldl_stepR_empties, foldl_stepR_clean cs [] h]

theorem split_normal (k : Nat) (cs : List Str) (h : AllClean cs) :
    split '/' (List.replicate k '/' ++ joinSlash cs) =
      List.replicate k [] ++ (if cs = [] then [[]] else cs) := by
  rw [split_replicate_slash]
  by_cases hc : cs = []
  · simp [hc, joinSlash, split]
  · simp only [hc, if_false]
    rw [split_joinSlash cs hc (fun c hm => ((cleanSeg_iff c).1 (h c hm)).2.2.2)]

theorem resolve_normal (k : Nat) (cs : List Str) (h : AllClean cs) :
    resolveSegs [] (split '/' (List.replicate k '/' ++ joinSlash cs)) = cs := by
  rw [split_normal k cs h]
  by_cases hc : cs = []
  · simp [hc, resolveSegs, List.foldl_append, foldl_stepR_empties, stepR]
  · simp only [hc, if_false]; exact resolve_empties_clean k cs h

/-- idempotence: the normalised path denotes the node the raw path denotes -/
theorem resolve_normpath (x : Str) (h : x.head? = some '/') :
    resolveSegs [] (split '/' (normpath x)) = resolveSegs [] (split '/' x) := by
  rw [normpath_abs x h]
  exact resolve_normal _ _ (resolveSegs_clean _ (split_mem_noSep '/' x))

/-! ### containment by string prefix implies containment as a tree node -/

/-- a document root as `abspath` produces it, other than `/` itself and `//…` -/
def ProperRoot (d : Str) : Prop :=
  ∃ c r, d = '/' :: c :: r ∧ c ≠ '/' ∧ d.getLast? ≠ some '/'

theorem rootDir_proper (d : Str) (h : ProperRoot d) : rootDir d = d ++ ['/'] := by
  obtain ⟨c, r, hd, _, hl⟩ := h
  have : d ≠ [] := by simp [hd]
  simp [rootDir, join, this, hl]

theorem split_proper (d : Str) (h : ProperRoot d) : ∃ c h' t, split '/' d = [] :: (c :: h') :: t := by
  obtain ⟨c, r, hd, hc, _⟩ := h
  subst hd
  have hne := split_ne_nil '/' r
  cases hr : split '/' r with
  | nil => exact absurd hr hne
  | cons y ys => exact ⟨c, y, ys, by simp [split, hc, hr]⟩

theorem allClean_all (l : List Str) (h : AllClean l) : l.all cleanSeg = true := by
  rw [List.all_eq_true]; exact h

theorem inRoot_of_allowed (d loc : Str) (k : Nat) (cs : List Str) (hd : ProperRoot d)
    (hloc : loc = List.replicate k '/' ++ joinSlash cs) (hk : 1 ≤ k) (hcs : AllClean cs)
    (ha : allowed d loc = true) : inRoot d loc = true ∧ k = 1 ∧ cs ≠ [] := by
  obtain ⟨c0, h0, t0, hsd⟩ := split_proper d hd
  have hsl := split_normal k cs hcs
  rw [← hloc] at hsl
  obtain ⟨k', rfl⟩ : ∃ k', k = k' + 1 := ⟨k - 1, by omega⟩
  unfold allowed at ha
  rw [rootDir_proper d hd] at ha
  simp only [Bool.or_eq_true, decide_eq_true_eq] at ha
  rcases ha with heq | hpre
  · -- loc = d
    subst heq
    rw [hsd] at hsl
    by_cases hc : cs = []
    · simp [hc, List.replicate_succ] at hsl
      cases k' <;> simp [List.replicate_succ] at hsl
    · simp only [hc, if_false, List.replicate_succ, List.cons_append, List.cons.injEq, true_and] at hsl
      cases k' with
      | zero => exact ⟨by simp [inRoot], rfl, hc⟩
      | succ n => simp [List.replicate_succ] at hsl
  · -- d ++ "/" is a prefix
    unfold startsWith at hpre
    rw [List.isPrefixOf_iff_prefix] at hpre
    obtain ⟨tail, ht⟩ := hpre
    have ht' : loc = d ++ '/' :: tail := by rw [← ht]; simp
    have hsp : split '/' loc = split '/' d ++ split '/' tail := by rw [ht', split_append_sep]
    rw [hsp, hsd] at hsl
    by_cases hc : cs = []
    · simp [hc, List.replicate_succ] at hsl
      cases k' <;> simp [List.replicate_succ] at hsl
    · simp only [hc, if_false, List.replicate_succ, List.cons_append, List.cons.injEq, true_and] at hsl
      cases k' with
      | zero =>
        simp only [List.replicate_zero, List.nil_append] at hsl
        refine ⟨?_, rfl, hc⟩
        have hsub : ∀ x ∈ split '/' tail, cleanSeg x = true := by
          intro x hx; apply hcs x; rw [← hsl]; simp [hx]
        have hdrop : loc.drop (d.length + 1) = tail := by
          rw [ht']
          have : d ++ '/' :: tail = (d ++ ['/']) ++ tail := by simp
          rw [this, List.drop_left' (by simp)]
        have hsw : startsWith loc (d ++ ['/']) = true := by
          unfold startsWith; rw [List.isPrefixOf_iff_prefix]; exact ⟨tail, ht⟩
        simp only [inRoot, Bool.or_eq_true, Bool.and_eq_true, decide_eq_true_eq]
        right
        exact ⟨hsw, by rw [hdrop]; exact allClean_all _ hsub⟩
      | succ n => simp [List.replicate_succ] at hsl

theorem inRoot_extend (d loc c : Str) (h : inRoot d loc = true) (hc : cleanSeg c = true) :
    inRoot d (loc ++ '/' :: c) = true := by
  have hcn : '/' ∉ c := ((cleanSeg_iff c).1 hc).2.2.2
  simp only [inRoot, Bool.or_eq_true, Bool.and_eq_true, decide_eq_true_eq] at h ⊢
  right
  rcases h with rfl | ⟨hsw, hall⟩
  · have hdrop : (loc ++ '/' :: c).drop (loc.length + 1) = c := by
      have : loc ++ '/' :: c = (loc ++ ['/']) ++ c := by simp
      rw [this, List.drop_left' (by simp)]
    refine ⟨?_, ?_⟩
    · unfold startsWith; rw [List.isPrefixOf_iff_prefix]; exact ⟨c, by simp⟩
    · rw [hdrop, split_noSep '/' c hcn]; simp [hc]
  · unfold startsWith at hsw
    rw [List.isPrefixOf_iff_prefix] at hsw
    obtain ⟨tail, ht⟩ := hsw
    have hdrop : loc.drop (d.length + 1) = tail := by
      rw [← ht, List.drop_left' (by simp)]
    have hdrop2 : (loc ++ '/' :: c).drop (d.length + 1) = tail ++ '/' :: c := by
      rw [← ht]
      have : d ++ ['/'] ++ tail ++ '/' :: c = (d ++ ['/']) ++ (tail ++ '/' :: c) := by simp
      rw [this, List.drop_left' (by simp)]
    refine ⟨?_, ?_⟩
    · unfold startsWith; rw [List.isPrefixOf_iff_prefix]; exact ⟨tail ++ '/' :: c, by rw [← ht]; simp⟩
    · rw [hdrop2, split_append_sep, split_noSep '/' c hcn]
      rw [hdrop] at hall
      simp [List.all_append, hall, hc]

/-! ### `join` -/

theorem proper_ne_nil (d : Str) (h : ProperRoot d) : d ≠ [] := by
  obtain ⟨c, r, hd, _, _⟩ := h; simp [hd]

theorem proper_head (d : Str) (h : ProperRoot d) : d.head? = some '/' := by
  obtain ⟨c, r, hd, _, _⟩ := h; simp [hd]

theorem join_head (x y : Str) (hx : x.head? = some '/') : (join x y).head? = some '/' := by
  have hne : x ≠ [] := by intro e; simp [e] at hx
  unfold join
  split
  · assumption
  · split
    · simp [List.head?_append, hx]
    · simp [List.head?_append, hx]

theorem split_join_root (d rel : Str) (hd : ProperRoot d) : split '/' (join d rel) = relSegs d rel := by
  obtain ⟨c, r, hdd, _, hl⟩ := hd
  have hne : d ≠ [] := by simp [hdd]
  unfold join relSegs
  by_cases h : rel.head? = some '/'
  · simp [h]
  · simp only [h, if_false, hne, hl, false_or]
    exact split_append_sep '/' d rel

theorem resolve_skip_last (segs : List Str) (c : Str) (hc : c = [] ∨ c = ['.']) :
    resolveSegs [] (segs ++ [c]) = resolveSegs [] segs := by
  simp [resolveSegs, List.foldl_append, stepR, hc]

theorem resolve_push_last (segs : List Str) (c : Str) (hc : cleanSeg c = true) :
    resolveSegs [] (segs ++ [c]) = resolveSegs [] segs ++ [c] := by
  rw [cleanSeg_iff] at hc
  simp [resolveSegs, List.foldl_append, stepR, hc.1, hc.2.1, hc.2.2.1]

/-- the path the dispatcher first resolves denotes what the request's components denote -/
theorem resolve_first (d rel : Str) (hd : ProperRoot d) :
    resolveSegs [] (split '/' (join d (if rel = [] then ['.'] else rel))) = resolveSegs [] (relSegs d rel) := by
  by_cases h : rel = []
  · subst h
    simp only [if_true]
    rw [split_join_root d ['.'] hd]
    have h1 : relSegs d ['.'] = split '/' d ++ [['.']] := by simp [relSegs, split]
    have h2 : relSegs d [] = split '/' d ++ [[]] := by simp [relSegs, split]
    rw [h1, h2, resolve_skip_last _ _ (Or.inr rfl), resolve_skip_last _ _ (Or.inl rfl)]
  · simp only [h, if_false]
    rw [split_join_root d rel hd]

theorem resolve_join_clean (x c : Str) (hx : x ≠ []) (hc : cleanSeg c = true) :
    resolveSegs [] (split '/' (join x c)) = resolveSegs [] (split '/' x) ++ [c] := by
  have hc' := (cleanSeg_iff c).1 hc
  have hh : c.head? ≠ some '/' := by
    intro e
    cases c with
    | nil => simp at e
    | cons a r => simp at e; subst e; exact hc'.2.2.2 (by simp)
  unfold join
  simp only [hh, if_false, hx, false_or]
  by_cases hl : x.getLast? = some '/'
  · simp only [hl, if_true]
    obtain ⟨y, rfl⟩ : ∃ y, x = y ++ ['/'] := by
      rw [List.getLast?_eq_some_iff] at hl
      exact hl
    have e1 : y ++ ['/'] ++ c = y ++ '/' :: c := by simp
    have e2 : split '/' (y ++ ['/']) = split '/' y ++ [[]] := by
      rw [split_append_sep]; simp [split]
    rw [e1, split_append_sep, split_noSep '/' c hc'.2.2.2, e2, resolve_push_last _ _ hc,
      resolve_skip_last _ _ (Or.inl rfl)]
  · simp only [hl, if_false]
    rw [split_append_sep, split_noSep '/' c hc'.2.2.2, resolve_push_last _ _ hc]

theorem initialSlashes_proper (d y : Str) (hd : ProperRoot d) : initialSlashes (d ++ y) = 1 := by
  obtain ⟨c, r, hdd, hc, _⟩ := hd
  subst hdd
  simp only [List.cons_append]
  unfold initialSlashes
  split <;> simp_all

theorem initialSlashes_two (b : Char) (r3 : List Char) (hb : b ≠ '/') :
    initialSlashes ('/' :: '/' :: b :: r3) = 2 := by
  unfold initialSlashes
  split
  · simp_all
  · rfl
  · rename_i h1 h2 heq
    simp at heq
    exact absurd heq.symm (h2 _)
  · simp_all

theorem initialSlashes_join (x c : Str) (hx : x.head? = some '/') (hk : initialSlashes x = 1)
    (hc : cleanSeg c = true) : initialSlashes (join x c) = 1 := by
  have hc' := (cleanSeg_iff c).1 hc
  obtain ⟨e, cr, rfl⟩ : ∃ e cr, c = e :: cr := by
    cases c with
    | nil => exact absurd rfl hc'.1
    | cons a r => exact ⟨a, r, rfl⟩
  have he : e ≠ '/' := by intro h; subst h; exact hc'.2.2.2 (by simp)
  cases x with
  | nil => simp at hx
  | cons x0 r =>
    simp at hx; subst hx
    cases r with
    | nil => simp [join, initialSlashes, he]
    | cons a r2 =>
      by_cases ha : a = '/'
      · subst ha
        cases r2 with
        | nil => simp [initialSlashes] at hk
        | cons b r3 =>
          by_cases hb : b = '/'
          · subst hb
            unfold join
            simp only [List.head?_cons, Option.some.injEq, he, if_false]
            split <;> simp [initialSlashes]
          · exfalso
            rw [initialSlashes_two b r3 hb] at hk
            omega
      · unfold join
        simp only [List.head?_cons, Option.some.injEq, he, if_false]
        split <;> (simp only [List.cons_append]; unfold initialSlashes; split <;> simp_all)

/-! ### the dispatcher -/

/-- facts about an allowed first location -/
theorem first_location (d rel : Str) (hd : ProperRoot d)
    (ha : allowed d (normpath (join d (if rel = [] then ['.'] else rel))) = true) :
    let x := join d (if rel = [] then ['.'] else rel)
    let cs := resolveSegs [] (relSegs d rel)
    normpath x = '/' :: joinSlash cs ∧ cs ≠ [] ∧ AllClean cs ∧ initialSlashes x = 1 ∧
      inRoot d (normpath x) = true ∧ denotes (relSegs d rel) (normpath x) = true := by
  intro x cs
  have hx : x.head? = some '/' := join_head d _ (proper_head d hd)
  have hn := normpath_abs x hx
  have hcs : resolveSegs [] (split '/' x) = cs := resolve_first d rel hd
  rw [hcs] at hn
  have hclean : AllClean cs := by
    rw [← hcs]; exact resolveSegs_clean _ (split_mem_noSep '/' x)
  have hk := initialSlashes_pos x hx
  obtain ⟨hin, hk1, hne⟩ := inRoot_of_allowed d (normpath x) (initialSlashes x) cs hd hn hk.1 hclean ha
  refine ⟨by rw [hn, hk1]; rfl, hne, hclean, hk1, hin, ?_⟩
  unfold denotes
  rw [resolve_normpath x hx, hcs]
  exact beq_self_eq_true _

/-- facts about the location of a default document below an allowed directory -/
theorem default_location (d rel c : Str) (hd : ProperRoot d) (hc : cleanSeg c = true)
    (ha : allowed d (normpath (join d (if rel = [] then ['.'] else rel))) = true) :
    let loc' := normpath (join (join d rel) c)
    inRoot d loc' = true ∧ denotes (relSegs d rel ++ [c]) loc' = true := by
  intro loc'
  obtain ⟨hn, hne, hclean, hk1, hin, _⟩ := first_location d rel hd ha
  have hxd : (join d rel).head? = some '/' := join_head d rel (proper_head d hd)
  have hxdne : join d rel ≠ [] := by intro e; simp [e] at hxd
  have hx' : (join (join d rel) c).head? = some '/' := join_head _ _ hxd
  have hkd : initialSlashes (join d rel) = 1 := by
    by_cases h : rel = []
    · subst h
      have : join d [] = d ++ ['/'] := rootDir_proper d hd
      rw [this]; exact initialSlashes_proper d _ hd
    · simpa [h] using hk1
  have hk' := initialSlashes_join (join d rel) c hxd hkd hc
  have hr : resolveSegs [] (split '/' (join (join d rel) c)) = resolveSegs [] (relSegs d rel) ++ [c] := by
    rw [resolve_join_clean _ _ hxdne hc, split_join_root d rel hd]
  have hl : loc' = normpath (join d (if rel = [] then ['.'] else rel)) ++ '/' :: c := by
    show normpath (join (join d rel) c) = _
    rw [normpath_abs _ hx', hk', hr, hn, joinSlash_append_single _ _ hne]
    rfl
  refine ⟨by rw [hl]; exact inRoot_extend d _ c hin hc, ?_⟩
  unfold denotes
  show (resolveSegs [] (relSegs d rel ++ [c]) == resolveSegs [] (split '/' (normpath (join (join d rel) c)))) = true
  rw [resolve_normpath _ hx', hr, resolve_push_last _ _ hc]
  simp

theorem serveFile_cases (fs : FS) (loc : Str) : serveFile fs loc = .notfound ∨ serveFile fs loc = .file loc := by
  unfold serveFile
  split <;> simp

theorem tryDefaults_some (fs : FS) (cfg : Cfg) (rel : Str) (dfl : List Str) (o : Outcome)
    (h : tryDefaults fs cfg rel dfl = some o) :
    o = .notfound ∨ ∃ c ∈ dfl, o = .file (normpath (join (join cfg.docroot rel) c)) := by
  induction dfl with
  | nil => simp [tryDefaults] at h
  | cons c r ih =>
    unfold tryDefaults at h
    simp only at h
    split at h
    · simp only [Option.some.injEq] at h
      rcases serveFile_cases fs (normpath (join (join cfg.docroot rel) c)) with e | e
      · left; rw [← h, e]
      · right; exact ⟨c, by simp, by rw [← h, e]⟩
    · rcases ih h with e | ⟨c', hm, e⟩
      · exact Or.inl e
      · exact Or.inr ⟨c', by simp [hm], e⟩

/-- every answer of the dispatcher satisfies the spec, for every path, file system and decoder -/
theorem serve_specOk (unq : Str → Str) (fs : FS) (cfg : Cfg) (reqPath : Str)
    (hd : ProperRoot cfg.docroot) (hdef : ∀ c ∈ cfg.defaults, cleanSeg c = true) :
    specOk unq cfg reqPath (serve unq fs cfg reqPath) = true := by
  unfold serve
  cases hrel : relOf unq cfg reqPath with
  | none => simp [specOk]
  | some rel =>
    simp only
    unfold serveRel locOf
    simp only
    split
    · simp [specOk]
    · rename_i k hk
      by_cases ha : allowed cfg.docroot (normpath (join cfg.docroot (if rel = [] then ['.'] else rel))) = true
      · simp only [ha, not_true_eq_false, if_false]
        obtain ⟨_, _, _, _, hin, hden⟩ := first_location cfg.docroot rel hd ha
        cases k with
        | file =>
          simp only
          rcases serveFile_cases fs (normpath (join cfg.docroot (if rel = [] then ['.'] else rel))) with e | e
          · rw [e]; simp [specOk]
          · rw [e]; simp [specOk, hrel, hin, hden]
        | dir =>
          simp only
          cases htd : tryDefaults fs cfg rel cfg.defaults with
          | some o =>
            simp only
            rcases tryDefaults_some fs cfg rel cfg.defaults o htd with e | ⟨c, hm, e⟩
            · rw [e]; simp [specOk]
            · obtain ⟨hin', hden'⟩ := default_location cfg.docroot rel c hd (hdef c hm) ha
              rw [e]
              simp only [specOk, hrel, hin', Bool.true_and, Bool.or_eq_true, List.any_eq_true]
              right
              exact ⟨c, hm, hden'⟩
          | none =>
            simp only
            split
            · have hl : normpath (join cfg.docroot rel) =
                  normpath (join cfg.docroot (if rel = [] then ['.'] else rel)) := by
                by_cases h : rel = []
                · subst h
                  simp only [if_true]
                  have hp := proper_head cfg.docroot hd
                  rw [normpath_abs _ (join_head _ _ hp), normpath_abs _ (join_head _ _ hp)]
                  have r1 := resolve_first cfg.docroot [] hd
                  simp only [if_true] at r1
                  have j : join cfg.docroot [] = cfg.docroot ++ ['/'] := rootDir_proper cfg.docroot hd
                  have r2 : resolveSegs [] (split '/' (join cfg.docroot [])) = resolveSegs [] (relSegs cfg.docroot []) := by
                    rw [split_join_root _ _ hd]
                  have k1 : initialSlashes (join cfg.docroot []) = 1 := by
                    rw [j]; exact initialSlashes_proper _ _ hd
                  have k2 : initialSlashes (join cfg.docroot ['.']) = 1 := by
                    have : join cfg.docroot ['.'] = cfg.docroot ++ ['/', '.'] := by
                      obtain ⟨c, r, hdd, _, hl⟩ := hd
                      have hne : cfg.docroot ≠ [] := by simp [hdd]
                      simp [join, hne, hl]
                    rw [this]; exact initialSlashes_proper _ _ hd
                  rw [r1, r2, k1, k2]
                · simp [h]
              rw [hl]
              simp [specOk, hrel, hin, hden]
            · simp [specOk]
        | other => simp [specOk]
      · simp [ha, specOk]

end CV.StaticPath

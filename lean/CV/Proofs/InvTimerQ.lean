import CV.Proofs.CoreStep
import CV.Proofs.CoreReach
/-
Timers (property C09) on the small-step core machine, part 1 of 2: the relation `St.Q F`
("quiet code") and its preservation by every primitive, helper and arm of `step` except the three
pieces of code that are not quiet (`St.timerTick`, `St.onFallbackGE`, `St.tickGenerate`).
Part 2 (CV/Proofs/InvTimer.lean) analyses those three and derives the C09 theorems.

`St.Q F s s'` : between `s` and `s'` the clock stands still, no `.idle` entry is logged, every
`.fire e …` entry logged is for a FRESH event object (`e ≥ s.evs.length`) or one permitted by `F`,
the `timeLeft` of every event that is armed (≥ 0) only gets lower (and stays ≥ 0), every timer
record is untouched or was (re)armed to `expiry = clock + interval` (creation, `reset()`).

Proof pattern: the one of CoreStep.lean (primitive → helper → arm → `cases f`) with the
committed-choice tactic `st_q`; the helper and arm lemmas are the `St.Le` lemmas of CoreStep.lean
restated for `St.Q` (same proofs), except the manual ones: `fireContext` (waking a sleeping
generate_events), `fireRaw`/`fireChild`/`fireTmplEv` (freshness of the fired object),
`reduceTimeLeft`, `timerReset`, `timerCreate`, `invoke` (conditional).

Top-level names that could clash with other invariant files carry the prefix `t9`.
-/
namespace CV.Core

/-! ## the relation -/

/-- log entries that are neither an idle wait nor a `fire` -/
def Entry.t9quiet : Entry → Bool
  | .idle _ => false
  | .fire .. => false
  | _ => true

/-- what may happen to one timer record while the clock reads `clk` (apart from firing):
    nothing, or `expiry := clk + interval` (creation, `reset()`, re-arming) -/
structure TimerSt.Step (clk : Int) (a b : TimerSt) : Prop where
  interval : b.interval = a.interval
  persist : b.persist = a.persist
  tmpl : b.tmpl = a.tmpl
  target : b.target = a.target
  comp : b.comp = a.comp
  parent : b.parent = a.parent
  ev : b.ev = a.ev
  arm : (b.expiry = a.expiry ∧ b.created = a.created) ∨ (b.created = true ∧ b.expiry = clk + a.interval)

theorem TimerSt.Step.refl (clk : Int) (a : TimerSt) : TimerSt.Step clk a a :=
  ⟨rfl, rfl, rfl, rfl, rfl, rfl, rfl, .inl ⟨rfl, rfl⟩⟩

theorem TimerSt.Step.trans {clk : Int} {a b c : TimerSt} (h1 : TimerSt.Step clk a b) (h2 : TimerSt.Step clk b c) :
    TimerSt.Step clk a c := by
  refine ⟨h2.interval.trans h1.interval, h2.persist.trans h1.persist, h2.tmpl.trans h1.tmpl,
    h2.target.trans h1.target, h2.comp.trans h1.comp, h2.parent.trans h1.parent, h2.ev.trans h1.ev, ?_⟩
  rcases h2.arm with ⟨e2, c2⟩ | ⟨c2, e2⟩
  · rcases h1.arm with ⟨e1, c1⟩ | ⟨c1, e1⟩
    · exact .inl ⟨e2.trans e1, c2.trans c1⟩
    · exact .inr ⟨c2.trans c1, e2.trans e1⟩
  · exact .inr ⟨c2, by rw [e2, h1.interval]⟩

/-- `s'` is reached from `s` by code that lets the clock stand still, does not idle, fires only
    fresh event objects or objects in `F`, only lowers armed `timeLeft`s and only (re)arms timers. -/
structure St.Q (F : Nat → Prop) (s s' : St) : Prop where
  clock : s'.clock = s.clock
  evs : s.evs.length ≤ s'.evs.length
  comps : s'.comps.length = s.comps.length
  hist : ∃ es, s'.log = es ++ s.log ∧
    ∀ x ∈ es, x.t9quiet = true ∨ ∃ e n ch p, x = .fire e n ch p ∧ (s.evs.length ≤ e ∨ F e)
  tl : ∀ e, 0 ≤ (s.ev e).timeLeft → 0 ≤ (s'.ev e).timeLeft ∧ (s'.ev e).timeLeft ≤ (s.ev e).timeLeft
  timers : ∀ (t : Nat) (tm : TimerSt), s.timers[t]? = some tm → ∃ tm', s'.timers[t]? = some tm' ∧ TimerSt.Step s.clock tm tm'
  tlen : s'.timers.length = s.timers.length

/-- no non-fresh event object may be fired -/
abbrev T9NoF : Nat → Prop := fun _ => False

theorem St.t9_ev_in_range {s : St} {e : Nat} (h : 0 ≤ (s.ev e).timeLeft) : e < s.evs.length := by
  apply Classical.byContradiction
  intro hn
  have : s.ev e = dfltEv := by
    unfold St.ev
    rw [List.getD_eq_getElem?_getD, List.getElem?_eq_none (by omega)]
    rfl
  rw [this] at h
  simp [dfltEv] at h

namespace St.Q
variable {F : Nat → Prop}

theorem of_same {s s' : St} (hc : s'.clock = s.clock) (he : s'.evs = s.evs) (hk : s'.comps.length = s.comps.length)
    (hl : s'.log = s.log) (ht : s'.timers = s.timers) : St.Q F s s' := by
  refine ⟨hc, by rw [he]; exact Nat.le_refl _, hk, ⟨[], by simpa using hl, by simp⟩, ?_, ?_, by rw [ht]⟩
  · intro e h
    have : s'.ev e = s.ev e := by unfold St.ev; rw [he]
    rw [this]; exact ⟨h, Int.le_refl _⟩
  · intro t tm h
    exact ⟨tm, by rw [ht]; exact h, TimerSt.Step.refl _ _⟩

theorem refl (s : St) : St.Q F s s := of_same rfl rfl rfl rfl rfl

theorem trans {a b c : St} (h1 : St.Q F a b) (h2 : St.Q F b c) : St.Q F a c := by
  obtain ⟨es1, e1, q1⟩ := h1.hist
  obtain ⟨es2, e2, q2⟩ := h2.hist
  refine ⟨h2.clock.trans h1.clock, Nat.le_trans h1.evs h2.evs, h2.comps.trans h1.comps,
    ⟨es2 ++ es1, by rw [e2, e1, List.append_assoc], ?_⟩, ?_, ?_, h2.tlen.trans h1.tlen⟩
  · intro x hx
    rcases List.mem_append.mp hx with hx | hx
    · rcases q2 x hx with hq | ⟨e, n, ch, p, rfl, hf⟩
      · exact .inl hq
      · refine .inr ⟨e, n, ch, p, rfl, ?_⟩
        rcases hf with hf | hf
        · exact .inl (Nat.le_trans h1.evs hf)
        · exact .inr hf
    · exact q1 x hx
  · intro e h
    have a1 := h1.tl e h
    have a2 := h2.tl e a1.1
    exact ⟨a2.1, Int.le_trans a2.2 a1.2⟩
  · intro t tm h
    obtain ⟨tm1, g1, s1⟩ := h1.timers t tm h
    obtain ⟨tm2, g2, s2⟩ := h2.timers t tm1 g1
    rw [h1.clock] at s2
    exact ⟨tm2, g2, s1.trans s2⟩

/-- weaken the set of permitted non-fresh firings -/
theorem mono {G : Nat → Prop} {s s' : St} (h : St.Q F s s') (hfg : ∀ e, F e → G e) : St.Q G s s' := by
  obtain ⟨es, e1, q1⟩ := h.hist
  refine ⟨h.clock, h.evs, h.comps, ⟨es, e1, ?_⟩, h.tl, h.timers, h.tlen⟩
  intro x hx
  rcases q1 x hx with hq | ⟨e, n, ch, p, rfl, hf⟩
  · exact .inl hq
  · exact .inr ⟨e, n, ch, p, rfl, hf.imp id (hfg e)⟩

/-! ### primitives -/

theorem modComp_self (t : St) (c : Nat) (f : Comp → Comp) : St.Q F t (t.modComp c f) :=
  of_same rfl rfl (by simp [St.modComp]) rfl rfl
theorem modWait_self (t : St) (w : Nat) (f : WaitSt → WaitSt) : St.Q F t (t.modWait w f) := of_same rfl rfl rfl rfl rfl
theorem setGen_self (t : St) (g : Nat) (x : GenRec) : St.Q F t (t.setGen g x) := of_same rfl rfl rfl rfl rfl
theorem addH_self (t : St) (x : Handler) : St.Q F t (t.addH x) := of_same rfl rfl rfl rfl rfl
theorem addGen_self (t : St) (g : GenRec) : St.Q F t (t.addGen g) := of_same rfl rfl rfl rfl rfl
theorem addWait_self (t : St) (w : WaitSt) : St.Q F t (t.addWait w) := of_same rfl rfl rfl rfl rfl

theorem logE_self (t : St) (x : Entry) (hx : x.t9quiet = true) : St.Q F t (t.logE x) := by
  refine ⟨rfl, Nat.le_refl _, rfl, ⟨[x], rfl, ?_⟩, fun e h => ⟨h, Int.le_refl _⟩,
    fun i tm h => ⟨tm, h, TimerSt.Step.refl _ _⟩, rfl⟩
  intro y hy
  rw [List.mem_singleton.mp hy]; exact .inl hx

/-- logging the firing of a fresh (or permitted) event object -/
theorem logFire_self (t : St) (e : Nat) (n : Name) (ch : List Chan) (p : Int) (he : t.evs.length ≤ e ∨ F e) :
    St.Q F t (t.logE (.fire e n ch p)) := by
  refine ⟨rfl, Nat.le_refl _, rfl, ⟨[.fire e n ch p], rfl, ?_⟩, fun e h => ⟨h, Int.le_refl _⟩,
    fun i tm h => ⟨tm, h, TimerSt.Step.refl _ _⟩, rfl⟩
  intro y hy
  rw [List.mem_singleton.mp hy]; exact .inr ⟨e, n, ch, p, rfl, he⟩

theorem ev_modEv (t : St) (e : Nat) (f : Ev → Ev) (i : Nat) :
    (t.modEv e f).ev i = if e = i ∧ i < t.evs.length then f (t.ev i) else t.ev i := by
  unfold St.ev St.modEv
  simp only [List.getD_eq_getElem?_getD, List.getElem?_modify]
  by_cases hi : i < t.evs.length
  · rw [List.getElem?_eq_getElem hi]
    by_cases he : e = i <;> simp [he, hi]
  · rw [List.getElem?_eq_none (by omega)]
    simp [hi]

/-- `modEv` with a function that only lowers an armed `timeLeft` -/
theorem modEv_lower (t : St) (e : Nat) (f : Ev → Ev)
    (hf : ∀ x : Ev, 0 ≤ x.timeLeft → 0 ≤ (f x).timeLeft ∧ (f x).timeLeft ≤ x.timeLeft) : St.Q F t (t.modEv e f) := by
  refine ⟨rfl, by simp [St.modEv], rfl, ⟨[], rfl, by simp⟩, ?_, fun i tm h => ⟨tm, h, TimerSt.Step.refl _ _⟩, rfl⟩
  intro i h
  rw [ev_modEv]
  split
  · exact hf _ h
  · exact ⟨h, Int.le_refl _⟩

theorem modEv_self (t : St) (e : Nat) (f : Ev → Ev) (hf : ∀ x : Ev, (f x).timeLeft = x.timeLeft) :
    St.Q F t (t.modEv e f) :=
  modEv_lower t e f (fun x h => by rw [hf x]; exact ⟨h, Int.le_refl _⟩)

theorem addEv_self (t : St) (x : Ev) : St.Q F t (t.addEv x) := by
  refine ⟨rfl, by simp [St.addEv], rfl, ⟨[], rfl, by simp⟩, ?_, fun i tm h => ⟨tm, h, TimerSt.Step.refl _ _⟩, rfl⟩
  intro i h
  have hi := St.t9_ev_in_range h
  have : (t.addEv x).ev i = t.ev i := by
    unfold St.ev St.addEv
    simp only [List.getD_eq_getElem?_getD]
    rw [List.getElem?_append_left hi]
  rw [this]; exact ⟨h, Int.le_refl _⟩

variable {s t : St}

theorem modComp (h : St.Q F s t) (c : Nat) (f : Comp → Comp) : St.Q F s (t.modComp c f) := h.trans (modComp_self ..)
theorem modWait (h : St.Q F s t) (w : Nat) (f : WaitSt → WaitSt) : St.Q F s (t.modWait w f) := h.trans (modWait_self ..)
theorem setGen (h : St.Q F s t) (g : Nat) (x : GenRec) : St.Q F s (t.setGen g x) := h.trans (setGen_self ..)
theorem addH (h : St.Q F s t) (x : Handler) : St.Q F s (t.addH x) := h.trans (addH_self ..)
theorem addGen (h : St.Q F s t) (g : GenRec) : St.Q F s (t.addGen g) := h.trans (addGen_self ..)
theorem addWait (h : St.Q F s t) (w : WaitSt) : St.Q F s (t.addWait w) := h.trans (addWait_self ..)
theorem addEv (h : St.Q F s t) (x : Ev) : St.Q F s (t.addEv x) := h.trans (addEv_self ..)
theorem logE (h : St.Q F s t) (x : Entry) (hx : x.t9quiet = true) : St.Q F s (t.logE x) := h.trans (logE_self _ _ hx)
theorem modEv (h : St.Q F s t) (e : Nat) (f : Ev → Ev) (hf : ∀ x : Ev, (f x).timeLeft = x.timeLeft) :
    St.Q F s (t.modEv e f) := h.trans (modEv_self _ _ _ hf)

end St.Q

/-! ## the tactic -/

/-- one step of `st_q`; extended by `macro_rules` (later rules are tried first) -/
syntax "st_q1" : tactic
macro_rules | `(tactic| st_q1) => `(tactic| split)
macro_rules | `(tactic| st_q1) => `(tactic| with_reducible apply St.Q.addWait)
macro_rules | `(tactic| st_q1) => `(tactic| with_reducible apply St.Q.addGen)
macro_rules | `(tactic| st_q1) => `(tactic| with_reducible apply St.Q.addH)
macro_rules | `(tactic| st_q1) => `(tactic| with_reducible apply St.Q.addEv)
macro_rules | `(tactic| st_q1) => `(tactic| with_reducible apply St.Q.setGen)
macro_rules | `(tactic| st_q1) => `(tactic| with_reducible apply St.Q.modWait)
macro_rules | `(tactic| st_q1) => `(tactic| with_reducible apply St.Q.modComp)
macro_rules | `(tactic| st_q1) => `(tactic| ((with_reducible apply St.Q.logE); case hx => rfl))
macro_rules | `(tactic| st_q1) => `(tactic| ((with_reducible apply St.Q.modEv); case hf => exact fun _ => rfl))
macro_rules | `(tactic| st_q1) => `(tactic| with_reducible assumption)
macro_rules | `(tactic| st_q1) => `(tactic| with_reducible exact St.Q.refl _)

/-- apply `st_q1` as long as it applies (committed choice: no backtracking) -/
macro "st_q" : tactic => `(tactic| repeat' st_q1)

/-- unfold a helper, inline its `let`s, then `st_q` -/
macro "st_q_unfold" ids:ident+ : tactic => `(tactic| (unfold $[$ids]*; (try dsimp only); st_q))

/-! ## helpers of `Pure.lean` -/

variable {F : Nat → Prop}

/-- a `foldl` of steps that each respect `Q` respects `Q` -/
theorem St.Q.foldl {s t : St} {α} (g : St → α → St) (hg : ∀ a x, St.Q F s a → St.Q F s (g a x)) (l : List α)
    (h : St.Q F s t) : St.Q F s (l.foldl g t) := by
  induction l generalizing t with
  | nil => exact h
  | cons x l ih => exact ih (hg _ _ h)

theorem St.Q.addHandler {s t : St} (h : St.Q F s t) (x : Nat) : St.Q F s (t.addHandler x) := by
  unfold St.addHandler
  dsimp only
  apply St.Q.modComp
  split
  · st_q
  · split
    · st_q
    · exact St.Q.foldl _ (fun a n ha => ha.modComp _ _) _ h
macro_rules | `(tactic| st_q1) => `(tactic| with_reducible apply St.Q.addHandler)

theorem St.Q.removeHandler {s t : St} (h : St.Q F s t) (x : Nat) (n : Option Name) :
    St.Q F s ((t.removeHandler x n).2) := by
  st_q_unfold St.removeHandler
macro_rules | `(tactic| st_q1) => `(tactic| with_reducible apply St.Q.removeHandler)

/-- `fire` from another thread wakes a sleeping `generate_events`: `timeLeft := 0` -/
theorem St.Q.wake {s t : St} (h : St.Q F s t) (e : Nat) :
    St.Q F s (t.modEv e fun x => { x with timeLeft := if x.timeLeft < 0 || x.timeLeft > 0 then 0 else x.timeLeft }) := by
  refine h.trans (St.Q.modEv_lower _ _ _ ?_)
  intro x hx
  dsimp only
  split <;> omega
macro_rules | `(tactic| st_q1) => `(tactic| with_reducible apply St.Q.wake)

theorem St.Q.fireContext {s t : St} (h : St.Q F s t) (r e : Nat) :
    St.Q F s (t.fireContext r e) := by
  st_q_unfold St.fireContext
macro_rules | `(tactic| st_q1) => `(tactic| with_reducible apply St.Q.fireContext)

/-- logging the firing of an event object that is fresh with respect to `s` (or permitted) -/
theorem St.Q.logFire {s t : St} (h : St.Q F s t) (e : Nat) (n : Name) (ch : List Chan) (p : Int)
    (he : s.evs.length ≤ e ∨ F e) : St.Q F s (t.logE (.fire e n ch p)) := by
  obtain ⟨es, e1, q1⟩ := h.hist
  refine ⟨h.clock, h.evs, h.comps, ⟨.fire e n ch p :: es, by simp [St.logE, e1], ?_⟩, h.tl, h.timers, h.tlen⟩
  intro x hx
  rcases List.mem_cons.mp hx with rfl | hx
  · exact .inr ⟨e, n, ch, p, rfl, he⟩
  · exact q1 x hx

theorem St.Q.fireRaw {s t : St} (h : St.Q F s t) (self e : Nat) (chans : List Chan) (prio : Int)
    (he : s.evs.length ≤ e ∨ F e) : St.Q F s (t.fireRaw self e chans prio) := by
  unfold St.fireRaw
  dsimp only
  apply St.Q.logFire _ _ _ _ _ he
  st_q

theorem St.Q.childEv {s t : St} (h : St.Q F s t) (p sfx : Nat) :
    St.Q F s (t.childEv p sfx) := by
  st_q_unfold St.childEv
macro_rules | `(tactic| st_q1) => `(tactic| with_reducible apply St.Q.childEv)

theorem St.Q.fireChild {s t : St} (h : St.Q F s t) (self p sfx : Nat) (chans : List Chan) :
    St.Q F s (t.fireChild self p sfx chans) := by
  unfold St.fireChild
  exact St.Q.fireRaw (by st_q) _ _ _ _ (.inl h.evs)
macro_rules | `(tactic| st_q1) => `(tactic| with_reducible apply St.Q.fireChild)

theorem St.Q.inform {s t : St} (h : St.Q F s t) (e : Nat) (force : Bool) :
    St.Q F s (t.inform e force) := by
  st_q_unfold St.inform
macro_rules | `(tactic| st_q1) => `(tactic| with_reducible apply St.Q.inform)

theorem St.Q.setValue {s t : St} (h : St.Q F s t) (e : Nat) (x : VItem) :
    St.Q F s (t.setValue e x) := by
  st_q_unfold St.setValue
macro_rules | `(tactic| st_q1) => `(tactic| with_reducible apply St.Q.setValue)

theorem St.Q.fireTmplEv {s t : St} (h : St.Q F s t) (self : Nat) (ev : Ev) (target : Option Chan) (prio : Int) :
    St.Q F s (t.fireTmplEv self ev target prio) := by
  unfold St.fireTmplEv
  exact St.Q.fireRaw (by st_q) _ _ _ _ (.inl h.evs)
macro_rules | `(tactic| st_q1) => `(tactic| with_reducible apply St.Q.fireTmplEv)

theorem St.Q.effectDone1 {s t : St} (h : St.Q F s t) (r e : Nat) (announce : Bool) :
    St.Q F s ((t.effectDone1 r e announce).2) := by
  st_q_unfold St.effectDone1
macro_rules | `(tactic| st_q1) => `(tactic| with_reducible apply St.Q.effectDone1)

theorem St.Q.eventDonePre {s t : St} (h : St.Q F s t) (r e : Nat) (err : Bool) :
    St.Q F s ((t.eventDonePre r e err).2) := by
  st_q_unfold St.eventDonePre
macro_rules | `(tactic| st_q1) => `(tactic| with_reducible apply St.Q.eventDonePre)

theorem St.Q.registerTask {s t : St} (h : St.Q F s t) (c : Nat) (x : Task) :
    St.Q F s (t.registerTask c x) := by
  st_q_unfold St.registerTask
macro_rules | `(tactic| st_q1) => `(tactic| with_reducible apply St.Q.registerTask)

theorem St.Q.unregisterTask {s t : St} (h : St.Q F s t) (c : Nat) (x : Task) :
    St.Q F s (t.unregisterTask c x) := by
  st_q_unfold St.unregisterTask
macro_rules | `(tactic| st_q1) => `(tactic| with_reducible apply St.Q.unregisterTask)

theorem St.Q.reduceTimeLeft {s t : St} (h : St.Q F s t) (e : Nat) (d : Int) :
    St.Q F s (t.reduceTimeLeft e d) := by
  unfold St.reduceTimeLeft
  refine h.trans (St.Q.modEv_lower _ _ _ ?_)
  intro x hx
  split
  · rename_i hc
    simp only [Bool.and_eq_true, Bool.or_eq_true, decide_eq_true_eq] at hc
    dsimp only
    omega
  · exact ⟨hx, Int.le_refl _⟩
macro_rules | `(tactic| st_q1) => `(tactic| with_reducible apply St.Q.reduceTimeLeft)

theorem St.Q.registerPre {s t : St} (h : St.Q F s t) (c p : Nat) :
    St.Q F s ((t.registerPre c p).2) := by
  st_q_unfold St.registerPre
macro_rules | `(tactic| st_q1) => `(tactic| with_reducible apply St.Q.registerPre)

theorem St.Q.registerFin {s t : St} (h : St.Q F s t) (c : Nat) :
    St.Q F s (t.registerFin c) := by
  st_q_unfold St.registerFin
macro_rules | `(tactic| st_q1) => `(tactic| with_reducible apply St.Q.registerFin)

theorem St.Q.unregister {s t : St} (h : St.Q F s t) (c : Nat) :
    St.Q F s (t.unregister c) := by
  st_q_unfold St.unregister
macro_rules | `(tactic| st_q1) => `(tactic| with_reducible apply St.Q.unregister)

theorem St.Q.prepUnregPre {s t : St} (h : St.Q F s t) (c : Nat) :
    St.Q F s (t.prepUnregPre c) := by
  st_q_unfold St.prepUnregPre
macro_rules | `(tactic| st_q1) => `(tactic| with_reducible apply St.Q.prepUnregPre)

theorem St.Q.prepUnregFin {s t : St} (h : St.Q F s t) (c : Nat) :
    St.Q F s (t.prepUnregFin c) := by
  st_q_unfold St.prepUnregFin
macro_rules | `(tactic| st_q1) => `(tactic| with_reducible apply St.Q.prepUnregFin)

theorem St.Q.actFire {s t : St} (h : St.Q F s t) (self i : Nat) (target : Option Chan) (prio : Int) (cancel : Bool) :
    St.Q F s (t.actFire self i target prio cancel) := by
  st_q_unfold St.actFire
macro_rules | `(tactic| st_q1) => `(tactic| with_reducible apply St.Q.actFire)

theorem St.Q.actStopEv {s t : St} (h : St.Q F s t) (ev : Option Nat) :
    St.Q F s (t.actStopEv ev) := by
  st_q_unfold St.actStopEv
macro_rules | `(tactic| st_q1) => `(tactic| with_reducible apply St.Q.actStopEv)

/-- `modTimer` with a function that only (re)arms the record it is applied to -/
theorem St.Q.modTimer_step (t : St) (i : Nat) (f : TimerSt → TimerSt)
    (hf : ∀ x, t.timers[i]? = some x → TimerSt.Step t.clock x (f x)) : St.Q F t (t.modTimer i f) := by
  refine ⟨rfl, Nat.le_refl _, rfl, ⟨[], rfl, by simp⟩, fun e h => ⟨h, Int.le_refl _⟩, ?_, by simp [St.modTimer]⟩
  intro j tm h
  simp only [St.modTimer, List.getElem?_modify, h, Option.map_eq_map, Option.map_some]
  refine ⟨_, rfl, ?_⟩
  split
  · rename_i hij; subst hij; exact hf tm h
  · exact TimerSt.Step.refl _ _

theorem St.Q.timerReset {s t : St} (h : St.Q F s t) (i : Nat) :
    St.Q F s (t.timerReset i) := by
  unfold St.timerReset
  refine h.trans (St.Q.modTimer_step _ _ _ ?_)
  intro x _
  split
  · rename_i hc; exact ⟨rfl, rfl, rfl, rfl, rfl, rfl, rfl, .inr ⟨hc, rfl⟩⟩
  · exact TimerSt.Step.refl _ _
macro_rules | `(tactic| st_q1) => `(tactic| with_reducible apply St.Q.timerReset)

theorem St.Q.timerCreate {s t : St} (h : St.Q F s t) (i : Nat) :
    St.Q F s (t.timerCreate i) := by
  unfold St.timerCreate
  refine h.trans (St.Q.modTimer_step _ _ _ ?_)
  intro x _
  exact ⟨rfl, rfl, rfl, rfl, rfl, rfl, rfl, .inr ⟨rfl, rfl⟩⟩
macro_rules | `(tactic| st_q1) => `(tactic| with_reducible apply St.Q.timerCreate)

-- `St.timerTick` is not quiet: see `timerTick_cases` below

theorem St.Q.startWait {s t : St} (h : St.Q F s t) (w : Nat) :
    St.Q F s (t.startWait w) := by
  st_q_unfold St.startWait
macro_rules | `(tactic| st_q1) => `(tactic| with_reducible apply St.Q.startWait)

/-! ## pure pieces of `Step.lean` -/

theorem St.Q.stopBegin {s t : St} (h : St.Q F s t) (c : Nat) :
    St.Q F s (t.stopBegin c) := by
  st_q_unfold St.stopBegin
macro_rules | `(tactic| st_q1) => `(tactic| with_reducible apply St.Q.stopBegin)

theorem St.Q.stopSetCode {s t : St} (h : St.Q F s t) (r : Nat) (code : Code) :
    St.Q F s (t.stopSetCode r code) := by
  st_q_unfold St.stopSetCode
macro_rules | `(tactic| st_q1) => `(tactic| with_reducible apply St.Q.stopSetCode)

theorem St.Q.genCall {s t : St} (h : St.Q F s t) (owner i : Nat) (target : Option Chan) (timeout : Option Nat) :
    St.Q F s (t.genCall owner i target timeout) := by
  st_q_unfold St.genCall
macro_rules | `(tactic| st_q1) => `(tactic| with_reducible apply St.Q.genCall)

theorem St.Q.genWait {s t : St} (h : St.Q F s t) (owner : Nat) (name : Name) (target : Option Chan) (timeout : Option Nat) :
    St.Q F s (t.genWait owner name target timeout) := by
  st_q_unfold St.genWait
macro_rules | `(tactic| st_q1) => `(tactic| with_reducible apply St.Q.genWait)

theorem St.Q.resumeGenPre {s t : St} (h : St.Q F s t) (g : Nat) (silent : Bool) :
    St.Q F s (t.resumeGenPre g silent) := by
  st_q_unfold St.resumeGenPre
macro_rules | `(tactic| st_q1) => `(tactic| with_reducible apply St.Q.resumeGenPre)

theorem St.Q.stopIteration {s t : St} (h : St.Q F s t) (r : Nat) (x : Task) :
    St.Q F s ((t.stopIteration r x).2) := by
  st_q_unfold St.stopIteration
macro_rules | `(tactic| st_q1) => `(tactic| with_reducible apply St.Q.stopIteration)

theorem St.Q.fireException {s t : St} (h : St.Q F s t) (r e : Nat) :
    St.Q F s (t.fireException r e) := by
  st_q_unfold St.fireException
macro_rules | `(tactic| st_q1) => `(tactic| with_reducible apply St.Q.fireException)

theorem St.Q.errorBranch {s t : St} (h : St.Q F s t) (r : Nat) (x : Task) (resumed : Bool) :
    St.Q F s ((t.errorBranch r x resumed).2) := by
  st_q_unfold St.errorBranch
macro_rules | `(tactic| st_q1) => `(tactic| with_reducible apply St.Q.errorBranch)

theorem St.Q.ownSub {s t : St} (h : St.Q F s t) (r : Nat) (x : Task) (w : Nat) :
    St.Q F s (t.ownSub r x w) := by
  st_q_unfold St.ownSub
macro_rules | `(tactic| st_q1) => `(tactic| with_reducible apply St.Q.ownSub)

theorem St.Q.setValueOpt {s t : St} (h : St.Q F s t) (e : Nat) (v : Option Nat) :
    St.Q F s (t.setValueOpt e v) := by
  st_q_unfold St.setValueOpt
macro_rules | `(tactic| st_q1) => `(tactic| with_reducible apply St.Q.setValueOpt)

theorem St.Q.parentSub {s t : St} (h : St.Q F s t) (r : Nat) (x : Task) (p w2 : Nat) (viaThrow : Bool) :
    St.Q F s (t.parentSub r x p w2 viaThrow) := by
  st_q_unfold St.parentSub
macro_rules | `(tactic| st_q1) => `(tactic| with_reducible apply St.Q.parentSub)

theorem St.Q.parentPlain {s t : St} (h : St.Q F s t) (r : Nat) (x : Task) (p : Nat) (v : Option Nat) (viaThrow : Bool) :
    St.Q F s (t.parentPlain r x p v viaThrow) := by
  st_q_unfold St.parentPlain
macro_rules | `(tactic| st_q1) => `(tactic| with_reducible apply St.Q.parentPlain)

theorem St.Q.onWaitEvent {s t : St} (h : St.Q F s t) (w e : Nat) :
    St.Q F s ((t.onWaitEvent w e).2) := by
  st_q_unfold St.onWaitEvent
macro_rules | `(tactic| st_q1) => `(tactic| with_reducible apply St.Q.onWaitEvent)

theorem St.Q.onWaitDone {s t : St} (h : St.Q F s t) (w e : Nat) :
    St.Q F s ((t.onWaitDone w e).2) := by
  st_q_unfold St.onWaitDone
macro_rules | `(tactic| st_q1) => `(tactic| with_reducible apply St.Q.onWaitDone)

theorem St.Q.onWaitTick {s t : St} (h : St.Q F s t) (w : Nat) :
    St.Q F s ((t.onWaitTick w).2) := by
  st_q_unfold St.onWaitTick
macro_rules | `(tactic| st_q1) => `(tactic| with_reducible apply St.Q.onWaitTick)

-- `St.onFallbackGE` is not quiet: see `onFallbackGE_q` below

theorem St.Q.computeHandlers {s t : St} (h : St.Q F s t) (r : Nat) (name : Name) (chans : List Chan) :
    St.Q F s ((t.computeHandlers r name chans).2) := by
  st_q_unfold St.computeHandlers
macro_rules | `(tactic| st_q1) => `(tactic| with_reducible apply St.Q.computeHandlers)

theorem St.Q.dispComplete {s t : St} (h : St.Q F s t) (e : Nat) (ev : Ev) :
    St.Q F s (t.dispComplete e ev) := by
  st_q_unfold St.dispComplete
macro_rules | `(tactic| st_q1) => `(tactic| with_reducible apply St.Q.dispComplete)

theorem St.Q.cacheRefresh {s t : St} (h : St.Q F s t) (r : Nat) :
    St.Q F s (t.cacheRefresh r) := by
  st_q_unfold St.cacheRefresh
macro_rules | `(tactic| st_q1) => `(tactic| with_reducible apply St.Q.cacheRefresh)

theorem St.Q.lookupHandlers {s t : St} (h : St.Q F s t) (r : Nat) (name : Name) (chans : List Chan) :
    St.Q F s ((t.lookupHandlers r name chans).2) := by
  st_q_unfold St.lookupHandlers
macro_rules | `(tactic| st_q1) => `(tactic| with_reducible apply St.Q.lookupHandlers)

theorem St.Q.dispGE {s t : St} (h : St.Q F s t) (r e remaining : Nat) (name : Name) :
    St.Q F s (t.dispGE r e remaining name) := by
  st_q_unfold St.dispGE
macro_rules | `(tactic| st_q1) => `(tactic| with_reducible apply St.Q.dispGE)

theorem St.Q.dispatchPre {s t : St} (h : St.Q F s t) (r e remaining : Nat) :
    St.Q F s ((t.dispatchPre r e remaining).2) := by
  st_q_unfold St.dispatchPre
macro_rules | `(tactic| st_q1) => `(tactic| with_reducible apply St.Q.dispatchPre)

theorem St.Q.handlerRaised {s t : St} (h : St.Q F s t) (r e : Nat) :
    St.Q F s (t.handlerRaised r e) := by
  st_q_unfold St.handlerRaised
macro_rules | `(tactic| st_q1) => `(tactic| with_reducible apply St.Q.handlerRaised)

theorem St.Q.applyValue {s t : St} (h : St.Q F s t) (r e : Nat) (value : Outcome) :
    St.Q F s (t.applyValue r e value) := by
  st_q_unfold St.applyValue
macro_rules | `(tactic| st_q1) => `(tactic| with_reducible apply St.Q.applyValue)

theorem St.Q.geTasksCheck {s t : St} (h : St.Q F s t) (r e : Nat) :
    St.Q F s (t.geTasksCheck r e) := by
  st_q_unfold St.geTasksCheck
macro_rules | `(tactic| st_q1) => `(tactic| with_reducible apply St.Q.geTasksCheck)

theorem St.Q.flushBegin {s t : St} (h : St.Q F s t) (r : Nat) :
    St.Q F s (t.flushBegin r) := by
  st_q_unfold St.flushBegin
macro_rules | `(tactic| st_q1) => `(tactic| with_reducible apply St.Q.flushBegin)

-- `St.tickGenerate` is not quiet: see `tickGenerate_q` below

theorem St.Q.runBegin {s t : St} (h : St.Q F s t) (c : Nat) :
    St.Q F s (t.runBegin c) := by
  st_q_unfold St.runBegin
macro_rules | `(tactic| st_q1) => `(tactic| with_reducible apply St.Q.runBegin)

theorem St.Q.runEnd {s t : St} (h : St.Q F s t) (c : Nat) :
    St.Q F s ((t.runEnd c).2) := by
  st_q_unfold St.runEnd
macro_rules | `(tactic| st_q1) => `(tactic| with_reducible apply St.Q.runEnd)

theorem St.Q.actStep {s t : St} (h : St.Q F s t) (ctx : HCtx) (a : Act) : St.Q F s (actStep t ctx a).st := by
  cases a <;> (unfold CV.Core.actStep; (try dsimp only); st_q)
macro_rules | `(tactic| st_q1) => `(tactic| with_reducible apply St.Q.actStep)

/-! ## the arms of `step` -/

macro_rules
  | `(tactic| st_q1) => `(tactic| simp only [Cfg.pop_st, Cfg.popRet_st, Cfg.raise_st, Cfg.goto_st])

theorem Cfg.effectDone_q (c : Cfg) (k : List Frame) (r e : Nat) (announce : Bool) :
    St.Q F c.st (c.effectDone k r e announce).st := by
  unfold Cfg.effectDone; (try dsimp only); st_q
macro_rules | `(tactic| st_q1) => `(tactic| with_reducible exact Cfg.effectDone_q ..)

theorem Cfg.eventDone_q (c : Cfg) (k : List Frame) (r e : Nat) (err : Bool) :
    St.Q F c.st (c.eventDone k r e err).st := by
  unfold Cfg.eventDone; (try dsimp only); st_q
macro_rules | `(tactic| st_q1) => `(tactic| with_reducible exact Cfg.eventDone_q ..)

theorem St.Q.updateRootAll (s : St) : ∀ (fuel : Nat) (todo : List Nat) (root : Nat) (t : St),
    St.Q F s t → St.Q F s (St.updateRootAll fuel todo root t) := by
  intro fuel
  induction fuel with
  | zero => intro todo root t h; simpa [St.updateRootAll] using h
  | succ n ih =>
    intro todo root t h
    cases todo with
    | nil => simpa [St.updateRootAll] using h
    | cons x rest =>
      simp only [St.updateRootAll]
      apply ih
      st_q

macro_rules | `(tactic| st_q1) => `(tactic| with_reducible apply St.Q.updateRootAll)

theorem Cfg.updateRoot_q (c : Cfg) (k : List Frame) (todo : List Nat) (root : Nat) :
    St.Q F c.st (c.updateRoot k todo root).st := by
  unfold Cfg.updateRoot; (try dsimp only)
  simp only [Cfg.pop_st]
  exact St.Q.updateRootAll _ _ _ _ _ (St.Q.refl _)
macro_rules | `(tactic| st_q1) => `(tactic| with_reducible exact Cfg.updateRoot_q ..)

theorem Cfg.register_q (c : Cfg) (k : List Frame) (x p : Nat) :
    St.Q F c.st (c.register k x p).st := by
  unfold Cfg.register; (try dsimp only); st_q
macro_rules | `(tactic| st_q1) => `(tactic| with_reducible exact Cfg.register_q ..)

theorem Cfg.registerFin_q (c : Cfg) (k : List Frame) (x : Nat) :
    St.Q F c.st (c.registerFin k x).st := by
  unfold Cfg.registerFin; (try dsimp only); st_q
macro_rules | `(tactic| st_q1) => `(tactic| with_reducible exact Cfg.registerFin_q ..)

theorem Cfg.prepUnregFin_q (c : Cfg) (k : List Frame) (x : Nat) :
    St.Q F c.st (c.prepUnregFin k x).st := by
  unfold Cfg.prepUnregFin; (try dsimp only); st_q
macro_rules | `(tactic| st_q1) => `(tactic| with_reducible exact Cfg.prepUnregFin_q ..)

theorem Cfg.stopMgr_q (c : Cfg) (k : List Frame) (x : Nat) (code : Code) :
    St.Q F c.st (c.stopMgr k x code).st := by
  unfold Cfg.stopMgr; (try dsimp only); st_q
macro_rules | `(tactic| st_q1) => `(tactic| with_reducible exact Cfg.stopMgr_q ..)

theorem Cfg.ticks_q (c : Cfg) (k : List Frame) (x n : Nat) :
    St.Q F c.st (c.ticks k x n).st := by
  unfold Cfg.ticks; (try dsimp only); st_q
macro_rules | `(tactic| st_q1) => `(tactic| with_reducible exact Cfg.ticks_q ..)

theorem Cfg.stopFin_q (c : Cfg) (k : List Frame) (code : Code) :
    St.Q F c.st (c.stopFin k code).st := by
  unfold Cfg.stopFin; (try dsimp only); st_q
macro_rules | `(tactic| st_q1) => `(tactic| with_reducible exact Cfg.stopFin_q ..)

theorem Cfg.timerNew_q (c : Cfg) (k : List Frame) (i : Nat) :
    St.Q F c.st (c.timerNew k i).st := by
  unfold Cfg.timerNew; (try dsimp only); st_q
macro_rules | `(tactic| st_q1) => `(tactic| with_reducible exact Cfg.timerNew_q ..)

theorem Cfg.acts_q (c : Cfg) (k : List Frame) (ctx : HCtx) (prog : Prog) :
    St.Q F c.st (c.acts k ctx prog).st := by
  unfold Cfg.acts; (try dsimp only); st_q
macro_rules | `(tactic| st_q1) => `(tactic| with_reducible exact Cfg.acts_q ..)

theorem Cfg.doFin_q (c : Cfg) (k : List Frame) (x : Nat) :
    St.Q F c.st (c.doFin k x).st := by
  unfold Cfg.doFin; (try dsimp only); st_q
macro_rules | `(tactic| st_q1) => `(tactic| with_reducible exact Cfg.doFin_q ..)

theorem Cfg.drainQ_q (c : Cfg) (k : List Frame) (x : Nat) :
    St.Q F c.st (c.drainQ k x).st := by
  unfold Cfg.drainQ; (try dsimp only); st_q
macro_rules | `(tactic| st_q1) => `(tactic| with_reducible exact Cfg.drainQ_q ..)

theorem Cfg.stepGen_q (c : Cfg) (k : List Frame) (g : Nat) :
    St.Q F c.st (c.stepGen k g).st := by
  unfold Cfg.stepGen; (try dsimp only); st_q
macro_rules | `(tactic| st_q1) => `(tactic| with_reducible exact Cfg.stepGen_q ..)

theorem Cfg.processTask_q (c : Cfg) (k : List Frame) (r : Nat) (x : Task) :
    St.Q F c.st (c.processTask k r x).st := by
  unfold Cfg.processTask; (try dsimp only); st_q
macro_rules | `(tactic| st_q1) => `(tactic| with_reducible exact Cfg.processTask_q ..)

theorem Cfg.contStop_q {s0 : St} (c : Cfg) (k : List Frame) (s : St) (r : Nat) (x : Task) (hle : St.Q F s0 s) :
    St.Q F s0 (c.contStop k s r x).st := by
  unfold Cfg.contStop; (try dsimp only); st_q
macro_rules | `(tactic| st_q1) => `(tactic| with_reducible apply Cfg.contStop_q)

theorem Cfg.contError_q {s0 : St} (c : Cfg) (k : List Frame) (s : St) (r : Nat) (x : Task) (resumed : Bool) (hle : St.Q F s0 s) :
    St.Q F s0 (c.contError k s r x resumed).st := by
  unfold Cfg.contError; (try dsimp only); st_q
macro_rules | `(tactic| st_q1) => `(tactic| with_reducible apply Cfg.contError_q)

theorem Cfg.ptBodyWait_q (c : Cfg) (k : List Frame) (r : Nat) (x : Task) (w : Nat) :
    St.Q F c.st (c.ptBodyWait k r x w).st := by
  unfold Cfg.ptBodyWait; (try dsimp only); st_q
macro_rules | `(tactic| st_q1) => `(tactic| with_reducible exact Cfg.ptBodyWait_q ..)

theorem Cfg.ptBodyExc_q (c : Cfg) (k : List Frame) (r : Nat) (x : Task) (w : Nat) (fired : Bool) :
    St.Q F c.st (c.ptBodyExc k r x w fired).st := by
  unfold Cfg.ptBodyExc; (try dsimp only); st_q
macro_rules | `(tactic| st_q1) => `(tactic| with_reducible exact Cfg.ptBodyExc_q ..)

theorem Cfg.ptBody_q (c : Cfg) (k : List Frame) (r : Nat) (x : Task) :
    St.Q F c.st (c.ptBody k r x).st := by
  unfold Cfg.ptBody; (try dsimp only); st_q
macro_rules | `(tactic| st_q1) => `(tactic| with_reducible exact Cfg.ptBody_q ..)

theorem Cfg.ptOwn_q (c : Cfg) (k : List Frame) (r : Nat) (x : Task) :
    St.Q F c.st (c.ptOwn k r x).st := by
  unfold Cfg.ptOwn; (try dsimp only); st_q
macro_rules | `(tactic| st_q1) => `(tactic| with_reducible exact Cfg.ptOwn_q ..)

theorem Cfg.ptParent_q (c : Cfg) (k : List Frame) (r : Nat) (x : Task) (p : Nat) (viaThrow : Bool) :
    St.Q F c.st (c.ptParent k r x p viaThrow).st := by
  unfold Cfg.ptParent; (try dsimp only); st_q
macro_rules | `(tactic| st_q1) => `(tactic| with_reducible exact Cfg.ptParent_q ..)

theorem Cfg.ptFin_q (c : Cfg) (k : List Frame) (r : Nat) (handling : Option Nat) :
    St.Q F c.st (c.ptFin k r handling).st := by
  unfold Cfg.ptFin; (try dsimp only); st_q
macro_rules | `(tactic| st_q1) => `(tactic| with_reducible exact Cfg.ptFin_q ..)

theorem Cfg.dispatcher_q (c : Cfg) (k : List Frame) (r e remaining : Nat) :
    St.Q F c.st (c.dispatcher k r e remaining).st := by
  unfold Cfg.dispatcher; (try dsimp only); st_q
macro_rules | `(tactic| st_q1) => `(tactic| with_reducible exact Cfg.dispatcher_q ..)

theorem Cfg.hLoop_q (c : Cfg) (k : List Frame) (r e : Nat) (hs : List Nat) (err : Bool) (stale : Outcome) :
    St.Q F c.st (c.hLoop k r e hs err stale).st := by
  unfold Cfg.hLoop; (try dsimp only); st_q
macro_rules | `(tactic| st_q1) => `(tactic| with_reducible exact Cfg.hLoop_q ..)

theorem Cfg.invokeUser_q {s0 : St} (c : Cfg) (k : List Frame) (s : St) (h e owner p : Nat) (hle : St.Q F s0 s) :
    St.Q F s0 (c.invokeUser k s h e owner p).st := by
  unfold Cfg.invokeUser; (try dsimp only); st_q
macro_rules | `(tactic| st_q1) => `(tactic| with_reducible apply Cfg.invokeUser_q)

/-- invoking any handler except a timer's and the fallback generator is quiet -/
theorem Cfg.invoke_q (c : Cfg) (k : List Frame) (r h e : Nat)
    (h1 : ∀ t, (c.st.handler h).kind ≠ .timer t) (h2 : (c.st.handler h).kind ≠ .fallbackGE) :
    St.Q F c.st (c.invoke k r h e).st := by
  unfold Cfg.invoke; (try dsimp only)
  split
  case h_6 t hk => exact absurd hk (h1 t)
  case h_7 hk => exact absurd hk h2
  all_goals st_q

theorem Cfg.invokeFin_q (c : Cfg) (k : List Frame) (e h : Nat) :
    St.Q F c.st (c.invokeFin k e h).st := by
  unfold Cfg.invokeFin; (try dsimp only); st_q
macro_rules | `(tactic| st_q1) => `(tactic| with_reducible exact Cfg.invokeFin_q ..)

theorem Cfg.hAfter_q (c : Cfg) (k : List Frame) (r e : Nat) (rest : List Nat) (err : Bool) (stale : Outcome) :
    St.Q F c.st (c.hAfter k r e rest err stale).st := by
  unfold Cfg.hAfter; (try dsimp only); st_q
macro_rules | `(tactic| st_q1) => `(tactic| with_reducible exact Cfg.hAfter_q ..)

theorem Cfg.hApply_q (c : Cfg) (k : List Frame) (r e : Nat) (rest : List Nat) (err : Bool) (value : Outcome) :
    St.Q F c.st (c.hApply k r e rest err value).st := by
  unfold Cfg.hApply; (try dsimp only); st_q
macro_rules | `(tactic| st_q1) => `(tactic| with_reducible exact Cfg.hApply_q ..)

theorem Cfg.dispFin_q (c : Cfg) (k : List Frame) (r e : Nat) (err : Bool) :
    St.Q F c.st (c.dispFin k r e err).st := by
  unfold Cfg.dispFin; (try dsimp only); st_q
macro_rules | `(tactic| st_q1) => `(tactic| with_reducible exact Cfg.dispFin_q ..)

theorem Cfg.dispatchLoop_q (c : Cfg) (k : List Frame) (r : Nat) :
    St.Q F c.st (c.dispatchLoop k r).st := by
  unfold Cfg.dispatchLoop; (try dsimp only); st_q
macro_rules | `(tactic| st_q1) => `(tactic| with_reducible exact Cfg.dispatchLoop_q ..)

theorem Cfg.flush_q (c : Cfg) (k : List Frame) (x : Nat) :
    St.Q F c.st (c.flush k x).st := by
  unfold Cfg.flush; (try dsimp only); st_q
macro_rules | `(tactic| st_q1) => `(tactic| with_reducible exact Cfg.flush_q ..)

theorem Cfg.flushFin_q (c : Cfg) (k : List Frame) (r : Nat) (old : Bool) :
    St.Q F c.st (c.flushFin k r old).st := by
  unfold Cfg.flushFin; (try dsimp only); st_q
macro_rules | `(tactic| st_q1) => `(tactic| with_reducible exact Cfg.flushFin_q ..)

theorem Cfg.tick_q (c : Cfg) (k : List Frame) (x : Nat) :
    St.Q F c.st (c.tick k x).st := by
  unfold Cfg.tick; (try dsimp only); st_q
macro_rules | `(tactic| st_q1) => `(tactic| with_reducible exact Cfg.tick_q ..)

theorem Cfg.taskLoop_q (c : Cfg) (k : List Frame) (x : Nat) (ts : List Task) :
    St.Q F c.st (c.taskLoop k x ts).st := by
  unfold Cfg.taskLoop; (try dsimp only); st_q
macro_rules | `(tactic| st_q1) => `(tactic| with_reducible exact Cfg.taskLoop_q ..)

theorem Cfg.tickFin_q (c : Cfg) (k : List Frame) (x : Nat) (old : Bool) :
    St.Q F c.st (c.tickFin k x old).st := by
  unfold Cfg.tickFin; (try dsimp only); st_q
macro_rules | `(tactic| st_q1) => `(tactic| with_reducible exact Cfg.tickFin_q ..)

-- `Cfg.tickGen` advances the clock: see `Cfg.tickGen_q` below

theorem Cfg.run_q (c : Cfg) (k : List Frame) (x : Nat) :
    St.Q F c.st (c.run k x).st := by
  unfold Cfg.run; (try dsimp only); st_q
macro_rules | `(tactic| st_q1) => `(tactic| with_reducible exact Cfg.run_q ..)

theorem Cfg.runLoop_q (c : Cfg) (k : List Frame) (x : Nat) :
    St.Q F c.st (c.runLoop k x).st := by
  unfold Cfg.runLoop; (try dsimp only); st_q
macro_rules | `(tactic| st_q1) => `(tactic| with_reducible exact Cfg.runLoop_q ..)

theorem Cfg.runFin_q (c : Cfg) (k : List Frame) (x : Nat) :
    St.Q F c.st (c.runFin k x).st := by
  unfold Cfg.runFin; (try dsimp only); st_q
macro_rules | `(tactic| st_q1) => `(tactic| with_reducible exact Cfg.runFin_q ..)

theorem Cfg.runCatchExn_q (c : Cfg) (k : List Frame) (x : Nat) (ex : Exn) :
    St.Q F c.st (c.runCatchExn k x ex).st := by
  unfold Cfg.runCatchExn; (try dsimp only); st_q
macro_rules | `(tactic| st_q1) => `(tactic| with_reducible exact Cfg.runCatchExn_q ..)

theorem Cfg.runRethrow_q (c : Cfg) (k : List Frame) (ex : Exn) :
    St.Q F c.st (c.runRethrow k ex).st := by
  unfold Cfg.runRethrow; (try dsimp only); st_q
macro_rules | `(tactic| st_q1) => `(tactic| with_reducible exact Cfg.runRethrow_q ..)




end CV.Core

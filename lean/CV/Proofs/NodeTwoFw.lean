import CV.Proofs.NodeTwoMain
/-
C19, two-party composition with a *rejecting* receive firewall on B (generalisation of
CV/Proofs/NodeTwo.lean .. NodeTwoMain.lean, where `n2_Hyp.recvOk` assumes every call passes).

A call whose decoded event fails `E.recvOkB` is answered at once, during the `deliverAB` step that
processes its packet, with value `null` and the attributes of the decoded event; it is never
dispatched (not in `fired` / `running`).  The handler number given to `E.beh` is the *rank* of the
call among the accepted ones.

Part 1: expectations, hypotheses, packet-level lemmas, the invariant, `init` and `send`.
-/
namespace CV
namespace Node

section expected
variable (E : n2_Env) (calls : List Ev)

/-- does B's receive firewall accept call i -/
def n2f_acc (i : Nat) : Bool := E.recvOkB (n2_evB E calls i)
/-- number of accepted calls before call i = the handler number of call i (if accepted) -/
def n2f_rank (i : Nat) : Nat := ((List.range i).filter (n2f_acc E calls)).length
/-- value A gets for call i: the handler's, or `null` from the firewall -/
def n2f_val (i : Nat) : J :=
  if n2f_acc E calls i then ((E.beh (n2f_rank E calls i) (n2_evB E calls i)).getD (.null, [])).1 else .null
def n2f_ats (i : Nat) : List (String × J) :=
  if n2f_acc E calls i then ((E.beh (n2f_rank E calls i) (n2_evB E calls i)).getD (.null, [])).2
  else (n2_evB E calls i).attrs
def n2f_ansJ (i : Nat) : J :=
  dumpValue E.excl (n2_idJ i) (.bool false) (n2f_val E calls i) (n2f_ats E calls i)
def n2f_ansPkt (i : Nat) : Bytes := escTilde (E.dumps (n2f_ansJ E calls i))
def n2f_meta (i : Nat) : List (String × J) :=
  ((n2f_ats E calls i).filter (fun kv => !E.excl.contains kv.1 && !kv.1.startsWith "__")).filter
    (fun kv => metaOk E.excl kv.1)
def n2f_errs (i : Nat) : J :=
  (n2f_meta E calls i).foldl (fun a kv => if kv.1 = "errors" then kv.2 else a) (.bool false)
def n2f_metas (i : Nat) : List (String × J) :=
  (n2f_meta E calls i).foldl (fun a kv => setAttr a kv.1 kv.2) []

def n2f_expRun (i : Nat) : Ev × J × Nat := (n2_evB E calls i, n2_idJ i, n2f_rank E calls i)
def n2f_expRes (i : Nat) : Nat × J × J := (i, n2f_val E calls i, .bool false)
def n2f_expYield (i : Nat) : Nat × List J × J := (i, [n2f_val E calls i], n2f_errs E calls i)
def n2f_expPend (D : List Nat) (i : Nat) : Pending :=
  if i ∈ D then ⟨i, true, [n2f_val E calls i], n2f_errs E calls i, n2f_metas E calls i⟩
  else ⟨i, false, [], .null, []⟩

/-- what B's processing of call packet i does: dispatch, or the firewall's refusal -/
def n2f_effB (i : Nat) : Eff :=
  if n2f_acc E calls i then .fire (n2_evB E calls i) (n2_idJ i) else .write (n2f_ansJ E calls i)

/-- `n2_Hyp` without `recvOk`: B's firewall may reject any of the calls -/
structure n2f_Hyp : Prop where
  codec : CodecOK E.proc
  wf : ∀ i < calls.length, n2_WellFormed (n2_callEv calls i)
  sendOk : ∀ i < calls.length, E.sendOkA (n2_callEv calls i) = true
  /-- B's handlers return, for the calls that are dispatched -/
  returns : ∀ i < calls.length, n2f_acc E calls i = true →
    (E.beh (n2f_rank E calls i) (n2_evB E calls i)).isSome = true
  callParse : ∀ i < calls.length, E.parse (n2_callPkt E calls i) = .parsed (n2_callJ E calls i)
  callGood : ∀ i < calls.length, Good E.proc (n2_callPkt E calls i)
  ansParse : ∀ i < calls.length, E.parse (n2f_ansPkt E calls i) = .parsed (n2f_ansJ E calls i)
  ansGood : ∀ i < calls.length, Good E.proc (n2f_ansPkt E calls i)

end expected

/-! ## packet-level lemmas -/

theorem n2f_call_rejected (c : Cfg) (s : Proto) (e : Ev) (id : J) (hw : n2_WellFormed e)
    (hr : c.recvOk (n2_decoded c.excl e) = false) :
    processJ c s (dumpEvent c.excl e id) =
      (s, [.write (dumpValue c.excl id (.bool false) .null (n2_decoded c.excl e).attrs)]) := by
  have hl := n2_roundtrip c.excl e id hw
  have hv : isValuePacket (dumpEvent c.excl e id) = false := by
    simp [isValuePacket, dumpEvent, J.lookup]
  simp [processJ, hv, hl, hr]

theorem n2f_stream_cons (p : Bytes) (l : List Bytes) : stream (p :: l) = p ++ DELIM ++ stream l := by
  simp [stream]

/-- the sender writes several more packets -/
theorem n2f_rx_writes {proc : Bytes → POut} {R buf : Bytes} {outs : List Bytes} :
    ∀ (l : List Bytes) {pkts : List Bytes}, n2_Rx proc pkts R buf outs →
      n2_Rx proc (pkts ++ l) (R ++ stream l) buf outs := by
  intro l
  induction l generalizing R with
  | nil => intro pkts h; simpa [stream] using h
  | cons p l ih =>
    intro pkts h
    have h1 := ih (n2_rx_write p h)
    rw [n2f_stream_cons]
    simpa [List.append_assoc] using h1

section
variable (E : n2_Env) (calls : List Ev)

theorem n2f_rank_succ (k : Nat) :
    n2f_rank E calls (k + 1) = n2f_rank E calls k + (if n2f_acc E calls k then 1 else 0) := by
  simp only [n2f_rank, List.range_succ, List.filter_append, List.length_append]
  cases ha : n2f_acc E calls k <;> simp [ha]

theorem n2f_effB_acc (i : Nat) (ha : n2f_acc E calls i = true) :
    n2f_effB E calls i = .fire (n2_evB E calls i) (n2_idJ i) := by
  simp [n2f_effB, ha]

theorem n2f_effB_rej (i : Nat) (ha : n2f_acc E calls i = false) :
    n2f_effB E calls i = .write (n2f_ansJ E calls i) := by
  simp [n2f_effB, ha]

theorem n2f_ansJ_rej (i : Nat) (ha : n2f_acc E calls i = false) :
    n2f_ansJ E calls i =
      dumpValue E.cB.excl (n2_idJ i) (.bool false) .null (n2_decoded E.cB.excl (n2_callEv calls i)).attrs := by
  simp [n2f_ansJ, n2f_val, n2f_ats, ha]
  rfl

/-- B processes a run of call packets: a dispatch for an accepted call, a refusal on the wire for
    a rejected one, in order, state untouched -/
theorem n2f_procB (H : n2f_Hyp E calls) (b : Proto) :
    ∀ l : List Nat, (∀ i ∈ l, i < calls.length) →
      processAll E.cB E.parse b (l.map (n2_callPkt E calls)) = (b, l.map (n2f_effB E calls)) := by
  intro l
  induction l with
  | nil => intro _; simp [processAll]
  | cons i l ih =>
    intro h
    have hi := h i (by simp)
    simp only [List.map_cons, processAll, H.callParse i hi]
    have e : n2_callJ E calls i = dumpEvent E.cB.excl (n2_callEv calls i) (n2_idJ i) := rfl
    rw [e]
    cases ha : n2f_acc E calls i with
    | true =>
      rw [n2_call_fired E.cB b (n2_callEv calls i) (n2_idJ i) (H.wf i hi) ha, n2f_effB_acc E calls i ha]
      simp only
      rw [ih (fun j hj => h j (by simp [hj]))]
      rfl
    | false =>
      rw [n2f_call_rejected E.cB b (n2_callEv calls i) (n2_idJ i) (H.wf i hi) ha,
        n2f_effB_rej E calls i ha, n2f_ansJ_rej E calls i ha]
      simp only
      rw [ih (fun j hj => h j (by simp [hj]))]
      rfl

/-- the started handlers get consecutive numbers; the refusals go on the stream B→A in order -/
theorem n2f_absorbB :
    ∀ (m k : Nat) (w : n2_World), w.fired.length = n2f_rank E calls k →
      n2_absorbB E w ((List.range' k m).map (n2f_effB E calls)) =
        { w with
          running := w.running ++ ((List.range' k m).filter (n2f_acc E calls)).map (n2f_expRun E calls),
          fired := w.fired ++ ((List.range' k m).filter (n2f_acc E calls)).map (n2_expFire E calls),
          ba := w.ba ++ stream (((List.range' k m).filter (fun i => !n2f_acc E calls i)).map
                  (n2f_ansPkt E calls)) } := by
  intro m
  induction m with
  | zero => intro k w _; simp [n2_absorbB, stream]
  | succ m ih =>
    intro k w hk
    simp only [List.range'_succ, List.map_cons]
    cases ha : n2f_acc E calls k with
    | true =>
      rw [n2f_effB_acc E calls k ha]
      simp only [n2_absorbB]
      rw [ih (k + 1) _ (by simp [hk, n2f_rank_succ, ha])]
      simp [ha, n2f_expRun, n2_expFire, hk]
    | false =>
      rw [n2f_effB_rej E calls k ha]
      simp only [n2_absorbB]
      rw [ih (k + 1) _ (by simpa [n2f_rank_succ, ha] using hk)]
      simp [ha, n2f_stream_cons, wire, n2f_ansPkt]

theorem n2f_absorbA_resolves :
    ∀ (l : List Nat) (w : n2_World),
      n2_absorbA E w (l.map (fun i => Eff.resolve i (n2f_val E calls i) (.bool false))) =
        { w with resolved := w.resolved ++ l.map (n2f_expRes E calls) } := by
  intro l
  induction l with
  | nil => intro w; simp [n2_absorbA]
  | cons i l ih =>
    intro w
    simp only [List.map_cons, n2_absorbA]
    rw [ih]
    simp [n2f_expRes]

theorem n2f_resolve_map (L D : List Nat) (n : Nat) (hn : n ∉ D) :
    resolvePending (L.map (n2f_expPend E calls D)) n (n2f_val E calls n) (.bool false) (n2f_meta E calls n) =
      L.map (n2f_expPend E calls (D ++ [n])) := by
  unfold resolvePending
  rw [List.map_map]
  apply List.map_congr_left
  intro i _
  by_cases hi : i = n
  · subst hi
    simp [n2f_expPend, hn, n2f_errs, n2f_metas]
  · by_cases hD : i ∈ D
    · simp [n2f_expPend, hD, hi]
    · simp [n2f_expPend, hD, hi]

/-- A processes a run of answer packets -/
theorem n2f_procA (H : n2f_Hyp E calls) (L : List Nat) :
    ∀ (l D : List Nat) (a : Proto), l.Nodup → (∀ i ∈ l, i ∈ L ∧ i ∉ D ∧ i < calls.length) →
      a.pending = L.map (n2f_expPend E calls D) →
      processAll E.cA E.parse a (l.map (n2f_ansPkt E calls)) =
        ({ a with pending := L.map (n2f_expPend E calls (D ++ l)) },
         l.map (fun i => Eff.resolve i (n2f_val E calls i) (.bool false))) := by
  intro l
  induction l with
  | nil => intro D a _ _ hp; simp [processAll, ← hp]
  | cons i l ih =>
    intro D a hnd h hp
    obtain ⟨hiL, hiD, hiN⟩ := h i (by simp)
    have hnd' := List.nodup_cons.mp hnd
    simp only [List.map_cons, processAll, H.ansParse i hiN]
    have hany : a.pending.any (·.id = i) = true := by
      rw [hp]
      simp only [List.any_map, List.any_eq_true]
      refine ⟨i, hiL, ?_⟩
      by_cases hD : i ∈ D <;> simp [n2f_expPend, hD]
    have hroute : processJ E.cA a (n2f_ansJ E calls i) =
        ({ a with pending := resolvePending a.pending i (n2f_val E calls i) (.bool false) (n2f_meta E calls i) },
         [.resolve i (n2f_val E calls i) (.bool false)]) :=
      n2_answer_routed E.cA a i _ _ _ _ _ hany
    rw [hroute]
    simp only
    have hp2 : ({ a with pending := resolvePending a.pending i (n2f_val E calls i) (.bool false) (n2f_meta E calls i) } : Proto).pending =
        L.map (n2f_expPend E calls (D ++ [i])) := by
      simp only
      rw [hp]
      exact n2f_resolve_map E calls L D i hiD
    rw [ih (D ++ [i]) _ hnd'.2 ?_ hp2]
    · simp [List.append_assoc]
    · intro j hj
      obtain ⟨h1, h2, h3⟩ := h j (by simp [hj])
      refine ⟨h1, ?_, h3⟩
      simp only [List.mem_append, List.mem_singleton, not_or]
      refine ⟨h2, ?_⟩
      intro hji; subst hji; exact hnd'.1 hj

end

/-! ## the invariant

Ghost parameters: `s` calls sent, `kB` call packets B has processed, `ao` the order of the answers
on the stream B→A (refusals are appended when the call packet is processed, handler results when
the handler returns), `kA` answers A has processed, `yo` the order in which A's generators yielded. -/

structure n2f_Inv (E : n2_Env) (calls : List Ev) (w : n2_World) (s kB kA : Nat) (ao yo : List Nat) : Prop where
  hs : s ≤ calls.length
  todo : w.todo = calls.drop s
  anid : w.a.nid = s
  kBs : kB ≤ s
  rxB : n2_Rx E.proc ((List.range s).map (n2_callPkt E calls)) w.ab w.b.buf
          ((List.range kB).map (n2_callPkt E calls))
  fired : w.fired = ((List.range kB).filter (n2f_acc E calls)).map (n2_expFire E calls)
  running : w.running =
    ((List.range kB).filter (fun i => n2f_acc E calls i && !decide (i ∈ ao))).map (n2f_expRun E calls)
  aoN : ao.Nodup
  aoLt : ∀ i ∈ ao, i < kB
  /-- a rejected call is answered as soon as its packet is processed -/
  rej : ∀ i < kB, n2f_acc E calls i = false → i ∈ ao
  kAle : kA ≤ ao.length
  rxA : n2_Rx E.proc (ao.map (n2f_ansPkt E calls)) w.ba w.a.buf ((ao.take kA).map (n2f_ansPkt E calls))
  resolved : w.resolved = (ao.take kA).map (n2f_expRes E calls)
  yoN : yo.Nodup
  yoSub : ∀ i ∈ yo, i ∈ ao.take kA
  pending : w.a.pending =
    ((List.range s).filter (fun i => !decide (i ∈ yo))).map (n2f_expPend E calls (ao.take kA))
  yielded : w.yielded = yo.map (n2f_expYield E calls)
  bpend : w.b.pending = []
  nab : w.aborted = false

def n2f_Reach (E : n2_Env) (calls : List Ev) (w : n2_World) : Prop :=
  ∃ s kB kA ao yo, n2f_Inv E calls w s kB kA ao yo

theorem n2f_inv_init (E : n2_Env) (calls : List Ev) : n2f_Inv E calls (n2_init calls) 0 0 0 [] [] where
  hs := by simp
  todo := by simp [n2_init]
  anid := rfl
  kBs := by simp
  rxB := by simpa [n2_init] using n2_rx_init E.proc
  fired := by simp [n2_init]
  running := by simp [n2_init]
  aoN := by simp
  aoLt := by simp
  rej := by simp
  kAle := by simp
  rxA := by simpa [n2_init] using n2_rx_init E.proc
  resolved := by simp [n2_init]
  yoN := by simp
  yoSub := by simp
  pending := by simp [n2_init]
  yielded := by simp [n2_init]
  bpend := rfl
  nab := rfl

theorem n2f_reach_init (E : n2_Env) (calls : List Ev) : n2f_Reach E calls (n2_init calls) :=
  ⟨0, 0, 0, [], [], n2f_inv_init E calls⟩

section
variable {E : n2_Env} {calls : List Ev}

theorem n2f_yo_lt {w : n2_World} {s kB kA : Nat} {ao yo : List Nat} (I : n2f_Inv E calls w s kB kA ao yo) :
    ∀ i ∈ yo, i < s := by
  intro i hi
  have := I.aoLt i (List.mem_of_mem_take (I.yoSub i hi))
  have := I.kBs
  omega

theorem n2f_send_eq (H : n2f_Hyp E calls) (a : Proto) (s : Nat) (hs : s < calls.length) (ha : a.nid = s) :
    send E.cA a (n2_callEv calls s) false =
      ({ a with nid := s + 1, pending := a.pending ++ [⟨s, false, [], .null, []⟩] },
       [.write (n2_callJ E calls s)]) := by
  have h := H.sendOk s hs
  simp [send, h, ha, n2_callJ, n2_idJ, n2_Env.cA]

theorem n2f_inv_send (H : n2f_Hyp E calls) {w : n2_World} {s kB kA : Nat} {ao yo : List Nat}
    (I : n2f_Inv E calls w s kB kA ao yo) : n2f_Reach E calls (n2_step E w .send) := by
  by_cases hs : s < calls.length
  · have ht : w.todo = n2_callEv calls s :: calls.drop (s + 1) := by
      rw [I.todo, List.drop_eq_getElem_cons hs]
      simp [n2_callEv, List.getD_eq_getElem?_getD, hs]
    refine ⟨s + 1, kB, kA, ao, yo, ?_⟩
    simp only [n2_step, ht, n2f_send_eq H w.a s hs I.anid]
    have hsy : s ∉ yo := fun h => Nat.lt_irrefl _ (n2f_yo_lt I s h)
    have hsD : s ∉ ao.take kA := by
      intro h
      have := I.aoLt s (List.mem_of_mem_take h)
      have := I.kBs
      omega
    exact {
      hs := hs
      todo := rfl
      anid := rfl
      kBs := Nat.le_succ_of_le I.kBs
      rxB := by
        have := n2_rx_write (n2_callPkt E calls s) I.rxB
        simpa [List.range_succ, n2_wire, wire, n2_callPkt] using this
      fired := I.fired
      running := I.running
      aoN := I.aoN
      aoLt := I.aoLt
      rej := I.rej
      kAle := I.kAle
      rxA := I.rxA
      resolved := I.resolved
      yoN := I.yoN
      yoSub := I.yoSub
      pending := by
        simp only [I.pending, List.range_succ, List.filter_append, List.map_append]
        simp [hsy, n2f_expPend, hsD]
      yielded := I.yielded
      bpend := I.bpend
      nab := I.nab }
  · have ht : w.todo = [] := by
      rw [I.todo]; exact List.drop_eq_nil_of_le (by omega)
    refine ⟨s, kB, kA, ao, yo, ?_⟩
    simp only [n2_step, ht]
    exact I

end

end Node
end CV

import CV.Proofs.InvTasksOwn
/-
waitingHandlers accounting, part 19: the invariant `T46TP`, its preservation, and the sessions guarded by the two real
restrictions only (`T46GuardMin2` = (tick) + (root)).
-/
namespace CV.Core

def Outcome.t46_isGen : Outcome → Bool
  | .gen _ => true
  | _ => false

def Frame.t46_kfree : Frame → Bool
  | .ptOwn .. => false
  | .ptParent .. => false
  | .hLoop _ _ _ _ o => !o.t46_isGen
  | .hAfter _ _ _ _ o => !o.t46_isGen
  | .hApply _ _ _ _ o => !o.t46_isGen
  | _ => true

/-- a handler result that is a generator is a fresh user generator, never a carrier -/
def T46OutK (s : St) (o : Outcome) : Prop := ∀ g, o = .gen g → s.t46_nc g

def T46FrameK (s : St) : Frame → Prop
  | .ptOwn _ t => t.parent = none ∧ t.e < s.evs.length ∧ s.t46_nc t.g
  | .ptParent _ t p _ => t.e < s.evs.length ∧ s.t46_nc p ∧ ∀ p', t.parent = some p' → s.t46_nc p'
  | .hLoop _ _ _ _ o => T46OutK s o
  | .hAfter _ _ _ _ o => T46OutK s o
  | .hApply _ _ _ _ o => T46OutK s o
  | _ => True

theorem T46OutK.of_not {s : St} {o : Outcome} (h : o.t46_isGen = false) : T46OutK s o := by
  intro g hg; subst hg; cases h

theorem T46FrameK.of_kfree {s : St} {f : Frame} (h : f.t46_kfree = true) : T46FrameK s f := by
  cases f <;> first | trivial | cases h | exact T46OutK.of_not (by simpa [Frame.t46_kfree] using h)

theorem T46OutK.mono {s s' : St} (h : St.T46K s s') {o : Outcome} (ho : T46OutK s o) : T46OutK s' o :=
  fun g hg => (ho g hg).mono h

theorem T46FrameK.mono {s s' : St} (h : St.T46K s s') {f : Frame} (hf : T46FrameK s f) : T46FrameK s' f := by
  cases f <;> first | trivial | skip
  case ptOwn r t => exact ⟨hf.1, Nat.lt_of_lt_of_le hf.2.1 h.evs, hf.2.2.mono h⟩
  case ptParent r t p v => exact ⟨Nat.lt_of_lt_of_le hf.1 h.evs, hf.2.1.mono h, fun p' hp' => (hf.2.2 p' hp').mono h⟩
  case hLoop r e hs err o => exact T46OutK.mono h hf
  case hAfter r e hs err o => exact T46OutK.mono h hf
  case hApply r e hs err o => exact T46OutK.mono h hf

def T46KfOk (k : List Frame) (c' : Cfg) : Prop := ∃ fs, c'.stack = fs ++ k ∧ fs.all Frame.t46_kfree = true

theorem t46_actStep_call_kfree (s : St) (ctx : HCtx) (a : Act) (f : Frame) (h : (actStep s ctx a).kind = .call f) :
    f.t46_kfree = true := by
  cases a <;> simp only [actStep] at h <;> first | (cases h; rfl) | (split at h <;> cases h) | cases h

macro "t46f_leaf" : tactic =>
  `(tactic| first
    | exact ⟨[], rfl, rfl⟩
    | (refine ⟨_, rfl, ?_⟩
       first
       | (simp [Frame.t46_kfree, Outcome.t46_isGen]; done)
       | (simp only [List.all_cons, List.all_nil, t46_actStep_call_kfree _ _ _ _ (by assumption)]
          simp [Frame.t46_kfree, Outcome.t46_isGen])))

macro "t46f" ids:ident+ : tactic =>
  `(tactic| (unfold T46KfOk $[$ids]*; (try dsimp only); (repeat' split); all_goals t46f_leaf))

theorem Cfg.pop_t46f (c : Cfg) (k : List Frame) (s : St) : T46KfOk k (c.pop k s) := ⟨[], rfl, rfl⟩

/-- the frames handled separately: they push task frames or handler-loop frames carrying a handler result -/
def Frame.t46_special : Frame → Bool
  | .ptBody .. => true
  | .hLoop .. => true
  | .hAfter .. => true
  | .hApply .. => true
  | _ => false

theorem t46_stepFrame_kf (c : Cfg) (k : List Frame) (f : Frame) (hf : f.t46_special = false) :
    T46KfOk k (stepFrame c k f) := by
  cases f <;> dsimp only [stepFrame]
  case ptBody r t => cases hf
  case hLoop a b d e g => cases hf
  case hAfter a b d e g => cases hf
  case hApply r e rest err v => cases hf
  case effectDone r e a => (t46f Cfg.effectDone)
  case eventDone r e a => (t46f Cfg.eventDone)
  case updateRoot a b => (t46f Cfg.updateRoot)
  case register a b => (t46f Cfg.register)
  case registerFin a => (t46f Cfg.registerFin)
  case prepUnregFin a => (t46f Cfg.prepUnregFin)
  case stopMgr a b => (t46f Cfg.stopMgr)
  case ticks a b => (t46f Cfg.ticks)
  case stopFin a => (t46f Cfg.stopFin)
  case timerNew a => (t46f Cfg.timerNew)
  case acts a b => (t46f Cfg.acts)
  case doFin a => (t46f Cfg.doFin)
  case drainQ a => (t46f Cfg.drainQ)
  case stepGen a => (t46f Cfg.stepGen)
  case processTask r t => (t46f Cfg.processTask)
  case ptOwn r t => (t46f Cfg.ptOwn Cfg.contStop Cfg.contError)
  case ptParent r t p v => (t46f Cfg.ptParent Cfg.contStop Cfg.contError)
  case ptFin a b => (t46f Cfg.ptFin)
  case dispatcher a b d => (t46f Cfg.dispatcher)
  case invoke a b d => (t46f Cfg.invoke Cfg.invokeUser)
  case invokeFin a b => (t46f Cfg.invokeFin)
  case dispFin a b d => (t46f Cfg.dispFin)
  case dispatchLoop a => (t46f Cfg.dispatchLoop)
  case flush a => (t46f Cfg.flush)
  case flushFin a b => (t46f Cfg.flushFin)
  case tick a => (t46f Cfg.tick)
  case taskLoop a b => (t46f Cfg.taskLoop)
  case tickFin a b => (t46f Cfg.tickFin)
  case tickGen a => (t46f Cfg.tickGen)
  case run a => (t46f Cfg.run)
  case runLoop a => (t46f Cfg.runLoop)
  case runCatch a => exact Cfg.pop_t46f ..
  case runRethrow a => (t46f Cfg.runRethrow)
  case runFin a => (t46f Cfg.runFin)

theorem t46_unwind_kf (c : Cfg) (k : List Frame) (ex : Exn) (f : Frame) : T46KfOk k (unwind c k ex f) := by
  cases f <;> dsimp only [unwind]
  case ptFin r hd => (t46f Cfg.ptFin)
  case invokeFin e hh => (t46f Cfg.invokeFin)
  case flushFin r old => (t46f Cfg.flushFin)
  case tickFin x old => (t46f Cfg.tickFin)
  case runCatch x =>
    unfold Cfg.runCatchExn
    split
    · exact ⟨[.tick x, .drainQ x, .runRethrow _], rfl, by simp [Frame.t46_kfree]⟩
    · exact Cfg.pop_t46f ..
  case runRethrow ex0 => (t46f Cfg.runRethrow)
  all_goals exact Cfg.pop_t46f ..

theorem t46_unwind_K (c : Cfg) (k : List Frame) (ex : Exn) (f : Frame) : St.T46K c.st (unwind c k ex f).st := by
  cases f <;> (dsimp only [unwind]; t46k)

theorem Cfg.contStop_t46f (c : Cfg) (k : List Frame) (s : St) (r : Nat) (t : Task) : T46KfOk k (c.contStop k s r t) := by
  t46f Cfg.contStop
theorem Cfg.contError_t46f (c : Cfg) (k : List Frame) (s : St) (r : Nat) (t : Task) (b : Bool) :
    T46KfOk k (c.contError k s r t b) := by
  t46f Cfg.contError

/-- description of the frames an arm pushes: each is harmless, or one of the listed kinds -/
def T46Pushed (P : Frame → Prop) (k : List Frame) (c' : Cfg) : Prop :=
  ∃ fs, c'.stack = fs ++ k ∧ ∀ g ∈ fs, g.t46_kfree = true ∨ P g

theorem T46KfOk.pushed {P : Frame → Prop} {k : List Frame} {c' : Cfg} (h : T46KfOk k c') : T46Pushed P k c' := by
  obtain ⟨fs, h1, h2⟩ := h
  exact ⟨fs, h1, fun g hg => Or.inl (List.all_eq_true.1 h2 g hg)⟩

theorem T46Pushed.two {P : Frame → Prop} {k : List Frame} {c : Cfg} (s : St) (a b : Frame) (ha : a.t46_kfree = true) (hb : P b) :
    T46Pushed P k (c.goto k s [a, b]) :=
  ⟨[a, b], rfl, fun g hg => by
    simp only [List.mem_cons, List.not_mem_nil, or_false] at hg
    rcases hg with h | h
    · subst h; exact Or.inl ha
    · subst h; exact Or.inr hb⟩

theorem T46Pushed.one {P : Frame → Prop} {k : List Frame} {c : Cfg} (s : St) (a : Frame) (ha : a.t46_kfree = true ∨ P a) :
    T46Pushed P k (c.goto k s [a]) :=
  ⟨[a], rfl, fun g hg => by
    simp only [List.mem_cons, List.not_mem_nil, or_false] at hg
    subst hg; exact ha⟩

/-- what `ptBody` pushes: harmless frames, `.ptParent r t p …` with `p` the task's parent, or `.ptOwn r t` for a task whose
    generator is a user generator -/
theorem Cfg.t46_ptBody_frames (c : Cfg) (k : List Frame) (r : Nat) (t : Task) :
    T46Pushed (fun g => (∃ p v, g = .ptParent r t p v ∧ t.parent = some p) ∨ (g = .ptOwn r t ∧ c.st.t46_nc t.g)) k
      (c.ptBody k r t) := by
  unfold Cfg.ptBody
  split
  · rename_i hg
    exact T46Pushed.two _ _ _ rfl (Or.inr ⟨rfl, St.t46_gen_lt_of_user c.st t.g hg, by rw [hg]; rfl⟩)
  · unfold Cfg.ptBodyWait
    dsimp only
    split
    · exact (Cfg.contError_t46f ..).pushed
    · split
      · rename_i src p hev hpar
        split
        · exact T46Pushed.two _ _ _ rfl (Or.inl ⟨p, false, rfl, hpar⟩)
        · exact (Cfg.pop_t46f ..).pushed
      · exact (Cfg.contStop_t46f ..).pushed
  · unfold Cfg.ptBodyExc
    split
    · exact (Cfg.contStop_t46f ..).pushed
    · dsimp only
      split
      · rename_i p hpar
        split
        · split
          · exact T46Pushed.two _ _ _ rfl (Or.inl ⟨p, true, rfl, hpar⟩)
          · exact (Cfg.contError_t46f ..).pushed
        · exact (Cfg.pop_t46f ..).pushed
      · exact (Cfg.contError_t46f ..).pushed
  · exact (Cfg.contStop_t46f ..).pushed
  · split
    · exact (Cfg.contStop_t46f ..).pushed
    · exact (Cfg.pop_t46f ..).pushed

/-- the handler loop keeps its handler result; `hAfter` may take it from the return register -/
theorem Cfg.t46_hLoop_frames (c : Cfg) (k : List Frame) (r e : Nat) (hs : List Nat) (err : Bool) (st : Outcome) :
    T46Pushed (fun g => ∃ hs', g = .hAfter r e hs' err st) k (c.hLoop k r e hs err st) := by
  unfold Cfg.hLoop
  split
  · exact T46Pushed.one _ _ (Or.inl rfl)
  · exact T46Pushed.two _ _ _ rfl ⟨_, rfl⟩

theorem Cfg.t46_hAfter_frames (c : Cfg) (k : List Frame) (r e : Nat) (rest : List Nat) (err : Bool) (st : Outcome) :
    T46Pushed (fun g => ∃ err' o, g = .hApply r e rest err' o ∧ (o = st ∨ o = c.ret.outcome)) k
      (c.hAfter k r e rest err st) := by
  unfold Cfg.hAfter
  split
  · exact T46Pushed.two _ _ _ rfl ⟨_, _, rfl, Or.inl rfl⟩
  · exact T46Pushed.two _ _ _ rfl ⟨_, _, rfl, Or.inl rfl⟩
  · exact T46Pushed.one _ _ (Or.inl rfl)
  · exact T46Pushed.one _ _ (Or.inl rfl)
  · exact T46Pushed.one _ _ (Or.inl rfl)
  · rename_i g hg
    exact T46Pushed.one _ _ (Or.inr ⟨_, _, rfl, Or.inr hg.symm⟩)

theorem Cfg.t46_hApply_frames (c : Cfg) (k : List Frame) (r e : Nat) (rest : List Nat) (err : Bool) (v : Outcome) :
    T46Pushed (fun g => g = .hLoop r e rest err v) k (c.hApply k r e rest err v) := by
  unfold Cfg.hApply
  dsimp only
  split
  · exact T46Pushed.one _ _ (Or.inl rfl)
  · exact T46Pushed.one _ _ (Or.inr rfl)

/-! ## the return register -/

/-- the return register is unchanged, or holds no generator, or holds a fresh non-carrier generator -/
def T46RetOk (c c' : Cfg) : Prop := c'.ret = c.ret ∨ T46OutK c'.st c'.ret.outcome

theorem t46_actStep_out_notgen (s : St) (ctx : HCtx) (a : Act) (o : Outcome) (h : (actStep s ctx a).kind = .out o) :
    o.t46_isGen = false := by
  cases a <;> simp only [actStep] at h <;> first | (cases h; rfl) | (split at h <;> cases h <;> rfl) | cases h

macro "t46r_leaf" : tactic =>
  `(tactic| first
    | exact Or.inl rfl
    | (refine Or.inr (T46OutK.of_not ?_); first | rfl | exact t46_actStep_out_notgen _ _ _ _ (by assumption)))

macro "t46r" ids:ident+ : tactic =>
  `(tactic| (unfold T46RetOk $[$ids]*; (try dsimp only); (repeat' split); all_goals t46r_leaf))

theorem St.t46_onWaitEvent_notgen (s : St) (w e : Nat) : (s.onWaitEvent w e).1.t46_isGen = false := by
  unfold St.onWaitEvent; dsimp only; (repeat' split) <;> rfl
theorem St.t46_onWaitDone_notgen (s : St) (w e : Nat) : (s.onWaitDone w e).1.t46_isGen = false := by
  unfold St.onWaitDone; dsimp only; (repeat' split) <;> rfl
theorem St.t46_onWaitTick_notgen (s : St) (w : Nat) : (s.onWaitTick w).1.t46_isGen = false := by
  unfold St.onWaitTick; dsimp only; (repeat' split) <;> rfl

theorem Cfg.t46_invoke_ret (c : Cfg) (k : List Frame) (r h e : Nat) : T46RetOk c (c.invoke k r h e) := by
  unfold Cfg.invoke
  dsimp only
  generalize (if ((c.st.handler h).kind.code != 0) = true then
      c.st.logE (Entry.hinv e (c.st.handler h).kind.code (hkey c.st (c.st.handler h))) else c.st) = S
  split
  · unfold Cfg.invokeUser
    dsimp only
    split
    · refine Or.inr fun g hg => ?_
      simp only [Cfg.popRet_ret, Ret.outcome] at hg
      cases hg
      simp only [Cfg.popRet_st]
      refine ⟨?_, ?_⟩
      · show _ < (_ ++ [_]).length
        simp [St.logE]
      · have : ∀ (u : St) (x : GenRec) (y : Entry), ((u.addGen x).logE y).gen u.gens.length = x :=
          fun u x y => St.t46_gen_addGen_eq u x
        rw [this]; rfl
    · exact Or.inl rfl
  · exact Or.inl rfl
  · exact Or.inr (T46OutK.of_not (St.t46_onWaitEvent_notgen ..))
  · exact Or.inr (T46OutK.of_not (St.t46_onWaitDone_notgen ..))
  · exact Or.inr (T46OutK.of_not (St.t46_onWaitTick_notgen ..))
  · exact Or.inr (T46OutK.of_not rfl)
  · split
    · exact Or.inr (T46OutK.of_not rfl)
    · exact Or.inl rfl
  · exact Or.inr (T46OutK.of_not rfl)

theorem t46_stepFrame_ret (c : Cfg) (k : List Frame) (f : Frame) : T46RetOk c (stepFrame c k f) := by
  cases f <;> dsimp only [stepFrame]
  case invoke a b d => exact Cfg.t46_invoke_ret ..
  case effectDone r e a => (t46r Cfg.effectDone)
  case eventDone r e a => (t46r Cfg.eventDone)
  case updateRoot a b => (t46r Cfg.updateRoot)
  case register a b => (t46r Cfg.register)
  case registerFin a => (t46r Cfg.registerFin)
  case prepUnregFin a => (t46r Cfg.prepUnregFin)
  case stopMgr a b => (t46r Cfg.stopMgr)
  case ticks a b => (t46r Cfg.ticks)
  case stopFin a => (t46r Cfg.stopFin)
  case timerNew a => (t46r Cfg.timerNew)
  case acts a b => (t46r Cfg.acts)
  case doFin a => (t46r Cfg.doFin)
  case drainQ a => (t46r Cfg.drainQ)
  case stepGen a => (t46r Cfg.stepGen)
  case processTask r t => (t46r Cfg.processTask)
  case ptBody r t => (t46r Cfg.ptBody Cfg.ptBodyWait Cfg.ptBodyExc Cfg.contStop Cfg.contError)
  case ptOwn r t => (t46r Cfg.ptOwn Cfg.contStop Cfg.contError)
  case ptParent r t p v => (t46r Cfg.ptParent Cfg.contStop Cfg.contError)
  case ptFin a b => (t46r Cfg.ptFin)
  case dispatcher a b d => (t46r Cfg.dispatcher)
  case hLoop a b d e g => (t46r Cfg.hLoop)
  case invokeFin a b => (t46r Cfg.invokeFin)
  case hAfter a b d e g => (t46r Cfg.hAfter)
  case hApply r e rest err v => (t46r Cfg.hApply)
  case dispFin a b d => (t46r Cfg.dispFin)
  case dispatchLoop a => (t46r Cfg.dispatchLoop)
  case flush a => (t46r Cfg.flush)
  case flushFin a b => (t46r Cfg.flushFin)
  case tick a => (t46r Cfg.tick)
  case taskLoop a b => (t46r Cfg.taskLoop)
  case tickFin a b => (t46r Cfg.tickFin)
  case tickGen a => (t46r Cfg.tickGen)
  case run a => (t46r Cfg.run)
  case runLoop a => (t46r Cfg.runLoop)
  case runCatch a => exact Or.inl rfl
  case runRethrow a => (t46r Cfg.runRethrow)
  case runFin a => (t46r Cfg.runFin)

theorem t46_unwind_ret (c : Cfg) (k : List Frame) (ex : Exn) (f : Frame) : (unwind c k ex f).ret = c.ret := by
  cases f <;> dsimp only [unwind] <;> first | rfl | (unfold Cfg.runCatchExn; split <;> rfl)

/-! ## the invariant -/

structure T46TP (c : Cfg) : Prop where
  tasks : ∀ x t, t ∈ (c.st.comp x).tasks → c.st.T46TaskOk t
  waits : ∀ w, (c.st.wait w).started = true → c.st.T46WaitOk (c.st.wait w)
  frames : ∀ f ∈ c.stack, T46FrameK c.st f
  ret : T46OutK c.st c.ret.outcome

theorem T46TP.next {c c' : Cfg} (h : T46TP c) {f : Frame} {k : List Frame} (hs : c.stack = f :: k)
    (hK : St.T46K c.st c'.st) (fs : List Frame) (hfs : c'.stack = fs ++ k) (hnew : ∀ g ∈ fs, T46FrameK c'.st g)
    (hret : T46RetOk c c') : T46TP c' := by
  refine ⟨fun x t ht => ?_, fun w hw => ?_, fun g hg => ?_, ?_⟩
  · rcases hK.tasks x t ht with h1 | h1
    · exact (h.tasks x t h1).mono hK
    · exact h1
  · rcases hK.waits w hw with ⟨h1, h2, h3⟩ | h1
    · have := (h.waits w h1).mono hK
      unfold St.T46WaitOk at this ⊢
      rw [h2, h3]; exact this
    · exact h1
  · rw [hfs] at hg
    rcases List.mem_append.1 hg with h1 | h1
    · exact hnew g h1
    · exact (h.frames g (by rw [hs]; simp [h1])).mono hK
  · rcases hret with h1 | h1
    · rw [h1]; exact h.ret.mono hK
    · exact h1

theorem T46TP.ofPushed {P : Frame → Prop} {c c' : Cfg} (h : T46TP c) {f : Frame} {k : List Frame} (hs : c.stack = f :: k)
    (hK : St.T46K c.st c'.st) (hp : T46Pushed P k c') (hP : ∀ g, P g → T46FrameK c'.st g) (hret : T46RetOk c c') :
    T46TP c' := by
  obtain ⟨fs, hfs, hall⟩ := hp
  refine h.next hs hK fs hfs (fun g hg => ?_) hret
  rcases hall g hg with h1 | h1
  · exact T46FrameK.of_kfree h1
  · exact hP g h1

/-- `St.T46K` for every arm, given the facts about the top frame that the invariants provide -/
theorem t46_stepFrame_K {n0 : Nat} {c : Cfg} (hinv : T46Inv c) (htp : T46TP c) (hw : W6CInv n0 c) (hq : T46RQ c)
    (k : List Frame) (f : Frame) (hs : c.stack = f :: k) : St.T46K c.st (stepFrame c k f).st := by
  have htop : T46FrameK c.st f := htp.frames f (by rw [hs]; simp)
  cases f
  case stepGen g => exact Cfg.t46_stepGen_K c k g
  case ptBody r t =>
    have hsh := hinv.shape
    rw [hs] at hsh
    exact Cfg.t46_ptBody_K c k r t (htp.tasks r t hsh.1.2).1
  case ptOwn r t => exact Cfg.t46_ptOwn_K c k r t htop.2.1 htop.2.2
  case ptParent r t p v => exact Cfg.t46_ptParent_K c k r t p v htop.1 htop.2.1
  case hApply r e rest err v => exact Cfg.t46_hApply_K c k r e rest err v (hq.gen r e rest err v k hs)
  case invoke r h e =>
    refine Cfg.t46_invoke_K c k r h e (fun w hk => ?_) (fun w hk => ?_)
    · have hst := hw.t46_started h w (Or.inl hk)
      have hlt := St.t46_wait_started_lt c.st w hst
      have hg := hw.w.2.taskGen w (by simpa using hlt)
      simp only [St.w6_view_wg, St.w6_view_ng, St.w6_view_gen, WaitSt.w6g] at hg
      exact ⟨htp.waits w hst, hg.1, by rw [hg.2]; rfl⟩
    · exact htp.waits w (hw.t46_started h w (Or.inr hk))
  all_goals (dsimp only [stepFrame]; t46k)

/-- `St.T46K` for every step -/
theorem t46_step_K {n0 : Nat} {c : Cfg} (hinv : T46Inv c) (htp : T46TP c) (hw : W6CInv n0 c) (hq : T46RQ c) :
    St.T46K c.st (step c).st := by
  cases hs : c.stack with
  | nil => rw [step_nil c hs]; exact St.T46K.refl _
  | cons f k =>
    cases hx : c.exn with
    | some ex => rw [step_cons_exn c f k ex hs hx]; exact t46_unwind_K c k ex f
    | none => rw [step_cons c f k hs hx]; exact t46_stepFrame_K hinv htp hw hq k f hs

theorem t46_step_tp {n0 : Nat} (c : Cfg) (hinv : T46Inv c) (htp : T46TP c) (hw : W6CInv n0 c) (hq : T46RQ c) :
    T46TP (step c) := by
  cases hs : c.stack with
  | nil => rw [step_nil c hs]; exact htp
  | cons f k =>
    have htop : T46FrameK c.st f := htp.frames f (by rw [hs]; simp)
    cases hx : c.exn with
    | some ex =>
      rw [step_cons_exn c f k ex hs hx]
      exact htp.ofPushed (P := fun _ => False) hs (t46_unwind_K c k ex f) (t46_unwind_kf c k ex f).pushed
        (fun _ h => h.elim) (Or.inl (t46_unwind_ret c k ex f))
    | none =>
      rw [step_cons c f k hs hx]
      have hK := t46_stepFrame_K hinv htp hw hq k f hs
      have hret := t46_stepFrame_ret c k f
      by_cases hsp : f.t46_special = true
      · cases f <;> first | (simp [Frame.t46_special] at hsp; done) | skip
        case ptBody r t =>
          have hsh := hinv.shape
          rw [hs] at hsh
          have hok := htp.tasks r t hsh.1.2
          refine htp.ofPushed hs hK (Cfg.t46_ptBody_frames c k r t) (fun g hg => ?_) hret
          rcases hg with ⟨p, v, h1, hpar⟩ | ⟨h1, h2⟩
          · subst h1
            exact ⟨Nat.lt_of_lt_of_le hok.1 hK.evs, (hok.2.2 p hpar).mono hK, fun p' hp' => (hok.2.2 p' hp').mono hK⟩
          · subst h1
            refine ⟨?_, Nat.lt_of_lt_of_le hok.1 hK.evs, h2.mono hK⟩
            cases hp : t.parent with
            | none => rfl
            | some p =>
              have := (hok.2.1 (by rw [hp]; rfl)).2
              rw [h2.2] at this; cases this
        case hLoop r e hh err st =>
          refine htp.ofPushed hs hK (Cfg.t46_hLoop_frames c k r e hh err st) (fun g hg => ?_) hret
          obtain ⟨hs', h1⟩ := hg
          subst h1
          exact T46OutK.mono hK htop
        case hAfter r e rest err st =>
          refine htp.ofPushed hs hK (Cfg.t46_hAfter_frames c k r e rest err st) (fun g hg => ?_) hret
          obtain ⟨err', o, h1, h2⟩ := hg
          subst h1
          rcases h2 with h2 | h2
          · subst h2; exact T46OutK.mono hK htop
          · subst h2; exact T46OutK.mono hK htp.ret
        case hApply r e rest err v =>
          refine htp.ofPushed hs hK (Cfg.t46_hApply_frames c k r e rest err v) (fun g hg => ?_) hret
          subst hg
          exact T46OutK.mono hK htop
      · exact htp.ofPushed (P := fun _ => False) hs hK
          (t46_stepFrame_kf c k f (by cases h : f.t46_special <;> simp_all)).pushed (fun _ h => h.elim) hret

/-- clause (own) -/
theorem T46TP.own {c : Cfg} (h : T46TP c) (r : Nat) (t : Task) (k : List Frame) (hs : c.stack = .ptOwn r t :: k) :
    t.parent = none ∧ t.e < c.st.evs.length := by
  have := h.frames (.ptOwn r t) (by rw [hs]; simp)
  exact ⟨this.1, this.2.1⟩

theorem t46_start_tp (s : St) (ht : ∀ x t, t ∈ (s.comp x).tasks → s.T46TaskOk t)
    (hw : ∀ w, (s.wait w).started = true → s.T46WaitOk (s.wait w)) (d : Nat) (tape : List Entry) (op : ExtOp) :
    T46TP (startOf (envChange s d tape) op) := by
  have hst : (startOf (envChange s d tape) op).st = envChange s d tape := by cases op <;> rfl
  refine ⟨?_, ?_, ?_, ?_⟩
  · rw [hst]; exact ht
  · rw [hst]; exact hw
  · cases op <;> (intro g hg; simp [startOf, startDo, startTick, startFlush, startRun, Cfg.start] at hg) <;>
      first | (rcases hg with h1 | h1 <;> subst h1 <;> trivial) | (subst hg; trivial)
  · have : (startOf (envChange s d tape) op).ret = .none := by cases op <;> rfl
    rw [this]; intro g hg; cases hg

/-! ## sessions guarded by the two real restrictions -/

/-- the guard: no re-entry of the task loop, no root change under an active task loop -/
structure T46GuardMin2 (c : Cfg) : Prop where
  tick : ∀ x k, c.stack = .tick x :: k → c.exn = none → (c.st.comp x).tasks ≠ [] →
    t46_quiet k = true ∧ c.st.rootOf x = x
  root : ∀ x ts, Frame.taskLoop x ts ∈ c.stack → (step c).st.rootOf x = c.st.rootOf x

theorem T46Guard.of_min2 {n0 : Nat} {c : Cfg} (hm : T46GuardMin2 c) (hw : W6CInv n0 c) (hq : T46RQ c) (htp : T46TP c) :
    T46Guard c :=
  T46Guard.of_min ⟨hm.tick, hm.root, fun r t k _ hs _ _ => htp.own r t k hs⟩ hw hq

/-- admissible sessions (`W6ReachW`) on which (tick) and (root) hold at every step taken -/
inductive T46ReachM2 (s0 : St) : Cfg → Prop
  | init (d : Nat) (tape : List Entry) (op : ExtOp) (hop : op.w6ok s0.hs.length) :
      T46ReachM2 s0 (startOf (envChange s0 d tape) op)
  | step {c : Cfg} : T46ReachM2 s0 c → T46GuardMin2 c → T46ReachM2 s0 (CV.Core.step c)
  | next {c : Cfg} (d : Nat) (tape : List Entry) (op : ExtOp) (hop : op.w6ok s0.hs.length) :
      T46ReachM2 s0 c → done c = true → T46ReachM2 s0 (startOf (envChange c.st d tape) op)

theorem T46ReachM2.admissible {s0 : St} {c : Cfg} (h : T46ReachM2 s0 c) : W6ReachW s0.hs.length s0 c := by
  induction h with
  | init d tape op hop => exact W6ReachW.init d tape op hop
  | step _ _ ih => exact W6ReachW.step ih
  | next d tape op hop _ hd ih => exact W6ReachW.next d tape op hop ih hd

/-- the joint induction: accounting invariant, range/kind invariant, and the session is a guarded session -/
theorem T46ReachM2.all {s0 : St} (h0 : T46Init s0) (hi : W6InitWait s0) (hq : T46InitQ s0) {c : Cfg}
    (h : T46ReachM2 s0 c) : T46Reach s0 c ∧ T46Inv c ∧ T46TP c := by
  induction h with
  | init d tape op _ =>
    refine ⟨T46Reach.init d tape op, t46_reach_inv h0 _ (T46Reach.init d tape op), ?_⟩
    exact t46_start_tp s0 (fun x t ht => by rw [h0.tasks x] at ht; cases ht)
      (fun w hw => by
        have : s0.wait w = dfltWait := by unfold St.wait; rw [h0.waits]; rfl
        rw [this] at hw; cases hw) d tape op
  | @step c0 hprev hg ih =>
    obtain ⟨hr, hinv, htp⟩ := ih
    have hw := hprev.admissible.cinv hi
    have hrq := t46_reach_rq hq _ hprev.admissible.reach
    have hguard := T46Guard.of_min2 hg hw hrq htp
    exact ⟨T46Reach.step hr hguard, t46_step_inv _ hinv hguard, t46_step_tp c0 hinv htp hw hrq⟩
  | @next c0 d tape op _ hprev hd ih =>
    obtain ⟨hr, hinv, htp⟩ := ih
    have hr' := T46Reach.next d tape op hr hd
    exact ⟨hr', t46_reach_inv h0 _ hr', t46_start_tp c0.st htp.tasks htp.waits d tape op⟩

end CV.Core

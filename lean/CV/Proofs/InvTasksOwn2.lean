import CV.Proofs.InvTasksOwn
/-
waitingHandlers accounting, part 19: the invariant `T46TP`, its preservation, and the sessions guarded by the two real
restrictions only (`T46GuardMin2` = (tick) + (root)).
-/
namespace CV.Core

def Frame.t46_kfree : Frame → Bool
  | .ptOwn .. => false
  | .ptParent .. => false
  | _ => true

def T46FrameK (s : St) : Frame → Prop
  | .ptOwn _ t => t.parent = none ∧ t.e < s.evs.length
  | .ptParent _ t _ _ => t.e < s.evs.length
  | _ => True

theorem T46FrameK.of_kfree {s : St} {f : Frame} (h : f.t46_kfree = true) : T46FrameK s f := by
  cases f <;> first | trivial | cases h

theorem T46FrameK.mono {s s' : St} (h : s.evs.length ≤ s'.evs.length) {f : Frame} (hf : T46FrameK s f) : T46FrameK s' f := by
  cases f <;> first | trivial | skip
  case ptOwn r t => exact ⟨hf.1, Nat.lt_of_lt_of_le hf.2 h⟩
  case ptParent r t p v => exact Nat.lt_of_lt_of_le hf h

def T46KfOk (k : List Frame) (c' : Cfg) : Prop := ∃ fs, c'.stack = fs ++ k ∧ fs.all Frame.t46_kfree = true

theorem t46_actStep_call_kfree (s : St) (ctx : HCtx) (a : Act) (f : Frame) (h : (actStep s ctx a).kind = .call f) :
    f.t46_kfree = true := by
  cases a <;> simp only [actStep] at h <;> first | (cases h; rfl) | (split at h <;> cases h) | cases h

macro "t46f_leaf" : tactic =>
  `(tactic| first
    | exact ⟨[], rfl, rfl⟩
    | (refine ⟨_, rfl, ?_⟩
       first
       | (simp [Frame.t46_kfree]; done)
       | (simp only [List.all_cons, List.all_nil, t46_actStep_call_kfree _ _ _ _ (by assumption)]
          simp [Frame.t46_kfree])))

macro "t46f" ids:ident+ : tactic =>
  `(tactic| (unfold T46KfOk $[$ids]*; (try dsimp only); (repeat' split); all_goals t46f_leaf))

theorem Cfg.pop_t46f (c : Cfg) (k : List Frame) (s : St) : T46KfOk k (c.pop k s) := ⟨[], rfl, rfl⟩

theorem t46_stepFrame_kf (c : Cfg) (k : List Frame) (f : Frame) (hf : ∀ r t, f ≠ .ptBody r t) :
    T46KfOk k (stepFrame c k f) := by
  cases f <;> dsimp only [stepFrame]
  case ptBody r t => exact absurd rfl (hf r t)
  case effectDone r e a => (t46f Cfg.effectDone)
  case eventDone r e a => (t46f Cfg.eventDone)
  case updateRoot a b => (t46f Cfg.updateRoot)
  case register a b => (t46f Cfg.register)
  case registerFin a => (t46f Cfg.registerFin)
  case prepUnregFin a => (t46f Cfg.prepUnregFin)
  case stopMgr a b => (t46f Cfg.stopMgr)
  case ticks a b => (t46f Cfg.ticks)
  case stopFin a => (t46f Cfg.stopFin)
  case timerNew a => (t46f Cfg.timerNew)
  case acts a b => (t46f Cfg.acts)
  case doFin a => (t46f Cfg.doFin)
  case drainQ a => (t46f Cfg.drainQ)
  case stepGen a => (t46f Cfg.stepGen)
  case processTask r t => (t46f Cfg.processTask)
  case ptOwn r t => (t46f Cfg.ptOwn Cfg.contStop Cfg.contError)
  case ptParent r t p v => (t46f Cfg.ptParent Cfg.contStop Cfg.contError)
  case ptFin a b => (t46f Cfg.ptFin)
  case dispatcher a b d => (t46f Cfg.dispatcher)
  case hLoop a b d e g => (t46f Cfg.hLoop)
  case invoke a b d => (t46f Cfg.invoke Cfg.invokeUser)
  case invokeFin a b => (t46f Cfg.invokeFin)
  case hAfter a b d e g => (t46f Cfg.hAfter)
  case hApply r e rest err v => (t46f Cfg.hApply)
  case dispFin a b d => (t46f Cfg.dispFin)
  case dispatchLoop a => (t46f Cfg.dispatchLoop)
  case flush a => (t46f Cfg.flush)
  case flushFin a b => (t46f Cfg.flushFin)
  case tick a => (t46f Cfg.tick)
  case taskLoop a b => (t46f Cfg.taskLoop)
  case tickFin a b => (t46f Cfg.tickFin)
  case tickGen a => (t46f Cfg.tickGen)
  case run a => (t46f Cfg.run)
  case runLoop a => (t46f Cfg.runLoop)
  case runCatch a => exact Cfg.pop_t46f ..
  case runRethrow a => (t46f Cfg.runRethrow)
  case runFin a => (t46f Cfg.runFin)

theorem t46_unwind_kf (c : Cfg) (k : List Frame) (ex : Exn) (f : Frame) : T46KfOk k (unwind c k ex f) := by
  cases f <;> dsimp only [unwind]
  case ptFin r hd => (t46f Cfg.ptFin)
  case invokeFin e hh => (t46f Cfg.invokeFin)
  case flushFin r old => (t46f Cfg.flushFin)
  case tickFin x old => (t46f Cfg.tickFin)
  case runCatch x =>
    unfold Cfg.runCatchExn
    split
    · exact ⟨[.tick x, .drainQ x, .runRethrow _], rfl, by simp [Frame.t46_kfree]⟩
    · exact Cfg.pop_t46f ..
  case runRethrow ex0 => (t46f Cfg.runRethrow)
  all_goals exact Cfg.pop_t46f ..

theorem t46_unwind_K (c : Cfg) (k : List Frame) (ex : Exn) (f : Frame) : St.T46K c.st (unwind c k ex f).st := by
  cases f <;> (dsimp only [unwind]; t46k)

/-- what `ptBody` pushes: plain frames, `.ptParent r t …`, or `.ptOwn r t` for a task whose generator is a user generator -/
theorem Cfg.t46_ptBody_frames (c : Cfg) (k : List Frame) (r : Nat) (t : Task) :
    ∃ fs, (c.ptBody k r t).stack = fs ++ k ∧ ∀ g ∈ fs, g.t46_kfree = true ∨ (∃ p v, g = .ptParent r t p v) ∨
      (g = .ptOwn r t ∧ (c.st.gen t.g).t46_carrier = false) := by
  unfold Cfg.ptBody
  split
  · rename_i hg
    exact ⟨[.stepGen t.g, .ptOwn r t], rfl, fun g hg' => by
      simp only [List.mem_cons, List.not_mem_nil, or_false] at hg'
      rcases hg' with h | h
      · subst h; exact Or.inl rfl
      · subst h; exact Or.inr (Or.inr ⟨rfl, by rw [hg]; rfl⟩)⟩
  · unfold Cfg.ptBodyWait
    dsimp only
    split
    · obtain ⟨fs, h1, h2⟩ := Cfg.contError_t46s c k _ r t false
      exact ⟨fs, h1, fun g hg => Or.inl (by have := h2 g hg; cases g <;> first | rfl | cases this)⟩
    · split
      · split
        · exact ⟨[.stepGen _, .ptParent r t _ false], rfl, fun g hg' => by
            simp only [List.mem_cons, List.not_mem_nil, or_false] at hg'
            rcases hg' with h | h
            · subst h; exact Or.inl rfl
            · subst h; exact Or.inr (Or.inl ⟨_, _, rfl⟩)⟩
        · exact ⟨[], rfl, fun _ h => by cases h⟩
      · obtain ⟨fs, h1, h2⟩ := Cfg.contStop_t46s c k _ r t
        exact ⟨fs, h1, fun g hg => Or.inl (by have := h2 g hg; cases g <;> first | rfl | cases this)⟩
  · unfold Cfg.ptBodyExc
    split
    · obtain ⟨fs, h1, h2⟩ := Cfg.contStop_t46s c k _ r t
      exact ⟨fs, h1, fun g hg => Or.inl (by have := h2 g hg; cases g <;> first | rfl | cases this)⟩
    · dsimp only
      split
      · split
        · split
          · exact ⟨[.stepGen _, .ptParent r t _ true], rfl, fun g hg' => by
              simp only [List.mem_cons, List.not_mem_nil, or_false] at hg'
              rcases hg' with h | h
              · subst h; exact Or.inl rfl
              · subst h; exact Or.inr (Or.inl ⟨_, _, rfl⟩)⟩
          · obtain ⟨fs, h1, h2⟩ := Cfg.contError_t46s c k _ r t true
            exact ⟨fs, h1, fun g hg => Or.inl (by have := h2 g hg; cases g <;> first | rfl | cases this)⟩
        · exact ⟨[], rfl, fun _ h => by cases h⟩
      · obtain ⟨fs, h1, h2⟩ := Cfg.contError_t46s c k _ r t false
        exact ⟨fs, h1, fun g hg => Or.inl (by have := h2 g hg; cases g <;> first | rfl | cases this)⟩
  · obtain ⟨fs, h1, h2⟩ := Cfg.contStop_t46s c k _ r t
    exact ⟨fs, h1, fun g hg => Or.inl (by have := h2 g hg; cases g <;> first | rfl | cases this)⟩
  · split
    · obtain ⟨fs, h1, h2⟩ := Cfg.contStop_t46s c k _ r t
      exact ⟨fs, h1, fun g hg => Or.inl (by have := h2 g hg; cases g <;> first | rfl | cases this)⟩
    · exact ⟨[], rfl, fun _ h => by cases h⟩

/-! ## the invariant -/

structure T46TP (c : Cfg) : Prop where
  tasks : ∀ x t, t ∈ (c.st.comp x).tasks → c.st.T46TaskOk t
  waits : ∀ w, (c.st.wait w).started = true → (c.st.wait w).taskEvent < c.st.evs.length
  frames : ∀ f ∈ c.stack, T46FrameK c.st f

theorem T46TP.next {c c' : Cfg} (h : T46TP c) {f : Frame} {k : List Frame} (hs : c.stack = f :: k)
    (hK : St.T46K c.st c'.st) (fs : List Frame) (hfs : c'.stack = fs ++ k) (hnew : ∀ g ∈ fs, T46FrameK c'.st g) :
    T46TP c' := by
  refine ⟨fun x t ht => ?_, fun w hw => ?_, fun g hg => ?_⟩
  · rcases hK.tasks x t ht with h1 | h1
    · exact (h.tasks x t h1).mono hK
    · exact h1
  · rcases hK.waits w hw with ⟨h1, h2⟩ | h1
    · rw [h2]; exact Nat.lt_of_lt_of_le (h.waits w h1) hK.evs
    · exact h1
  · rw [hfs] at hg
    rcases List.mem_append.1 hg with h1 | h1
    · exact hnew g h1
    · exact (h.frames g (by rw [hs]; simp [h1])).mono hK.evs

theorem T46TP.ofKf {c c' : Cfg} (h : T46TP c) {f : Frame} {k : List Frame} (hs : c.stack = f :: k)
    (hK : St.T46K c.st c'.st) (hkf : T46KfOk k c') : T46TP c' := by
  obtain ⟨fs, hfs, hall⟩ := hkf
  exact h.next hs hK fs hfs (fun g hg => T46FrameK.of_kfree (List.all_eq_true.1 hall g hg))

/-- `St.T46K` for every arm, given the facts about the top frame that the invariants provide -/
theorem t46_stepFrame_K {n0 : Nat} {c : Cfg} (hinv : T46Inv c) (htp : T46TP c) (hw : W6CInv n0 c) (hq : T46RQ c)
    (k : List Frame) (f : Frame) (hs : c.stack = f :: k) : St.T46K c.st (stepFrame c k f).st := by
  have htop : T46FrameK c.st f := htp.frames f (by rw [hs]; simp)
  cases f
  case stepGen g => exact Cfg.t46_stepGen_K c k g
  case ptBody r t =>
    have hsh := hinv.shape
    rw [hs] at hsh
    exact Cfg.t46_ptBody_K c k r t (htp.tasks r t hsh.1.2).1
  case ptOwn r t => exact Cfg.t46_ptOwn_K c k r t htop.2
  case ptParent r t p v => exact Cfg.t46_ptParent_K c k r t p v htop
  case hApply r e rest err v => exact Cfg.t46_hApply_K c k r e rest err v (hq.gen r e rest err v k hs)
  case invoke r h e =>
    refine Cfg.t46_invoke_K c k r h e (fun w hk => ?_) (fun w hk => ?_)
    · have hst := hw.t46_started h w (Or.inl hk)
      have hlt := St.t46_wait_started_lt c.st w hst
      have hg := hw.w.2.taskGen w (by simpa using hlt)
      simp only [St.w6_view_wg, St.w6_view_ng, St.w6_view_gen, WaitSt.w6g] at hg
      exact ⟨htp.waits w hst, hg.1, by rw [hg.2]; rfl⟩
    · exact htp.waits w (hw.t46_started h w (Or.inr hk))
  all_goals (dsimp only [stepFrame]; t46k)

theorem t46_step_tp {n0 : Nat} (c : Cfg) (hinv : T46Inv c) (htp : T46TP c) (hw : W6CInv n0 c) (hq : T46RQ c) :
    T46TP (step c) := by
  cases hs : c.stack with
  | nil => rw [step_nil c hs]; exact htp
  | cons f k =>
    cases hx : c.exn with
    | some ex =>
      rw [step_cons_exn c f k ex hs hx]
      exact htp.ofKf hs (t46_unwind_K c k ex f) (t46_unwind_kf c k ex f)
    | none =>
      rw [step_cons c f k hs hx]
      have hK := t46_stepFrame_K hinv htp hw hq k f hs
      by_cases hb : ∃ r t, f = .ptBody r t
      · obtain ⟨r, t, hf⟩ := hb
        subst hf
        obtain ⟨fs, hfs, hall⟩ := Cfg.t46_ptBody_frames c k r t
        have hsh := hinv.shape
        rw [hs] at hsh
        have hok := htp.tasks r t hsh.1.2
        refine htp.next hs hK fs hfs (fun g hg => ?_)
        rcases hall g hg with h1 | ⟨p, v, h1⟩ | ⟨h1, h2⟩
        · exact T46FrameK.of_kfree h1
        · subst h1; exact Nat.lt_of_lt_of_le hok.1 hK.evs
        · subst h1
          refine ⟨?_, Nat.lt_of_lt_of_le hok.1 hK.evs⟩
          cases hp : t.parent with
          | none => rfl
          | some p =>
            have := (hok.2 (by rw [hp]; rfl)).2
            rw [h2] at this; cases this
      · exact htp.ofKf hs hK (t46_stepFrame_kf c k f (fun r t hf => hb ⟨r, t, hf⟩))

/-- clause (own) -/
theorem T46TP.own {c : Cfg} (h : T46TP c) (r : Nat) (t : Task) (k : List Frame) (hs : c.stack = .ptOwn r t :: k) :
    t.parent = none ∧ t.e < c.st.evs.length :=
  h.frames (.ptOwn r t) (by rw [hs]; simp)

theorem t46_start_tp (s : St) (ht : ∀ x t, t ∈ (s.comp x).tasks → s.T46TaskOk t)
    (hw : ∀ w, (s.wait w).started = true → (s.wait w).taskEvent < s.evs.length) (d : Nat) (tape : List Entry) (op : ExtOp) :
    T46TP (startOf (envChange s d tape) op) := by
  have hst : (startOf (envChange s d tape) op).st = envChange s d tape := by cases op <;> rfl
  refine ⟨?_, ?_, ?_⟩
  · rw [hst]; exact ht
  · rw [hst]; exact hw
  · cases op <;> (intro g hg; simp [startOf, startDo, startTick, startFlush, startRun, Cfg.start] at hg) <;>
      first | (rcases hg with h1 | h1 <;> subst h1 <;> trivial) | (subst hg; trivial)

/-! ## sessions guarded by the two real restrictions -/

/-- the guard: no re-entry of the task loop, no root change under an active task loop -/
structure T46GuardMin2 (c : Cfg) : Prop where
  tick : ∀ x k, c.stack = .tick x :: k → c.exn = none → (c.st.comp x).tasks ≠ [] →
    t46_quiet k = true ∧ c.st.rootOf x = x
  root : ∀ x ts, Frame.taskLoop x ts ∈ c.stack → (step c).st.rootOf x = c.st.rootOf x

theorem T46Guard.of_min2 {n0 : Nat} {c : Cfg} (hm : T46GuardMin2 c) (hw : W6CInv n0 c) (hq : T46RQ c) (htp : T46TP c) :
    T46Guard c :=
  T46Guard.of_min ⟨hm.tick, hm.root, fun r t k _ hs _ _ => htp.own r t k hs⟩ hw hq

/-- admissible sessions (`W6ReachW`) on which (tick) and (root) hold at every step taken -/
inductive T46ReachM2 (s0 : St) : Cfg → Prop
  | init (d : Nat) (tape : List Entry) (op : ExtOp) (hop : op.w6ok s0.hs.length) :
      T46ReachM2 s0 (startOf (envChange s0 d tape) op)
  | step {c : Cfg} : T46ReachM2 s0 c → T46GuardMin2 c → T46ReachM2 s0 (CV.Core.step c)
  | next {c : Cfg} (d : Nat) (tape : List Entry) (op : ExtOp) (hop : op.w6ok s0.hs.length) :
      T46ReachM2 s0 c → done c = true → T46ReachM2 s0 (startOf (envChange c.st d tape) op)

theorem T46ReachM2.admissible {s0 : St} {c : Cfg} (h : T46ReachM2 s0 c) : W6ReachW s0.hs.length s0 c := by
  induction h with
  | init d tape op hop => exact W6ReachW.init d tape op hop
  | step _ _ ih => exact W6ReachW.step ih
  | next d tape op hop _ hd ih => exact W6ReachW.next d tape op hop ih hd

/-- the joint induction: accounting invariant, range/kind invariant, and the session is a guarded session -/
theorem T46ReachM2.all {s0 : St} (h0 : T46Init s0) (hi : W6InitWait s0) (hq : T46InitQ s0) {c : Cfg}
    (h : T46ReachM2 s0 c) : T46Reach s0 c ∧ T46Inv c ∧ T46TP c := by
  induction h with
  | init d tape op _ =>
    refine ⟨T46Reach.init d tape op, t46_reach_inv h0 _ (T46Reach.init d tape op), ?_⟩
    exact t46_start_tp s0 (fun x t ht => by rw [h0.tasks x] at ht; cases ht)
      (fun w hw => by
        have : s0.wait w = dfltWait := by unfold St.wait; rw [h0.waits]; rfl
        rw [this] at hw; cases hw) d tape op
  | @step c0 hprev hg ih =>
    obtain ⟨hr, hinv, htp⟩ := ih
    have hw := hprev.admissible.cinv hi
    have hrq := t46_reach_rq hq _ hprev.admissible.reach
    have hguard := T46Guard.of_min2 hg hw hrq htp
    exact ⟨T46Reach.step hr hguard, t46_step_inv _ hinv hguard, t46_step_tp c0 hinv htp hw hrq⟩
  | @next c0 d tape op _ hprev hd ih =>
    obtain ⟨hr, hinv, htp⟩ := ih
    have hr' := T46Reach.next d tape op hr hd
    exact ⟨hr', t46_reach_inv h0 _ hr', t46_start_tp c0.st htp.tasks htp.waits d tape op⟩

end CV.Core

import CV.Proofs.NodeSymOne2
/-
C19, the symmetric composition with BOTH ends originating calls: the packet-level core.

In the symmetric world each direction has one byte stream that carries the calls of its writer AND the writer's answers
to the peer's calls.  What the reader's protocol does with such a mixed sequence of packets is proved here to split into
the two conversations:

  * `ns_processAll_interleave` (no hypothesis on the codec, the contents, the ids, the protocol state): for every
    interleaving `m` of call packets `cs` and result packets `vs`, processing `m` leaves the protocol in exactly the
    state in which processing `vs` alone leaves it (the call packets are transparent), and the effects of processing `m`
    are an interleaving of the effects of `cs` alone - processed by ANY protocol state - and the effects of `vs` alone.
  * `ns_merged_read` : the same for the concrete packets of the two-party theorems: the reader is callee of the
    conversation `E1` (calls `calls1`) and caller of the conversation `E2` (calls `calls2`).
-/
namespace CV
namespace Node

/-- `m` is an interleaving of `xs` and `ys`: both orders are kept -/
inductive ns_Interleave {α : Type} : List α → List α → List α → Prop
  | nil : ns_Interleave [] [] []
  | left (a : α) {xs ys m : List α} : ns_Interleave xs ys m → ns_Interleave (a :: xs) ys (a :: m)
  | right (a : α) {xs ys m : List α} : ns_Interleave xs ys m → ns_Interleave xs (a :: ys) (a :: m)

theorem ns_interleave_left_nil {α : Type} : ∀ xs : List α, ns_Interleave xs [] xs
  | [] => .nil
  | a :: xs => .left a (ns_interleave_left_nil xs)

theorem ns_interleave_right_nil {α : Type} : ∀ ys : List α, ns_Interleave [] ys ys
  | [] => .nil
  | a :: ys => .right a (ns_interleave_right_nil ys)

theorem ns_interleave_append_left {α : Type} (p : List α) {xs ys m : List α} (h : ns_Interleave xs ys m) :
    ns_Interleave (p ++ xs) ys (p ++ m) := by
  induction p with
  | nil => exact h
  | cons a p ih => exact .left a ih

theorem ns_interleave_append_right {α : Type} (p : List α) {xs ys m : List α} (h : ns_Interleave xs ys m) :
    ns_Interleave xs (p ++ ys) (p ++ m) := by
  induction p with
  | nil => exact h
  | cons a p ih => exact .right a ih

theorem ns_interleave_length {α : Type} {xs ys m : List α} (h : ns_Interleave xs ys m) :
    m.length = xs.length + ys.length := by
  induction h with
  | nil => rfl
  | left a _ ih => simp [ih]; omega
  | right a _ ih => simp [ih]; omega

theorem ns_interleave_mem {α : Type} {xs ys m : List α} (h : ns_Interleave xs ys m) (a : α) :
    a ∈ m ↔ a ∈ xs ∨ a ∈ ys := by
  induction h with
  | nil => simp
  | left b _ ih => simp [ih, or_assoc]
  | right b _ ih =>
    simp only [List.mem_cons, ih]
    constructor
    · rintro (h | h | h)
      · exact .inr (.inl h)
      · exact .inl h
      · exact .inr (.inr h)
    · rintro (h | h | h)
      · exact .inr (.inl h)
      · exact .inl h
      · exact .inr (.inr h)

/-- filtering an interleaving by a predicate that holds on `xs` and fails on `ys` gives back `xs` -/
theorem ns_interleave_filter {α : Type} (q : α → Bool) {xs ys m : List α} (h : ns_Interleave xs ys m)
    (hx : ∀ a ∈ xs, q a = true) (hy : ∀ a ∈ ys, q a = false) :
    m.filter q = xs ∧ m.filter (fun a => !q a) = ys := by
  induction h with
  | nil => simp
  | left a _ ih =>
    have ha := hx a (by simp)
    obtain ⟨i1, i2⟩ := ih (fun b hb => hx b (by simp [hb])) hy
    simp [ha, i1, i2]
  | right a _ ih =>
    have ha := hy a (by simp)
    obtain ⟨i1, i2⟩ := ih hx (fun b hb => hy b (by simp [hb]))
    simp [ha, i1, i2]

/-- a packet that - if it parses at all - is a call packet -/
def ns_CallClass (parse : Bytes → PRes) (p : Bytes) : Prop := ∀ j, parse p = .parsed j → isValuePacket j = false
/-- a packet that - if it parses at all - is a result packet -/
def ns_ValueClass (parse : Bytes → PRes) (p : Bytes) : Prop := ∀ j, parse p = .parsed j → isValuePacket j = true

/-- what a call packet does is the same whatever state the protocol is in, and the state stays as it is -/
theorem ns_call_packet_stateless (c : Cfg) (s s0 : Proto) (j : J) (h : isValuePacket j = false) :
    processJ c s j = (s, (processJ c s0 j).2) := by
  unfold processJ
  rw [if_neg (by simp [h]), if_neg (by simp [h])]
  split
  · split <;> rfl
  · rfl

/-- a run of call packets: state untouched, effects independent of the state -/
theorem ns_processAll_calls (c : Cfg) (parse : Bytes → PRes) (s s0 : Proto) :
    ∀ cs : List Bytes, (∀ p ∈ cs, ns_CallClass parse p) →
      processAll c parse s cs = (s, (processAll c parse s0 cs).2) := by
  intro cs
  induction cs with
  | nil => intro _; rfl
  | cons p cs ih =>
    intro h
    have ih' := ih (fun q hq => h q (by simp [hq]))
    cases hp : parse p with
    | parsed j =>
      have hj := h p (by simp) j hp
      have e1 := ns_call_packet_stateless c s s0 j hj
      have e0 := ns_call_packet_stateless c s0 s0 j hj
      have ih0 := ih (fun q hq => h q (by simp [hq]))
      simp only [processAll, hp]
      rw [e1]
      simp only
      rw [ih']
      have : (processJ c s0 j).1 = s0 := by rw [e0]
      rw [this]
    | valueError => simp only [processAll, hp]; exact ih'
    | raised => simp only [processAll, hp]; exact ih'

/-- **calls and answers on one stream do not interfere** (packet level) -/
theorem ns_processAll_interleave (c : Cfg) (parse : Bytes → PRes) (s0 : Proto) {cs vs m : List Bytes}
    (h : ns_Interleave cs vs m) (hc : ∀ p ∈ cs, ns_CallClass parse p) (hv : ∀ p ∈ vs, ns_ValueClass parse p) :
    ∀ s : Proto, (processAll c parse s m).1 = (processAll c parse s vs).1 ∧
      ns_Interleave (processAll c parse s0 cs).2 (processAll c parse s vs).2 (processAll c parse s m).2 := by
  induction h with
  | nil => intro s; exact ⟨rfl, .nil⟩
  | left p _ ih =>
    intro s
    obtain ⟨i1, i2⟩ := ih (fun q hq => hc q (by simp [hq])) hv s
    cases hp : parse p with
    | parsed j =>
      have hj := hc p (by simp) j hp
      have e1 := ns_call_packet_stateless c s s0 j hj
      have e0 := ns_call_packet_stateless c s0 s0 j hj
      have e0' : (processJ c s0 j).1 = s0 := by rw [e0]
      simp only [processAll, hp]
      rw [e1]
      simp only
      rw [e0']
      exact ⟨i1, ns_interleave_append_left _ i2⟩
    | valueError => simp only [processAll, hp]; exact ⟨i1, i2⟩
    | raised => simp only [processAll, hp]; exact ⟨i1, i2⟩
  | right p _ ih =>
    intro s
    have ih' := ih hc (fun q hq => hv q (by simp [hq]))
    cases hp : parse p with
    | parsed j =>
      obtain ⟨i1, i2⟩ := ih' (processJ c s j).1
      simp only [processAll, hp]
      exact ⟨i1, ns_interleave_append_right _ i2⟩
    | valueError => simp only [processAll, hp]; exact ih' s
    | raised => simp only [processAll, hp]; exact ih' s

/-! ## the concrete packets of the two conversations -/

section
variable {E1 E2 : n2_Env} {calls1 calls2 : List Ev}

theorem ns_callPkt_class (H1 : n2f_Hyp E1 calls1) (i : Nat) (hi : i < calls1.length) :
    ns_CallClass E1.parse (n2_callPkt E1 calls1 i) := by
  intro j hj
  rw [H1.callParse i hi] at hj
  have e : n2_callJ E1 calls1 i = dumpEvent E1.cB.excl (n2_callEv calls1 i) (n2_idJ i) := rfl
  cases hj
  rw [e]; exact ns_isValue_dumpEvent _ _ _

theorem ns_ansPkt_class (H2 : n2f_Hyp E2 calls2) (i : Nat) (hi : i < calls2.length) :
    ns_ValueClass E2.parse (n2f_ansPkt E2 calls2 i) := by
  intro j hj
  rw [H2.ansParse i hi] at hj
  cases hj
  exact ns_isValue_dumpValue _ _ _ _ _

/-- **one read of a mixed stream**: the reader is callee of conversation 1 (its peer's calls `l1`, any of them accepted
    or refused by the reader's receive firewall) and caller of conversation 2 (its peer's answers to its own calls `l2`,
    which are waiting, not yet answered); the packets arrive interleaved in any way.  Then the reader's table of waiting
    calls ends up exactly as if the answers had arrived alone, and what it does is an interleaving of what the two-party
    callee does on `l1` (dispatch / refusal per call, in order) and what the two-party caller does on `l2`
    (one resolution per answer, with the value of that very call, in order). -/
theorem ns_merged_read (H1 : n2f_Hyp E1 calls1) (H2 : n2f_Hyp E2 calls2) (hc : E2.cA = E1.cB) (hp : E2.parse = E1.parse)
    (L l1 l2 D : List Nat) (b : Proto) (m : List Bytes)
    (h1 : ∀ i ∈ l1, i < calls1.length) (hnd : l2.Nodup) (h2 : ∀ i ∈ l2, i ∈ L ∧ i ∉ D ∧ i < calls2.length)
    (hpend : b.pending = L.map (n2f_expPend E2 calls2 D))
    (hm : ns_Interleave (l1.map (n2_callPkt E1 calls1)) (l2.map (n2f_ansPkt E2 calls2)) m) :
    (processAll E1.cB E1.parse b m).1 = { b with pending := L.map (n2f_expPend E2 calls2 (D ++ l2)) } ∧
      ns_Interleave (l1.map (n2f_effB E1 calls1))
        (l2.map (fun i => Eff.resolve i (n2f_val E2 calls2 i) (.bool false))) (processAll E1.cB E1.parse b m).2 := by
  have hcs : ∀ p ∈ l1.map (n2_callPkt E1 calls1), ns_CallClass E1.parse p := by
    intro p hp'
    obtain ⟨i, hi, rfl⟩ := List.mem_map.mp hp'
    exact ns_callPkt_class H1 i (h1 i hi)
  have hvs : ∀ p ∈ l2.map (n2f_ansPkt E2 calls2), ns_ValueClass E1.parse p := by
    intro p hp'
    obtain ⟨i, hi, rfl⟩ := List.mem_map.mp hp'
    rw [← hp]
    exact ns_ansPkt_class H2 i (h2 i hi).2.2
  obtain ⟨r1, r2⟩ := ns_processAll_interleave E1.cB E1.parse b hm hcs hvs b
  have eB := n2f_procB E1 calls1 H1 b l1 h1
  have eA := n2f_procA E2 calls2 H2 L l2 D b hnd h2 hpend
  rw [hc, hp] at eA
  rw [eB, eA] at r2
  rw [eA] at r1
  exact ⟨r1, r2⟩

end

/-! ## the byte level: the reader of a mixed stream is a prefix-consumer of it -/

/-- one `deliver` step of one end of the symmetric world, on a stream into which the peer has written the packets
    `pkts` (calls and answers in any mixture) of which this end has processed `outs` so far: whatever the cut `n`, no
    read handler raises, the end processes a further run `dn` of whole packets such that `outs ++ dn` is again an
    initial part of `pkts`, keeps the rest in its buffer, and does exactly what `processAll` does on `dn`. -/
theorem ns_deliver_framing (c : Cfg) (parse : Bytes → PRes) (dumps : J → Bytes)
    (beh : Nat → Ev → Option (J × List (String × J))) (me peer : ns_Side) (n : Nat)
    (hC : CodecOK (procOf c.excl parse)) (pkts outs : List Bytes) (hG : ∀ p ∈ pkts, Good (procOf c.excl parse) p)
    (h : n2_Rx (procOf c.excl parse) pkts peer.out me.p.buf outs) :
    ∃ dn buf', outs ++ dn <+: pkts ∧ n2_Rx (procOf c.excl parse) pkts (peer.out.drop n) buf' (outs ++ dn) ∧
      ns_act c parse dumps beh me peer (.deliver n) =
        (ns_absorb dumps { me with p := { (processAll c parse me.p dn).1 with buf := buf' } }
            (processAll c parse me.p dn).2,
         { peer with out := peer.out.drop n }, false) := by
  have hrx : n2_Rx (procOf c.excl parse) pkts (peer.out.take n ++ peer.out.drop n) me.p.buf outs := by
    rw [List.take_append_drop]; exact h
  obtain ⟨hab, hrx'⟩ := n2_rx_read hC hG hrx
  have hpre := n2_rx_prefix hC hG hrx'
  refine ⟨_, _, hpre, hrx', ?_⟩
  simp only [ns_act, n2_recv_eq, hab]

end Node
end CV

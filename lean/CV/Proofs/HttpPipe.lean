import CV.Proofs.HttpServer
import CV.Model.HttpServerPipe
/-
Lemmas for the pipelined-delivery model (CV/Model/HttpServerPipe.lean); property-level statements are in
CV/Props/C13.lean (`pipe_*`).
-/
namespace CV
namespace Http

theorem connReadAll_cons (lex : Lex) (secure : Bool) (cn : Conn) (d : Bytes) (ds : List Bytes) :
    connReadAll lex secure cn (d :: ds) =
      ((connReadAll lex secure (connRead lex secure cn d).1 ds).1,
       (connRead lex secure cn d).2 :: (connReadAll lex secure (connRead lex secure cn d).1 ds).2) := rfl

/-- a read that dispatches leaves no parser (hence no buffered byte) for the socket -/
theorem connRead_request_drops {lex : Lex} {secure : Bool} {cn cn' : Conn} {d fl : Bytes} {hb : Option Bytes}
    {body : Bytes} (h : connRead lex secure cn d = (cn', .request fl hb body)) :
    ∃ req, cn' = ⟨none, some req⟩ := by
  unfold connRead at h
  split at h
  · obtain ⟨_, _, req, _, _, hcn, _⟩ := afterExec_fire h
    exact ⟨req, hcn⟩
  · split at h
    · cases h
    · obtain ⟨_, _, req, _, _, hcn, _⟩ := afterExec_fire h
      exact ⟨req, hcn⟩

theorem pipeRead_request {lex : Lex} {secure : Bool} {cn cn' : Conn} {d fl : Bytes} {hb : Option Bytes}
    {body : Bytes} (h : connRead lex secure cn d = (cn', .request fl hb body)) :
    pipeRead lex secure cn d = ({}, .request fl hb body) := by
  obtain ⟨req, hcn⟩ := connRead_request_drops h
  unfold pipeRead
  rw [h, hcn]
  rfl

theorem pipeRead_wait {lex : Lex} {secure : Bool} {cn : Conn} {d : Bytes}
    (h : (connRead lex secure cn d).2 = .wait) :
    pipeRead lex secure cn d = ((connRead lex secure cn d).1, .wait) := by
  unfold pipeRead
  simp [h, Out.answered]

/-- reads of which only the last one dispatches, followed by more reads: the rest is served from empty tables -/
theorem pipeAll_of_connReadAll (lex : Lex) (secure : Bool) (fl : Bytes) (hb : Option Bytes) (body : Bytes)
    (more : List Bytes) :
    ∀ (segs : List Bytes) (cn cn1 : Conn), segs ≠ [] →
      connReadAll lex secure cn segs = (cn1, List.replicate (segs.length - 1) .wait ++ [.request fl hb body]) →
      pipeAll lex secure cn (segs ++ more) =
        ((pipeAll lex secure {} more).1,
         List.replicate (segs.length - 1) .wait ++ [.request fl hb body] ++ (pipeAll lex secure {} more).2) := by
  intro segs
  induction segs with
  | nil => intro _ _ h; exact absurd rfl h
  | cons d rest ih =>
    intro cn cn1 _ h
    rw [connReadAll_cons] at h
    cases rest with
    | nil =>
      simp only [connReadAll, List.length_cons, List.length_nil, Nat.zero_add, Nat.sub_self,
        List.replicate_zero, List.nil_append] at h
      have h2 : (connRead lex secure cn d).2 = .request fl hb body := by
        have := congrArg Prod.snd h
        simpa using this
      have h1 : connRead lex secure cn d = ((connRead lex secure cn d).1, .request fl hb body) := by
        rw [← h2]
      have hp := pipeRead_request h1
      simp only [List.cons_append, List.nil_append, pipeAll, hp, List.length_cons, List.length_nil,
        Nat.zero_add, Nat.sub_self, List.replicate_zero]
    | cons d' rest' =>
      have hlen : (d :: d' :: rest').length - 1 = ((d' :: rest').length - 1) + 1 := by simp
      rw [hlen, List.replicate_succ, List.cons_append] at h
      have h2 : (connRead lex secure cn d).2 = .wait := by
        have := congrArg Prod.snd h
        simp only [List.cons.injEq] at this
        exact this.1
      have h3 : connReadAll lex secure (connRead lex secure cn d).1 (d' :: rest') =
          (cn1, List.replicate ((d' :: rest').length - 1) .wait ++ [.request fl hb body]) := by
        have ha := congrArg Prod.fst h
        have hb' := congrArg Prod.snd h
        simp only [List.cons.injEq] at hb'
        exact Prod.ext ha hb'.2
      have := ih (connRead lex secure cn d).1 cn1 (by simp) h3
      rw [List.cons_append, pipeAll, pipeRead_wait h2]
      simp only
      rw [this, hlen, List.replicate_succ]
      simp

theorem dispatched_waits (n : Nat) (fl : Bytes) (hb : Option Bytes) (body : Bytes) (rest : List Out) :
    dispatched (List.replicate n .wait ++ [.request fl hb body] ++ rest) = (fl, hb, body) :: dispatched rest := by
  induction n with
  | zero => simp [dispatched]
  | succ n ih => simpa [List.replicate_succ, dispatched] using ih

end Http
end CV

import CV.Model.AuthLeaves
/-
Helper lemmas for C20: `binascii.a2b_base64` (model `a2bBase64`) inverts the RFC 4648
encoder `b64Encode`.  Core Lean only.
-/
namespace CV.Auth

theorem b64_tab : ∀ n : Fin 64, b64Val (b64Chr n.val) = some n.val ∧ b64Chr n.val ≠ 61 := by decide

theorem b64Val_chr {n : Nat} (h : n < 64) : b64Val (b64Chr n) = some n := (b64_tab ⟨n, h⟩).1
theorem b64Chr_ne_pad {n : Nat} (h : n < 64) : b64Chr n ≠ 61 := (b64_tab ⟨n, h⟩).2

/-- one step of the decoder on an alphabet character -/
theorem a2bGo_chr {n : Nat} (h : n < 64) (qp left pads : Nat) (cs : Bytes) :
    a2bGo qp left pads (b64Chr n :: cs) =
      if qp = 0 then a2bGo 1 n 0 cs
      else if qp = 1 then (a2bGo 2 (n % 16) 0 cs).map (UInt8.ofNat (left * 4 + n / 16) :: ·)
      else if qp = 2 then (a2bGo 3 (n % 4) 0 cs).map (UInt8.ofNat (left * 16 + n / 4) :: ·)
      else (a2bGo 0 0 0 cs).map (UInt8.ofNat (left * 64 + n) :: ·) := by
  rw [a2bGo]
  simp only [b64Chr_ne_pad h, if_false, b64Val_chr h]

theorem ofNat_toNat_eq (a : UInt8) {k : Nat} (h : k = a.toNat) : UInt8.ofNat k = a := by
  subst h; exact UInt8.ofNat_toNat

theorem a2bGo_pad2 (left : Nat) (cs : Bytes) : a2bGo 2 left 0 (61 :: 61 :: cs) = some [] := by
  simp [a2bGo]

theorem a2bGo_pad3 (left : Nat) (cs : Bytes) : a2bGo 3 left 0 (61 :: cs) = some [] := by
  simp [a2bGo]

/-- the decoder, started at a quad boundary, inverts the encoder; whatever follows a padded
    final quad is not looked at -/
theorem a2b_encode (bs : Bytes) : a2bGo 0 0 0 (b64Encode bs) = some bs := by
  fun_induction b64Encode bs with
  | case1 => simp [a2bGo]
  | case2 a =>
    have ha := a.toNat_lt
    rw [a2bGo_chr (by omega), if_pos rfl, a2bGo_chr (by omega), if_neg (by decide), if_pos rfl, a2bGo_pad2]
    simp only [Option.map_some]
    congr 2
    exact ofNat_toNat_eq a (by omega)
  | case3 a b =>
    have ha := a.toNat_lt
    have hb := b.toNat_lt
    rw [a2bGo_chr (by omega), if_pos rfl, a2bGo_chr (by omega), if_neg (by decide), if_pos rfl,
      a2bGo_chr (by omega), if_neg (by decide), if_neg (by decide), if_pos rfl, a2bGo_pad3]
    simp only [Option.map_some]
    congr 2
    · exact ofNat_toNat_eq a (by omega)
    · congr 1
      exact ofNat_toNat_eq b (by omega)
  | case4 a b c rest ih =>
    have ha := a.toNat_lt
    have hb := b.toNat_lt
    have hc := c.toNat_lt
    rw [a2bGo_chr (by omega), if_pos rfl, a2bGo_chr (by omega), if_neg (by decide), if_pos rfl,
      a2bGo_chr (by omega), if_neg (by decide), if_neg (by decide), if_pos rfl,
      a2bGo_chr (by omega), if_neg (by decide), if_neg (by decide), if_neg (by decide), ih]
    simp only [Option.map_some]
    congr 2
    · exact ofNat_toNat_eq a (by omega)
    · congr 1
      · exact ofNat_toNat_eq b (by omega)
      · congr 1
        exact ofNat_toNat_eq c (by omega)

/-- every character the encoder writes is ASCII -/
theorem b64Chr_lt (n : Nat) : (b64Chr n).toNat < 128 := by
  unfold b64Chr
  split
  · simp [UInt8.toNat_ofNat']; omega
  · split
    · simp [UInt8.toNat_ofNat']; omega
    · split
      · simp [UInt8.toNat_ofNat']; omega
      · split <;> decide

theorem b64Encode_ascii (bs : Bytes) : ∀ b ∈ b64Encode bs, b.toNat < 128 := by
  fun_induction b64Encode bs with
  | case1 => simp
  | case2 a => intro b hb; simp at hb; rcases hb with rfl | rfl | rfl | rfl <;> first | exact b64Chr_lt _ | decide
  | case3 a b => intro x hb; simp at hb; rcases hb with rfl | rfl | rfl | rfl <;> first | exact b64Chr_lt _ | decide
  | case4 a b c rest ih =>
    intro x hb
    simp only [List.mem_cons] at hb
    rcases hb with rfl | rfl | rfl | rfl | hb
    · exact b64Chr_lt _
    · exact b64Chr_lt _
    · exact b64Chr_lt _
    · exact b64Chr_lt _
    · exact ih x hb

end CV.Auth

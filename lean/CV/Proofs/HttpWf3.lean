import CV.Proofs.HttpWf2
/-
Helper lemmas for C13 `wellformed_*` (3/3): `exec lex (init k) msg` on a message accepted by
the RFC-derived decomposition `isReading` (CV/Model/HttpSpec.lean), phase by phase.
-/
namespace CV
namespace Http

/-- the header info the parser ends with for header block `hb` (`none`: the empty block) -/
def wf13_hi (lex : Lex) : Option Bytes → Option HdrInfo
  | none => some noHdrs
  | some b => lex.hdrs b

/-- what a clean, complete reading of one message leaves in the parser -/
structure wf13_Read (p : PState) (fl : Bytes) (f : FirstLine) (hb : Option Bytes) (h : HdrInfo)
    (body : Bytes) : Prop where
  bad : p.core.bad = false
  complete : p.core.complete = true
  hdrDone : p.core.hdrDone = true
  firstLine : p.core.firstLine = some fl
  fl : p.core.fl = some f
  hdrBlock : p.core.hdrBlock = hb
  hi : p.core.hi = some h
  body : p.core.body = body

theorem wf13_exec_init (lex : Lex) (k : Kind) (msg : Bytes) (hne : msg ≠ []) :
    exec lex (init k) msg = execFirst lex { kind := k } msg := by
  have : msg.isEmpty = false := by cases msg <;> simp_all
  simp [exec, init, this]

theorem wf13_execFirst (lex : Lex) (c : Core) (fl tail : Bytes) (f : FirstLine)
    (hocc : occurs CRLF (fl ++ [13]) = false) (hf : lex.first c.kind fl = some f) :
    execFirst lex c (fl ++ (CRLF ++ tail)) =
      execHeaders lex { c with onFirst := true, firstLine := some fl, fl := some f } tail := by
  have ht : (fl ++ (CRLF ++ tail)).take fl.length = fl := by simp
  have hd : (fl ++ (CRLF ++ tail)).drop (fl.length + 2) = tail := by
    rw [← List.drop_drop]; simp [CRLF]
  unfold execFirst
  simp only [wf13_find_crlf fl tail hocc, ht, hd, hf]

theorem wf13_take2 (hb rest : Bytes) (hne : hb ≠ []) (h2 : hb.take 2 ≠ CRLF) :
    (hb ++ (CRLF2 ++ rest)).take 2 ≠ CRLF := by
  cases hb with
  | nil => exact absurd rfl hne
  | cons a t =>
    cases t with
    | nil => simp [CRLF, CRLF2]
    | cons b t' => simpa using h2

/-- header phase on a non-empty header block followed by CRLF CRLF -/
theorem wf13_execHeaders (lex : Lex) (c : Core) (hb enc : Bytes) (h : HdrInfo)
    (hne : hb ≠ []) (h2 : hb.take 2 ≠ CRLF) (hocc : occurs CRLF2 (hb ++ [13, 10, 13]) = false)
    (hl : lex.hdrs hb = some h) (hov : c.over = false) :
    execHeaders lex c (hb ++ (CRLF2 ++ enc)) =
      execBody lex
        (match h.clen with
          | .absent => { c with hdrBlock := some hb, hdrDone := true, hi := some h, chunked := h.te,
                                clenRest := if h.te then none else some maxsize }
          | .bad => { c with hdrBlock := some hb, hdrDone := true, hi := some h }
          | .val n => { c with hdrBlock := some hb, hdrDone := true, hi := some h, clen := some n,
                               clenRest := some n })
        enc false := by
  have hx : hb ++ (CRLF2 ++ enc) ≠ CRLF := by
    intro e
    have := congrArg List.length e
    have hpos : 0 < hb.length := List.length_pos_iff.mpr hne
    simp [CRLF, CRLF2] at this
    omega
  have ht2 := wf13_take2 hb enc hne h2
  have ht : (hb ++ (CRLF2 ++ enc)).take hb.length = hb := by simp
  have hd : (hb ++ (CRLF2 ++ enc)).drop (hb.length + 4) = enc := by
    rw [← List.drop_drop]; simp [CRLF2]
  unfold execHeaders
  simp only [hx, if_false, ht2, decide_false, Bool.or_false, wf13_find_crlf2 hb enc hocc, ht, hd, hl]
  cases c
  simp only at hov
  subst hov
  cases h.clen <;> rfl

/-- a message accepted by `isReading` is read as that decomposition: clean and complete.
    `hreq`: a request line carries no status code (the one place where `lex` is constrained) -/
theorem wf13_exec (lex : Lex) (k : Kind) (msg fl : Bytes) (hb : Option Bytes) (body : Bytes)
    (hr : isReading lex k msg fl hb body = true)
    (hchunk : ∀ l n, rfcChunkSize l = some n → lex.chunk l = some n)
    (hreq : k = .request → ∀ f, lex.first k fl = some f → f.status = none) :
    ∃ f hi, lex.first k fl = some f ∧ wf13_hi lex hb = some hi ∧
      wf13_Read (exec lex (init k) msg) fl f hb hi body := by
  unfold isReading at hr
  simp only [Bool.and_eq_true, Bool.not_eq_true'] at hr
  obtain ⟨hocc, hr⟩ := hr
  cases hf : lex.first k fl with
  | none => simp [hf] at hr
  | some f =>
    simp only [hf] at hr
    refine ⟨f, ?_⟩
    cases hb with
    | none =>
      simp only [Bool.and_eq_true, beq_iff_eq, Bool.or_eq_true, List.isEmpty_iff] at hr
      obtain ⟨⟨hmsg, hbody⟩, hk⟩ := hr
      subst hmsg hbody
      refine ⟨noHdrs, rfl, rfl, ?_⟩
      rw [wf13_exec_init lex k _ (by simp [CRLF]), List.append_assoc,
        wf13_execFirst lex _ fl CRLF f hocc hf]
      have e : execHeaders lex { kind := k, onFirst := true, firstLine := some fl, fl := some f } CRLF =
          execBody lex { kind := k, onFirst := true, firstLine := some fl, fl := some f,
                         hdrDone := true, hi := some noHdrs } [] true := by
        simp [execHeaders]
      rw [e]
      rcases hk with hk | hk
      · have hst := hreq hk f (by rw [← hf])
        constructor <;> simp [execBody, Core.status, hst, Core.bad]
      · constructor <;> simp [execBody, Core.status, hk, Core.bad]
    | some hb =>
      simp only [Bool.and_eq_true, Bool.not_eq_true', bne_iff_ne, ne_eq, List.isEmpty_eq_false_iff] at hr
      obtain ⟨⟨⟨hne, h2⟩, hocc2⟩, hr⟩ := hr
      cases hl : lex.hdrs hb with
      | none => simp [hl] at hr
      | some h =>
        simp only [hl, Bool.and_eq_true, Bool.not_eq_true'] at hr
        obtain ⟨⟨hpre, hup⟩, hbody⟩ := hr
        refine ⟨h, rfl, hl, ?_⟩
        have hmsg : msg = fl ++ (CRLF ++ (hb ++ (CRLF2 ++ msg.drop (fl ++ CRLF ++ hb ++ CRLF2).length))) := by
          have := List.prefix_iff_eq_append.mp (List.isPrefixOf_iff_prefix.mp hpre)
          simpa using this.symm
        generalize msg.drop (fl ++ CRLF ++ hb ++ CRLF2).length = enc at hmsg hbody
        subst hmsg
        rw [wf13_exec_init lex k _ (by simp [CRLF]), wf13_execFirst lex _ fl _ f hocc hf,
          wf13_execHeaders lex _ hb enc h hne h2 hocc2 hl rfl]
        unfold bodyOk at hbody
        cases hc : h.clen with
        | bad => simp [hc] at hbody
        | val n =>
          simp only [hc, Bool.and_eq_true, decide_eq_true_eq, beq_iff_eq] at hbody
          obtain ⟨⟨hn, henc⟩, hlen⟩ := hbody
          subst henc
          have hz : n - (enc.length : Int) = 0 := by omega
          constructor <;> simp [execBody, Core.status, Core.bad, hz]
        | absent =>
          simp only [hc] at hbody
          cases hte : h.te with
          | true =>
            simp only [hte, if_true, beq_iff_eq] at hbody
            have e : ∀ c : Core, c.chunked = true → execBody lex c enc false =
                chunkLoop lex { c with msgBegin := true } enc := by
              intro c hch; simp [execBody, hch]
            rw [e _ rfl]
            have hcl := wf13_chunkLoop lex hchunk enc
              { kind := k, onFirst := true, firstLine := some fl, fl := some f, hdrBlock := some hb,
                hdrDone := true, hi := some h, chunked := true, clenRest := none, msgBegin := true }
              body hbody
            simp only [if_true] at hcl ⊢
            constructor <;> simp [hcl, Core.bad]
          | false =>
            simp only [hte, Bool.false_eq_true, if_false, Bool.and_eq_true, beq_iff_eq,
              List.isEmpty_iff] at hbody
            obtain ⟨⟨hk, henc⟩, hbody⟩ := hbody
            subst henc hbody
            have hst := hreq hk f (by rw [← hf])
            constructor <;> simp [execBody, Core.status, hst, Core.bad]

end Http
end CV

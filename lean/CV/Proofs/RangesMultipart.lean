import CV.Model.RangesMultipart
import CV.Model.MultipartSpec
/- Helper lemmas for C16 (multipart/byteranges): the RFC reader of `CV.Multipart` reads the byte
   stream of `CV.Ranges.multipartBody` back part by part. Core Lean only. -/
namespace CV.Multipart
open CV.Ranges (natDec decFuel digitByte)

/-! ### decimal numbers -/

theorem digitByte_isDigit (d : Nat) : isDigitB (digitByte d) = true := by
  unfold digitByte; split <;> decide

theorem digitByte_val : ∀ d, d < 10 → (digitByte d).toNat - 48 = d
  | 0, _ => rfl | 1, _ => rfl | 2, _ => rfl | 3, _ => rfl | 4, _ => rfl
  | 5, _ => rfl | 6, _ => rfl | 7, _ => rfl | 8, _ => rfl | 9, _ => rfl
  | n + 10, h => by omega

theorem decFuel_digits (f n : Nat) : ∀ c ∈ decFuel f n, isDigitB c = true := by
  induction f generalizing n with
  | zero => simp [decFuel]
  | succ f ih =>
    unfold decFuel
    split
    · simp [digitByte_isDigit]
    · intro c hc
      rw [List.mem_append] at hc
      rcases hc with hc | hc
      · exact ih _ c hc
      · simp only [List.mem_singleton] at hc; subst hc; exact digitByte_isDigit _

theorem decFuel_ne_nil (f n : Nat) : decFuel (f + 1) n ≠ [] := by
  unfold decFuel; split <;> simp

theorem valDigits_snoc (s : Bytes) (c : UInt8) : valDigits (s ++ [c]) = valDigits s * 10 + (c.toNat - 48) := by
  simp [valDigits, List.foldl_append]

theorem valDigits_decFuel (f n : Nat) (h : n < f) : valDigits (decFuel f n) = n := by
  induction f generalizing n with
  | zero => omega
  | succ f ih =>
    unfold decFuel
    split
    · rename_i h10
      simp [valDigits, digitByte_val n h10]
    · rename_i h10
      rw [valDigits_snoc, ih (n / 10) (by omega), digitByte_val _ (Nat.mod_lt _ (by omega))]
      omega

theorem natDec_val (n : Nat) : valDigits (natDec n) = n := valDigits_decFuel _ _ (by omega)
theorem natDec_digits (n : Nat) : ∀ c ∈ natDec n, isDigitB c = true := decFuel_digits _ _
theorem natDec_ne_nil (n : Nat) : natDec n ≠ [] := decFuel_ne_nil _ _

theorem natDec_ne13 (n : Nat) : ∀ c ∈ natDec n, c ≠ 13 := by
  intro c hc h; subst h; exact absurd (natDec_digits n _ hc) (by decide)

/-- a number followed by a non-digit is read back -/
theorem spanNum_natDec_cons (n : Nat) (c : UInt8) (r : Bytes) (hc : isDigitB c = false) :
    spanNum (natDec n ++ c :: r) = some (n, c :: r) := by
  unfold spanNum
  have h1 : (natDec n ++ c :: r).takeWhile isDigitB = natDec n := by
    rw [List.takeWhile_append_of_pos (natDec_digits n)]; simp [List.takeWhile, hc]
  have h2 : (natDec n ++ c :: r).dropWhile isDigitB = c :: r := by
    rw [List.dropWhile_append_of_pos (natDec_digits n)]; simp [List.dropWhile, hc]
  simp only [h1, h2, natDec_ne_nil, if_false, natDec_val]

theorem spanNum_natDec_nil (n : Nat) : spanNum (natDec n) = some (n, []) := by
  unfold spanNum
  have h1 : (natDec n).takeWhile isDigitB = natDec n := by
    have := List.takeWhile_append_of_pos (l₂ := []) (natDec_digits n)
    simpa using this
  have h2 : (natDec n).dropWhile isDigitB = [] := by
    have := List.dropWhile_append_of_pos (l₂ := []) (natDec_digits n)
    simpa using this
  simp only [h1, h2, natDec_ne_nil, if_false, natDec_val]

/-! ### `findSub` -/

theorem findSub_spec (pat : Bytes) : ∀ (s a b : Bytes), findSub pat s = some (a, b) → s = a ++ pat ++ b := by
  intro s
  induction s with
  | nil =>
    intro a b h
    unfold findSub at h
    split at h
    · rename_i hp; simp only [Option.some.injEq, Prod.mk.injEq] at h; obtain ⟨rfl, rfl⟩ := h; simp [hp]
    · simp at h
  | cons c r ih =>
    intro a b h
    unfold findSub at h
    split at h
    · rename_i hp
      simp only [Option.some.injEq, Prod.mk.injEq] at h
      obtain ⟨rfl, rfl⟩ := h
      rw [List.isPrefixOf_iff_prefix] at hp
      obtain ⟨t, ht⟩ := hp
      rw [← ht]; simp
    · cases hr : findSub pat r with
      | none => simp [hr] at h
      | some q =>
        obtain ⟨a', b'⟩ := q
        simp only [hr, Option.map_some, Option.some.injEq, Prod.mk.injEq] at h
        obtain ⟨rfl, rfl⟩ := h
        rw [ih a' b' hr]; simp

theorem findSub_none_of_not_infix (pat s : Bytes) (h : ¬ pat <:+: s) : findSub pat s = none := by
  cases hf : findSub pat s with
  | none => rfl
  | some q =>
    obtain ⟨a, b⟩ := q
    exact absurd ⟨a, b, (findSub_spec pat s a b hf).symm⟩ h

theorem findSub_length (pat s a b : Bytes) (hp : pat ≠ []) (h : findSub pat s = some (a, b)) :
    b.length < s.length := by
  have := findSub_spec pat s a b h
  subst this
  have : 0 < pat.length := List.length_pos_iff.mpr hp
  simp only [List.length_append]; omega

theorem findSub_cons_of_not_prefix (pat : Bytes) (c : UInt8) (r : Bytes) (h : ¬ pat <+: c :: r) :
    findSub pat (c :: r) = (findSub pat r).map (fun p => (c :: p.1, p.2)) := by
  rw [← List.isPrefixOf_iff_prefix] at h
  rw [findSub]; simp [h]

theorem findSub_here (pat k : Bytes) (hp : pat ≠ []) : findSub pat (pat ++ k) = some ([], k) := by
  cases pat with
  | nil => exact absurd rfl hp
  | cons c p =>
    have : (c :: p).isPrefixOf (c :: (p ++ k)) = true := by
      rw [List.isPrefixOf_iff_prefix]; exact ⟨k, rfl⟩
    rw [List.cons_append, findSub, if_pos this]
    simp

/-- bytes other than CR cannot start an occurrence of a pattern that starts with CR -/
theorem findSub_skip (p seg s : Bytes) (h : ∀ c ∈ seg, c ≠ 13) :
    findSub (13 :: p) (seg ++ s) = (findSub (13 :: p) s).map (fun q => (seg ++ q.1, q.2)) := by
  induction seg with
  | nil => simp
  | cons c seg ih =>
    have hc : c ≠ 13 := h c (by simp)
    rw [List.cons_append, findSub_cons_of_not_prefix _ _ _ (by
      intro hp; exact hc (List.cons_prefix_cons.1 hp).1.symm),
      ih (fun x hx => h x (by simp [hx]))]
    cases findSub (13 :: p) s <;> simp

/-- a CR that is not followed by the rest of the pattern does not start an occurrence -/
theorem findSub_cr (p s : Bytes) (h : ¬ p <+: s) :
    findSub (13 :: p) (13 :: s) = (findSub (13 :: p) s).map (fun q => (13 :: q.1, q.2)) :=
  findSub_cons_of_not_prefix _ _ _ (fun hp => h (List.cons_prefix_cons.1 hp).2)

theorem findSub_nil_none (pat : Bytes) (hp : pat ≠ []) : findSub pat [] = none := by
  simp [findSub, hp]

theorem findSub_none_skip (p seg s : Bytes) (h : ∀ c ∈ seg, c ≠ 13) (hs : findSub (13 :: p) s = none) :
    findSub (13 :: p) (seg ++ s) = none := by
  rw [findSub_skip p seg s h, hs]; rfl

theorem findSub_none_cr (p s : Bytes) (h : ¬ p <+: s) (hs : findSub (13 :: p) s = none) :
    findSub (13 :: p) (13 :: s) = none := by
  rw [findSub_cr p s h, hs]; rfl

theorem findSub_none_cons (pat : Bytes) (c : UInt8) (r : Bytes) (h : findSub pat (c :: r) = none) :
    ¬ pat <+: c :: r ∧ findSub pat r = none := by
  rw [findSub] at h
  split at h
  · simp at h
  · rename_i hp
    rw [List.isPrefixOf_iff_prefix] at hp
    refine ⟨hp, ?_⟩
    cases hr : findSub pat r with
    | none => rfl
    | some q => simp [hr] at h

/-- an occurrence cannot straddle the end of `x` and the pattern that follows it, because the
    pattern starts with its only CR -/
theorem no_straddle (t x k : Bytes) (ht : (13 : UInt8) ∉ t) (hx : x ≠ []) (h1 : ¬ (13 :: t) <+: x) :
    ¬ (13 :: t) <+: x ++ (13 :: t) ++ k := by
  intro h
  rw [List.append_assoc] at h
  rcases List.prefix_or_prefix_of_prefix h (List.prefix_append x ((13 :: t) ++ k)) with h2 | h2
  · exact h1 h2
  · obtain ⟨u, hu⟩ := h2
    have h' : x ++ u <+: x ++ ((13 :: t) ++ k) := by rw [hu]; exact h
    rw [List.prefix_append_right_inj] at h'
    cases u with
    | nil => rw [List.append_nil] at hu; exact h1 (hu ▸ List.prefix_refl _)
    | cons a u =>
      have ha : a = 13 := (List.cons_prefix_cons.1 h').1
      subst ha
      cases x with
      | nil => exact hx rfl
      | cons c x =>
        rw [List.cons_append, List.cons.injEq] at hu
        exact ht (hu.2 ▸ (by simp))

/-- the first occurrence of a delimiter after a delimiter-free stretch is right behind it -/
theorem findSub_first (t x k : Bytes) (ht : (13 : UInt8) ∉ t) (hx : findSub (13 :: t) x = none) :
    findSub (13 :: t) (x ++ (13 :: t) ++ k) = some (x, k) := by
  induction x with
  | nil => simpa using findSub_here (13 :: t) k (by simp)
  | cons c x ih =>
    obtain ⟨hnp, hrest⟩ := findSub_none_cons _ c x hx
    have := no_straddle t (c :: x) k ht (by simp) hnp
    rw [List.cons_append, List.cons_append] at this ⊢
    rw [findSub_cons_of_not_prefix _ _ _ this, ih hrest]
    rfl

/-! ### `splitAll` -/

theorem splitFuel_enough (pat : Bytes) (hp : pat ≠ []) :
    ∀ (f g : Nat) (s : Bytes), s.length ≤ f → s.length ≤ g → splitFuel pat f s = splitFuel pat g s := by
  intro f
  induction f with
  | zero =>
    intro g s hf _
    have hs : s = [] := List.eq_nil_of_length_eq_zero (by omega)
    subst hs
    cases g with
    | zero => rfl
    | succ g => simp [splitFuel, findSub_nil_none pat hp]
  | succ f ih =>
    intro g s hf hg
    cases g with
    | zero =>
      have hs : s = [] := List.eq_nil_of_length_eq_zero (by omega)
      subst hs
      simp [splitFuel, findSub_nil_none pat hp]
    | succ g =>
      simp only [splitFuel]
      cases hfs : findSub pat s with
      | none => rfl
      | some q =>
        obtain ⟨a, b⟩ := q
        have := findSub_length pat s a b hp hfs
        simp only
        rw [ih g b (by omega) (by omega)]

theorem splitAll_hit (pat s a b : Bytes) (hp : pat ≠ []) (h : findSub pat s = some (a, b)) :
    splitAll pat s = a :: splitAll pat b := by
  have hl := findSub_length pat s a b hp h
  unfold splitAll
  obtain ⟨n, hn⟩ : ∃ n, s.length = n + 1 := ⟨s.length - 1, by omega⟩
  rw [hn]
  simp only [splitFuel, h]
  rw [splitFuel_enough pat hp n b.length b (by omega) (Nat.le_refl _)]

theorem splitAll_miss (pat s : Bytes) (h : findSub pat s = none) : splitAll pat s = [s] := by
  unfold splitAll
  cases s.length with
  | zero => rfl
  | succ n => simp [splitFuel, h]

/-! ### the shape of the model's byte stream -/

open CV.Ranges

/-- first "-" last "/" length -/
def nums (a b n : Nat) : Bytes := natDec a ++ 45 :: (natDec b ++ 47 :: natDec n)

/-- what lies between two delimiters: the rest of the delimiter line, the fields, the empty line, the octets -/
def partChunk (file ctype : Bytes) (r : Nat × Nat) : Bytes :=
  13 :: 10 :: (sContentType ++ ctype ++ 13 :: 10 :: (sContentRange ++ nums r.1 (r.2 - 1) file.length ++
    13 :: 10 :: 13 :: 10 :: readAt file r.1 r.2))

/-- delimiter, part, delimiter, part, ..., close-delimiter, `tail` -/
def stream (file ctype bnd tail : Bytes) : List (Nat × Nat) → Bytes
  | [] => delimiter bnd ++ tail
  | r :: rest => delimiter bnd ++ partChunk file ctype r ++ stream file ctype bnd tail rest

/-- the position the file object is left at does not matter: every part seeks first -/
theorem genParts_eq (file ctype bnd : Bytes) (clen : Nat) (rs : List (Nat × Nat)) :
    ∀ f : FileObj, f.data = file →
      genParts ctype bnd clen f rs = rs.flatMap (fun r =>
        [dashBoundary bnd, typeLine ctype, rangeLine r.1 r.2 clen, readAt file r.1 r.2, Ranges.crlf]) := by
  induction rs with
  | nil => intro f _; rfl
  | cons r rs ih =>
    intro f hf
    obtain ⟨a, b⟩ := r
    simp only [genParts, FileObj.seek, FileObj.read, List.flatMap_cons, List.cons_append, List.nil_append]
    have h := fun p => ih ⟨f.data, p⟩ hf
    rw [h]
    simp [readAt, hf]

theorem flatten_parts (file ctype bnd : Bytes) (rs : List (Nat × Nat)) (tail : Bytes) :
    [13, 10] ++ ((rs.flatMap (fun r =>
        [dashBoundary bnd, typeLine ctype, rangeLine r.1 r.2 file.length, readAt file r.1 r.2, Ranges.crlf])).flatten ++
      (dashBoundary bnd ++ tail)) = stream file ctype bnd tail rs := by
  induction rs with
  | nil => simp [stream, delimiter, dashBoundary]
  | cons r rs ih =>
    simp only [List.flatMap_cons, List.flatten_append, stream, List.append_assoc]
    rw [← ih]
    simp [delimiter, dashBoundary, partChunk, typeLine, rangeLine, Ranges.crlf, nums, List.append_assoc]

/-- the body as the reader sees it (`CRLF ++ body`) is: CRLF, then delimiters and parts -/
theorem body_stream (file ctype bnd : Bytes) (rs : List (Nat × Nat)) :
    Multipart.crlf ++ multipartBody file ctype bnd rs = [13, 10] ++ stream file ctype bnd [45, 45, 13, 10] rs := by
  unfold multipartBody multipartChunks
  rw [genParts_eq file ctype bnd file.length rs ⟨file, 0⟩ rfl,
    ← flatten_parts file ctype bnd rs [45, 45, 13, 10]]
  simp [Multipart.crlf, Ranges.crlf, List.append_assoc]

theorem multipartBody_length (file ctype bnd : Bytes) (rs : List (Nat × Nat)) :
    (multipartBody file ctype bnd rs).length = 8 + bnd.length +
      (rs.map (fun r => 49 + bnd.length + ctype.length + (natDec r.1).length + (natDec (r.2 - 1)).length +
        (natDec file.length).length + (readAt file r.1 r.2).length)).sum := by
  unfold multipartBody multipartChunks
  rw [genParts_eq file ctype bnd file.length rs ⟨file, 0⟩ rfl]
  induction rs with
  | nil => simp [dashBoundary, Ranges.crlf]; omega
  | cons r rs ih =>
    simp [dashBoundary, Ranges.crlf, typeLine, rangeLine, sContentType, sContentRange] at ih ⊢
    omega

/-! ### no delimiter inside a part -/

theorem findSub_none_ne (p : Bytes) (c : UInt8) (s : Bytes) (hc : c ≠ 13) (hs : findSub (13 :: p) s = none) :
    findSub (13 :: p) (c :: s) = none :=
  findSub_none_skip p [c] s (by simpa using hc) hs

theorem sContentType_ne13 : ∀ c ∈ sContentType, c ≠ 13 := by decide
theorem sContentRange_ne13 : ∀ c ∈ sContentRange, c ≠ 13 := by decide

theorem nums_ne13 (a b n : Nat) : ∀ c ∈ nums a b n, c ≠ 13 := by
  intro c hc
  simp only [nums, List.mem_append, List.mem_cons] at hc
  rcases hc with hc | rfl | hc | rfl | hc
  · exact natDec_ne13 _ c hc
  · decide
  · exact natDec_ne13 _ c hc
  · decide
  · exact natDec_ne13 _ c hc

theorem partChunk_clean (file ctype bnd : Bytes) (r : Nat × Nat) (hct : (13 : UInt8) ∉ ctype)
    (hfree : ¬ dashBoundary bnd <:+: readAt file r.1 r.2) :
    findSub (delimiter bnd) (partChunk file ctype r) = none := by
  unfold delimiter partChunk
  have hpay : findSub (13 :: 10 :: 45 :: 45 :: bnd) (readAt file r.1 r.2) = none := by
    apply findSub_none_of_not_infix
    intro h
    exact hfree (List.IsInfix.trans ⟨[13, 10], [], by simp [dashBoundary]⟩ h)
  apply findSub_none_cr
  · intro h
    have := (List.cons_prefix_cons.1 h).2
    simp [sContentType] at this
  apply findSub_none_ne _ _ _ (by decide)
  rw [List.append_assoc]
  apply findSub_none_skip _ _ _ sContentType_ne13
  apply findSub_none_skip _ _ _ (fun c hc h => hct (h ▸ hc))
  apply findSub_none_cr
  · intro h
    have := (List.cons_prefix_cons.1 h).2
    simp [sContentRange] at this
  apply findSub_none_ne _ _ _ (by decide)
  rw [List.append_assoc]
  apply findSub_none_skip _ _ _ sContentRange_ne13
  apply findSub_none_skip _ _ _ (nums_ne13 _ _ _)
  apply findSub_none_cr
  · intro h
    have := (List.cons_prefix_cons.1 h).2
    simp at this
  apply findSub_none_ne _ _ _ (by decide)
  apply findSub_none_cr
  · intro h
    have h2 : dashBoundary bnd <+: readAt file r.1 r.2 := (List.cons_prefix_cons.1 h).2
    exact hfree h2.isInfix
  apply findSub_none_ne _ _ _ (by decide)
  exact hpay

theorem pre_clean (bnd : Bytes) : findSub (delimiter bnd) [13, 10] = none := by
  unfold delimiter
  apply findSub_none_cr
  · intro h; have := List.IsPrefix.length_le h; simp at this
  apply findSub_none_ne _ _ _ (by decide)
  exact findSub_nil_none _ (by simp)

theorem tail_clean (bnd : Bytes) : findSub (delimiter bnd) [45, 45, 13, 10] = none := by
  unfold delimiter
  apply findSub_none_ne _ _ _ (by decide)
  apply findSub_none_ne _ _ _ (by decide)
  exact pre_clean bnd

/-! ### splitting the stream at the delimiters -/

theorem split_stream (file ctype bnd : Bytes) (hb : (13 : UInt8) ∉ bnd) (rs : List (Nat × Nat))
    (hclean : ∀ r ∈ rs, findSub (delimiter bnd) (partChunk file ctype r) = none) :
    ∀ pre, findSub (delimiter bnd) pre = none →
      splitAll (delimiter bnd) (pre ++ stream file ctype bnd [45, 45, 13, 10] rs) =
        pre :: (rs.map (partChunk file ctype) ++ [[45, 45, 13, 10]]) := by
  have ht : (13 : UInt8) ∉ (10 :: 45 :: 45 :: bnd) := by
    simp only [List.mem_cons, not_or]; exact ⟨by decide, by decide, by decide, hb⟩
  induction rs with
  | nil =>
    intro pre hpre
    have h : findSub (delimiter bnd) (pre ++ delimiter bnd ++ [45, 45, 13, 10]) = some (pre, [45, 45, 13, 10]) :=
      findSub_first (10 :: 45 :: 45 :: bnd) pre [45, 45, 13, 10] ht hpre
    simp only [stream]
    rw [← List.append_assoc, splitAll_hit _ _ _ _ (by simp [delimiter]) h, splitAll_miss _ _ (tail_clean bnd)]
    rfl
  | cons r rs ih =>
    intro pre hpre
    have h : findSub (delimiter bnd)
        (pre ++ delimiter bnd ++ (partChunk file ctype r ++ stream file ctype bnd [45, 45, 13, 10] rs)) =
        some (pre, partChunk file ctype r ++ stream file ctype bnd [45, 45, 13, 10] rs) :=
      findSub_first (10 :: 45 :: 45 :: bnd) pre
        (partChunk file ctype r ++ stream file ctype bnd [45, 45, 13, 10] rs) ht hpre
    simp only [stream, List.append_assoc]
    rw [← List.append_assoc]
    rw [splitAll_hit _ _ _ _ (by simp [delimiter]) h,
      ih (fun x hx => hclean x (by simp [hx])) _ (hclean r (by simp))]
    rfl

/-! ### the close-delimiter ends the list of parts -/

theorem takeParts_stream (file ctype : Bytes) (rs : List (Nat × Nat)) :
    takeParts (rs.map (partChunk file ctype) ++ [[45, 45, 13, 10]]) = some (rs.map (partChunk file ctype)) := by
  induction rs with
  | nil => simp [takeParts, List.isPrefixOf]
  | cons r rs ih =>
    simp only [List.map_cons, List.cons_append, takeParts, ih]
    simp [partChunk, List.isPrefixOf]

/-! ### reading one part -/

/-- the header block of a part as the reader isolates it (everything before the empty line) -/
def headBlock (ctype : Bytes) (a b n : Nat) : Bytes :=
  13 :: 10 :: (sContentType ++ ctype ++ 13 :: 10 :: (sContentRange ++ nums a b n))

theorem findSub_ne (p : Bytes) (c : UInt8) (s : Bytes) (hc : c ≠ 13) :
    findSub (13 :: p) (c :: s) = (findSub (13 :: p) s).map (fun q => (c :: q.1, q.2)) :=
  findSub_skip p [c] s (by simpa using hc)

theorem findSub_here2 (l : Bytes) : findSub [13, 10] (13 :: 10 :: l) = some ([], l) :=
  findSub_here [13, 10] l (by simp)

theorem findSub_here4 (l : Bytes) : findSub [13, 10, 13, 10] (13 :: 10 :: 13 :: 10 :: l) = some ([], l) :=
  findSub_here [13, 10, 13, 10] l (by simp)

theorem find_empty_line (file ctype : Bytes) (r : Nat × Nat) (hct : (13 : UInt8) ∉ ctype) :
    findSub [13, 10, 13, 10] (partChunk file ctype r) =
      some (headBlock ctype r.1 (r.2 - 1) file.length, readAt file r.1 r.2) := by
  unfold partChunk headBlock
  rw [findSub_cr _ _ (by intro h; have := (List.cons_prefix_cons.1 h).2; simp [sContentType] at this)]
  rw [findSub_ne _ _ _ (by decide)]
  rw [List.append_assoc, findSub_skip _ _ _ sContentType_ne13, findSub_skip _ _ _ (fun c hc h => hct (h ▸ hc))]
  rw [findSub_cr _ _ (by intro h; have := (List.cons_prefix_cons.1 h).2; simp [sContentRange] at this)]
  rw [findSub_ne _ _ _ (by decide)]
  rw [List.append_assoc, findSub_skip _ _ _ sContentRange_ne13, findSub_skip _ _ _ (nums_ne13 _ _ _)]
  rw [findSub_here4]
  simp [List.append_assoc]

theorem split_headBlock (ctype : Bytes) (a b n : Nat) (hct : (13 : UInt8) ∉ ctype) :
    splitAll Multipart.crlf (headBlock ctype a b n) = [[], sContentType ++ ctype, sContentRange ++ nums a b n] := by
  unfold headBlock Multipart.crlf
  have h1 : findSub [13, 10] (13 :: 10 :: (sContentType ++ ctype ++ 13 :: 10 :: (sContentRange ++ nums a b n))) =
      some ([], sContentType ++ ctype ++ 13 :: 10 :: (sContentRange ++ nums a b n)) :=
    findSub_here [13, 10] _ (by simp)
  have h2 : findSub [13, 10] (sContentType ++ ctype ++ 13 :: 10 :: (sContentRange ++ nums a b n)) =
      some (sContentType ++ ctype, sContentRange ++ nums a b n) := by
    rw [List.append_assoc, findSub_skip _ _ _ sContentType_ne13, findSub_skip _ _ _ (fun c hc h => hct (h ▸ hc))]
    rw [findSub_here2]
    simp
  have h3 : findSub [13, 10] (sContentRange ++ nums a b n) = none := by
    apply findSub_none_skip _ _ _ sContentRange_ne13
    have := findSub_none_skip [10] (nums a b n) [] (nums_ne13 a b n) (findSub_nil_none _ (by simp))
    simpa using this
  rw [splitAll_hit _ _ _ _ (by simp) h1, splitAll_hit _ _ _ _ (by simp) h2, splitAll_miss _ _ h3]

theorem parseField_type (ctype : Bytes) :
    parseField (sContentType ++ ctype) = some (nContentType, ctype.dropWhile isLWSP) := by
  simp [parseField, sContentType, splitFirstB, nContentType, lowerByte, List.dropWhile, isLWSP]

theorem parseField_range (v : Bytes) :
    parseField (sContentRange ++ v) = some (nContentRange, 98 :: 121 :: 116 :: 101 :: 115 :: 32 :: v) := by
  simp [parseField, sContentRange, splitFirstB, nContentRange, lowerByte, List.dropWhile, isLWSP]

theorem parsePart_chunk (file ctype : Bytes) (r : Nat × Nat) (hct : (13 : UInt8) ∉ ctype) :
    parsePart (partChunk file ctype r) =
      some ⟨[(nContentType, ctype.dropWhile isLWSP),
             (nContentRange, 98 :: 121 :: 116 :: 101 :: 115 :: 32 :: nums r.1 (r.2 - 1) file.length)],
            readAt file r.1 r.2⟩ := by
  unfold parsePart
  rw [find_empty_line file ctype r hct]
  simp only [split_headBlock ctype _ _ _ hct]
  simp [parseField_type, parseField_range]

theorem parseContentRange_nums (a b n : Nat) :
    parseContentRange (98 :: 121 :: 116 :: 101 :: 115 :: 32 :: nums a b n) = some (a, b, n) := by
  unfold parseContentRange nums
  simp only [stripPrefix, if_true]
  rw [spanNum_natDec_cons a 45 _ (by decide)]
  simp only
  rw [spanNum_natDec_cons b 47 _ (by decide)]
  simp only
  rw [spanNum_natDec_nil n]
  simp

theorem toRangePart_chunk (file ctype : Bytes) (r : Nat × Nat) :
    toRangePart ⟨[(nContentType, ctype.dropWhile isLWSP),
             (nContentRange, 98 :: 121 :: 116 :: 101 :: 115 :: 32 :: nums r.1 (r.2 - 1) file.length)],
            readAt file r.1 r.2⟩ = some (some (ctype.dropWhile isLWSP), partOf file r) := by
  have hne : nContentType ≠ nContentRange := by decide
  simp [toRangePart, lookupField, hne, parseContentRange_nums, partOf]

theorem mapM_map_some {α β γ : Type} (f : β → Option γ) (g : α → β) (h : α → γ) (l : List α)
    (hl : ∀ x ∈ l, f (g x) = some (h x)) : (l.map g).mapM f = some (l.map h) := by
  induction l with
  | nil => rfl
  | cons x l ih =>
    simp only [List.map_cons, List.mapM_cons, hl x (by simp), ih (fun y hy => hl y (by simp [hy]))]
    rfl

/-- the reader reads the model's body back: one part per range, in order -/
theorem readByteranges_body (file ctype bnd : Bytes) (rs : List (Nat × Nat))
    (hb : (13 : UInt8) ∉ bnd) (hct : (13 : UInt8) ∉ ctype)
    (hfree : ∀ r ∈ rs, ¬ dashBoundary bnd <:+: readAt file r.1 r.2) :
    readByteranges bnd (multipartBody file ctype bnd rs) =
      some (rs.map (fun r => (some (ctype.dropWhile isLWSP), partOf file r))) := by
  unfold readByteranges readMultipart
  rw [body_stream, split_stream file ctype bnd hb rs
    (fun r hr => partChunk_clean file ctype bnd r hct (hfree r hr)) [13, 10] (pre_clean bnd)]
  simp only [takeParts_stream, Option.bind_some]
  rw [mapM_map_some parsePart (partChunk file ctype) _ rs (fun r _ => parsePart_chunk file ctype r hct)]
  simp only [Option.bind_some]
  exact mapM_map_some toRangePart _ _ rs (fun r _ => toRangePart_chunk file ctype r)

end CV.Multipart

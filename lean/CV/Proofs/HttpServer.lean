import CV.Proofs.HttpParse
import CV.Model.HttpServerRead
/-
Helper lemmas for C13, server side: an invariant of the parser that says when `_on_read`
keeps waiting, and the segmentation theorem for `connRead`.
-/
namespace CV
namespace Http

/-- with headers `h` complete, the server does not fire yet (or the run is not a clean request) -/
def Quiet (c : Core) (h : HdrInfo) : Prop :=
  c.exn = true ∨ c.over = true ∨ c.status.isSome = true ∨ h.clen = .bad ∨ h.clenVal ≠ 0 ∨ h.te = true

def Inv (c : Core) : Prop :=
  (c.hdrDone = false → c.clen = none ∧ c.chunked = false) ∧
  (c.hdrDone = true → ∃ h, c.hi = some h ∧ (c.complete = true ∨ Quiet c h))

theorem ext_fields {c c' : Core} (e : Ext c c') :
    c'.onFirst = c.onFirst ∧ c'.hdrDone = c.hdrDone ∧ c'.firstLine = c.firstLine ∧ c'.fl = c.fl ∧
    c'.hdrBlock = c.hdrBlock ∧ c'.hi = c.hi ∧ c'.status = c.status := by
  have h := e.1
  simp only [Core.hdrPart, Prod.mk.injEq] at h
  refine ⟨h.2.1, h.2.2.1, h.2.2.2.1, h.2.2.2.2.1, h.2.2.2.2.2.1, h.2.2.2.2.2.2.1, ?_⟩
  simp only [Core.status, h.2.2.2.2.1]

theorem inv_of_quiet {c c' : Core} {h : HdrInfo} (e : Ext c c') (hd : c.hdrDone = true) (hh : c.hi = some h)
    (q : Quiet c h) : Inv c' := by
  have f := ext_fields e
  refine ⟨fun x => by (rw [f.2.1, hd] at x; cases x), fun _ => ⟨h, by rw [f.2.2.2.2.2.1, hh], Or.inr ?_⟩⟩
  rcases q with q | q | q | q | q | q
  · exact Or.inl (e.2.2.2 q)
  · exact Or.inr (Or.inl (e.2.1 q))
  · exact Or.inr (Or.inr (Or.inl (by rw [f.2.2.2.2.2.2]; exact q)))
  · exact Or.inr (Or.inr (Or.inr (Or.inl q)))
  · exact Or.inr (Or.inr (Or.inr (Or.inr (Or.inl q))))
  · exact Or.inr (Or.inr (Or.inr (Or.inr (Or.inr q))))

theorem inv_of_complete {c c' : Core} {h : HdrInfo} (e : Ext c c') (hd : c.hdrDone = true) (hh : c.hi = some h)
    (hc : c'.complete = true) : Inv c' := by
  have f := ext_fields e
  exact ⟨fun x => by (rw [f.2.1, hd] at x; cases x), fun _ => ⟨h, by rw [f.2.2.2.2.2.1, hh], Or.inl hc⟩⟩

/-- body phase without framing headers -/
theorem execBody_plain (lex : Lex) (c : Core) (x : Bytes) (nil : Bool) (h1 : c.chunked = false)
    (h2 : c.clen = none) {r : Int} (h3 : c.clenRest = some r) :
    (execBody lex c x nil).core.complete = true ∨ (execBody lex c x nil).core.over = true ∨
      c.status.isSome = true := by
  cases hfl : c.fl with
  | none =>
    cases x with
    | nil => simp [execBody, h1, h2, Core.status, hfl]
    | cons a t => simp [execBody, h1, h2, h3, Core.status, hfl]
  | some f =>
    cases hs : f.status with
    | some st => simp [Core.status, hfl, hs]
    | none =>
      cases x with
      | nil => simp [execBody, h1, h2, Core.status, hfl, hs]
      | cons a t => simp [execBody, h1, h2, h3, Core.status, hfl, hs]

theorem execBody_plain_nil (lex : Lex) (c : Core) (nil : Bool) (h1 : c.chunked = false) (h2 : c.clen = none) :
    (execBody lex c [] nil).core.complete = true ∨ c.status.isSome = true := by
  cases hfl : c.fl with
  | none => simp [execBody, h1, h2, Core.status, hfl]
  | some f =>
    cases hs : f.status with
    | some st => simp [Core.status, hfl, hs]
    | none => simp [execBody, h1, h2, Core.status, hfl, hs]

/-- body phase with Content-Length: 0 -/
theorem execBody_clen0 (lex : Lex) (c : Core) (x : Bytes) (nil : Bool) (h1 : c.chunked = false)
    (h2 : c.clen = some 0) (h3 : c.clenRest = some 0) :
    (execBody lex c x nil).core.complete = true := by
  unfold execBody
  dsimp only
  split
  · rfl
  · simp [h1, h2, h3]

theorem execHeaders_inv (lex : Lex) (c : Core) (x : Bytes) (hd : c.hdrDone = false) (hcl : c.clen = none)
    (hch : c.chunked = false) : Inv (execHeaders lex c x).core := by
  unfold execHeaders
  split
  · -- empty header block
    have e := execBody_ext lex { c with hdrDone := true, hi := some noHdrs } [] true
    rcases execBody_plain_nil lex { c with hdrDone := true, hi := some noHdrs } true hch hcl with k | k
    · exact inv_of_complete e rfl rfl k
    · exact inv_of_quiet e rfl rfl (Or.inr (Or.inr (Or.inl k)))
  · rename_i hx
    have hwait : ∀ c' : Core, c'.hdrDone = false → c'.clen = none → c'.chunked = false → Inv c' :=
      fun c' a b d => ⟨fun _ => ⟨b, d⟩, fun h => by (rw [a] at h; cases h)⟩
    cases hf : find CRLF2 x with
    | none => exact hwait _ hd hcl hch
    | some idx =>
      dsimp only
      cases hl : lex.hdrs (List.take idx x) with
      | none => exact hwait _ hd hcl hch
      | some h =>
        dsimp only
        cases hc : h.clen with
        | bad =>
          dsimp only
          exact inv_of_quiet (execBody_ext lex _ _ _) rfl rfl (Or.inr (Or.inr (Or.inr (Or.inl hc))))
        | val n =>
          dsimp only
          by_cases hn : n = 0
          · subst hn
            exact inv_of_complete (execBody_ext lex _ _ _) rfl rfl
              (execBody_clen0 lex _ _ _ hch rfl rfl)
          · exact inv_of_quiet (execBody_ext lex _ _ _) rfl rfl
              (Or.inr (Or.inr (Or.inr (Or.inr (Or.inl (by simp [HdrInfo.clenVal, hc, hn]))))))
        | absent =>
          dsimp only
          cases hte : h.te with
          | true =>
            exact inv_of_quiet (execBody_ext lex _ _ _) rfl rfl
              (Or.inr (Or.inr (Or.inr (Or.inr (Or.inr hte)))))
          | false =>
            simp only [Bool.false_eq_true, if_false]
            have e := execBody_ext lex
              { c with hdrBlock := some (List.take idx x), hdrDone := true, hi := some h, chunked := false,
                       clenRest := some maxsize, over := c.over || decide (List.take 2 x = CRLF) }
              (List.drop (idx + 4) x) false
            rcases execBody_plain lex
              { c with hdrBlock := some (List.take idx x), hdrDone := true, hi := some h, chunked := false,
                       clenRest := some maxsize, over := c.over || decide (List.take 2 x = CRLF) }
              (List.drop (idx + 4) x) false rfl hcl rfl with k | k | k
            · exact inv_of_complete e rfl rfl k
            · have f := ext_fields e
              exact ⟨fun y => by (rw [f.2.1] at y; cases y),
                fun _ => ⟨h, by rw [f.2.2.2.2.2.1], Or.inr (Or.inr (Or.inl k))⟩⟩
            · exact inv_of_quiet e rfl rfl (Or.inr (Or.inr (Or.inl k)))

theorem exec_inv (lex : Lex) (s : PState) (d : Bytes) (hd : d ≠ []) (hwf : WF s.core) (hinv : Inv s.core) :
    Inv (exec lex s d).core := by
  have hde : d.isEmpty = false := by cases d <;> simp_all
  unfold WF at hwf
  obtain ⟨w1, w2⟩ := hwf
  obtain ⟨ia, ib⟩ := hinv
  unfold exec
  simp only [hde]
  cases hexn : s.core.exn with
  | true => simpa using ⟨ia, ib⟩
  | false =>
    cases hf : s.core.onFirst with
    | false =>
      simp only [Bool.false_eq_true, if_false, Bool.not_false, if_true]
      have hh := w1 hf
      unfold execFirst
      split
      · exact ⟨ia, ib⟩
      · dsimp only
        split
        · exact ⟨fun _ => ia hh, fun h => by (rw [hh] at h; cases h)⟩
        · exact execHeaders_inv lex _ _ hh (ia hh).1 (ia hh).2
    | true =>
      cases hh : s.core.hdrDone with
      | false =>
        simp only [Bool.false_eq_true, if_false, Bool.not_false, Bool.not_true, if_true]
        exact execHeaders_inv lex _ _ hh (ia hh).1 (ia hh).2
      | true =>
        obtain ⟨h, hhi, hq⟩ := ib hh
        cases hc : s.core.complete with
        | false =>
          simp only [Bool.false_eq_true, if_false, Bool.not_false, Bool.not_true, if_true]
          rcases hq with hq | hq
          · rw [hc] at hq; cases hq
          · exact inv_of_quiet (execBody_ext lex _ _ _) hh hhi hq
        | true =>
          simp only [Bool.false_eq_true, if_false, Bool.not_true]
          exact ⟨fun y => by (cases y), fun _ => ⟨h, hhi, Or.inr (Or.inr (Or.inl rfl))⟩⟩


/-! ### errors and the frozen header part across `exec` -/

theorem execHeaders_errno (lex : Lex) (c : Core) (x : Bytes) (h : c.errno.isSome = true) :
    (execHeaders lex c x).core.errno.isSome = true := by
  unfold execHeaders
  split
  · exact (execBody_ext lex _ _ _).2.2.1 h
  · cases hf : find CRLF2 x with
    | none => exact h
    | some idx =>
      dsimp only
      cases hl : lex.hdrs (List.take idx x) with
      | none => rfl
      | some hh =>
        dsimp only
        apply (execBody_ext lex _ _ _).2.2.1
        cases hh.clen <;> exact h

theorem exec_errno (lex : Lex) (s : PState) (d : Bytes) (h : s.core.errno.isSome = true) :
    (exec lex s d).core.errno.isSome = true := by
  unfold exec
  split
  · exact h
  · split
    · exact h
    · split
      · unfold execFirst
        cases hf : find CRLF (s.buf ++ d) with
        | none => exact h
        | some idx =>
          dsimp only
          cases hl : lex.first s.core.kind (List.take idx (s.buf ++ d)) with
          | none => rfl
          | some f => exact execHeaders_errno lex _ _ h
      · split
        · exact execHeaders_errno lex _ _ h
        · split
          · exact (execBody_ext lex _ _ _).2.2.1 h
          · exact h

theorem exec_ext_hdr (lex : Lex) (s : PState) (d : Bytes) (hwf : WF s.core) (hh : s.core.hdrDone = true)
    (hd : d ≠ []) (hexn : s.core.exn = false) : Ext s.core (exec lex s d).core := by
  have hde : d.isEmpty = false := by cases d <;> simp_all
  unfold WF at hwf
  have hf : s.core.onFirst = true := by
    cases h : s.core.onFirst with
    | true => rfl
    | false => have := hwf.1 h; rw [hh] at this; cases this
  unfold exec
  simp only [hde, hexn, hf, hh]
  cases hc : s.core.complete with
  | false => simpa using execBody_ext lex s.core (s.buf ++ d) false
  | true => simp [Ext, Core.hdrPart, hf, hh, hexn]

theorem afterExec_fire {lex : Lex} {cn : Conn} {p : PState} {cn1 : Conn} {fl : Bytes} {hb : Option Bytes}
    {body : Bytes} (h : afterExec lex cn p = (cn1, .request fl hb body)) :
    p.core.exn = false ∧ p.core.hdrDone = true ∧ ∃ req, reqOf cn.client p = some req ∧
      verdict lex cn.client.isNone req p.core.complete = .fire ∧ cn1 = ⟨none, some req⟩ ∧
      fl = req.firstLine ∧ hb = req.hdrBlock ∧ body = p.core.body := by
  unfold afterExec at h
  cases hexn : p.core.exn with
  | true => simp [hexn] at h
  | false =>
    cases hh : p.core.hdrDone with
    | false =>
      simp [hexn, hh] at h
      split at h <;> simp at h
    | true =>
      simp only [hexn, hh, Bool.false_eq_true, if_false, Bool.not_true] at h
      cases hr : reqOf cn.client p with
      | none => simp [hr] at h
      | some req =>
        simp only [hr] at h
        cases hv : verdict lex cn.client.isNone req p.core.complete <;> simp only [hv] at h <;>
          simp at h
        obtain ⟨h1, h2, h3, h4⟩ := h
        exact ⟨rfl, rfl, req, rfl, hv, h1.symm, h2.symm, h3.symm, h4.symm⟩


theorem ssl_prefix (a r : Bytes) (ha : a ≠ []) (h : sslHandshake (a ++ r) = false) : sslHandshake a = false := by
  cases a with
  | nil => exact absurd rfl ha
  | cons b0 t =>
    cases t with
    | nil =>
      cases hd : decide (b0.toNat ≥ 128) with
      | false => simp [sslHandshake, hd]
      | true =>
        have h' : decide ((b0.toNat % 128) * 256 + (r.headD 0).toNat > 9) = false := by
          simpa [sslHandshake, hd] using h
        have h'' := of_decide_eq_false h'
        have z : (0 : UInt8).toNat = 0 := rfl
        simp only [sslHandshake, hd, List.headD_nil, Bool.true_and, z]
        apply decide_eq_false
        generalize b0.toNat % 128 * 256 = n at h'' ⊢
        generalize (r.headD 0).toNat = m at h''
        omega
    | cons b1 t' => simpa [sslHandshake] using h

theorem exec_of_exn {lex : Lex} {s : PState} {d : Bytes} (hd : d.isEmpty = false) (h : s.core.exn = true) :
    exec lex s d = s := by
  simp [exec, hd, h]

theorem exec_of_complete {lex : Lex} {s : PState} {d : Bytes} (hd : d.isEmpty = false)
    (hexn : s.core.exn = false) (h1 : s.core.onFirst = true) (h2 : s.core.hdrDone = true)
    (h3 : s.core.complete = true) : (exec lex s d).core.over = true := by
  simp [exec, hd, hexn, h1, h2, h3]

theorem reqOf_ext {p q : PState} (cl : Option Req) (e : Ext p.core q.core) : reqOf cl q = reqOf cl p := by
  have f := ext_fields e
  unfold reqOf
  rw [f.2.2.1, f.2.2.2.1, f.2.2.2.2.1, f.2.2.2.2.2.1]

theorem conn_segments (lex : Lex) (secure : Bool) (segs : List Bytes) :
    ∀ (s : PState) (cl : Option Req), WF s.core → Inv s.core →
      (∀ r, cl = some r → s.core.hdrDone = true ∧ s.core.hi = some r.hi) →
      (∀ d ∈ segs, d ≠ []) → segs ≠ [] →
      (exec lex s segs.flatten).core.bad = false →
      (exec lex s segs.flatten).core.status = none →
      ∀ cn1 fl hb body,
        afterExec lex ⟨some s, cl⟩ (exec lex s segs.flatten) = (cn1, .request fl hb body) →
        connReadAll lex secure ⟨some s, cl⟩ segs =
          (cn1, List.replicate (segs.length - 1) .wait ++ [.request fl hb body]) := by
  induction segs with
  | nil => intro s cl _ _ _ _ hs; exact absurd rfl hs
  | cons a rest ih =>
    intro s cl hwf hinv hcl hne _ hclean hst cn1 fl hb body hone
    cases rest with
    | nil =>
      simp only [List.flatten_cons, List.flatten_nil, List.append_nil] at hone
      simp [connReadAll, connRead, hone]
    | cons b rest' =>
      have ha : a ≠ [] := hne a (by simp)
      have hb' : b ≠ [] := hne b (by simp)
      have hR : (b :: rest').flatten ≠ [] := by
        simp only [List.flatten_cons]
        intro h; exact hb' (List.append_eq_nil_iff.mp h).1
      have hRe : ((b :: rest').flatten).isEmpty = false := by
        cases hq : (b :: rest').flatten with
        | nil => exact absurd hq hR
        | cons _ _ => rfl
      have hflat : (a :: b :: rest').flatten = a ++ (b :: rest').flatten := by simp
      rw [hflat] at hclean hst hone
      have hom := exec_hom lex s a _ hwf ha hR hclean
      rw [← hom] at hclean hst hone
      -- p' = exec s a ; final = exec p' R'
      have hwf' := exec_wf lex s a ha hwf
      have hinv' := exec_inv lex s a ha hwf hinv
      obtain ⟨fexn, fhd, req, freq, fverd, fcn, ffl, fhb, fbody⟩ := afterExec_fire hone
      simp only [Core.bad, Bool.or_eq_false_iff] at hclean
      obtain ⟨⟨fover, ferrno⟩, _⟩ := hclean
      -- the intermediate state raised no exception
      have pexn : (exec lex s a).core.exn = false := by
        cases h : (exec lex s a).core.exn with
        | false => rfl
        | true =>
          exfalso
          have : exec lex (exec lex s a) (b :: rest').flatten = exec lex s a := exec_of_exn hRe h
          rw [this, h] at fexn; cases fexn
      have step : ∃ cl', connRead lex secure ⟨some s, cl⟩ a = (⟨some (exec lex s a), cl'⟩, .wait) ∧
          (∀ r, cl' = some r → (exec lex s a).core.hdrDone = true ∧ (exec lex s a).core.hi = some r.hi) ∧
          afterExec lex ⟨some (exec lex s a), cl'⟩ (exec lex (exec lex s a) (b :: rest').flatten) =
            (cn1, .request fl hb body) := by
        cases phd : (exec lex s a).core.hdrDone with
        | false =>
          have perr : (exec lex s a).core.errno.isSome = false := by
            cases h : (exec lex s a).core.errno.isSome with
            | false => rfl
            | true =>
              have := exec_errno lex (exec lex s a) (b :: rest').flatten h
              rw [this] at ferrno; cases ferrno
          refine ⟨cl, ?_, ?_, hone⟩
          · simp [connRead, afterExec, pexn, phd, perr]
          · intro r hr
            exfalso
            have hs := (hcl r hr).1
            have sexn : s.core.exn = false := by
              cases h : s.core.exn with
              | false => rfl
              | true =>
                have ae : a.isEmpty = false := by cases a <;> simp_all
                have : exec lex s a = s := exec_of_exn ae h
                rw [this, h] at pexn; cases pexn
            have e := exec_ext_hdr lex s a hwf hs ha sexn
            rw [(ext_fields e).2.1, hs] at phd; cases phd
        | true =>
          have e := exec_ext_hdr lex (exec lex s a) (b :: rest').flatten hwf' phd hR pexn
          have f := ext_fields e
          have preq : reqOf cl (exec lex s a) = some req := by rw [← reqOf_ext cl e]; exact freq
          -- the intermediate state is not complete
          have pcomp : (exec lex s a).core.complete = false := by
            cases h : (exec lex s a).core.complete with
            | false => rfl
            | true =>
              exfalso
              have hf1 : (exec lex s a).core.onFirst = true := by
                cases h1 : (exec lex s a).core.onFirst with
                | true => rfl
                | false =>
                  unfold WF at hwf'
                  have := hwf'.1 h1; rw [phd] at this; cases this
              have : (exec lex (exec lex s a) (b :: rest').flatten).core.over = true :=
                exec_of_complete hRe pexn hf1 phd h
              rw [this] at fover; cases fover
          -- req.hi is the header info of the intermediate state
          have hreqhi : (exec lex s a).core.hi = some req.hi := by
            cases hclc : cl with
            | some r =>
              have hs := hcl r hclc
              have sexn : s.core.exn = false := by
                cases h : s.core.exn with
                | false => rfl
                | true =>
                  have ae : a.isEmpty = false := by cases a <;> simp_all
                  have : exec lex s a = s := exec_of_exn ae h
                  rw [this, h] at pexn; cases pexn
              have e0 := exec_ext_hdr lex s a hwf hs.1 ha sexn
              rw [hclc] at preq
              simp only [reqOf, Option.some.injEq] at preq
              rw [(ext_fields e0).2.2.2.2.2.1, hs.2, preq]
            | none =>
              rw [hclc] at preq
              unfold reqOf at preq
              dsimp only at preq
              split at preq
              · rename_i h1 h2 h3
                simp only [Option.some.injEq] at preq
                rw [h3, ← preq]
              · cases preq
          obtain ⟨hq, hqhi, hqq⟩ := hinv'.2 phd
          rw [hreqhi, Option.some.injEq] at hqhi
          subst hqhi
          -- unpack the final verdict
          unfold verdict at fverd
          split at fverd
          · cases fverd
          · rename_i c1
            split at fverd
            · cases fverd
            · rename_i c2
              have pwait : (req.hi.clenVal ≠ 0 ∨ req.hi.te = true) := by
                rcases hqq with hqq | hqq
                · rw [pcomp] at hqq; cases hqq
                · rcases hqq with q | q | q | q | q | q
                  · rw [pexn] at q; cases q
                  · have := e.2.1 q; rw [this] at fover; cases fover
                  · rw [← f.2.2.2.2.2.2, hst] at q; cases q
                  · exact absurd q c2
                  · exact Or.inl q
                  · exact Or.inr q
              have pverd : verdict lex cl.isNone req (exec lex s a).core.complete = .wait := by
                unfold verdict
                rw [if_neg c1, if_neg c2, pcomp]
                rcases pwait with q | q
                · simp [q]
                · simp [q]
              refine ⟨some req, ?_, ?_, ?_⟩
              · simp [connRead, afterExec, pexn, phd, preq, pverd]
              · intro r hr
                simp only [Option.some.injEq] at hr
                subst hr
                refine ⟨?_, hreqhi⟩
                first | rfl | exact phd
              · have fverd' : verdict lex (some req : Option Req).isNone req
                    (exec lex (exec lex s a) (b :: rest').flatten).core.complete = .fire := by
                  have c1' : ¬ (((some req : Option Req).isNone && decide (req.fl.vmajor ≠ 1)) = true) := by simp
                  unfold verdict
                  rw [if_neg c1', if_neg c2]
                  exact fverd
                simp only [afterExec, fexn, fhd, reqOf, fverd', Bool.false_eq_true, if_false, Bool.not_true,
                  fcn, ffl, fhb, fbody]
      obtain ⟨cl', hstep, hcl', hone'⟩ := step
      have hrec := ih (exec lex s a) cl' hwf' hinv' hcl'
        (fun d hd => hne d (List.mem_cons_of_mem _ hd)) (by simp)
        (by simp only [Core.bad, Bool.or_eq_false_iff]; exact ⟨⟨fover, ferrno⟩, fexn⟩) hst cn1 fl hb body hone'
      have e1 : connReadAll lex secure ⟨some s, cl⟩ (a :: b :: rest') =
          ((connReadAll lex secure ⟨some (exec lex s a), cl'⟩ (b :: rest')).1,
            Out.wait :: (connReadAll lex secure ⟨some (exec lex s a), cl'⟩ (b :: rest')).2) := by
        rw [connReadAll, hstep]
      rw [e1, hrec]
      simp [List.replicate_succ]

end Http
end CV

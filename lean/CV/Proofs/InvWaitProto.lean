import CV.Proofs.InvWaitSt
/-
C06, global layer, part 6: the three closures of `waitEvent` and the resumption step preserve `W6WInv`.
-/
namespace CV.Core

/-! ### `W6GInv` alone, on states -/
namespace W6GInv
variable {n0 : Nat} {t : St}

theorem st_removeHandler (h : W6GInv n0 t.w6_view) (x : Nat) (n : Option Name) : W6GInv n0 (t.removeHandler x n).2.w6_view :=
  h.congr (by simp) (by funext y; simp) (by simp) (by funext w; simp) (by funext c; simp)
    (t.w6_removeHandler_compsOnly x n).progs

theorem st_modEv (h : W6GInv n0 t.w6_view) (e : Nat) (f : Ev → Ev) : W6GInv n0 (t.modEv e f).w6_view := h

theorem st_registerTask (h : W6GInv n0 t.w6_view) (c : Nat) (x : Task) (hx : t.w6_view.TaskOk x) :
    W6GInv n0 (t.registerTask c x).w6_view := by
  refine h.tasksChange (v' := (t.registerTask c x).w6_view) rfl rfl rfl rfl rfl ?_
  intro c' y hy
  simp only [St.w6_view_tasks] at hy ⊢
  unfold St.registerTask at hy
  rcases St.w6_modComp_comp_cases t (t.rootOf c) (fun x' => { x' with tasks := addUniq x'.tasks x }) c' with e | ⟨_, e⟩
  · rw [e] at hy; exact Or.inl hy
  · rw [e] at hy
    rcases (w6_mem_addUniq _ _ _).1 hy with hy | hy
    · exact Or.inl hy
    · subst hy; exact Or.inr hx

theorem st_unregisterTask (h : W6GInv n0 t.w6_view) (c : Nat) (x : Task) : W6GInv n0 (t.unregisterTask c x).w6_view := by
  refine h.tasksChange (v' := (t.unregisterTask c x).w6_view) rfl rfl rfl rfl rfl ?_
  intro c' y hy
  simp only [St.w6_view_tasks] at hy ⊢
  unfold St.unregisterTask at hy
  rcases St.w6_modComp_comp_cases t (t.rootOf c) (fun x' => { x' with tasks := x'.tasks.erase x }) c' with e | ⟨_, e⟩
  · rw [e] at hy; exact Or.inl hy
  · rw [e] at hy; exact Or.inl (List.mem_of_mem_erase hy)

theorem st_addGen (h : W6GInv n0 t.w6_view) (x : GenRec) (hx : x.w6_isWait = false)
    (hacts : ∀ e hh o rest st pc sd, x = .user e hh o rest st pc sd → ∀ a ∈ rest, Act.w6_hOk n0 a) :
    W6GInv n0 (t.addGen x).w6_view := by
  refine h.addGen (v' := (t.addGen x).w6_view) (by simp) ?_ ?_ ?_ ?_ rfl rfl rfl rfl
  · intro g hg; simp only [St.w6_view_ng] at hg; simp [St.w6_addGen_gen, hg]
  · simp [St.w6_addGen_gen, hx]
  · intro e hh o rest st pc sd hg
    simp [St.w6_addGen_gen] at hg
    exact hacts e hh o rest st pc sd hg
  · intro w; simp only [St.w6_view_gen, St.w6_view_ng]; rw [St.w6_gen_ge _ _ (Nat.le_refl _)]; intro hh; cases hh

/-- `modWait` that keeps `task`, `started`, `parentGen` and can only raise `flag` -/
theorem st_modWait (h : W6GInv n0 t.w6_view) (w : Nat) (f : WaitSt → WaitSt) (f1 : ∀ x, (f x).task = x.task)
    (f2 : ∀ x, x.flag = true → (f x).flag = true) (f3 : ∀ x, (f x).started = x.started)
    (f4 : ∀ x, (f x).parentGen = x.parentGen) : W6GInv n0 (t.modWait w f).w6_view := by
  by_cases hw : w < t.waits.length
  · refine h.wgUpdate (v' := (t.modWait w f).w6_view) w rfl rfl (by simp) ?_ ?_ ?_ ?_ rfl rfl
    · intro w' hne; simp [St.w6_modWait_wait_ne _ _ _ _ hne]
    · simp [St.w6_modWait_wait_lt _ _ _ hw, WaitSt.w6g, f1]
    · simp only [St.w6_view_wg, St.w6_modWait_wait_lt _ _ _ hw, WaitSt.w6g]; exact f2 _
    · intro _ hs
      simp only [St.w6_view_wg, St.w6_modWait_wait_lt _ _ _ hw, WaitSt.w6g, f3, f4] at hs ⊢
      exact h.pgen w hw hs
  · refine h.congr rfl rfl (by simp) ?_ rfl rfl
    funext w'; simp [St.w6_modWait_wait_ge _ _ _ _ (Nat.le_of_not_lt hw)]

end W6GInv

/-! ### removing one of the temporary handlers of `w` -/

/-- facts about `removeHandler hid (some nm)` for a handler owned by `w`'s component -/
theorem St.w6_rmOwned (t : St) (hid : Nat) (nm : Name) (o : Nat) (ho : (t.handler hid).owner = o)
    (hnd : ∀ c, (t.comp c).htab.Nodup) :
    (∀ c, ((t.removeHandler hid (some nm)).2.comp c).htab.Nodup) ∧
    (∀ c x, x ∈ ((t.removeHandler hid (some nm)).2.comp c).htab ↔ x ∈ (t.comp c).htab ∧ ¬ (c = o ∧ x = (some nm, hid))) ∧
    ((t.removeHandler hid (some nm)).1 = true ↔ (some nm, hid) ∈ (t.comp o).htab) := by
  subst ho
  exact ⟨fun c => (t.w6_removeHandler_htab_sublist hid _ c).nodup (hnd c),
    fun c x => t.w6_removeHandler_named_htab hid nm c x (hnd _), t.w6_removeHandler_named_ok hid nm⟩

theorem St.w6_removeHandler_named_fail (t : St) (h : Nat) (n : Name) (hf : (t.removeHandler h (some n)).1 = false) (c : Nat) :
    ((t.removeHandler h (some n)).2.comp c).htab = (t.comp c).htab := by
  rw [St.w6_removeHandler_htab]
  have hk : t.w6_rmKeyList h (some n) = [some n] := by simp [St.w6_rmKeyList]
  rw [hk]
  split
  · rename_i hc
    rw [(w6_rmKeys_single _ _ _).1]
    apply List.erase_of_not_mem
    intro hm
    have := (t.w6_removeHandler_named_ok h n).2 (by rw [← hc.1]; exact hm)
    rw [this] at hf; cases hf
  · rfl

/-- the three handler ids of a started wait state are different -/
theorem W6HInv.ids {n0 : Nat} {v : W6View} (h : W6HInv n0 v) (w : Nat) (hw : w < v.nw) (hst : (v.wh w).started = true) :
    (v.wh w).hEvent ≠ (v.wh w).hDone ∧ ∀ ht, (v.wh w).hTick = some ht → ht ≠ (v.wh w).hEvent ∧ ht ≠ (v.wh w).hDone := by
  obtain ⟨_, _, _, k1⟩ := h.recEv w hw hst
  obtain ⟨_, _, _, k2⟩ := h.recDone w hw hst
  refine ⟨fun e => (by rw [e, k2] at k1; cases k1), fun ht hht => ?_⟩
  obtain ⟨_, _, _, k3⟩ := h.recTick w ht hw hst hht
  exact ⟨fun e => (by rw [e, k1] at k3; cases k3), fun e => (by rw [e, k2] at k3; cases k3)⟩

/-- state-level form of `W6HInv.update`: `t'` differs from `t` in `run / flag / event / timeout` of `w` and in the
    entries `K` (all of them entries of `w`'s own handlers) removed from the owner's table -/
theorem W6HInv.st_update {n0 : Nat} {t : St} (h : W6HInv n0 t.w6_view) (w : Nat) (hw : w < t.waits.length)
    (hst : (t.wait w).started = true) (t' : St) (K : List (HKey × Nat))
    (q1 : t'.hs = t.hs) (q3 : t'.waits.length = t.waits.length) (q4 : ∀ w', w' ≠ w → t'.wait w' = t.wait w')
    (r f : Bool) (ev : Option Nat) (tm : Int)
    (q5 : (t'.wait w).w6h = { (t.wait w).w6h with run := r, flag := f, event := ev, timeout := tm })
    (nd : ∀ c, (t'.comp c).htab.Nodup)
    (mem : ∀ c x, x ∈ (t'.comp c).htab ↔ x ∈ (t.comp c).htab ∧ ¬ (c = (t.wait w).owner ∧ x ∈ K))
    (hK : ∀ x, x ∈ K → (t.handler x.2).kind.w6_widx = some w)
    (c1 : (f = true → ev.isSome = true) ∧ (ev.isSome = true → r = true))
    (c2 : tm < 0 → (t.wait w).hTick = none)
    (c3 : t.w6_view.evKey w ∈ t.w6_view.htabOf w → t.w6_view.evKey w ∉ K →
      r = false ∧ t.w6_view.doneKey w ∈ t.w6_view.htabOf w ∧ t.w6_view.doneKey w ∉ K)
    (c4 : ∀ ht, (t.wait w).hTick = some ht → t.w6_view.tickKey ht ∈ t.w6_view.htabOf w → t.w6_view.tickKey ht ∉ K →
      (t.w6_view.doneKey w ∈ t.w6_view.htabOf w ∧ t.w6_view.doneKey w ∉ K) ∧ f = false)
    (c5 : ∀ ht, (t.wait w).hTick = some ht → t.w6_view.doneKey w ∈ t.w6_view.htabOf w → t.w6_view.doneKey w ∉ K → f = false →
      t.w6_view.tickKey ht ∈ t.w6_view.htabOf w ∧ t.w6_view.tickKey ht ∉ K) : W6HInv n0 t'.w6_view := by
  have hh : t'.handler = t.handler := by funext x; simp [St.handler, q1]
  have e_owner : (t'.wait w).w6h.owner = (t.wait w).owner := by rw [q5]; rfl
  have memO : ∀ x, x ∈ (t'.comp (t.wait w).owner).htab ↔ x ∈ (t.comp (t.wait w).owner).htab ∧ x ∉ K := by
    intro x; rw [mem]; simp
  refine h.update (v' := t'.w6_view) w hw hst (by simp [q1]) (by simp [hh]) (by simp [q3]) ?_ ?_ ?_ ?_ ?_ ?_ ?_ nd ?_ ?_
    ?_ ?_ ?_ ?_ ?_
  · intro w' hne; simp [q4 w' hne]
  · simp only [St.w6_view_wh]; rw [q5]
  · simp only [St.w6_view_wh]; rw [q5]
  · simp only [St.w6_view_wh]; rw [q5]
  · simp only [St.w6_view_wh]; rw [q5]
  · simp only [St.w6_view_wh]; rw [q5]
  · simp only [St.w6_view_wh]; rw [q5]; exact hst
  · intro c x hx; exact ((mem c x).1 hx).1
  · intro c x hx hk
    refine (mem c x).2 ⟨hx, fun hh' => hk (hK x hh'.2)⟩
  · simp only [St.w6_view_wh]; rw [q5]; exact c1
  · simp only [St.w6_view_wh]; rw [q5]; exact c2
  · unfold W6View.evKey W6View.htabOf W6View.doneKey
    simp only [St.w6_view_wh, St.w6_view_htab]; rw [q5]
    intro hm
    have hm' := (memO _).1 hm
    obtain ⟨a, b, c⟩ := c3 hm'.1 hm'.2
    exact ⟨a, (memO _).2 ⟨b, c⟩⟩
  · intro ht hht
    unfold W6View.tickKey W6View.htabOf W6View.doneKey
    simp only [St.w6_view_wh, St.w6_view_htab] at hht ⊢; rw [q5] at hht ⊢
    intro hm
    have hm' := (memO _).1 hm
    obtain ⟨⟨a, b⟩, c⟩ := c4 ht hht hm'.1 hm'.2
    exact ⟨(memO _).2 ⟨a, b⟩, c⟩
  · intro ht hht
    unfold W6View.tickKey W6View.htabOf W6View.doneKey
    simp only [St.w6_view_wh, St.w6_view_htab] at hht ⊢; rw [q5] at hht ⊢
    intro hm hf
    have hm' := (memO _).1 hm
    obtain ⟨a, b⟩ := c5 ht hht hm'.1 hm'.2 hf
    exact (memO _).2 ⟨a, b⟩

namespace W6WInv
variable {n0 : Nat} {t : St}

/-- `_on_event` -/
theorem onWaitEvent (h : W6WInv n0 t) (w e : Nat) (hw : w < t.waits.length) (hst : (t.wait w).started = true) :
    W6WInv n0 (t.onWaitEvent w e).2 := by
  obtain ⟨_, r2, _, r4⟩ := h.1.recEv w hw hst
  obtain ⟨hne1, hne2⟩ := h.1.ids w hw hst
  simp only [St.w6_view_wh, St.w6_view_handler, WaitSt.w6h] at r2 r4 hne1 hne2
  unfold St.onWaitEvent
  dsimp only
  split
  · obtain ⟨nd', mem', _⟩ := t.w6_rmOwned (t.wait w).hEvent (t.wait w).evName (t.wait w).owner r2 h.1.nodup
    split
    · rename_i hf
      have hf' : (t.removeHandler (t.wait w).hEvent (some (t.wait w).evName)).1 = false := by simpa using hf
      exact ⟨h.1.congr (by simp) (by funext y; simp) (by simp) (by funext w'; simp)
        (by funext c; simp only [St.w6_view_htab]; exact t.w6_removeHandler_named_fail _ _ hf' c), h.2.st_removeHandler _ _⟩
    · refine ⟨?_, ?_⟩
      · refine h.1.st_update w hw hst _ [(some (t.wait w).evName, (t.wait w).hEvent)] (by simp) (by simp) ?_
          true (t.wait w).flag (some e) (t.wait w).timeout ?_ ?_ ?_ ?_ ⟨fun _ => rfl, fun _ => rfl⟩
          (h.1.noTick w hw hst) ?_ ?_ ?_
        · intro w' hne; rw [St.w6_modWait_wait_ne _ _ _ _ hne]; simp
        · rw [St.w6_modWait_wait_lt _ _ _ (by simpa using hw)]; simp [WaitSt.w6h]
        · intro c; simp only [St.w6_modWait_comp, St.w6_modEv_comp]; exact nd' c
        · intro c x; simp only [St.w6_modWait_comp, St.w6_modEv_comp]; rw [mem' c x]; simp
        · intro x hx; simp only [List.mem_singleton] at hx; subst hx; simp only [r4]; rfl
        · intro _ hn; exact absurd (List.mem_singleton.2 rfl) hn
        · intro ht hht hm _
          have := h.1.i2 w ht hw hst hht hm
          refine ⟨⟨this.1, ?_⟩, this.2⟩
          simp only [W6View.doneKey, St.w6_view_wh, WaitSt.w6h, List.mem_singleton, Prod.mk.injEq, not_and]
          intro _ hh; exact hne1 hh.symm
        · intro ht hht hm _ hf
          refine ⟨h.1.j1 w ht hw hst hht hm hf, ?_⟩
          simp only [W6View.tickKey, List.mem_singleton, Prod.mk.injEq, not_and]
          intro _ hh; exact (hne2 ht hht).1 hh
      · exact ((h.2.st_removeHandler _ _).st_modEv _ _).st_modWait _ _ (fun _ => rfl) (fun _ hx => hx) (fun _ => rfl)
          (fun _ => rfl)
  · exact h

/-- `_on_done` -/
theorem onWaitDone (h : W6WInv n0 t) (w e : Nat) (hw : w < t.waits.length) (hst : (t.wait w).started = true) :
    W6WInv n0 (t.onWaitDone w e).2 := by
  obtain ⟨hne1, hne2⟩ := h.1.ids w hw hst
  simp only [St.w6_view_wh, WaitSt.w6h] at hne1 hne2
  obtain ⟨tg1, tg2⟩ := h.2.taskGen w hw
  have hpg := h.2.pgen w hw hst
  simp only [St.w6_view_wg, WaitSt.w6g, St.w6_view_ng, St.w6_view_gen] at tg1 tg2 hpg
  unfold St.onWaitDone
  dsimp only
  split
  · rename_i hg
    simp only [Bool.and_eq_true, beq_iff_eq] at hg
    replace hg := hg.2
    have hrun : (t.wait w).run = true := (h.1.chain w).2.1 hg.1
    -- the state after `flag := true; registerTask`
    have hG1 : W6GInv n0 ((t.modWait w fun x => { x with flag := true }).registerTask (t.wait w).owner
        ⟨(t.wait w).taskEvent, (t.wait w).task, some (t.wait w).parentGen⟩).w6_view := by
      apply W6GInv.st_registerTask
      · exact h.2.st_modWait _ _ (fun _ => rfl) (fun _ _ => rfl) (fun _ => rfl) (fun _ => rfl)
      · refine ⟨by simpa using tg1, ?_, ?_⟩
        · intro w' hgw
          simp only [St.w6_view_gen, St.w6_modWait_gen] at hgw
          rw [tg2] at hgw; injection hgw with hgw; subst hgw
          simp [St.w6_modWait_wait_lt _ _ _ hw, WaitSt.w6g]
        · intro p hp; injection hp with hp; subst hp
          exact ⟨by simpa using hpg.1, by simpa using hpg.2⟩
    -- flag set, nothing removed
    have hH0 : ∀ (hno : ∀ ht, (t.wait w).hTick = some ht → (some Name.generateEvents, ht) ∉ (t.comp (t.wait w).owner).htab),
        W6HInv n0 ((t.modWait w fun x => { x with flag := true }).registerTask (t.wait w).owner
          ⟨(t.wait w).taskEvent, (t.wait w).task, some (t.wait w).parentGen⟩).w6_view := by
      intro hno
      refine h.1.st_update w hw hst _ [] (by simp) (by simp) ?_ (t.wait w).run true (t.wait w).event
        (t.wait w).timeout ?_ ?_ ?_ ?_ ⟨fun _ => hg.1, (h.1.chain w).2.1⟩ (h.1.noTick w hw hst) ?_ ?_ ?_
      · intro w' hne; simp [St.w6_modWait_wait_ne _ _ _ _ hne]
      · simp [St.w6_modWait_wait_lt _ _ _ hw, WaitSt.w6h]
      · intro c; unfold St.registerTask; rw [St.w6_modComp_mk_htab]; exact h.1.nodup c
      · intro c x; unfold St.registerTask; rw [St.w6_modComp_mk_htab]; simp
      · intro x hx; cases hx
      · intro hm _
        have := h.1.i1 w hw hst hm
        rw [show (t.w6_view.wh w).run = (t.wait w).run from rfl, hrun] at this; cases this.1
      · intro ht hht hm _; exact absurd hm (hno ht hht)
      · intro ht hht _ _ hf; cases hf
    split
    · rename_i htm
      split
      · rename_i ht hht
        obtain ⟨_, k2, _, k4⟩ := h.1.recTick w ht hw hst hht
        simp only [St.w6_view_wh, St.w6_view_handler, WaitSt.w6h] at k2 k4
        -- `removeHandler(tick)` on the state after `flag := true; registerTask`
        have hG2 := hG1.st_removeHandler ht (some Name.generateEvents)
        have hH2 : W6HInv n0 (((t.modWait w fun x => { x with flag := true }).registerTask (t.wait w).owner
            ⟨(t.wait w).taskEvent, (t.wait w).task, some (t.wait w).parentGen⟩).removeHandler ht
              (some Name.generateEvents)).2.w6_view := by
          obtain ⟨nd', mem', _⟩ := ((t.modWait w fun x => { x with flag := true }).registerTask (t.wait w).owner
            ⟨(t.wait w).taskEvent, (t.wait w).task, some (t.wait w).parentGen⟩).w6_rmOwned ht Name.generateEvents
            (t.wait w).owner (by simpa using k2)
            (by intro c; unfold St.registerTask; rw [St.w6_modComp_mk_htab]; exact h.1.nodup c)
          refine h.1.st_update w hw hst _ [(some Name.generateEvents, ht)] (by simp) (by simp) ?_ (t.wait w).run true
            (t.wait w).event (t.wait w).timeout ?_ nd' ?_ ?_ ⟨fun _ => hg.1, (h.1.chain w).2.1⟩
            (h.1.noTick w hw hst) ?_ ?_ ?_
          · intro w' hne; simp [St.w6_modWait_wait_ne _ _ _ _ hne]
          · simp [St.w6_modWait_wait_lt _ _ _ hw, WaitSt.w6h]
          · intro c x; rw [mem' c x]; unfold St.registerTask; rw [St.w6_modComp_mk_htab]; simp
          · intro x hx; simp only [List.mem_singleton] at hx; subst hx; simp only [k4]; rfl
          · intro hm _
            have := h.1.i1 w hw hst hm
            rw [show (t.w6_view.wh w).run = (t.wait w).run from rfl, hrun] at this; cases this.1
          · intro ht' hht' _ hn
            rw [hht] at hht'; injection hht' with hht'; subst hht'
            exact absurd (List.mem_singleton.2 rfl) hn
          · intro ht' hht' _ _ hf; cases hf
        split
        · exact ⟨hH2, hG2⟩
        · exact ⟨hH2, hG2⟩
      · rename_i hnone
        exact ⟨hH0 (fun ht hht => by rw [hnone] at hht; cases hht), hG1⟩
    · rename_i htm
      have hnone := h.1.noTick w hw hst (show (t.wait w).timeout < 0 by simpa using htm)
      exact ⟨hH0 (fun ht hht => by rw [show (t.wait w).hTick = none from hnone] at hht; cases hht), hG1⟩
  · exact h

end W6WInv

/-- the `_done` handler of `w` goes (time-out or resumption), together with whatever else of `w` is still installed -/
theorem W6HInv.fire {n0 : Nat} {t : St} (h : W6HInv n0 t.w6_view) (w : Nat) (hw : w < t.waits.length)
    (hst : (t.wait w).started = true) (t' : St) (K : List (HKey × Nat))
    (q1 : t'.hs = t.hs) (q3 : t'.waits.length = t.waits.length) (q4 : ∀ w', t'.wait w' = t.wait w')
    (nd : ∀ c, (t'.comp c).htab.Nodup)
    (mem : ∀ c x, x ∈ (t'.comp c).htab ↔ x ∈ (t.comp c).htab ∧ ¬ (c = (t.wait w).owner ∧ x ∈ K))
    (hK : ∀ x, x ∈ K → (t.handler x.2).kind.w6_widx = some w)
    (a : t.w6_view.doneKey w ∈ K)
    (b : ∀ ht, (t.wait w).hTick = some ht → t.w6_view.tickKey ht ∈ K ∨ t.w6_view.tickKey ht ∉ t.w6_view.htabOf w)
    (c : t.w6_view.evKey w ∈ K ∨ t.w6_view.evKey w ∉ t.w6_view.htabOf w ∨ (t.wait w).run = true) : W6HInv n0 t'.w6_view := by
  refine h.st_update w hw hst t' K q1 q3 (fun w' _ => q4 w') (t.wait w).run (t.wait w).flag (t.wait w).event
    (t.wait w).timeout (by rw [q4 w]; rfl) nd mem hK ⟨(h.chain w).1, (h.chain w).2.1⟩ (h.noTick w hw hst) ?_ ?_ ?_
  · intro hm hn
    rcases c with c | c | c
    · exact absurd c hn
    · exact absurd hm c
    · have := (h.i1 w hw hst hm).1
      rw [show (t.w6_view.wh w).run = (t.wait w).run from rfl, c] at this; cases this
  · intro ht hht hm hn
    rcases b ht hht with b | b
    · exact absurd b hn
    · exact absurd hm b
  · intro _ _ _ hn _; exact absurd a hn

namespace W6WInv
variable {n0 : Nat} {t : St}

/-- the resumption step removes the `_done` handler of a flagged wait state -/
theorem removeDone (h : W6WInv n0 t) (w : Nat) (hw : w < t.waits.length) (hfl : (t.wait w).flag = true) :
    W6WInv n0 (t.removeHandler (t.wait w).hDone (some ((t.wait w).evName.child sfxDone))).2 := by
  have hrun : (t.wait w).run = true := (h.1.chain w).2.1 ((h.1.chain w).1 hfl)
  have hst : (t.wait w).started = true := (h.1.chain w).2.2.1 hrun
  obtain ⟨_, k2, _, k4⟩ := h.1.recDone w hw hst
  simp only [St.w6_view_wh, St.w6_view_handler, WaitSt.w6h] at k2 k4
  obtain ⟨nd', mem', _⟩ := t.w6_rmOwned (t.wait w).hDone ((t.wait w).evName.child sfxDone) (t.wait w).owner k2 h.1.nodup
  refine ⟨h.1.fire w hw hst _ [((some ((t.wait w).evName.child sfxDone)), (t.wait w).hDone)] (by simp) (by simp)
    (by simp) nd' ?_ ?_ (List.mem_singleton.2 rfl) ?_ (Or.inr (Or.inr hrun)), h.2.st_removeHandler _ _⟩
  · intro c x; rw [mem' c x]; simp
  · intro x hx; simp only [List.mem_singleton] at hx; subst hx; simp only [k4]; rfl
  · intro ht hht
    right; intro hm
    have := (h.1.i2 w ht hw hst hht hm).2
    rw [show (t.w6_view.wh w).flag = (t.wait w).flag from rfl, hfl] at this; cases this

end W6WInv

/-- `u` is `t` with the entries `K` removed from the table of component `o` (and possibly other tasks / generators) -/
structure W6Rm (n0 : Nat) (t : St) (o : Nat) (u : St) (K : List (HKey × Nat)) : Prop where
  hs : u.hs = t.hs
  waits : u.waits = t.waits
  nd : ∀ c, (u.comp c).htab.Nodup
  mem : ∀ c x, x ∈ (u.comp c).htab ↔ x ∈ (t.comp c).htab ∧ ¬ (c = o ∧ x ∈ K)
  g : W6GInv n0 u.w6_view

theorem W6Rm.step {n0 : Nat} {t u : St} {o : Nat} {K : List (HKey × Nat)} (r : W6Rm n0 t o u K) (hid : Nat) (nm : Name)
    (ho : (t.handler hid).owner = o) :
    W6Rm n0 t o (u.removeHandler hid (some nm)).2 (K ++ [(some nm, hid)]) ∧
    ((u.removeHandler hid (some nm)).1 = true ↔ (some nm, hid) ∈ (u.comp o).htab) := by
  have hh : (u.handler hid).owner = o := by rw [← ho]; simp [St.handler, r.hs]
  obtain ⟨nd', mem', ok'⟩ := u.w6_rmOwned hid nm o hh r.nd
  refine ⟨⟨by simp [r.hs], by simp [r.waits], nd', ?_, r.g.st_removeHandler _ _⟩, ok'⟩
  intro c x
  rw [mem' c x, r.mem c x]
  simp only [List.mem_append, List.mem_singleton]
  constructor
  · rintro ⟨⟨h1, h2⟩, h3⟩
    exact ⟨h1, fun hh' => by rcases hh'.2 with h4 | h4; exact h2 ⟨hh'.1, h4⟩; exact h3 ⟨hh'.1, h4⟩⟩
  · rintro ⟨h1, h2⟩
    exact ⟨⟨h1, fun hh' => h2 ⟨hh'.1, Or.inl hh'.2⟩⟩, fun hh' => h2 ⟨hh'.1, Or.inr hh'.2⟩⟩

theorem W6Rm.winv {n0 : Nat} {t u : St} {K : List (HKey × Nat)} {w : Nat} (r : W6Rm n0 t (t.wait w).owner u K)
    (h : W6HInv n0 t.w6_view) (hw : w < t.waits.length) (hst : (t.wait w).started = true)
    (hK : ∀ x, x ∈ K → (t.handler x.2).kind.w6_widx = some w)
    (a : t.w6_view.doneKey w ∈ K)
    (b : ∀ ht, (t.wait w).hTick = some ht → t.w6_view.tickKey ht ∈ K ∨ t.w6_view.tickKey ht ∉ t.w6_view.htabOf w)
    (c : t.w6_view.evKey w ∈ K ∨ t.w6_view.evKey w ∉ t.w6_view.htabOf w ∨ (t.wait w).run = true) : W6WInv n0 u :=
  ⟨h.fire w hw hst u K r.hs (by rw [r.waits]) (fun w' => by simp [St.wait, r.waits]) r.nd r.mem hK a b c, r.g⟩

/-- the body of `_on_tick` at countdown 0 after `state.timed_out = True`: register the TimeoutError task, remove the
    temporary handlers -/
def St.w6_tickFire (s : St) (w : Nat) : Outcome × St :=
  let ws := s.wait w
  let s1 := (s.addGen (.exc w false)).registerTask ws.owner ⟨ws.taskEvent, s.gens.length, some ws.parentGen⟩
  let r1 := s1.removeHandler ws.hDone (some (ws.evName.child sfxDone))
  if !r1.1 then (.raised, r1.2)
  else
    let r2 := match ws.hTick with
      | some ht => r1.2.removeHandler ht (some Name.generateEvents)
      | none => (true, r1.2)
    if !r2.1 then (.raised, r2.2)
    else if !ws.run then
      let r3 := r2.2.removeHandler ws.hEvent (some ws.evName)
      if !r3.1 then (.raised, r3.2) else (.none, r3.2)
    else (.none, r2.2)

/-- `timedOut` is not part of the view the wait-protocol invariant reads -/
theorem St.w6_timedOut_view (t : St) (w : Nat) :
    (t.modWait w fun x => { x with timedOut := true }).w6_view = t.w6_view := by
  unfold St.w6_view
  congr 1
  · simp
  · funext w'; exact St.w6_modWait_wait_pres t WaitSt.w6h w (fun x => { x with timedOut := true }) (fun _ => rfl) w'
  · funext w'; exact St.w6_modWait_wait_pres t WaitSt.w6g w (fun x => { x with timedOut := true }) (fun _ => rfl) w'

/-- `_on_tick` in terms of `w6_tickFire` -/
theorem St.w6_onWaitTick_eq (t : St) (w : Nat) (hw : w < t.waits.length) :
    t.onWaitTick w =
      if (t.wait w).flag || (t.wait w).timedOut then (.none, t)
      else if (t.wait w).timeout == 0 then (t.modWait w fun x => { x with timedOut := true }).w6_tickFire w
      else if (t.wait w).timeout > 0 then (.none, t.modWait w fun x => { x with timeout := x.timeout - 1 })
      else (.none, t) := by
  unfold St.onWaitTick St.w6_tickFire
  dsimp only
  rw [St.w6_modWait_wait_lt _ _ _ hw]
  rfl

namespace W6WInv
variable {n0 : Nat} {t : St}

/-- `_on_tick` at countdown 0 (after `timed_out := True`) -/
theorem tickFire (h : W6WInv n0 t) (w : Nat) (hw : w < t.waits.length) (hst : (t.wait w).started = true) :
    W6WInv n0 (t.w6_tickFire w).2 := by
  obtain ⟨hne1, hne2⟩ := h.1.ids w hw hst
  obtain ⟨_, kE2, _, kE4⟩ := h.1.recEv w hw hst
  obtain ⟨_, kD2, _, kD4⟩ := h.1.recDone w hw hst
  simp only [St.w6_view_wh, St.w6_view_handler, WaitSt.w6h] at hne1 hne2 kE2 kE4 kD2 kD4
  have hpg := h.2.pgen w hw hst
  simp only [St.w6_view_wg, WaitSt.w6g] at hpg
  unfold St.w6_tickFire
  dsimp only
  · -- the countdown is at 0: register the time-out task, remove the handlers
    have r0 : W6Rm n0 t (t.wait w).owner ((t.addGen (.exc w false)).registerTask (t.wait w).owner
        ⟨(t.wait w).taskEvent, t.gens.length, some (t.wait w).parentGen⟩) [] := by
      refine ⟨rfl, rfl, ?_, ?_, ?_⟩
      · intro c; unfold St.registerTask; rw [St.w6_modComp_mk_htab]; exact h.1.nodup c
      · intro c x; unfold St.registerTask; rw [St.w6_modComp_mk_htab]; simp
      · apply W6GInv.st_registerTask
        · exact h.2.st_addGen _ rfl (fun _ _ _ _ _ _ _ hh => by cases hh)
        · refine ⟨by simp, ?_, ?_⟩
          · intro w' hg; simp [St.w6_addGen_gen] at hg
          · intro p hp; injection hp with hp; subst hp
            refine ⟨by simp only [St.w6_view_ng, St.w6_addGen_gens_length]; exact Nat.lt_succ_of_lt hpg.1, ?_⟩
            have hne : (t.wait w).parentGen ≠ t.gens.length := Nat.ne_of_lt hpg.1
            simp only [St.w6_view_gen, St.w6_addGen_gen, if_neg hne]; exact hpg.2
    generalize (t.addGen (.exc w false)).registerTask (t.wait w).owner
        ⟨(t.wait w).taskEvent, t.gens.length, some (t.wait w).parentGen⟩ = s1 at r0
    obtain ⟨r1, ok1⟩ := r0.step (t.wait w).hDone ((t.wait w).evName.child sfxDone) kD2
    have hKd : ∀ x, x ∈ ([] : List (HKey × Nat)) ++ [(some ((t.wait w).evName.child sfxDone), (t.wait w).hDone)] →
        (t.handler x.2).kind.w6_widx = some w := by
      intro x hx; simp only [List.nil_append, List.mem_singleton] at hx; subst hx; simp only [kD4]; rfl
    have s1mem : ∀ x, x ∈ (s1.comp (t.wait w).owner).htab ↔ x ∈ t.w6_view.htabOf w := by
      intro x; rw [r0.mem]; simp [W6View.htabOf, WaitSt.w6h]
    cases hT : (t.wait w).hTick with
    | none =>
      simp only []
      split
      · -- the `_done` handler was not installed
        rename_i hf
        have hdn : t.w6_view.doneKey w ∉ t.w6_view.htabOf w := by
          intro hm
          have := ok1.2 ((s1mem _).2 hm)
          rw [this] at hf; cases hf
        refine r1.winv h.1 hw hst hKd (by simp [W6View.doneKey, WaitSt.w6h]) (fun ht hht => by rw [hT] at hht; cases hht) ?_
        right; left; intro hm; exact hdn (h.1.i1 w hw hst hm).2
      · simp only [Bool.not_true, Bool.false_eq_true, if_false]
        split
        · rename_i hrun
          have hrun' : (t.wait w).run = false := by simpa using hrun
          obtain ⟨r3, _⟩ := r1.step (t.wait w).hEvent (t.wait w).evName kE2
          have hK3 : ∀ x, x ∈ ([] ++ [(some ((t.wait w).evName.child sfxDone), (t.wait w).hDone)]) ++
              [(some (t.wait w).evName, (t.wait w).hEvent)] → (t.handler x.2).kind.w6_widx = some w := by
            intro x hx
            simp only [List.nil_append, List.mem_append, List.mem_singleton] at hx
            rcases hx with hx | hx
            · subst hx; simp only [kD4]; rfl
            · subst hx; simp only [kE4]; rfl
          have fin := r3.winv h.1 hw hst hK3 (by simp [W6View.doneKey, WaitSt.w6h])
            (fun ht hht => by rw [hT] at hht; cases hht) (Or.inl (by simp [W6View.evKey, WaitSt.w6h]))
          split <;> exact fin
        · rename_i hrun
          have hrun' : (t.wait w).run = true := by simpa using hrun
          exact r1.winv h.1 hw hst hKd (by simp [W6View.doneKey, WaitSt.w6h]) (fun ht hht => by rw [hT] at hht; cases hht)
            (Or.inr (Or.inr hrun'))
    | some ht =>
      simp only []
      obtain ⟨_, kT2, _, kT4⟩ := h.1.recTick w ht hw hst hT
      simp only [St.w6_view_handler] at kT2 kT4
      split
      · rename_i hf
        have hdn : t.w6_view.doneKey w ∉ t.w6_view.htabOf w := by
          intro hm
          have := ok1.2 ((s1mem _).2 hm)
          rw [this] at hf; cases hf
        refine r1.winv h.1 hw hst hKd (by simp [W6View.doneKey, WaitSt.w6h]) ?_ ?_
        · intro ht' hht'; right; intro hm; exact hdn (h.1.i2 w ht' hw hst hht' hm).1
        · right; left; intro hm; exact hdn (h.1.i1 w hw hst hm).2
      · rename_i hok1
        have hdin : t.w6_view.doneKey w ∈ t.w6_view.htabOf w := by
          have : (s1.removeHandler (t.wait w).hDone (some ((t.wait w).evName.child sfxDone))).1 = true := by
            simpa using hok1
          exact (s1mem _).1 (ok1.1 this)
        obtain ⟨r2, ok2⟩ := r1.step ht Name.generateEvents kT2
        have hK2 : ∀ x, x ∈ ([] ++ [(some ((t.wait w).evName.child sfxDone), (t.wait w).hDone)]) ++
            [(some Name.generateEvents, ht)] → (t.handler x.2).kind.w6_widx = some w := by
          intro x hx
          simp only [List.nil_append, List.mem_append, List.mem_singleton] at hx
          rcases hx with hx | hx
          · subst hx; simp only [kD4]; rfl
          · subst hx; simp only [kT4]; rfl
        have hb : ∀ ht', (t.wait w).hTick = some ht' → t.w6_view.tickKey ht' ∈
            ([] ++ [(some ((t.wait w).evName.child sfxDone), (t.wait w).hDone)]) ++ [(some Name.generateEvents, ht)] ∨
            t.w6_view.tickKey ht' ∉ t.w6_view.htabOf w := by
          intro ht' hht'; rw [hT] at hht'; injection hht' with hht'; subst hht'
          left; simp [W6View.tickKey]
        split
        · -- the tick handler was not installed any more: the `_done` event has been seen
          rename_i hf2
          have htn : t.w6_view.tickKey ht ∉ t.w6_view.htabOf w := by
            intro hm
            have hm1 : (some Name.generateEvents, ht) ∈ ((s1.removeHandler (t.wait w).hDone
                (some ((t.wait w).evName.child sfxDone))).2.comp (t.wait w).owner).htab := by
              rw [r1.mem]
              refine ⟨hm, ?_⟩
              simp only [List.nil_append, List.mem_singleton, Prod.mk.injEq, not_and, true_and]
              intro _ hh; exact (hne2 ht hT).2 hh
            have := ok2.2 hm1
            rw [this] at hf2; cases hf2
          have hfl : (t.wait w).flag = true := by
            cases hfl : (t.wait w).flag
            · exact absurd (h.1.j1 w ht hw hst hT hdin hfl) htn
            · rfl
          have hrun : (t.wait w).run = true := (h.1.chain w).2.1 ((h.1.chain w).1 hfl)
          exact r2.winv h.1 hw hst hK2 (by simp [W6View.doneKey, WaitSt.w6h]) hb (Or.inr (Or.inr hrun))
        · split
          · rename_i hrun
            obtain ⟨r3, _⟩ := r2.step (t.wait w).hEvent (t.wait w).evName kE2
            have hK3 : ∀ x, x ∈ (([] ++ [(some ((t.wait w).evName.child sfxDone), (t.wait w).hDone)]) ++
                [(some Name.generateEvents, ht)]) ++ [(some (t.wait w).evName, (t.wait w).hEvent)] →
                (t.handler x.2).kind.w6_widx = some w := by
              intro x hx
              simp only [List.nil_append, List.mem_append, List.mem_singleton] at hx
              rcases hx with (hx | hx) | hx
              · subst hx; simp only [kD4]; rfl
              · subst hx; simp only [kT4]; rfl
              · subst hx; simp only [kE4]; rfl
            have fin := r3.winv h.1 hw hst hK3 (by simp [W6View.doneKey, WaitSt.w6h])
              (fun ht' hht' => by
                rw [hT] at hht'; injection hht' with hht'; subst hht'; left; simp [W6View.tickKey])
              (Or.inl (by simp [W6View.evKey, WaitSt.w6h]))
            split <;> exact fin
          · rename_i hrun
            have hrun' : (t.wait w).run = true := by simpa using hrun
            exact r2.winv h.1 hw hst hK2 (by simp [W6View.doneKey, WaitSt.w6h]) hb (Or.inr (Or.inr hrun'))

/-- `_on_tick` -/
theorem onWaitTick (h : W6WInv n0 t) (w : Nat) (hw : w < t.waits.length) (hst : (t.wait w).started = true) :
    W6WInv n0 (t.onWaitTick w).2 := by
  rw [St.w6_onWaitTick_eq t w hw]
  by_cases hgd : ((t.wait w).flag || (t.wait w).timedOut) = true
  · rw [if_pos hgd]; exact h
  rw [if_neg hgd]
  split
  · have hv := St.w6_timedOut_view t w
    have h' : W6WInv n0 (t.modWait w fun x => { x with timedOut := true }) := by
      unfold W6WInv at h ⊢; rw [hv]; exact h
    refine h'.tickFire w (by simpa using hw) ?_
    rw [St.w6_modWait_wait_lt _ _ _ hw]; exact hst
  · split
    · -- count down
      rename_i htm
      refine ⟨?_, h.2.st_modWait _ _ (fun _ => rfl) (fun _ hx => hx) (fun _ => rfl) (fun _ => rfl)⟩
      refine h.1.st_update w hw hst _ [] (by simp) (by simp) ?_ (t.wait w).run (t.wait w).flag (t.wait w).event
        ((t.wait w).timeout - 1) ?_ ?_ ?_ ?_ ⟨(h.1.chain w).1, (h.1.chain w).2.1⟩ ?_ ?_ ?_ ?_
      · intro w' hne; simp [St.w6_modWait_wait_ne _ _ _ _ hne]
      · simp [St.w6_modWait_wait_lt _ _ _ hw, WaitSt.w6h]
      · intro c; exact h.1.nodup c
      · intro c x; simp
      · intro x hx; cases hx
      · intro hlt; exfalso; omega
      · intro hm _; exact ⟨(h.1.i1 w hw hst hm).1, (h.1.i1 w hw hst hm).2, by simp⟩
      · intro ht hht hm _; exact ⟨⟨(h.1.i2 w ht hw hst hht hm).1, by simp⟩, (h.1.i2 w ht hw hst hht hm).2⟩
      · intro ht hht hm _ hf; exact ⟨h.1.j1 w ht hw hst hht hm hf, by simp⟩
    · exact h

end W6WInv
end CV.Core

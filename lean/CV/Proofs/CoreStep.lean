import CV.Model.Core.Step
/-
Sanity lemmas about the small-step core machine (`CV.Model.Core.Step`):

  * `step_done`       a finished configuration is a fixed point of `step`
                      (`runN_succ`: so `runN` is plain iteration of `step`);
  * `step_log`        the log is a monotone history: `step` only prepends entries;
    `step_log_tape`   … and the tape is consumed in lockstep (one tape entry per log entry);
  * `step_evs/hs/gens/waits`   the tables of events, handlers, generators, wait states only grow;
  * `step_comps/timers/progs/tmpls`   component / timer tables keep their size, programs and
                      templates never change;
  * `runN_le`         all of this for whole runs.

They are all projections of one preorder `St.Le` ("`s'` is a later state than `s`") that every
primitive of `Pure.lean` respects.  The proof pattern is the one intended for real invariants:

  1. one lemma per primitive            (`St.Le.modComp`, `St.Le.logE`, …  11 of them);
  2. one lemma per pure helper (56), proved by unfolding it and chaining 1. with the tactic
     `st_le`; each new lemma is registered with `st_le` by a `macro_rules` line right after it;
  3. one lemma per arm of `step` (`Cfg.<frame>_le`, 42), again `unfold; st_le`;
  4. `stepFrame_le` / `unwind_le` by `cases` on the top frame, `step_le` from them.

Only core tactics; no lemma needed a manual proof except `St.Le.addHandler` (a `foldl`).
-/
namespace CV.Core

/-! ## the preorder -/

/-- `s'` is a later state than `s`: the log got longer at the front and the tape was consumed in
    step with it, the tables of events / handlers / generators / wait states did not shrink,
    the component and timer tables kept their size, programs and templates are unchanged. -/
structure St.Le (s s' : St) : Prop where
  hist : ∃ es, s'.log = es ++ s.log ∧ s'.tape = s.tape.drop es.length
  evs : s.evs.length ≤ s'.evs.length
  hs : s.hs.length ≤ s'.hs.length
  gens : s.gens.length ≤ s'.gens.length
  waits : s.waits.length ≤ s'.waits.length
  comps : s'.comps.length = s.comps.length
  timers : s'.timers.length = s.timers.length
  progs : s'.progs = s.progs
  tmpls : s'.tmpls = s.tmpls

namespace St.Le

theorem refl (s : St) : St.Le s s :=
  ⟨⟨[], rfl, rfl⟩, Nat.le_refl _, Nat.le_refl _, Nat.le_refl _, Nat.le_refl _, rfl, rfl, rfl, rfl⟩

theorem trans {a b c : St} (h1 : St.Le a b) (h2 : St.Le b c) : St.Le a c := by
  obtain ⟨es1, e1, t1⟩ := h1.hist
  obtain ⟨es2, e2, t2⟩ := h2.hist
  refine ⟨⟨es2 ++ es1, by rw [e2, e1, List.append_assoc], ?_⟩, Nat.le_trans h1.evs h2.evs,
    Nat.le_trans h1.hs h2.hs, Nat.le_trans h1.gens h2.gens, Nat.le_trans h1.waits h2.waits,
    h2.comps.trans h1.comps, h2.timers.trans h1.timers, h2.progs.trans h1.progs, h2.tmpls.trans h1.tmpls⟩
  rw [t2, t1, List.drop_drop, List.length_append, Nat.add_comm]

/-! ### primitives: `Le t (prim t)` -/

theorem modComp_self (t : St) (c : Nat) (f : Comp → Comp) : St.Le t (t.modComp c f) := by
  refine ⟨⟨[], ?_, ?_⟩, ?_, ?_, ?_, ?_, ?_, ?_, ?_, ?_⟩ <;> simp [St.modComp]

theorem modEv_self (t : St) (e : Nat) (f : Ev → Ev) : St.Le t (t.modEv e f) := by
  refine ⟨⟨[], ?_, ?_⟩, ?_, ?_, ?_, ?_, ?_, ?_, ?_, ?_⟩ <;> simp [St.modEv]

theorem modWait_self (t : St) (w : Nat) (f : WaitSt → WaitSt) : St.Le t (t.modWait w f) := by
  refine ⟨⟨[], ?_, ?_⟩, ?_, ?_, ?_, ?_, ?_, ?_, ?_, ?_⟩ <;> simp [St.modWait]

theorem modTimer_self (t : St) (i : Nat) (f : TimerSt → TimerSt) : St.Le t (t.modTimer i f) := by
  refine ⟨⟨[], ?_, ?_⟩, ?_, ?_, ?_, ?_, ?_, ?_, ?_, ?_⟩ <;> simp [St.modTimer]

theorem setGen_self (t : St) (g : Nat) (x : GenRec) : St.Le t (t.setGen g x) := by
  refine ⟨⟨[], ?_, ?_⟩, ?_, ?_, ?_, ?_, ?_, ?_, ?_, ?_⟩ <;> simp [St.setGen]

theorem logE_self (t : St) (x : Entry) : St.Le t (t.logE x) := by
  refine ⟨⟨[x], ?_, ?_⟩, ?_, ?_, ?_, ?_, ?_, ?_, ?_, ?_⟩ <;> simp [St.logE]

theorem addEv_self (t : St) (e : Ev) : St.Le t (t.addEv e) := by
  refine ⟨⟨[], ?_, ?_⟩, ?_, ?_, ?_, ?_, ?_, ?_, ?_, ?_⟩ <;> simp [St.addEv]

theorem addH_self (t : St) (x : Handler) : St.Le t (t.addH x) := by
  refine ⟨⟨[], ?_, ?_⟩, ?_, ?_, ?_, ?_, ?_, ?_, ?_, ?_⟩ <;> simp [St.addH]

theorem addGen_self (t : St) (g : GenRec) : St.Le t (t.addGen g) := by
  refine ⟨⟨[], ?_, ?_⟩, ?_, ?_, ?_, ?_, ?_, ?_, ?_, ?_⟩ <;> simp [St.addGen]

theorem addWait_self (t : St) (w : WaitSt) : St.Le t (t.addWait w) := by
  refine ⟨⟨[], ?_, ?_⟩, ?_, ?_, ?_, ?_, ?_, ?_, ?_, ?_⟩ <;> simp [St.addWait]

theorem tick1_self (t : St) (d : Int) : St.Le t (t.tick1 d) := by
  refine ⟨⟨[], ?_, ?_⟩, ?_, ?_, ?_, ?_, ?_, ?_, ?_, ?_⟩ <;> simp [St.tick1]

/-! ### the same in continuation form `Le s t → Le s (prim t)`, ready for `apply` -/

variable {s t : St}

theorem modComp (h : St.Le s t) (c : Nat) (f : Comp → Comp) : St.Le s (t.modComp c f) := h.trans (modComp_self ..)
theorem modEv (h : St.Le s t) (e : Nat) (f : Ev → Ev) : St.Le s (t.modEv e f) := h.trans (modEv_self ..)
theorem modWait (h : St.Le s t) (w : Nat) (f : WaitSt → WaitSt) : St.Le s (t.modWait w f) := h.trans (modWait_self ..)
theorem modTimer (h : St.Le s t) (i : Nat) (f : TimerSt → TimerSt) : St.Le s (t.modTimer i f) := h.trans (modTimer_self ..)
theorem setGen (h : St.Le s t) (g : Nat) (x : GenRec) : St.Le s (t.setGen g x) := h.trans (setGen_self ..)
theorem logE (h : St.Le s t) (x : Entry) : St.Le s (t.logE x) := h.trans (logE_self ..)
theorem addEv (h : St.Le s t) (e : Ev) : St.Le s (t.addEv e) := h.trans (addEv_self ..)
theorem addH (h : St.Le s t) (x : Handler) : St.Le s (t.addH x) := h.trans (addH_self ..)
theorem addGen (h : St.Le s t) (g : GenRec) : St.Le s (t.addGen g) := h.trans (addGen_self ..)
theorem addWait (h : St.Le s t) (w : WaitSt) : St.Le s (t.addWait w) := h.trans (addWait_self ..)
theorem tick1 (h : St.Le s t) (d : Int) : St.Le s (t.tick1 d) := h.trans (tick1_self ..)

end St.Le

/-! ## the tactic

`st_le` proves goals `St.Le s (f₁ (f₂ (… s)))` where the `fᵢ` are primitives or helpers with a
registered lemma, and `if`/`match` in between.  It is extended by `macro_rules`. -/

/-- one step of `st_le`; extended by `macro_rules` (later rules are tried first) -/
syntax "st_le1" : tactic
macro_rules | `(tactic| st_le1) => `(tactic| split)
macro_rules | `(tactic| st_le1) => `(tactic| with_reducible apply St.Le.tick1)
macro_rules | `(tactic| st_le1) => `(tactic| with_reducible apply St.Le.addWait)
macro_rules | `(tactic| st_le1) => `(tactic| with_reducible apply St.Le.addGen)
macro_rules | `(tactic| st_le1) => `(tactic| with_reducible apply St.Le.addH)
macro_rules | `(tactic| st_le1) => `(tactic| with_reducible apply St.Le.addEv)
macro_rules | `(tactic| st_le1) => `(tactic| with_reducible apply St.Le.logE)
macro_rules | `(tactic| st_le1) => `(tactic| with_reducible apply St.Le.setGen)
macro_rules | `(tactic| st_le1) => `(tactic| with_reducible apply St.Le.modTimer)
macro_rules | `(tactic| st_le1) => `(tactic| with_reducible apply St.Le.modWait)
macro_rules | `(tactic| st_le1) => `(tactic| with_reducible apply St.Le.modEv)
macro_rules | `(tactic| st_le1) => `(tactic| with_reducible apply St.Le.modComp)
macro_rules | `(tactic| st_le1) => `(tactic| with_reducible assumption)
macro_rules | `(tactic| st_le1) => `(tactic| with_reducible exact St.Le.refl _)

/-- apply `st_le1` as long as it applies (committed choice: no backtracking) -/
macro "st_le" : tactic => `(tactic| repeat' st_le1)

/-- unfold a helper, inline its `let`s, then `st_le` -/
macro "st_le_unfold" ids:ident+ : tactic => `(tactic| (unfold $[$ids]*; (try dsimp only); st_le))

/-! ## helpers of `Pure.lean` -/

/-- a `foldl` of steps that each respect `Le` respects `Le` -/
theorem St.Le.foldl {s t : St} {α} (g : St → α → St) (hg : ∀ a x, St.Le s a → St.Le s (g a x)) (l : List α)
    (h : St.Le s t) : St.Le s (l.foldl g t) := by
  induction l generalizing t with
  | nil => exact h
  | cons x l ih => exact ih (hg _ _ h)

theorem St.Le.addHandler {s t : St} (h : St.Le s t) (x : Nat) : St.Le s (t.addHandler x) := by
  unfold St.addHandler
  dsimp only
  apply St.Le.modComp
  split
  · st_le
  · split
    · st_le
    · exact St.Le.foldl _ (fun a n ha => ha.modComp _ _) _ h
macro_rules | `(tactic| st_le1) => `(tactic| with_reducible apply St.Le.addHandler)

theorem St.Le.removeHandler {s t : St} (h : St.Le s t) (x : Nat) (n : Option Name) :
    St.Le s ((t.removeHandler x n).2) := by
  st_le_unfold St.removeHandler
macro_rules | `(tactic| st_le1) => `(tactic| with_reducible apply St.Le.removeHandler)

theorem St.Le.fireContext {s t : St} (h : St.Le s t) (r e : Nat) :
    St.Le s (t.fireContext r e) := by
  st_le_unfold St.fireContext
macro_rules | `(tactic| st_le1) => `(tactic| with_reducible apply St.Le.fireContext)

theorem St.Le.fireRaw {s t : St} (h : St.Le s t) (self e : Nat) (chans : List Chan) (prio : Int) :
    St.Le s (t.fireRaw self e chans prio) := by
  st_le_unfold St.fireRaw
macro_rules | `(tactic| st_le1) => `(tactic| with_reducible apply St.Le.fireRaw)

theorem St.Le.childEv {s t : St} (h : St.Le s t) (p sfx : Nat) :
    St.Le s (t.childEv p sfx) := by
  st_le_unfold St.childEv
macro_rules | `(tactic| st_le1) => `(tactic| with_reducible apply St.Le.childEv)

theorem St.Le.fireChild {s t : St} (h : St.Le s t) (self p sfx : Nat) (chans : List Chan) :
    St.Le s (t.fireChild self p sfx chans) := by
  st_le_unfold St.fireChild
macro_rules | `(tactic| st_le1) => `(tactic| with_reducible apply St.Le.fireChild)

theorem St.Le.inform {s t : St} (h : St.Le s t) (e : Nat) (force : Bool) :
    St.Le s (t.inform e force) := by
  st_le_unfold St.inform
macro_rules | `(tactic| st_le1) => `(tactic| with_reducible apply St.Le.inform)

theorem St.Le.setValue {s t : St} (h : St.Le s t) (e : Nat) (x : VItem) :
    St.Le s (t.setValue e x) := by
  st_le_unfold St.setValue
macro_rules | `(tactic| st_le1) => `(tactic| with_reducible apply St.Le.setValue)

theorem St.Le.fireTmplEv {s t : St} (h : St.Le s t) (self : Nat) (ev : Ev) (target : Option Chan) (prio : Int) :
    St.Le s (t.fireTmplEv self ev target prio) := by
  st_le_unfold St.fireTmplEv
macro_rules | `(tactic| st_le1) => `(tactic| with_reducible apply St.Le.fireTmplEv)

theorem St.Le.effectDone1 {s t : St} (h : St.Le s t) (r e : Nat) (announce : Bool) :
    St.Le s ((t.effectDone1 r e announce).2) := by
  st_le_unfold St.effectDone1
macro_rules | `(tactic| st_le1) => `(tactic| with_reducible apply St.Le.effectDone1)

theorem St.Le.eventDonePre {s t : St} (h : St.Le s t) (r e : Nat) (err : Bool) :
    St.Le s ((t.eventDonePre r e err).2) := by
  st_le_unfold St.eventDonePre
macro_rules | `(tactic| st_le1) => `(tactic| with_reducible apply St.Le.eventDonePre)

theorem St.Le.registerTask {s t : St} (h : St.Le s t) (c : Nat) (x : Task) :
    St.Le s (t.registerTask c x) := by
  st_le_unfold St.registerTask
macro_rules | `(tactic| st_le1) => `(tactic| with_reducible apply St.Le.registerTask)

theorem St.Le.unregisterTask {s t : St} (h : St.Le s t) (c : Nat) (x : Task) :
    St.Le s (t.unregisterTask c x) := by
  st_le_unfold St.unregisterTask
macro_rules | `(tactic| st_le1) => `(tactic| with_reducible apply St.Le.unregisterTask)

theorem St.Le.reduceTimeLeft {s t : St} (h : St.Le s t) (e : Nat) (d : Int) :
    St.Le s (t.reduceTimeLeft e d) := by
  st_le_unfold St.reduceTimeLeft
macro_rules | `(tactic| st_le1) => `(tactic| with_reducible apply St.Le.reduceTimeLeft)

theorem St.Le.registerPre {s t : St} (h : St.Le s t) (c p : Nat) :
    St.Le s ((t.registerPre c p).2) := by
  st_le_unfold St.registerPre
macro_rules | `(tactic| st_le1) => `(tactic| with_reducible apply St.Le.registerPre)

theorem St.Le.registerFin {s t : St} (h : St.Le s t) (c : Nat) :
    St.Le s (t.registerFin c) := by
  st_le_unfold St.registerFin
macro_rules | `(tactic| st_le1) => `(tactic| with_reducible apply St.Le.registerFin)

theorem St.Le.unregister {s t : St} (h : St.Le s t) (c : Nat) :
    St.Le s (t.unregister c) := by
  st_le_unfold St.unregister
macro_rules | `(tactic| st_le1) => `(tactic| with_reducible apply St.Le.unregister)

theorem St.Le.prepUnregPre {s t : St} (h : St.Le s t) (c : Nat) :
    St.Le s (t.prepUnregPre c) := by
  st_le_unfold St.prepUnregPre
macro_rules | `(tactic| st_le1) => `(tactic| with_reducible apply St.Le.prepUnregPre)

theorem St.Le.prepUnregFin {s t : St} (h : St.Le s t) (c : Nat) :
    St.Le s (t.prepUnregFin c) := by
  st_le_unfold St.prepUnregFin
macro_rules | `(tactic| st_le1) => `(tactic| with_reducible apply St.Le.prepUnregFin)

theorem St.Le.actFire {s t : St} (h : St.Le s t) (self i : Nat) (target : Option Chan) (prio : Int) (cancel : Bool) :
    St.Le s (t.actFire self i target prio cancel) := by
  st_le_unfold St.actFire
macro_rules | `(tactic| st_le1) => `(tactic| with_reducible apply St.Le.actFire)

theorem St.Le.actStopEv {s t : St} (h : St.Le s t) (ev : Option Nat) :
    St.Le s (t.actStopEv ev) := by
  st_le_unfold St.actStopEv
macro_rules | `(tactic| st_le1) => `(tactic| with_reducible apply St.Le.actStopEv)

theorem St.Le.timerReset {s t : St} (h : St.Le s t) (i : Nat) :
    St.Le s (t.timerReset i) := by
  st_le_unfold St.timerReset
macro_rules | `(tactic| st_le1) => `(tactic| with_reducible apply St.Le.timerReset)

theorem St.Le.timerCreate {s t : St} (h : St.Le s t) (i : Nat) :
    St.Le s (t.timerCreate i) := by
  st_le_unfold St.timerCreate
macro_rules | `(tactic| st_le1) => `(tactic| with_reducible apply St.Le.timerCreate)

theorem St.Le.timerTick {s t : St} (h : St.Le s t) (i e : Nat) :
    St.Le s (t.timerTick i e) := by
  st_le_unfold St.timerTick
macro_rules | `(tactic| st_le1) => `(tactic| with_reducible apply St.Le.timerTick)

theorem St.Le.startWait {s t : St} (h : St.Le s t) (w : Nat) :
    St.Le s (t.startWait w) := by
  st_le_unfold St.startWait
macro_rules | `(tactic| st_le1) => `(tactic| with_reducible apply St.Le.startWait)

/-! ## pure pieces of `Step.lean` -/

theorem St.Le.stopBegin {s t : St} (h : St.Le s t) (c : Nat) :
    St.Le s (t.stopBegin c) := by
  st_le_unfold St.stopBegin
macro_rules | `(tactic| st_le1) => `(tactic| with_reducible apply St.Le.stopBegin)

theorem St.Le.stopSetCode {s t : St} (h : St.Le s t) (r : Nat) (code : Code) :
    St.Le s (t.stopSetCode r code) := by
  st_le_unfold St.stopSetCode
macro_rules | `(tactic| st_le1) => `(tactic| with_reducible apply St.Le.stopSetCode)

theorem St.Le.genCall {s t : St} (h : St.Le s t) (owner i : Nat) (target : Option Chan) (timeout : Option Nat) :
    St.Le s (t.genCall owner i target timeout) := by
  st_le_unfold St.genCall
macro_rules | `(tactic| st_le1) => `(tactic| with_reducible apply St.Le.genCall)

theorem St.Le.genWait {s t : St} (h : St.Le s t) (owner : Nat) (name : Name) (target : Option Chan) (timeout : Option Nat) :
    St.Le s (t.genWait owner name target timeout) := by
  st_le_unfold St.genWait
macro_rules | `(tactic| st_le1) => `(tactic| with_reducible apply St.Le.genWait)

theorem St.Le.resumeGenPre {s t : St} (h : St.Le s t) (g : Nat) (silent : Bool) :
    St.Le s (t.resumeGenPre g silent) := by
  st_le_unfold St.resumeGenPre
macro_rules | `(tactic| st_le1) => `(tactic| with_reducible apply St.Le.resumeGenPre)

theorem St.Le.stopIteration {s t : St} (h : St.Le s t) (r : Nat) (x : Task) :
    St.Le s ((t.stopIteration r x).2) := by
  st_le_unfold St.stopIteration
macro_rules | `(tactic| st_le1) => `(tactic| with_reducible apply St.Le.stopIteration)

theorem St.Le.fireException {s t : St} (h : St.Le s t) (r e : Nat) :
    St.Le s (t.fireException r e) := by
  st_le_unfold St.fireException
macro_rules | `(tactic| st_le1) => `(tactic| with_reducible apply St.Le.fireException)

theorem St.Le.errorBranch {s t : St} (h : St.Le s t) (r : Nat) (x : Task) (resumed : Bool) :
    St.Le s ((t.errorBranch r x resumed).2) := by
  st_le_unfold St.errorBranch
macro_rules | `(tactic| st_le1) => `(tactic| with_reducible apply St.Le.errorBranch)

theorem St.Le.ownSub {s t : St} (h : St.Le s t) (r : Nat) (x : Task) (w : Nat) :
    St.Le s (t.ownSub r x w) := by
  st_le_unfold St.ownSub
macro_rules | `(tactic| st_le1) => `(tactic| with_reducible apply St.Le.ownSub)

theorem St.Le.setValueOpt {s t : St} (h : St.Le s t) (e : Nat) (v : Option Nat) :
    St.Le s (t.setValueOpt e v) := by
  st_le_unfold St.setValueOpt
macro_rules | `(tactic| st_le1) => `(tactic| with_reducible apply St.Le.setValueOpt)

theorem St.Le.parentSub {s t : St} (h : St.Le s t) (r : Nat) (x : Task) (p w2 : Nat) (viaThrow : Bool) :
    St.Le s (t.parentSub r x p w2 viaThrow) := by
  st_le_unfold St.parentSub
macro_rules | `(tactic| st_le1) => `(tactic| with_reducible apply St.Le.parentSub)

theorem St.Le.parentPlain {s t : St} (h : St.Le s t) (r : Nat) (x : Task) (p : Nat) (v : Option Nat) (viaThrow : Bool) :
    St.Le s (t.parentPlain r x p v viaThrow) := by
  st_le_unfold St.parentPlain
macro_rules | `(tactic| st_le1) => `(tactic| with_reducible apply St.Le.parentPlain)

theorem St.Le.onWaitEvent {s t : St} (h : St.Le s t) (w e : Nat) :
    St.Le s ((t.onWaitEvent w e).2) := by
  st_le_unfold St.onWaitEvent
macro_rules | `(tactic| st_le1) => `(tactic| with_reducible apply St.Le.onWaitEvent)

theorem St.Le.onWaitDone {s t : St} (h : St.Le s t) (w e : Nat) :
    St.Le s ((t.onWaitDone w e).2) := by
  st_le_unfold St.onWaitDone
macro_rules | `(tactic| st_le1) => `(tactic| with_reducible apply St.Le.onWaitDone)

theorem St.Le.onWaitTick {s t : St} (h : St.Le s t) (w : Nat) :
    St.Le s ((t.onWaitTick w).2) := by
  st_le_unfold St.onWaitTick
macro_rules | `(tactic| st_le1) => `(tactic| with_reducible apply St.Le.onWaitTick)

theorem St.Le.onFallbackGE {s t : St} (h : St.Le s t) (e : Nat) :
    St.Le s ((t.onFallbackGE e).2) := by
  st_le_unfold St.onFallbackGE
macro_rules | `(tactic| st_le1) => `(tactic| with_reducible apply St.Le.onFallbackGE)

theorem St.Le.computeHandlers {s t : St} (h : St.Le s t) (r : Nat) (name : Name) (chans : List Chan) :
    St.Le s ((t.computeHandlers r name chans).2) := by
  st_le_unfold St.computeHandlers
macro_rules | `(tactic| st_le1) => `(tactic| with_reducible apply St.Le.computeHandlers)

theorem St.Le.dispComplete {s t : St} (h : St.Le s t) (e : Nat) (ev : Ev) :
    St.Le s (t.dispComplete e ev) := by
  st_le_unfold St.dispComplete
macro_rules | `(tactic| st_le1) => `(tactic| with_reducible apply St.Le.dispComplete)

theorem St.Le.cacheRefresh {s t : St} (h : St.Le s t) (r : Nat) :
    St.Le s (t.cacheRefresh r) := by
  st_le_unfold St.cacheRefresh
macro_rules | `(tactic| st_le1) => `(tactic| with_reducible apply St.Le.cacheRefresh)

theorem St.Le.lookupHandlers {s t : St} (h : St.Le s t) (r : Nat) (name : Name) (chans : List Chan) :
    St.Le s ((t.lookupHandlers r name chans).2) := by
  st_le_unfold St.lookupHandlers
macro_rules | `(tactic| st_le1) => `(tactic| with_reducible apply St.Le.lookupHandlers)

theorem St.Le.dispGE {s t : St} (h : St.Le s t) (r e remaining : Nat) (name : Name) :
    St.Le s (t.dispGE r e remaining name) := by
  st_le_unfold St.dispGE
macro_rules | `(tactic| st_le1) => `(tactic| with_reducible apply St.Le.dispGE)

theorem St.Le.dispatchPre {s t : St} (h : St.Le s t) (r e remaining : Nat) :
    St.Le s ((t.dispatchPre r e remaining).2) := by
  st_le_unfold St.dispatchPre
macro_rules | `(tactic| st_le1) => `(tactic| with_reducible apply St.Le.dispatchPre)

theorem St.Le.handlerRaised {s t : St} (h : St.Le s t) (r e : Nat) :
    St.Le s (t.handlerRaised r e) := by
  st_le_unfold St.handlerRaised
macro_rules | `(tactic| st_le1) => `(tactic| with_reducible apply St.Le.handlerRaised)

theorem St.Le.applyValue {s t : St} (h : St.Le s t) (r e : Nat) (value : Outcome) :
    St.Le s (t.applyValue r e value) := by
  st_le_unfold St.applyValue
macro_rules | `(tactic| st_le1) => `(tactic| with_reducible apply St.Le.applyValue)

theorem St.Le.geTasksCheck {s t : St} (h : St.Le s t) (r e : Nat) :
    St.Le s (t.geTasksCheck r e) := by
  st_le_unfold St.geTasksCheck
macro_rules | `(tactic| st_le1) => `(tactic| with_reducible apply St.Le.geTasksCheck)

theorem St.Le.flushBegin {s t : St} (h : St.Le s t) (r : Nat) :
    St.Le s (t.flushBegin r) := by
  st_le_unfold St.flushBegin
macro_rules | `(tactic| st_le1) => `(tactic| with_reducible apply St.Le.flushBegin)

theorem St.Le.tickGenerate {s t : St} (h : St.Le s t) (c : Nat) :
    St.Le s (t.tickGenerate c) := by
  st_le_unfold St.tickGenerate
macro_rules | `(tactic| st_le1) => `(tactic| with_reducible apply St.Le.tickGenerate)

theorem St.Le.runBegin {s t : St} (h : St.Le s t) (c : Nat) :
    St.Le s (t.runBegin c) := by
  st_le_unfold St.runBegin
macro_rules | `(tactic| st_le1) => `(tactic| with_reducible apply St.Le.runBegin)

theorem St.Le.runEnd {s t : St} (h : St.Le s t) (c : Nat) :
    St.Le s ((t.runEnd c).2) := by
  st_le_unfold St.runEnd
macro_rules | `(tactic| st_le1) => `(tactic| with_reducible apply St.Le.runEnd)

theorem St.Le.actStep {s t : St} (h : St.Le s t) (ctx : HCtx) (a : Act) : St.Le s (actStep t ctx a).st := by
  cases a <;> (unfold CV.Core.actStep; (try dsimp only); st_le)
macro_rules | `(tactic| st_le1) => `(tactic| with_reducible apply St.Le.actStep)

/-! ## the arms of `step` -/

/-! projections of the four ways an arm ends (`rfl` lemmas, all `@[simp]`) -/
section
variable (c : Cfg) (k : List Frame) (s : St) (v : Ret) (ex : Exn) (fs : List Frame)
@[simp] theorem Cfg.pop_st : (c.pop k s).st = s := rfl
@[simp] theorem Cfg.pop_stack : (c.pop k s).stack = k := rfl
@[simp] theorem Cfg.pop_ret : (c.pop k s).ret = c.ret := rfl
@[simp] theorem Cfg.pop_exn : (c.pop k s).exn = c.exn := rfl
@[simp] theorem Cfg.popRet_st : (c.popRet k s v).st = s := rfl
@[simp] theorem Cfg.popRet_stack : (c.popRet k s v).stack = k := rfl
@[simp] theorem Cfg.popRet_ret : (c.popRet k s v).ret = v := rfl
@[simp] theorem Cfg.popRet_exn : (c.popRet k s v).exn = c.exn := rfl
@[simp] theorem Cfg.raise_st : (c.raise k s ex).st = s := rfl
@[simp] theorem Cfg.raise_stack : (c.raise k s ex).stack = k := rfl
@[simp] theorem Cfg.raise_ret : (c.raise k s ex).ret = c.ret := rfl
@[simp] theorem Cfg.raise_exn : (c.raise k s ex).exn = some ex := rfl
@[simp] theorem Cfg.goto_st : (c.goto k s fs).st = s := rfl
@[simp] theorem Cfg.goto_stack : (c.goto k s fs).stack = fs ++ k := rfl
@[simp] theorem Cfg.goto_ret : (c.goto k s fs).ret = c.ret := rfl
@[simp] theorem Cfg.goto_exn : (c.goto k s fs).exn = c.exn := rfl
end

macro_rules
  | `(tactic| st_le1) => `(tactic| simp only [Cfg.pop_st, Cfg.popRet_st, Cfg.raise_st, Cfg.goto_st])

theorem Cfg.effectDone_le (c : Cfg) (k : List Frame) (r e : Nat) (announce : Bool) :
    St.Le c.st (c.effectDone k r e announce).st := by
  unfold Cfg.effectDone; (try dsimp only); st_le
macro_rules | `(tactic| st_le1) => `(tactic| with_reducible exact Cfg.effectDone_le ..)

theorem Cfg.eventDone_le (c : Cfg) (k : List Frame) (r e : Nat) (err : Bool) :
    St.Le c.st (c.eventDone k r e err).st := by
  unfold Cfg.eventDone; (try dsimp only); st_le
macro_rules | `(tactic| st_le1) => `(tactic| with_reducible exact Cfg.eventDone_le ..)

theorem St.Le.updateRootAll (s : St) : ∀ (fuel : Nat) (todo : List Nat) (root : Nat) (t : St),
    St.Le s t → St.Le s (St.updateRootAll fuel todo root t) := by
  intro fuel
  induction fuel with
  | zero => intro todo root t h; simpa [St.updateRootAll] using h
  | succ n ih =>
    intro todo root t h
    cases todo with
    | nil => simpa [St.updateRootAll] using h
    | cons x rest =>
      simp only [St.updateRootAll]
      apply ih
      st_le

macro_rules | `(tactic| st_le1) => `(tactic| with_reducible apply St.Le.updateRootAll)

theorem Cfg.updateRoot_le (c : Cfg) (k : List Frame) (todo : List Nat) (root : Nat) :
    St.Le c.st (c.updateRoot k todo root).st := by
  unfold Cfg.updateRoot; (try dsimp only)
  simp only [Cfg.pop_st]
  exact St.Le.updateRootAll _ _ _ _ _ (St.Le.refl _)
macro_rules | `(tactic| st_le1) => `(tactic| with_reducible exact Cfg.updateRoot_le ..)

theorem Cfg.register_le (c : Cfg) (k : List Frame) (x p : Nat) :
    St.Le c.st (c.register k x p).st := by
  unfold Cfg.register; (try dsimp only); st_le
macro_rules | `(tactic| st_le1) => `(tactic| with_reducible exact Cfg.register_le ..)

theorem Cfg.registerFin_le (c : Cfg) (k : List Frame) (x : Nat) :
    St.Le c.st (c.registerFin k x).st := by
  unfold Cfg.registerFin; (try dsimp only); st_le
macro_rules | `(tactic| st_le1) => `(tactic| with_reducible exact Cfg.registerFin_le ..)

theorem Cfg.prepUnregFin_le (c : Cfg) (k : List Frame) (x : Nat) :
    St.Le c.st (c.prepUnregFin k x).st := by
  unfold Cfg.prepUnregFin; (try dsimp only); st_le
macro_rules | `(tactic| st_le1) => `(tactic| with_reducible exact Cfg.prepUnregFin_le ..)

theorem Cfg.stopMgr_le (c : Cfg) (k : List Frame) (x : Nat) (code : Code) :
    St.Le c.st (c.stopMgr k x code).st := by
  unfold Cfg.stopMgr; (try dsimp only); st_le
macro_rules | `(tactic| st_le1) => `(tactic| with_reducible exact Cfg.stopMgr_le ..)

theorem Cfg.ticks_le (c : Cfg) (k : List Frame) (x n : Nat) :
    St.Le c.st (c.ticks k x n).st := by
  unfold Cfg.ticks; (try dsimp only); st_le
macro_rules | `(tactic| st_le1) => `(tactic| with_reducible exact Cfg.ticks_le ..)

theorem Cfg.stopFin_le (c : Cfg) (k : List Frame) (code : Code) :
    St.Le c.st (c.stopFin k code).st := by
  unfold Cfg.stopFin; (try dsimp only); st_le
macro_rules | `(tactic| st_le1) => `(tactic| with_reducible exact Cfg.stopFin_le ..)

theorem Cfg.timerNew_le (c : Cfg) (k : List Frame) (i : Nat) :
    St.Le c.st (c.timerNew k i).st := by
  unfold Cfg.timerNew; (try dsimp only); st_le
macro_rules | `(tactic| st_le1) => `(tactic| with_reducible exact Cfg.timerNew_le ..)

theorem Cfg.acts_le (c : Cfg) (k : List Frame) (ctx : HCtx) (prog : Prog) :
    St.Le c.st (c.acts k ctx prog).st := by
  unfold Cfg.acts; (try dsimp only); st_le
macro_rules | `(tactic| st_le1) => `(tactic| with_reducible exact Cfg.acts_le ..)

theorem Cfg.doFin_le (c : Cfg) (k : List Frame) (x : Nat) :
    St.Le c.st (c.doFin k x).st := by
  unfold Cfg.doFin; (try dsimp only); st_le
macro_rules | `(tactic| st_le1) => `(tactic| with_reducible exact Cfg.doFin_le ..)

theorem Cfg.drainQ_le (c : Cfg) (k : List Frame) (x : Nat) :
    St.Le c.st (c.drainQ k x).st := by
  unfold Cfg.drainQ; (try dsimp only); st_le
macro_rules | `(tactic| st_le1) => `(tactic| with_reducible exact Cfg.drainQ_le ..)

theorem Cfg.stepGen_le (c : Cfg) (k : List Frame) (g : Nat) :
    St.Le c.st (c.stepGen k g).st := by
  unfold Cfg.stepGen; (try dsimp only); st_le
macro_rules | `(tactic| st_le1) => `(tactic| with_reducible exact Cfg.stepGen_le ..)

theorem Cfg.processTask_le (c : Cfg) (k : List Frame) (r : Nat) (x : Task) :
    St.Le c.st (c.processTask k r x).st := by
  unfold Cfg.processTask; (try dsimp only); st_le
macro_rules | `(tactic| st_le1) => `(tactic| with_reducible exact Cfg.processTask_le ..)

theorem Cfg.contStop_le {s0 : St} (c : Cfg) (k : List Frame) (s : St) (r : Nat) (x : Task) (hle : St.Le s0 s) :
    St.Le s0 (c.contStop k s r x).st := by
  unfold Cfg.contStop; (try dsimp only); st_le
macro_rules | `(tactic| st_le1) => `(tactic| with_reducible apply Cfg.contStop_le)

theorem Cfg.contError_le {s0 : St} (c : Cfg) (k : List Frame) (s : St) (r : Nat) (x : Task) (resumed : Bool) (hle : St.Le s0 s) :
    St.Le s0 (c.contError k s r x resumed).st := by
  unfold Cfg.contError; (try dsimp only); st_le
macro_rules | `(tactic| st_le1) => `(tactic| with_reducible apply Cfg.contError_le)

theorem Cfg.ptBodyWait_le (c : Cfg) (k : List Frame) (r : Nat) (x : Task) (w : Nat) :
    St.Le c.st (c.ptBodyWait k r x w).st := by
  unfold Cfg.ptBodyWait; (try dsimp only); st_le
macro_rules | `(tactic| st_le1) => `(tactic| with_reducible exact Cfg.ptBodyWait_le ..)

theorem Cfg.ptBodyExc_le (c : Cfg) (k : List Frame) (r : Nat) (x : Task) (w : Nat) (fired : Bool) :
    St.Le c.st (c.ptBodyExc k r x w fired).st := by
  unfold Cfg.ptBodyExc; (try dsimp only); st_le
macro_rules | `(tactic| st_le1) => `(tactic| with_reducible exact Cfg.ptBodyExc_le ..)

theorem Cfg.ptBody_le (c : Cfg) (k : List Frame) (r : Nat) (x : Task) :
    St.Le c.st (c.ptBody k r x).st := by
  unfold Cfg.ptBody; (try dsimp only); st_le
macro_rules | `(tactic| st_le1) => `(tactic| with_reducible exact Cfg.ptBody_le ..)

theorem Cfg.ptOwn_le (c : Cfg) (k : List Frame) (r : Nat) (x : Task) :
    St.Le c.st (c.ptOwn k r x).st := by
  unfold Cfg.ptOwn; (try dsimp only); st_le
macro_rules | `(tactic| st_le1) => `(tactic| with_reducible exact Cfg.ptOwn_le ..)

theorem Cfg.ptParent_le (c : Cfg) (k : List Frame) (r : Nat) (x : Task) (p : Nat) (viaThrow : Bool) :
    St.Le c.st (c.ptParent k r x p viaThrow).st := by
  unfold Cfg.ptParent; (try dsimp only); st_le
macro_rules | `(tactic| st_le1) => `(tactic| with_reducible exact Cfg.ptParent_le ..)

theorem Cfg.ptFin_le (c : Cfg) (k : List Frame) (r : Nat) (handling : Option Nat) :
    St.Le c.st (c.ptFin k r handling).st := by
  unfold Cfg.ptFin; (try dsimp only); st_le
macro_rules | `(tactic| st_le1) => `(tactic| with_reducible exact Cfg.ptFin_le ..)

theorem Cfg.dispatcher_le (c : Cfg) (k : List Frame) (r e remaining : Nat) :
    St.Le c.st (c.dispatcher k r e remaining).st := by
  unfold Cfg.dispatcher; (try dsimp only); st_le
macro_rules | `(tactic| st_le1) => `(tactic| with_reducible exact Cfg.dispatcher_le ..)

theorem Cfg.hLoop_le (c : Cfg) (k : List Frame) (r e : Nat) (hs : List Nat) (err : Bool) (stale : Outcome) :
    St.Le c.st (c.hLoop k r e hs err stale).st := by
  unfold Cfg.hLoop; (try dsimp only); st_le
macro_rules | `(tactic| st_le1) => `(tactic| with_reducible exact Cfg.hLoop_le ..)

theorem Cfg.invokeUser_le {s0 : St} (c : Cfg) (k : List Frame) (s : St) (h e owner p : Nat) (hle : St.Le s0 s) :
    St.Le s0 (c.invokeUser k s h e owner p).st := by
  unfold Cfg.invokeUser; (try dsimp only); st_le
macro_rules | `(tactic| st_le1) => `(tactic| with_reducible apply Cfg.invokeUser_le)

theorem Cfg.invoke_le (c : Cfg) (k : List Frame) (r h e : Nat) :
    St.Le c.st (c.invoke k r h e).st := by
  unfold Cfg.invoke; (try dsimp only); st_le
macro_rules | `(tactic| st_le1) => `(tactic| with_reducible exact Cfg.invoke_le ..)

theorem Cfg.invokeFin_le (c : Cfg) (k : List Frame) (e h : Nat) :
    St.Le c.st (c.invokeFin k e h).st := by
  unfold Cfg.invokeFin; (try dsimp only); st_le
macro_rules | `(tactic| st_le1) => `(tactic| with_reducible exact Cfg.invokeFin_le ..)

theorem Cfg.hAfter_le (c : Cfg) (k : List Frame) (r e : Nat) (rest : List Nat) (err : Bool) (stale : Outcome) :
    St.Le c.st (c.hAfter k r e rest err stale).st := by
  unfold Cfg.hAfter; (try dsimp only); st_le
macro_rules | `(tactic| st_le1) => `(tactic| with_reducible exact Cfg.hAfter_le ..)

theorem Cfg.hApply_le (c : Cfg) (k : List Frame) (r e : Nat) (rest : List Nat) (err : Bool) (value : Outcome) :
    St.Le c.st (c.hApply k r e rest err value).st := by
  unfold Cfg.hApply; (try dsimp only); st_le
macro_rules | `(tactic| st_le1) => `(tactic| with_reducible exact Cfg.hApply_le ..)

theorem Cfg.dispFin_le (c : Cfg) (k : List Frame) (r e : Nat) (err : Bool) :
    St.Le c.st (c.dispFin k r e err).st := by
  unfold Cfg.dispFin; (try dsimp only); st_le
macro_rules | `(tactic| st_le1) => `(tactic| with_reducible exact Cfg.dispFin_le ..)

theorem Cfg.dispatchLoop_le (c : Cfg) (k : List Frame) (r : Nat) :
    St.Le c.st (c.dispatchLoop k r).st := by
  unfold Cfg.dispatchLoop; (try dsimp only); st_le
macro_rules | `(tactic| st_le1) => `(tactic| with_reducible exact Cfg.dispatchLoop_le ..)

theorem Cfg.flush_le (c : Cfg) (k : List Frame) (x : Nat) :
    St.Le c.st (c.flush k x).st := by
  unfold Cfg.flush; (try dsimp only); st_le
macro_rules | `(tactic| st_le1) => `(tactic| with_reducible exact Cfg.flush_le ..)

theorem Cfg.flushFin_le (c : Cfg) (k : List Frame) (r : Nat) (old : Bool) :
    St.Le c.st (c.flushFin k r old).st := by
  unfold Cfg.flushFin; (try dsimp only); st_le
macro_rules | `(tactic| st_le1) => `(tactic| with_reducible exact Cfg.flushFin_le ..)

theorem Cfg.tick_le (c : Cfg) (k : List Frame) (x : Nat) :
    St.Le c.st (c.tick k x).st := by
  unfold Cfg.tick; (try dsimp only); st_le
macro_rules | `(tactic| st_le1) => `(tactic| with_reducible exact Cfg.tick_le ..)

theorem Cfg.taskLoop_le (c : Cfg) (k : List Frame) (x : Nat) (ts : List Task) :
    St.Le c.st (c.taskLoop k x ts).st := by
  unfold Cfg.taskLoop; (try dsimp only); st_le
macro_rules | `(tactic| st_le1) => `(tactic| with_reducible exact Cfg.taskLoop_le ..)

theorem Cfg.tickFin_le (c : Cfg) (k : List Frame) (x : Nat) (old : Bool) :
    St.Le c.st (c.tickFin k x old).st := by
  unfold Cfg.tickFin; (try dsimp only); st_le
macro_rules | `(tactic| st_le1) => `(tactic| with_reducible exact Cfg.tickFin_le ..)

theorem Cfg.tickGen_le (c : Cfg) (k : List Frame) (x : Nat) :
    St.Le c.st (c.tickGen k x).st := by
  unfold Cfg.tickGen; (try dsimp only); st_le
macro_rules | `(tactic| st_le1) => `(tactic| with_reducible exact Cfg.tickGen_le ..)

theorem Cfg.run_le (c : Cfg) (k : List Frame) (x : Nat) :
    St.Le c.st (c.run k x).st := by
  unfold Cfg.run; (try dsimp only); st_le
macro_rules | `(tactic| st_le1) => `(tactic| with_reducible exact Cfg.run_le ..)

theorem Cfg.runLoop_le (c : Cfg) (k : List Frame) (x : Nat) :
    St.Le c.st (c.runLoop k x).st := by
  unfold Cfg.runLoop; (try dsimp only); st_le
macro_rules | `(tactic| st_le1) => `(tactic| with_reducible exact Cfg.runLoop_le ..)

theorem Cfg.runFin_le (c : Cfg) (k : List Frame) (x : Nat) :
    St.Le c.st (c.runFin k x).st := by
  unfold Cfg.runFin; (try dsimp only); st_le
macro_rules | `(tactic| st_le1) => `(tactic| with_reducible exact Cfg.runFin_le ..)

theorem Cfg.runCatchExn_le (c : Cfg) (k : List Frame) (x : Nat) (ex : Exn) :
    St.Le c.st (c.runCatchExn k x ex).st := by
  unfold Cfg.runCatchExn; (try dsimp only); st_le
macro_rules | `(tactic| st_le1) => `(tactic| with_reducible exact Cfg.runCatchExn_le ..)

theorem Cfg.runRethrow_le (c : Cfg) (k : List Frame) (ex : Exn) :
    St.Le c.st (c.runRethrow k ex).st := by
  unfold Cfg.runRethrow; (try dsimp only); st_le
macro_rules | `(tactic| st_le1) => `(tactic| with_reducible exact Cfg.runRethrow_le ..)

/-! ## the transition function -/

theorem stepFrame_le (c : Cfg) (k : List Frame) (f : Frame) : St.Le c.st (stepFrame c k f).st := by
  cases f <;> (dsimp only [stepFrame]; st_le)

theorem unwind_le (c : Cfg) (k : List Frame) (ex : Exn) (f : Frame) : St.Le c.st (unwind c k ex f).st := by
  cases f <;> (dsimp only [unwind]; st_le)

/-! how `step` dispatches (use these to start a proof of `Inv c → Inv (step c)`) -/

theorem step_nil (c : Cfg) (h : c.stack = []) : step c = c := by
  unfold step; rw [h]

theorem step_cons (c : Cfg) (f : Frame) (k : List Frame) (h : c.stack = f :: k) (hx : c.exn = none) :
    step c = stepFrame c k f := by
  unfold step; rw [h, hx]

theorem step_cons_exn (c : Cfg) (f : Frame) (k : List Frame) (ex : Exn) (h : c.stack = f :: k)
    (hx : c.exn = some ex) : step c = unwind c k ex f := by
  unfold step; rw [h, hx]

/-- every step leads to a later state -/
theorem step_le (c : Cfg) : St.Le c.st (step c).st := by
  unfold step
  split
  · exact St.Le.refl _
  · split
    · exact unwind_le ..
    · exact stepFrame_le ..

/-- a finished configuration is a fixed point -/
theorem step_done (c : Cfg) (h : done c = true) : step c = c := by
  unfold done at h
  unfold step
  split
  · rfl
  · rename_i heq; rw [heq] at h; simp at h

theorem runN_done (n : Nat) (c : Cfg) (h : done c = true) : runN n c = c := by
  cases n <;> simp [runN, h]

/-- `runN` really is "iterate `step` n times" (the early exit is only an optimisation) -/
theorem runN_succ (n : Nat) (c : Cfg) : runN (n + 1) c = runN n (step c) := by
  by_cases h : done c = true
  · rw [step_done c h, runN_done _ c h, runN_done _ c h]
  · simp [runN, h]

/-- the log is a monotone history: a step only prepends entries -/
theorem step_log (c : Cfg) : ∃ es, (step c).st.log = es ++ c.st.log :=
  let ⟨es, h, _⟩ := (step_le c).hist; ⟨es, h⟩

/-- … and the tape is consumed in lockstep: one tape entry per log entry -/
theorem step_log_tape (c : Cfg) :
    ∃ es, (step c).st.log = es ++ c.st.log ∧ (step c).st.tape = c.st.tape.drop es.length := (step_le c).hist

/-- the tables of events, handlers, generators and wait states only grow -/
theorem step_evs (c : Cfg) : c.st.evs.length ≤ (step c).st.evs.length := (step_le c).evs
theorem step_hs (c : Cfg) : c.st.hs.length ≤ (step c).st.hs.length := (step_le c).hs
theorem step_gens (c : Cfg) : c.st.gens.length ≤ (step c).st.gens.length := (step_le c).gens
theorem step_waits (c : Cfg) : c.st.waits.length ≤ (step c).st.waits.length := (step_le c).waits

/-- component and timer ids stay valid; programs and templates are constants of a run -/
theorem step_comps (c : Cfg) : (step c).st.comps.length = c.st.comps.length := (step_le c).comps
theorem step_timers (c : Cfg) : (step c).st.timers.length = c.st.timers.length := (step_le c).timers
theorem step_progs (c : Cfg) : (step c).st.progs = c.st.progs := (step_le c).progs
theorem step_tmpls (c : Cfg) : (step c).st.tmpls = c.st.tmpls := (step_le c).tmpls

theorem runN_le (n : Nat) (c : Cfg) : St.Le c.st (runN n c).st := by
  induction n generalizing c with
  | zero => exact St.Le.refl _
  | succ n ih => rw [runN_succ]; exact (step_le c).trans (ih _)

end CV.Core

import CV.Proofs.HttpWf3
import CV.Proofs.HttpServer
/-
Helper lemmas for C13 `wellformed_*` / `client_*`: what `_on_read` does with a cleanly read
request, and the client-side invariant that says exactly when `_on_client_read` fires before the
message is complete.
-/
namespace CV
namespace Http

/-- framing facts of a header block accepted by `isReading` -/
theorem wf13_hdr_ok {lex : Lex} {k : Kind} {msg fl : Bytes} {hb : Option Bytes} {body : Bytes} {h : HdrInfo}
    (hr : isReading lex k msg fl hb body = true) (hh : wf13_hi lex hb = some h) :
    h.clen ≠ .bad ∧ h.upgrade = false := by
  cases hb with
  | none =>
    simp only [wf13_hi, Option.some.injEq] at hh
    subst hh
    exact ⟨by simp [noHdrs], rfl⟩
  | some b =>
    simp only [wf13_hi] at hh
    unfold isReading at hr
    simp only [Bool.and_eq_true] at hr
    obtain ⟨_, hr⟩ := hr
    cases hf : lex.first k fl with
    | none => simp [hf] at hr
    | some f =>
      simp only [hf, hh, Bool.and_eq_true, Bool.not_eq_true'] at hr
      obtain ⟨_, ⟨_, hup⟩, hbody⟩ := hr
      refine ⟨?_, hup⟩
      intro hc
      simp [bodyOk, hc] at hbody

/-- `_on_read` after the parser has cleanly read a complete request that passes the server's
    acceptance tests: the `request` event, parser entry deleted -/
theorem wf13_afterExec {lex : Lex} {p : PState} {fl : Bytes} {f : FirstLine} {hb : Option Bytes}
    {h : HdrInfo} {body : Bytes} (hp : wf13_Read p fl f hb h body)
    (hv : verdict lex true ⟨fl, f, hb, h⟩ true = .fire) :
    afterExec lex {} p = (⟨none, some ⟨fl, f, hb, h⟩⟩, .request fl hb body) := by
  have hbad := hp.bad
  simp only [Core.bad, Bool.or_eq_false_iff] at hbad
  have hreq : reqOf none p = some ⟨fl, f, hb, h⟩ := by
    simp [reqOf, hp.firstLine, hp.fl, hp.hi, hp.hdrBlock]
  unfold afterExec
  simp only [hbad.2, hp.hdrDone, Bool.false_eq_true, if_false, Bool.not_true, hreq,
    Option.isNone_none, hp.complete, hv, hp.body]

theorem wf13_verdict_fire (lex : Lex) (fl : Bytes) (f : FirstLine) (hb : Option Bytes) (h : HdrInfo)
    (hc : h.clen ≠ .bad) (hv : f.vmajor = 1) (hh : f.vminor = 0 ∨ h.host = true)
    (hp : lex.pathOk fl hb = true) :
    verdict lex true ⟨fl, f, hb, h⟩ true = .fire := by
  unfold verdict
  have c1 : ¬ ((true && decide (f.vmajor ≠ 1)) = true) := by simp [hv]
  have c3 : ¬ (((decide (h.clenVal ≠ 0) || h.te) && !true) = true) := by simp
  have c4 : ¬ ((decide ((f.vmajor, f.vminor) ≠ (1, 0)) && !h.host) = true) := by
    rcases hh with hh | hh
    · simp [hv, hh]
    · simp [hh]
  have c5 : ¬ ((!lex.pathOk fl hb) = true) := by simp [hp]
  simp only [c1, hc, c3, c4, c5, if_false]
  simp

/-- one-piece delivery of an RFC-well-formed request that passes the server's acceptance tests -/
theorem wf13_request_facts (lex : Lex) (secure : Bool) (msg fl : Bytes) (hb : Option Bytes)
    (body : Bytes) (f : FirstLine) (h : HdrInfo)
    (hr : isReading lex .request msg fl hb body = true)
    (hchunk : ∀ l n, rfcChunkSize l = some n → lex.chunk l = some n)
    (hf : lex.first .request fl = some f) (hst : f.status = none) (hh : wf13_hi lex hb = some h)
    (hssl : (sslHandshake msg && !secure) = false) (hv : f.vmajor = 1)
    (hhost : f.vminor = 0 ∨ h.host = true) (hpath : lex.pathOk fl hb = true) :
    msg ≠ [] ∧ (exec lex (init .request) msg).core.bad = false ∧
    (exec lex (init .request) msg).core.status = none ∧
    connRead lex secure {} msg = (⟨none, some ⟨fl, f, hb, h⟩⟩, .request fl hb body) := by
  obtain ⟨f', h', hf', hh', hp⟩ := wf13_exec lex .request msg fl hb body hr hchunk
    (fun _ g hg => by rw [hf] at hg; cases hg; exact hst)
  have e1 : f' = f := by rw [hf] at hf'; cases hf'; rfl
  have e2 : h' = h := by rw [hh'] at hh; cases hh; rfl
  subst e1 e2
  have hs : msg ≠ [] := by
    intro e
    subst e
    have := hp.firstLine
    simp [exec, init] at this
  have hverd := wf13_verdict_fire lex fl f' hb h' (wf13_hdr_ok hr hh').1 hv hhost hpath
  refine ⟨hs, hp.bad, by simp [Core.status, hp.fl, hst], ?_⟩
  show (if (sslHandshake msg && !secure) = true then _ else _) = _
  rw [hssl]
  exact wf13_afterExec hp hverd

/-! ### client side -/

/-- invariant of the parser that the client's firing test relies on: before the headers are
    complete there is no header info; `_clen == 0` with complete headers means complete -/
def wf13_CInv (c : Core) : Prop :=
  (c.hdrDone = false → c.clen = none ∧ c.chunked = false ∧ c.hi = none) ∧
  (c.hdrDone = true → c.clen = some 0 → c.complete = true)

theorem wf13_cinv_init (k : Kind) : wf13_CInv (init k).core := by
  unfold wf13_CInv
  simp [init]

theorem wf13_ext_more {c c' : Core} (e : Ext c c') : c'.clen = c.clen ∧ c'.chunked = c.chunked := by
  have h := e.1
  simp only [Core.hdrPart, Prod.mk.injEq] at h
  exact ⟨h.2.2.2.2.2.2.2.2, h.2.2.2.2.2.2.2.1⟩

/-- after body-phase work on a state whose headers are complete -/
theorem wf13_cinv_of_ext {c c' : Core} (e : Ext c c') (hd : c.hdrDone = true)
    (h : c.clen = some 0 → c'.complete = true) : wf13_CInv c' := by
  have f := ext_fields e
  have g := wf13_ext_more e
  exact ⟨fun x => by (rw [f.2.1, hd] at x; cases x), fun _ hc => h (by rw [← g.1]; exact hc)⟩

theorem wf13_execHeaders_cinv (lex : Lex) (c : Core) (x : Bytes) (hd : c.hdrDone = false)
    (hcl : c.clen = none) (hch : c.chunked = false) (hhi : c.hi = none) :
    wf13_CInv (execHeaders lex c x).core := by
  unfold execHeaders
  split
  · exact wf13_cinv_of_ext (execBody_ext lex _ _ _) rfl (fun h => by (rw [hcl] at h; cases h))
  · have hwait : ∀ c' : Core, c'.hdrDone = false → c'.clen = none → c'.chunked = false → c'.hi = none →
        wf13_CInv c' :=
      fun c' a b d e => ⟨fun _ => ⟨b, d, e⟩, fun h => by (rw [a] at h; cases h)⟩
    cases hf : find CRLF2 x with
    | none => exact hwait _ hd hcl hch hhi
    | some idx =>
      dsimp only
      cases hl : lex.hdrs (List.take idx x) with
      | none => exact hwait _ hd hcl hch hhi
      | some h =>
        dsimp only
        cases hc : h.clen with
        | bad =>
          dsimp only
          exact wf13_cinv_of_ext (execBody_ext lex _ _ _) rfl (fun h => by (rw [hcl] at h; cases h))
        | absent =>
          dsimp only
          exact wf13_cinv_of_ext (execBody_ext lex _ _ _) rfl (fun h => by (rw [hcl] at h; cases h))
        | val n =>
          dsimp only
          by_cases hn : n = 0
          · subst hn
            exact wf13_cinv_of_ext (execBody_ext lex _ _ _) rfl
              (fun _ => execBody_clen0 lex _ _ _ hch rfl rfl)
          · exact wf13_cinv_of_ext (execBody_ext lex _ _ _) rfl
              (fun h => by (simp only [Option.some.injEq] at h; exact absurd h hn))

theorem wf13_exec_cinv (lex : Lex) (s : PState) (d : Bytes) (hd : d ≠ []) (hwf : WF s.core)
    (hinv : wf13_CInv s.core) : wf13_CInv (exec lex s d).core := by
  have hde : d.isEmpty = false := by cases d <;> simp_all
  unfold WF at hwf
  obtain ⟨w1, w2⟩ := hwf
  obtain ⟨ia, ib⟩ := hinv
  unfold exec
  simp only [hde]
  cases hexn : s.core.exn with
  | true => simpa using ⟨ia, ib⟩
  | false =>
    cases hf : s.core.onFirst with
    | false =>
      simp only [Bool.false_eq_true, if_false, Bool.not_false, if_true]
      have hh := w1 hf
      unfold execFirst
      split
      · exact ⟨ia, ib⟩
      · dsimp only
        split
        · exact ⟨fun _ => ia hh, fun h => by (rw [hh] at h; cases h)⟩
        · exact wf13_execHeaders_cinv lex _ _ hh (ia hh).1 (ia hh).2.1 (ia hh).2.2
    | true =>
      cases hh : s.core.hdrDone with
      | false =>
        simp only [Bool.false_eq_true, if_false, Bool.not_false, Bool.not_true, if_true]
        exact wf13_execHeaders_cinv lex _ _ hh (ia hh).1 (ia hh).2.1 (ia hh).2.2
      | true =>
        cases hc : s.core.complete with
        | false =>
          simp only [Bool.false_eq_true, if_false, Bool.not_false, Bool.not_true, if_true]
          refine wf13_cinv_of_ext (execBody_ext lex _ _ _) hh (fun h => ?_)
          have := ib hh h
          rw [hc] at this; cases this
        | true =>
          simp only [Bool.false_eq_true, if_false, Bool.not_true]
          exact ⟨fun y => by (cases y), fun _ _ => rfl⟩

/-- **when the client fires before the end of a clean stream**: in a state `s` that still has
    bytes `r` to come, `_on_client_read` fires iff the headers are complete and they are an
    Upgrade (`is_upgrade()`); the other two disjuncts of its test cannot hold -/
theorem wf13_client_mid (lex : Lex) (s : PState) (r : Bytes) (hr : r ≠ []) (hwf : WF s.core)
    (hci : wf13_CInv s.core) (hclean : (exec lex s r).core.bad = false) :
    clientFires s.core = (s.core.hdrDone && isUpgrade (exec lex s r).core) := by
  have hre : r.isEmpty = false := by cases r <;> simp_all
  simp only [Core.bad, Bool.or_eq_false_iff] at hclean
  obtain ⟨⟨hover, _⟩, hexn'⟩ := hclean
  have hexn : s.core.exn = false := by
    cases h : s.core.exn with
    | false => rfl
    | true => rw [exec_of_exn hre h, h] at hexn'; cases hexn'
  cases hd : s.core.hdrDone with
  | false =>
    have hi := (hci.1 hd).2.2
    have hc := hwf.2 hd
    simp [clientFires, isUpgrade, hi, hc, hd]
  | true =>
    have hf : s.core.onFirst = true := by
      cases h : s.core.onFirst with
      | true => rfl
      | false => have := hwf.1 h; rw [hd] at this; cases this
    have hc : s.core.complete = false := by
      cases h : s.core.complete with
      | false => rfl
      | true => rw [exec_of_complete hre hexn hf hd h] at hover; cases hover
    have hcl : (s.core.clen == some 0) = false := by
      cases h : (s.core.clen == some 0) with
      | false => rfl
      | true =>
        have := hci.2 hd (by simpa using h)
        rw [hc] at this; cases this
    have e := exec_ext_hdr lex s r hwf hd hr hexn
    have hi := (ext_fields e).2.2.2.2.2.1
    simp [clientFires, isUpgrade, hi, hc, hd, hcl]

theorem wf13_execAll_wf (lex : Lex) (segs : List Bytes) : ∀ (s : PState), (∀ d ∈ segs, d ≠ []) →
    WF s.core → wf13_CInv s.core →
    WF (execAll lex s segs).core ∧ wf13_CInv (execAll lex s segs).core := by
  induction segs with
  | nil => intro s _ a b; exact ⟨a, b⟩
  | cons a rest ih =>
    intro s hne hwf hci
    have ha : a ≠ [] := hne a (by simp)
    exact ih (exec lex s a) (fun d hd => hne d (List.mem_cons_of_mem _ hd)) (exec_wf lex s a ha hwf)
      (wf13_exec_cinv lex s a ha hwf hci)

/-- the state after the first `k` reads, followed by the remaining bytes in one piece, is the
    one-piece state (clean streams) -/
theorem wf13_execAll_split (lex : Lex) (segs : List Bytes) : ∀ (s : PState) (k : Nat), WF s.core →
    (∀ d ∈ segs, d ≠ []) → 0 < k → k < segs.length →
    (exec lex s segs.flatten).core.bad = false →
    (segs.drop k).flatten ≠ [] ∧
    exec lex (execAll lex s (segs.take k)) (segs.drop k).flatten = exec lex s segs.flatten := by
  induction segs with
  | nil => intro s k _ _ _ hk; simp at hk
  | cons a rest ih =>
    intro s k hwf hne hk0 hk hclean
    have ha : a ≠ [] := hne a (by simp)
    have hne' : ∀ d ∈ rest, d ≠ [] := fun d hd => hne d (List.mem_cons_of_mem _ hd)
    obtain ⟨k', rfl⟩ : ∃ k', k = k' + 1 := ⟨k - 1, by omega⟩
    simp only [List.length_cons] at hk
    have hrest : rest.flatten ≠ [] := by
      cases rest with
      | nil => simp at hk
      | cons b r =>
        simp only [List.flatten_cons]
        intro h
        exact hne' b (by simp) (List.append_eq_nil_iff.mp h).1
    simp only [List.flatten_cons] at hclean ⊢
    have hom := exec_hom lex s a rest.flatten hwf ha hrest hclean
    simp only [List.take_succ_cons, List.drop_succ_cons, execAll]
    cases k' with
    | zero => exact ⟨by simpa using hrest, by simpa [execAll] using hom⟩
    | succ j =>
      have := ih (exec lex s a) (j + 1) (exec_wf lex s a ha hwf) hne' (by omega) (by omega)
        (by rw [hom]; exact hclean)
      exact ⟨this.1, by rw [this.2, hom]⟩

end Http
end CV

import CV.Proofs.StaticPath
import CV.Model.StaticListing
/- Helper lemmas for the directory-listing part of C16 (`CV.StaticListing`). -/
namespace CV.StaticListing
open CV.StaticPath

theorem entries_names (fs : FS) (cfg : Cfg) (rel : Str) (ls : List Str) :
    (entries fs cfg rel ls).map (·.name) = ls.filter (fun n => !hidden n) := by
  unfold entries
  rw [List.map_map]
  have : ((fun e : Entry => e.name) ∘ entryOf fs cfg rel) = id := by
    funext x; simp [entryOf]
  rw [this, List.map_id]

theorem serveListing_some (unq : Str → Str) (fs : FS) (ls : Str → List Str) (cfg : Cfg) (reqPath : Str)
    (l : Listing) (h : serveListing unq fs ls cfg reqPath = some l) :
    ∃ rel, relOf unq cfg reqPath = some rel ∧ serveRel fs cfg rel = .listing l.loc ∧
      serve unq fs cfg reqPath = .listing l.loc ∧
      l.up = parentLink cfg rel ∧ l.items = entries fs cfg rel (ls l.loc) := by
  unfold serveListing at h
  cases hrel : relOf unq cfg reqPath with
  | none => simp [hrel] at h
  | some rel =>
    simp only [hrel] at h
    cases hs : serveRel fs cfg rel with
    | listing loc =>
      simp only [hs, Option.some.injEq] at h
      subst h
      exact ⟨rel, rfl, hs, by simp [serve, hrel, hs], rfl, rfl⟩
    | pass => simp [hs] at h
    | notfound => simp [hs] at h
    | file x => simp [hs] at h

/-! ### the child path `join rel item` is answered by the child -/

/-- `normpath(join(join(d, rel), c)) = normpath(join(d, rel or '.')) + '/' + c` for an allowed first
    location and a clean component (the step inside `StaticPath.default_location`) -/
theorem child_location (d rel c : Str) (hd : ProperRoot d) (hc : cleanSeg c = true)
    (ha : allowed d (normpath (join d (if rel = [] then ['.'] else rel))) = true) :
    normpath (join (join d rel) c) = normpath (join d (if rel = [] then ['.'] else rel)) ++ '/' :: c := by
  obtain ⟨hn, hne, hclean, hk1, hin, _⟩ := first_location d rel hd ha
  have hxd : (join d rel).head? = some '/' := join_head d rel (proper_head d hd)
  have hxdne : join d rel ≠ [] := by intro e; simp [e] at hxd
  have hx' : (join (join d rel) c).head? = some '/' := join_head _ _ hxd
  have hkd : initialSlashes (join d rel) = 1 := by
    by_cases h : rel = []
    · subst h
      have : join d [] = d ++ ['/'] := rootDir_proper d hd
      rw [this]; exact initialSlashes_proper d _ hd
    · simpa [h] using hk1
  have hk' := initialSlashes_join (join d rel) c hxd hkd hc
  have hr : resolveSegs [] (split '/' (join (join d rel) c)) = resolveSegs [] (relSegs d rel) ++ [c] := by
    rw [resolve_join_clean _ _ hxdne hc, split_join_root d rel hd]
  rw [normpath_abs _ hx', hk', hr, hn, joinSlash_append_single _ _ hne]
  rfl

theorem clean_head (c : Str) (hc : cleanSeg c = true) : c.head? ≠ some '/' ∧ c ≠ [] := by
  have hc' := (cleanSeg_iff c).1 hc
  refine ⟨?_, hc'.1⟩
  intro e
  cases c with
  | nil => simp at e
  | cons a r => simp at e; subst e; exact hc'.2.2.2 (by simp)

/-- `posixpath.join` is associative on relative arguments below a proper root -/
theorem join_assoc_root (d rel item : Str) (hd : ProperRoot d) (hr : rel.head? ≠ some '/')
    (hi : item.head? ≠ some '/') : join d (join rel item) = join (join d rel) item := by
  obtain ⟨c0, r0, hdd, _, hl⟩ := hd
  have hne : d ≠ [] := by simp [hdd]
  cases rel with
  | nil =>
    have j1 : join [] item = item := by simp [join, hi]
    have j2 : join d [] = d ++ ['/'] := by simp [join, hne, hl]
    rw [j1, j2]
    simp [join, hi, hne, hl]
  | cons a r =>
    have ha : a ≠ '/' := by intro e; subst e; simp at hr
    have j2 : join d (a :: r) = d ++ '/' :: a :: r := by simp [join, ha, hne, hl]
    rw [j2]
    have hlast : (d ++ '/' :: a :: r).getLast? = (a :: r).getLast? := by
      rw [List.getLast?_append]
      cases hg : ('/' :: a :: r).getLast? with
      | none => simp at hg
      | some x => simp at hg ⊢; exact hg.symm
    by_cases hq : (a :: r).getLast? = some '/'
    · have j1 : join (a :: r) item = (a :: r) ++ item := by simp [join, hi, hq]
      have j3 : join (d ++ '/' :: a :: r) item = (d ++ '/' :: a :: r) ++ item := by
        simp [join, hi, hlast, hq]
      rw [j1, j3]
      simp [join, ha, hne, hl]
    · have j1 : join (a :: r) item = (a :: r) ++ '/' :: item := by simp [join, hi, hq]
      have j3 : join (d ++ '/' :: a :: r) item = (d ++ '/' :: a :: r) ++ '/' :: item := by
        simp [join, hi, hlast, hq]
      rw [j1, j3]
      simp [join, ha, hne, hl]

theorem join_rel_ne (rel item : Str) (hi : item ≠ []) : join rel item ≠ [] := by
  unfold join
  split
  · exact hi
  · split <;> simp [hi]

/-- If `rel` (not absolute) is answered with the listing of `loc`, then the child path
    `join rel item` of a clean name is looked up at `loc/item`, which passes the containment test. -/
theorem child_lookup (fs : FS) (cfg : Cfg) (rel item loc : Str) (hd : ProperRoot cfg.docroot)
    (hl : serveRel fs cfg rel = .listing loc) (hr : rel.head? ≠ some '/') (hc : cleanSeg item = true) :
    locOf cfg rel = loc ∧ locOf cfg (join rel item) = loc ++ '/' :: item ∧
      entryLoc cfg rel item = loc ++ '/' :: item ∧
      allowed cfg.docroot (loc ++ '/' :: item) = true ∧ cfg.dirlisting = true := by
  obtain ⟨hi, hine⟩ := clean_head item hc
  -- what `serveRel = listing` says
  have hfacts : allowed cfg.docroot (locOf cfg rel) = true ∧ loc = normpath (join cfg.docroot rel) ∧
      cfg.dirlisting = true := by
    unfold serveRel at hl
    simp only at hl
    split at hl
    · simp at hl
    · rename_i k hk
      by_cases ha : allowed cfg.docroot (locOf cfg rel) = true
      · refine ⟨ha, ?_⟩
        simp only [ha, not_true_eq_false, if_false] at hl
        cases k with
        | file => rcases serveFile_cases fs (locOf cfg rel) with e | e <;> simp [e] at hl
        | other => simp at hl
        | dir =>
          simp only at hl
          cases htd : tryDefaults fs cfg rel cfg.defaults with
          | some o =>
            rcases tryDefaults_some fs cfg rel cfg.defaults o htd with e | ⟨c, _, e⟩ <;> simp [htd, e] at hl
          | none =>
            simp only [htd] at hl
            split at hl
            · rename_i hdl
              exact ⟨by simpa using hl.symm, hdl⟩
            · simp at hl
      · simp [ha] at hl
  obtain ⟨ha, hloc, hdl⟩ := hfacts
  have ha' : allowed cfg.docroot (normpath (join cfg.docroot (if rel = [] then ['.'] else rel))) = true := ha
  have hch := child_location cfg.docroot rel item hd hc ha'
  -- `normpath (join d rel)` and `locOf cfg rel` agree
  have hsame : normpath (join cfg.docroot rel) = locOf cfg rel := by
    by_cases h : rel = []
    · subst h
      have h1 := child_location cfg.docroot [] item hd hc ha'
      -- both are the root: use the spec lemma of the listing branch
      unfold locOf
      simp only [if_true]
      have hp := proper_head cfg.docroot hd
      rw [normpath_abs _ (join_head _ _ hp), normpath_abs _ (join_head _ _ hp)]
      have r1 := resolve_first cfg.docroot [] hd
      simp only [if_true] at r1
      have j : join cfg.docroot [] = cfg.docroot ++ ['/'] := rootDir_proper cfg.docroot hd
      have r2 : resolveSegs [] (split '/' (join cfg.docroot [])) = resolveSegs [] (relSegs cfg.docroot []) := by
        rw [split_join_root _ _ hd]
      have k1 : initialSlashes (join cfg.docroot []) = 1 := by
        rw [j]; exact initialSlashes_proper _ _ hd
      have k2 : initialSlashes (join cfg.docroot ['.']) = 1 := by
        have : join cfg.docroot ['.'] = cfg.docroot ++ ['/', '.'] := by
          obtain ⟨c, r, hdd, _, hl⟩ := hd
          have hne : cfg.docroot ≠ [] := by simp [hdd]
          simp [join, hne, hl]
        rw [this]; exact initialSlashes_proper _ _ hd
      rw [r1, r2, k1, k2]
    · simp [locOf, h]
  have hlocOf : locOf cfg rel = loc := by rw [hloc, hsame]
  have hentry : entryLoc cfg rel item = loc ++ '/' :: item := by
    unfold entryLoc
    rw [hch, ← hlocOf]; rfl
  have hchild : locOf cfg (join rel item) = loc ++ '/' :: item := by
    unfold locOf
    simp only [join_rel_ne rel item hine, if_false]
    rw [join_assoc_root cfg.docroot rel item hd hr hi]
    exact hentry
  refine ⟨hlocOf, hchild, hentry, ?_, hdl⟩
  -- containment of the child
  rw [← hlocOf]
  unfold allowed at ha ⊢
  simp only [Bool.or_eq_true, decide_eq_true_eq] at ha ⊢
  right
  rw [rootDir_proper _ hd] at ha ⊢
  unfold startsWith at ha ⊢
  rcases ha with e | e
  · rw [e]; simp
  · rw [List.isPrefixOf_iff_prefix] at e ⊢
    exact e.trans (List.prefix_append _ _)

/-- the child path of a listed directory is answered by the child itself -/
theorem child_served (fs : FS) (cfg : Cfg) (rel item loc : Str) (hd : ProperRoot cfg.docroot)
    (hdef : ∀ c ∈ cfg.defaults, cleanSeg c = true)
    (hl : serveRel fs cfg rel = .listing loc) (hr : rel.head? ≠ some '/') (hc : cleanSeg item = true) :
    (fs (loc ++ '/' :: item) = some .file → serveRel fs cfg (join rel item) = .file (loc ++ '/' :: item)) ∧
    (fs (loc ++ '/' :: item) = some .dir →
      serveRel fs cfg (join rel item) = .listing (loc ++ '/' :: item) ∨
      serveRel fs cfg (join rel item) = .notfound ∨
      ∃ c ∈ cfg.defaults, serveRel fs cfg (join rel item) = .file ((loc ++ '/' :: item) ++ '/' :: c)) := by
  obtain ⟨_, hchild, _, hallow, hdl⟩ := child_lookup fs cfg rel item loc hd hl hr hc
  obtain ⟨_, hine⟩ := clean_head item hc
  constructor
  · intro hf
    unfold serveRel
    simp [hchild, hf, hallow, serveFile]
  · intro hf
    have hnp : normpath (join cfg.docroot (join rel item)) = loc ++ '/' :: item := by
      rw [← hchild]; simp [locOf, join_rel_ne rel item hine]
    have hallow' : allowed cfg.docroot (normpath (join cfg.docroot
        (if join rel item = [] then ['.'] else join rel item))) = true := by
      have : locOf cfg (join rel item) = normpath (join cfg.docroot
        (if join rel item = [] then ['.'] else join rel item)) := rfl
      rw [← this, hchild]; exact hallow
    cases htd : tryDefaults fs cfg (join rel item) cfg.defaults with
    | none =>
      left
      unfold serveRel
      simp [hchild, hf, hallow, htd, hdl, hnp]
    | some o =>
      right
      rcases tryDefaults_some fs cfg (join rel item) cfg.defaults o htd with e | ⟨c, hm, e⟩
      · left
        unfold serveRel
        simp [hchild, hf, hallow, htd, e]
      · right
        refine ⟨c, hm, ?_⟩
        have hcl := child_location cfg.docroot (join rel item) c hd (hdef c hm) hallow'
        have : locOf cfg (join rel item) = normpath (join cfg.docroot
          (if join rel item = [] then ['.'] else join rel item)) := rfl
        rw [← this, hchild] at hcl
        unfold serveRel
        simp [hchild, hf, hallow, htd, e, hcl]

/-! ### the href of an entry decodes to the child path -/

theorem hexDigit_ne_slash : ∀ n, n < 16 → hexDigit n ≠ '/' := by decide

theorem quote_append (x y : Str) : quote (x ++ y) = quote x ++ quote y := by
  simp [quote, List.flatMap_append]

theorem quote_safe (p : Str) (h : ∀ c ∈ p, safeChar c = true) : quote p = p := by
  induction p with
  | nil => rfl
  | cons c r ih =>
    have hc : safeChar c = true := h c (by simp)
    have hr : quote r = r := ih (fun x hx => h x (by simp [hx]))
    have : quote (c :: r) = quoteChar c ++ quote r := by simp [quote]
    rw [this, hr]; simp [quoteChar, hc]

theorem utf8_shape (c : Char) : (∃ b bs, utf8 c = b :: bs) ∧ (∃ bs bl, utf8 c = bs ++ [bl]) := by
  unfold utf8
  simp only
  split
  · exact ⟨⟨_, _, rfl⟩, ⟨[], _, rfl⟩⟩
  · split
    · exact ⟨⟨_, _, rfl⟩, ⟨[_], _, rfl⟩⟩
    · split
      · exact ⟨⟨_, _, rfl⟩, ⟨[_, _], _, rfl⟩⟩
      · exact ⟨⟨_, _, rfl⟩, ⟨[_, _, _], _, rfl⟩⟩

/-- the encoding of a character other than `/` neither starts nor ends with `/` -/
theorem quoteChar_ends (c : Char) (hc : c ≠ '/') :
    (∃ a m, quoteChar c = a :: m ∧ a ≠ '/') ∧ (∃ m z, quoteChar c = m ++ [z] ∧ z ≠ '/') := by
  unfold quoteChar
  by_cases hs : safeChar c = true
  · simp only [hs, if_true]
    exact ⟨⟨c, [], rfl, hc⟩, ⟨[], c, rfl, hc⟩⟩
  · have hs' : safeChar c = false := by simpa using hs
    simp only [hs', Bool.false_eq_true, if_false]
    have key : ∀ b, hexDigit (b % 16) ≠ '/' := fun b => hexDigit_ne_slash _ (Nat.mod_lt _ (by decide))
    obtain ⟨⟨b, bs, e1⟩, ⟨bs', bl, e2⟩⟩ := utf8_shape c
    constructor
    · rw [e1]
      exact ⟨'%', hexDigit (b / 16) :: hexDigit (b % 16) :: bs.flatMap pct, by simp [pct], by decide⟩
    · rw [e2]
      exact ⟨bs'.flatMap pct ++ ['%', hexDigit (bl / 16)], hexDigit (bl % 16),
        by simp [List.flatMap_append, pct], key bl⟩

theorem quote_ends (s : Str) (hne : s ≠ []) (hh : s.head? ≠ some '/') (hl : s.getLast? ≠ some '/') :
    (∃ a m, quote s = a :: m ∧ a ≠ '/') ∧ (∃ m z, quote s = m ++ [z] ∧ z ≠ '/') := by
  constructor
  · cases s with
    | nil => exact absurd rfl hne
    | cons c r =>
      have hc : c ≠ '/' := by intro e; subst e; simp at hh
      obtain ⟨⟨a, m, e, ha⟩, _⟩ := quoteChar_ends c hc
      refine ⟨a, m ++ quote r, ?_, ha⟩
      have : quote (c :: r) = quoteChar c ++ quote r := by simp [quote]
      rw [this, e]; rfl
  · obtain ⟨r, z, rfl⟩ : ∃ r z, s = r ++ [z] := by
      rcases List.eq_nil_or_concat s with h | ⟨r, z, h⟩
      · exact absurd h hne
      · exact ⟨r, z, by simpa using h⟩
    have hz : z ≠ '/' := by intro e; subst e; simp at hl
    obtain ⟨_, ⟨m, z', e, hz'⟩⟩ := quoteChar_ends z hz
    refine ⟨quote r ++ m, z', ?_, hz'⟩
    have : quote [z] = quoteChar z := by simp [quote]
    rw [quote_append, this, e]; simp

/-- `'/'*i + q + '/'*j` stripped of slashes is `q` (i, j ≤ 1) when `q` has no slash at either end -/
theorem stripSlash_pad (t q sfx : Str) (ht : t = [] ∨ t = ['/']) (hs : sfx = [] ∨ sfx = ['/'])
    (h1 : ∃ a m, q = a :: m ∧ a ≠ '/') (h2 : ∃ m z, q = m ++ [z] ∧ z ≠ '/') :
    stripSlash (t ++ q ++ sfx) = q := by
  obtain ⟨a, m, e1, ha⟩ := h1
  obtain ⟨m2, z, e2, hz⟩ := h2
  have hlead : (t ++ q ++ sfx).dropWhile (· = '/') = q ++ sfx := by
    rcases ht with rfl | rfl
    · rw [e1]; simp [ha]
    · rw [e1]; simp [ha]
  unfold stripSlash
  rw [hlead, e2]
  rcases hs with rfl | rfl
  · simp [hz]
  · simp [hz]

/-- the prefix the hrefs start with: `/`, or the mount prefix closed by a slash -/
def hrefLead (cfg : Cfg) : Str :=
  match cfg.pfx with
  | none => ['/']
  | some p => if p = [] then ['/'] else if p.getLast? = some '/' then p else p ++ ['/']

theorem join_lead (a x : Str) (ha : a ≠ []) (hx : x.head? ≠ some '/') :
    join a x = (if a.getLast? = some '/' then a else a ++ ['/']) ++ x := by
  unfold join
  simp only [hx, if_false, ha, false_or]
  split <;> simp

theorem join_assoc_gen (a rel item : Str) (ha : a ≠ []) (hr : rel.head? ≠ some '/')
    (hi : item.head? ≠ some '/') : join (join a rel) item = join a (join rel item) := by
  have hjh : (join rel item).head? ≠ some '/' := by
    unfold join
    simp only [hi, if_false]
    cases rel with
    | nil => simpa using hi
    | cons b r => split <;> simpa using hr
  rw [join_lead a rel ha hr, join_lead a (join rel item) ha hjh]
  generalize ha' : (if a.getLast? = some '/' then a else a ++ ['/']) = a'
  have hl' : a'.getLast? = some '/' := by
    rw [← ha']; split
    · assumption
    · simp
  have hne' : a' ≠ [] := by intro e; simp [e] at hl'
  cases rel with
  | nil =>
    have : join [] item = item := by simp [join, hi]
    rw [this]; simp [join, hi, hne', hl']
  | cons b r =>
    have hlast : (a' ++ b :: r).getLast? = (b :: r).getLast? := by
      rw [List.getLast?_append]
      cases hg : (b :: r).getLast? with
      | none => simp at hg
      | some x => simp
    by_cases hq : (b :: r).getLast? = some '/'
    · simp [join, hi, hlast, hq]
    · simp [join, hi, hlast, hq]

/-- `url = os.path.join('/', path, cur_dir, item)` is the lead followed by the child path -/
theorem entryUrl_eq (cfg : Cfg) (rel item : Str) (hp : ∀ p, cfg.pfx = some p → p ≠ [] → p.head? = some '/')
    (hr : rel.head? ≠ some '/') (hi : item.head? ≠ some '/') :
    entryUrl cfg rel item = hrefLead cfg ++ join rel item := by
  have hjh : (join rel item).head? ≠ some '/' := by
    unfold join
    simp only [hi, if_false]
    cases rel with
    | nil => simpa using hi
    | cons b r => split <;> simpa using hr
  have hroot : join (join (join ['/'] rel) []) item = ['/'] ++ join rel item := by
    cases rel with
    | nil => simp [join, hi]
    | cons b r =>
      have hb : b ≠ '/' := by intro e; subst e; simp at hr
      have j1 : join ['/'] (b :: r) = '/' :: b :: r := by simp [join, hb]
      have hX : ('/' :: b :: r).getLast? = (b :: r).getLast? := by simp [List.getLast?_cons_cons]
      rw [j1]
      by_cases hq : (b :: r).getLast? = some '/'
      · have hq' : ('/' :: b :: r).getLast? = some '/' := by rw [hX]; exact hq
        have j2 : join ('/' :: b :: r) [] = '/' :: b :: r := by
          rw [join_lead _ [] (by simp) (by simp)]; simp only [hq', if_true, List.append_nil]
        have j3 : join ('/' :: b :: r) item = ('/' :: b :: r) ++ item := by
          rw [join_lead _ item (by simp) hi]; simp only [hq', if_true]
        have j4 : join (b :: r) item = (b :: r) ++ item := by
          rw [join_lead _ item (by simp) hi]; simp only [hq, if_true]
        rw [j2, j3, j4]; rfl
      · have hq' : ¬ ('/' :: b :: r).getLast? = some '/' := by rw [hX]; exact hq
        have j2 : join ('/' :: b :: r) [] = ('/' :: b :: r) ++ ['/'] := by
          rw [join_lead _ [] (by simp) (by simp)]; simp only [hq', if_false, List.append_nil]
        have hcat : (('/' :: b :: r) ++ ['/']).getLast? = some '/' := List.getLast?_concat
        have j3 : join (('/' :: b :: r) ++ ['/']) item = (('/' :: b :: r) ++ ['/']) ++ item := by
          rw [join_lead _ item (by simp) hi]; simp only [hcat, if_true]
        have j4 : join (b :: r) item = ((b :: r) ++ ['/']) ++ item := by
          rw [join_lead _ item (by simp) hi]; simp only [hq, if_false]
        rw [j2, j3, j4]; simp
  unfold entryUrl curDir hrefLead
  cases hpf : cfg.pfx with
  | none => simpa using hroot
  | some p =>
    by_cases hpe : p = []
    · simpa [hpe] using hroot
    · simp only [hpe, if_false]
      have hph := hp p hpf hpe
      have hcur : (join p rel).head? = some '/' := join_head p rel hph
      have : join (join ['/'] rel) (join p rel) = join p rel := by
        generalize join p rel = y at hcur
        generalize join ['/'] rel = x
        unfold join
        simp [hcur]
      rw [this, join_assoc_gen p rel item hpe hr hi, join_lead p _ hpe hjh]

/-- mount prefixes a listing can link to: none / empty, or an absolute path made of characters
    that `quote` leaves alone (a request line cannot carry the others undecoded anyway) -/
def LinkablePrefix (pfx : Option Str) : Prop :=
  ∀ p, pfx = some p → p ≠ [] → (p.head? = some '/' ∧ ∀ c ∈ p, safeChar c = true)

theorem join_rel_ends (rel item : Str) (hr : rel.head? ≠ some '/') (hc : cleanSeg item = true) :
    (join rel item).head? ≠ some '/' ∧ (join rel item).getLast? ≠ some '/' := by
  obtain ⟨hi, hine⟩ := clean_head item hc
  have hns : '/' ∉ item := ((cleanSeg_iff item).1 hc).2.2.2
  have hil : item.getLast? ≠ some '/' := by
    intro e
    rw [List.getLast?_eq_some_iff] at e
    obtain ⟨ys, e⟩ := e
    exact hns (by rw [e]; simp)
  constructor
  · unfold join
    simp only [hi, if_false]
    cases rel with
    | nil => simpa using hi
    | cons b r => split <;> simpa using hr
  · have : ∃ a', join rel item = a' ++ item := by
      unfold join
      simp only [hi, if_false]
      split
      · exact ⟨rel, rfl⟩
      · exact ⟨rel ++ ['/'], by simp⟩
    obtain ⟨a', e⟩ := this
    rw [e, List.getLast?_append]
    cases hg : item.getLast? with
    | none => simp at hg; exact absurd hg hine
    | some x => simp; intro e2; subst e2; exact hil hg

/-- The href the code writes for an entry (`quote(url)`, plus `/` for a directory), put through the
    dispatcher's own prefix test, `strip('/')` and percent-decoding, is the child path
    `join rel item` - provided the decoder undoes `quote` on that path. -/
theorem entry_href_decodes (unq : Str → Str) (cfg : Cfg) (rel item sfx : Str) (hp : LinkablePrefix cfg.pfx)
    (hr : rel.head? ≠ some '/') (hc : cleanSeg item = true) (hs : sfx = [] ∨ sfx = ['/'])
    (hrt : unq (quote (join rel item)) = join rel item) :
    relOf unq cfg (quote (entryUrl cfg rel item) ++ sfx) = some (join rel item) := by
  obtain ⟨hi, hine⟩ := clean_head item hc
  obtain ⟨hh, hl⟩ := join_rel_ends rel item hr hc
  obtain ⟨h1, h2⟩ := quote_ends (join rel item) (join_rel_ne rel item hine) hh hl
  rw [entryUrl_eq cfg rel item (fun p a b => (hp p a b).1) hr hi, quote_append]
  have hroot : unq (stripSlash (['/'] ++ quote (join rel item) ++ sfx)) = join rel item := by
    rw [stripSlash_pad ['/'] _ sfx (Or.inr rfl) hs h1 h2, hrt]
  have hq1 : quote ['/'] = ['/'] := quote_safe _ (by decide)
  unfold relOf hrefLead
  cases hpf : cfg.pfx with
  | none => simp only [hq1]; rw [hroot]
  | some p =>
    by_cases hpe : p = []
    · subst hpe
      simp only [if_true, hq1, startsWith, List.isPrefixOf, List.length_nil, List.drop_zero]
      rw [hroot]
    · obtain ⟨_, hsafe⟩ := hp p hpf hpe
      simp only [hpe, if_false]
      have hlead : ∃ t, (t = [] ∨ t = ['/']) ∧
          quote (if p.getLast? = some '/' then p else p ++ ['/']) = p ++ t := by
        split
        · exact ⟨[], Or.inl rfl, by rw [quote_safe p hsafe]; simp⟩
        · exact ⟨['/'], Or.inr rfl, by rw [quote_append, quote_safe p hsafe, hq1]⟩
      obtain ⟨t, ht, e⟩ := hlead
      rw [e]
      have hsw : startsWith (p ++ t ++ quote (join rel item) ++ sfx) p = true := by
        unfold startsWith
        rw [List.isPrefixOf_iff_prefix]
        exact ⟨t ++ quote (join rel item) ++ sfx, by simp⟩
      have hdrop : (p ++ t ++ quote (join rel item) ++ sfx).drop p.length = t ++ quote (join rel item) ++ sfx := by
        have : p ++ t ++ quote (join rel item) ++ sfx = p ++ (t ++ quote (join rel item) ++ sfx) := by simp
        rw [this, List.drop_left' rfl]
      simp only [hsw, if_true, hdrop]
      rw [stripSlash_pad t _ sfx ht hs h1 h2, hrt]

/-! ### `unquote (quote s) = s` for ASCII strings (the Lean models of the two stdlib functions) -/

theorem hexv_hexDigit : ∀ k, k < 16 → hexv (hexDigit k) = some k := by decide

theorem safe_ne_pct (c : Char) (h : safeChar c = true) : c ≠ '%' := by
  intro e; subst e; exact absurd h (by decide)

theorem utf8_ascii (c : Char) (h : c.toNat < 128) : utf8 c = [c.toNat] := by
  unfold utf8; simp [h]

theorem items_quoteChar (c : Char) (r : Str) (h : c.toNat < 128) :
    items (quoteChar c ++ r) = .byte c.toNat :: items r := by
  unfold quoteChar
  by_cases hs : safeChar c = true
  · have hne := safe_ne_pct c hs
    simp only [hs, if_true, List.singleton_append]
    rw [items.eq_def]
    split
    · rename_i heq; simp at heq
    · rename_i heq; simp at heq; exact absurd heq.1 hne
    · rename_i c' r' _ heq
      simp at heq
      obtain ⟨rfl, rfl⟩ := heq
      simp [h]
  · have hs' : safeChar c = false := by simpa using hs
    simp only [hs', Bool.false_eq_true, if_false, utf8_ascii c h, List.flatMap_cons, List.flatMap_nil,
      List.append_nil, pct, List.cons_append, List.nil_append]
    have h1 : hexv (hexDigit (c.toNat / 16)) = some (c.toNat / 16) := hexv_hexDigit _ (by omega)
    have h2 : hexv (hexDigit (c.toNat % 16)) = some (c.toNat % 16) := hexv_hexDigit _ (by omega)
    rw [items]
    simp only [h1, h2]
    congr 2
    omega

theorem items_quote_ascii (s : Str) (h : ∀ c ∈ s, c.toNat < 128) :
    items (quote s) = s.map (fun c => Item.byte c.toNat) := by
  induction s with
  | nil => simp [quote, items]
  | cons c r ih =>
    have : quote (c :: r) = quoteChar c ++ quote r := by simp [quote]
    rw [this, items_quoteChar c _ (h c (by simp)), ih (fun x hx => h x (by simp [hx]))]
    rfl

theorem decodeF_ascii (s : Str) (h : ∀ c ∈ s, c.toNat < 128) (f : Nat) (hf : s.length ≤ f) :
    decodeF f (s.map (fun c => Item.byte c.toNat)) = s := by
  induction s generalizing f with
  | nil => cases f <;> simp [decodeF]
  | cons c r ih =>
    cases f with
    | zero => simp at hf
    | succ f =>
      have hc : c.toNat < 128 := h c (by simp)
      simp only [List.map_cons, decodeF, hc, if_true]
      rw [ih (fun x hx => h x (by simp [hx])) f (by simpa using hf)]
      simp

theorem quote_no_pct (s : Str) (h : '%' ∉ quote s) : quote s = s := by
  apply quote_safe
  intro c hc
  cases hs' : safeChar c with
  | true => rfl
  | false =>
  exfalso
  apply h
  obtain ⟨b, bs, e⟩ := (utf8_shape c).1
  have : '%' ∈ quoteChar c := by
    unfold quoteChar
    simp [hs', e, pct]
  unfold quote
  rw [List.mem_flatMap]
  exact ⟨c, hc, this⟩

/-- the decoder model undoes the encoder model on ASCII strings (any characters: `%`, `#`, `?`,
    quotes, spaces, controls) -/
theorem unquote_quote_ascii (s : Str) (h : ∀ c ∈ s, c.toNat < 128) : unquote (quote s) = s := by
  unfold unquote
  split
  · simp only
    rw [items_quote_ascii s h, decodeF_ascii s h _ (by simp)]
  · rename_i hc
    exact quote_no_pct s (by simpa using hc)

theorem join_mem (a b : Str) (c : Char) (h : c ∈ join a b) : c ∈ a ∨ c ∈ b ∨ c = '/' := by
  unfold join at h
  split at h
  · exact Or.inr (Or.inl h)
  · split at h
    · rw [List.mem_append] at h
      rcases h with h | h
      · exact Or.inl h
      · exact Or.inr (Or.inl h)
    · rw [List.mem_append, List.mem_cons] at h
      rcases h with h | h | h
      · exact Or.inl h
      · exact Or.inr (Or.inr h)
      · exact Or.inr (Or.inl h)

end CV.StaticListing

import CV.Proofs.InvDispLoc
import CV.Proofs.InvRunCode
/-
C08, machine level: from the conservation invariant (`DInv`, InvDisp.lean) and the location
invariant (`DLoc`, InvDispLoc.lean) to "the `started` / `stopped` event of a `run()` has exactly one
`D` entry when `run()` returns".  Prefix `r8`.
-/
namespace CV.Core

theorem r8_sum_zero (l : List Nat) : l.sum = 0 ↔ ∀ a ∈ l, a = 0 := by
  induction l with
  | nil => simp
  | cons a l ih => simp only [List.sum_cons, Nat.add_eq_zero_iff, ih, List.mem_cons, forall_eq_or_imp]

theorem r8_queued_zero (K : Nat → Bool) (s : St) : queuedCnt K s = 0 ↔ ∀ y, (s.comp y).eq.cntK K = 0 := by
  unfold queuedCnt
  rw [r8_sum_zero]
  constructor
  · intro h y
    by_cases hy : y < s.comps.length
    · apply h
      refine List.mem_map.mpr ⟨s.comps[y], List.getElem_mem hy, ?_⟩
      unfold St.comp
      rw [List.getD_eq_getElem?_getD, List.getElem?_eq_getElem hy]; rfl
    · rw [St.q2_comp_oor s y hy]; rfl
  · intro h a ha
    obtain ⟨c, hc, rfl⟩ := List.mem_map.mp ha
    obtain ⟨i, hi, rfl⟩ := List.getElem_of_mem hc
    have := h i
    unfold St.comp at this
    rw [List.getD_eq_getElem?_getD, List.getElem?_eq_getElem hi] at this
    exact this

theorem r8_comp_quiet (s : St) (c : Nat) (f : Comp → Comp) (hf : ∀ y : Comp, (f y).eq = y.eq ∧ (f y).root = y.root)
    (y : Nat) : ((s.modComp c f).comp y).eq = (s.comp y).eq ∧ ((s.modComp c f).comp y).root = (s.comp y).root := by
  rw [St.q2_comp_modComp]
  split
  · exact hf _
  · exact ⟨rfl, rfl⟩

theorem r8_fresh_fire' (s s' : St) (x : Nat) (ev : Ev) (target : Option Chan) (prio : Int)
    (h1 : s'.evs = s.evs) (h2 : s'.log = s.log) (h3 : s'.timers = s.timers)
    (h4 : ∀ y, ((s'.comp y).eq = (s.comp y).eq ∧ (s'.comp y).root = (s.comp y).root))
    (hroot : (s.comp x).root = x)
    (hq : ∀ y, (s.comp y).eq.cntK (· == s.evs.length) = 0)
    (hf : firedCnt (· == s.evs.length) s.log = 0)
    (ht : ∀ tm ∈ s.timers, ∀ e, tm.ev = some e → e < s.evs.length) :
    DLoc (· == s.evs.length) x (s.evs.length + 1) 1 (s'.fireTmplEv x ev target prio) := by
  have := l8_fresh_fire s' x ev target prio (by rw [(h4 x).2]; exact hroot)
    (by intro y; rw [(h4 y).1, h1]; exact hq y) (by rw [h1, h2]; exact hf) (by rw [h1, h3]; exact ht)
  rw [h1] at this
  exact this

/-- `run()` up to the `try:` on a root `x`, for the class `K = {id of the new started event}` -/
theorem r8_runBegin (s : St) (x : Nat) (hroot : (s.comp x).root = x)
    (hq : ∀ y, (s.comp y).eq.cntK (· == s.evs.length) = 0)
    (hf : firedCnt (· == s.evs.length) s.log = 0)
    (ht : ∀ tm ∈ s.timers, ∀ e, tm.ev = some e → e < s.evs.length) :
    DLoc (· == s.evs.length) x (s.evs.length + 1) 1 (s.runBegin x) := by
  unfold St.runBegin
  dsimp only
  refine r8_fresh_fire' s _ x _ _ _ ?_ ?_ ?_ ?_ hroot hq hf ht
  · rfl
  · rfl
  · rfl
  intro y
  have a1 := r8_comp_quiet s x (fun x => { x with running := true }) (fun _ => ⟨rfl, rfl⟩) y
  have a2 := r8_comp_quiet (s.modComp x fun x => { x with running := true })
    ((s.modComp x fun x => { x with running := true }).rootOf x) (fun x => { x with executing := true })
    (fun _ => ⟨rfl, rfl⟩) y
  exact ⟨a2.1.trans a1.1, a2.2.trans a1.2⟩

/-- `stop()` on a running root `x`, for the class `K = {id of the new stopped event}` -/
theorem r8_stopBegin (s : St) (x : Nat) (hroot : (s.comp x).root = x)
    (hq : ∀ y, (s.comp y).eq.cntK (· == s.evs.length) = 0)
    (hf : firedCnt (· == s.evs.length) s.log = 0)
    (ht : ∀ tm ∈ s.timers, ∀ e, tm.ev = some e → e < s.evs.length) :
    DLoc (· == s.evs.length) x (s.evs.length + 1) 1 (s.stopBegin x) := by
  unfold St.stopBegin
  refine r8_fresh_fire' s _ x _ _ _ ?_ ?_ ?_ ?_ hroot hq hf ht
  · rfl
  · rfl
  · rfl
  intro y
  exact r8_comp_quiet s x (fun x => { x with running := false }) (fun _ => ⟨rfl, rfl⟩) y

/-- a fresh id has no `F` in the log of a well-formed state -/
theorem r8_fresh_unfired {s : St} (hwf : WF s) : firedCnt (· == s.evs.length) s.log = 0 := by
  unfold firedCnt
  rw [List.countP_eq_zero]
  intro en hen
  cases en <;> simp only [d8isFire, Bool.false_eq_true, not_false_eq_true]
  rename_i e n ch p
  have := (hwf.log e n ch p hen).1
  simp only [beq_iff_eq]
  omega

/-- hence (conservation) no queue holds a copy of it -/
theorem r8_fresh_unqueued {s : St} (hwf : WF s) {B : Nat} (hb : DBal (· == s.evs.length) B s) :
    ∀ y, (s.comp y).eq.cntK (· == s.evs.length) = 0 := by
  have h1 := hb.bal
  rw [r8_fresh_unfired hwf] at h1
  exact (r8_queued_zero _ s).mp (by omega)

theorem r8_len_cnt (K : Nat → Bool) (q : EQ) (h : q.len = 0) : q.cntK K = 0 := by
  unfold EQ.len at h
  have h1 : q.queue = [] := List.eq_nil_of_length_eq_zero (by omega)
  have h2 : q.heap = [] := List.eq_nil_of_length_eq_zero (by omega)
  simp [EQ.cntK, EQ.dequeCnt, EQ.heapCnt, h1, h2]

/-- the location invariant along a run in which `x.register(…)` is never executed -/
theorem r8_loc_run {K : Nat → Bool} {x nb fc : Nat} {c1 : Cfg} (h1 : DLoc K x nb fc c1.st)
    (hnoreg : ∀ i p k, (runN i c1).stack ≠ .register x p :: k) : ∀ j, DLoc K x nb fc (runN j c1).st := by
  intro j
  induction j with
  | zero => exact h1
  | succ j ih =>
    rw [runN_succ']
    exact l8_step ih (fun p k hs => absurd hs (hnoreg j p k))

/-- **a located event is dispatched by the time `run()` returns.**  `c1` a reachable configuration in
    which every queued copy of the class-`K` events sits in `x`'s own queue (`DLoc`), `x.register` is
    not executed afterwards, and `j` steps later `x.run()` is about to return normally: the log then
    has as many `D` as `F` entries of class `K` - and the `F` count has not changed since `c1` -/
theorem r8_tracked {s0 : St} (hwf : WF s0) (hd : ∀ K, DBal K 0 s0) {c1 : Cfg} (hr : Reach s0 c1)
    {K : Nat → Bool} {x nb fc : Nat} (h1 : DLoc K x nb fc c1.st)
    (hnoreg : ∀ i p k, (runN i c1).stack ≠ .register x p :: k)
    (j : Nat) {k : List Frame} (hfin : (runN j c1).stack = .runFin x :: k) (hxn : (runN j c1).exn = none) :
    firedCnt K (runN j c1).st.log = fc ∧ dispCnt K (runN j c1).st.log = fc := by
  have hl := r8_loc_run h1 hnoreg j
  have hrj : Reach s0 (runN j c1) := Reach.runN hr j
  have hinv := d8_reach (hd K) _ hrj
  obtain ⟨_, y, ph, P, hsh⟩ := reach_inv hwf _ hrj
  obtain ⟨e1, _, e3, e4⟩ := hsh.at_runFin hfin
  subst e1 e3 e4
  have hq : ((runN j c1).st.comp x).eq.len = 0 := ((hsh.good.2 hxn).2)
  have hz : queuedCnt K (runN j c1).st = 0 := by
    rw [r8_queued_zero]
    intro y
    by_cases hy : y = x
    · subst hy; exact r8_len_cnt K _ hq
    · exact hl.other y hy
  have hb := hinv.bal.bal
  rw [hfin, hz] at hb
  have hp : d8pend K (Frame.runFin x :: k) = 0 := rfl
  rw [hp] at hb
  have := hl.fired
  omega

/-- the `started` event of `x.run()` -/
theorem r8_started {s0 : St} (hwf : WF s0) (hd : ∀ K, DBal K 0 s0) {c0 : Cfg} (hr : Reach s0 c0) {x : Nat}
    (hs : c0.stack = [.run x]) (hx : c0.exn = none) (hroot : c0.st.rootOf x = x)
    (hnoreg : ∀ i p k, (runN i c0).stack ≠ .register x p :: k)
    (n : Nat) {k : List Frame} (hfin : (runN n c0).stack = .runFin x :: k) (hxn : (runN n c0).exn = none) :
    firedCnt (· == c0.st.evs.length) (runN n c0).st.log = 1 ∧
    dispCnt (· == c0.st.evs.length) (runN n c0).st.log = 1 := by
  cases n with
  | zero =>
    have h0 : runN 0 c0 = c0 := rfl
    rw [h0, hs] at hfin; cases hfin
  | succ n =>
    have hwf0 := (reach_inv hwf c0 hr).1
    have hb0 := (d8_reach (hd (· == c0.st.evs.length)) c0 hr).bal
    have h1 : DLoc (· == c0.st.evs.length) x (c0.st.evs.length + 1) 1 (step c0).st := by
      rw [step_cons c0 _ _ hs hx]
      exact r8_runBegin c0.st x hroot (r8_fresh_unqueued hwf0 hb0) (r8_fresh_unfired hwf0)
        (fun tm htm e he => (hwf0.timers tm htm e he).1)
    rw [runN_succ] at hfin hxn ⊢
    exact r8_tracked hwf hd (Reach.step hr) h1
      (fun i p k => by rw [← runN_succ]; exact hnoreg (i + 1) p k) n hfin hxn

/-- the `stopped` event of the `x.stop()` executed at step `m` of `x.run()` -/
theorem r8_stopped {s0 : St} (hwf : WF s0) (hd : ∀ K, DBal K 0 s0) {c0 : Cfg} (hr : Reach s0 c0) {x : Nat}
    (hnoreg : ∀ i p k, (runN i c0).stack ≠ .register x p :: k)
    (m : Nat) {code : Code} {k' : List Frame} (hst : (runN m c0).stack = .stopMgr x code :: k')
    (hxm : (runN m c0).exn = none) (hrun : ((runN m c0).st.comp x).running = true)
    (hroot : (runN m c0).st.rootOf x = x)
    (n : Nat) (hmn : m < n) {k : List Frame} (hfin : (runN n c0).stack = .runFin x :: k)
    (hxn : (runN n c0).exn = none) :
    firedCnt (· == (runN m c0).st.evs.length) (runN n c0).st.log = 1 ∧
    dispCnt (· == (runN m c0).st.evs.length) (runN n c0).st.log = 1 := by
  have hrm : Reach s0 (runN m c0) := Reach.runN hr m
  have hwfm := (reach_inv hwf _ hrm).1
  have hbm := (d8_reach (hd (· == (runN m c0).st.evs.length)) _ hrm).bal
  have hsb := r8_stopBegin (runN m c0).st x hroot (r8_fresh_unqueued hwfm hbm) (r8_fresh_unfired hwfm)
    (fun tm htm e he => (hwfm.timers tm htm e he).1)
  have h1 : DLoc (· == (runN m c0).st.evs.length) x ((runN m c0).st.evs.length + 1) 1 (step (runN m c0)).st := by
    rw [step_cons _ _ _ hst hxm]
    show DLoc _ _ _ _ (Cfg.stopMgr _ _ _ _).st
    unfold Cfg.stopMgr
    simp only [hrun, Bool.not_true, Bool.false_eq_true, if_false]
    split
    · exact hsb
    · exact hsb.stopSetCode _ _
  obtain ⟨j, rfl⟩ : ∃ j, n = (m + 1) + j := ⟨n - (m + 1), by omega⟩
  have hadd : ∀ i, runN ((m + 1) + i) c0 = runN i (step (runN m c0)) := by
    intro i
    induction i with
    | zero => exact runN_succ' m c0
    | succ i ih => rw [← Nat.add_assoc, runN_succ', ih, ← runN_succ']
  rw [hadd] at hfin hxn ⊢
  exact r8_tracked hwf hd (Reach.step hrm) h1
    (fun i p k => by rw [← hadd]; exact hnoreg _ p k) j hfin hxn

end CV.Core

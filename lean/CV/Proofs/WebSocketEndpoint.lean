import CV.Model.WebSocketEndpoint
import CV.Proofs.WebSocket
/-
Helper lemmas for the endpoint part of C17 (core Lean only): the head search is stable under
extension of the buffer, so the reads split at exactly the end of the head, whatever the cuts;
the per-socket table keeps connections apart.
-/
namespace CV
namespace WSE
open CV.WS

/-! ### `splitAfter` -/

theorem splitAfter_sound {pat d a b : Bytes} (h : splitAfter pat d = some (a, b)) : d = a ++ b := by
  induction d generalizing a b with
  | nil => simp [splitAfter] at h
  | cons x xs ih =>
    unfold splitAfter at h
    split at h
    · rename_i hp
      have h' := Option.some.inj h
      have ha : pat = a := congrArg Prod.fst h'
      have hb : (x :: xs).drop pat.length = b := congrArg Prod.snd h'
      have hpre : pat <+: (x :: xs) := List.isPrefixOf_iff_prefix.mp hp
      obtain ⟨t, ht⟩ := hpre
      rw [← ha, ← hb, ← ht]
      simp
    · split at h
      · rename_i a' b' hr
        have h' := Option.some.inj h
        have ha : x :: a' = a := congrArg Prod.fst h'
        have hb : b' = b := congrArg Prod.snd h'
        rw [← ha, ← hb, ih hr]
        rfl
      · exact absurd h (by simp)

theorem splitAfter_len {pat d a b : Bytes} (h : splitAfter pat d = some (a, b)) : pat.length ≤ d.length := by
  induction d generalizing a b with
  | nil => simp [splitAfter] at h
  | cons x xs ih =>
    unfold splitAfter at h
    split at h
    · rename_i hp
      exact (List.isPrefixOf_iff_prefix.mp hp).length_le
    · split at h
      · rename_i a' b' hr
        have := ih hr
        simp only [List.length_cons]
        omega
      · exact absurd h (by simp)

theorem isPrefixOf_append_of_le {pat d : Bytes} (e : Bytes) (h : pat.length ≤ d.length) :
    pat.isPrefixOf (d ++ e) = pat.isPrefixOf d := by
  rw [Bool.eq_iff_iff, List.isPrefixOf_iff_prefix, List.isPrefixOf_iff_prefix,
    List.prefix_iff_eq_take, List.prefix_iff_eq_take, List.take_append_of_le_length h]

/-- the first occurrence in a buffer is the first occurrence in every extension of it -/
theorem splitAfter_append {pat d a b : Bytes} (e : Bytes) (h : splitAfter pat d = some (a, b)) :
    splitAfter pat (d ++ e) = some (a, b ++ e) := by
  induction d generalizing a b with
  | nil => simp [splitAfter] at h
  | cons x xs ih =>
    have hlen := splitAfter_len h
    unfold splitAfter at h
    rw [List.cons_append]
    unfold splitAfter
    rw [← List.cons_append, isPrefixOf_append_of_le e hlen]
    split at h
    · rename_i hp
      rw [if_pos hp]
      have h' := Option.some.inj h
      have ha : pat = a := congrArg Prod.fst h'
      have hb : (x :: xs).drop pat.length = b := congrArg Prod.snd h'
      rw [List.drop_append_of_le_length hlen, hb, ← ha]
    · rename_i hp
      rw [if_neg hp]
      split at h
      · rename_i a' b' hr
        have h' := Option.some.inj h
        have ha : x :: a' = a := congrArg Prod.fst h'
        have hb : b' = b := congrArg Prod.snd h'
        rw [ih hr, ← ha, ← hb]
      · exact absurd h (by simp)

/-! ### `splitHead` -/

theorem splitHead_sound {d a b : Bytes} (h : splitHead d = some (a, b)) : d = a ++ b := by
  unfold splitHead at h
  split at h
  · exact absurd h (by simp)
  · rename_i line r h1
    split at h
    · exact absurd h (by simp)
    · rename_i hh rest h2
      have h' := Option.some.inj h
      have ha : line ++ hh = a := congrArg Prod.fst h'
      have hb : rest = b := congrArg Prod.snd h'
      rw [splitAfter_sound h1, splitAfter_sound h2, ← ha, ← hb, List.append_assoc]

theorem splitHead_append {d a b : Bytes} (e : Bytes) (h : splitHead d = some (a, b)) :
    splitHead (d ++ e) = some (a, b ++ e) := by
  unfold splitHead at h
  split at h
  · exact absurd h (by simp)
  · rename_i line r h1
    split at h
    · exact absurd h (by simp)
    · rename_i hh rest h2
      have h' := Option.some.inj h
      have ha : line ++ hh = a := congrArg Prod.fst h'
      have hb : rest = b := congrArg Prod.snd h'
      unfold splitHead
      rw [splitAfter_append e h1]
      simp only
      rw [splitAfter_append e h2]
      simp only
      rw [ha, hb]

/-! ### `hsFeed` -/

/-- whatever the cuts: the reads split at exactly the end of the head -/
theorem hsFeed_exact {hs : Bytes} (hhs : splitHead hs = some (hs, [])) (rest : Bytes) :
    ∀ (segs : List Bytes) (buf : Bytes), splitHead buf = none → buf ++ segs.flatten = hs ++ rest →
      ∃ left later, hsFeed buf segs = some (hs, left, later) ∧ left ++ later.flatten = rest := by
  have hfull : splitHead (hs ++ rest) = some (hs, rest) := by
    have := splitHead_append rest hhs
    simpa using this
  intro segs
  induction segs with
  | nil =>
    intro buf hb heq
    simp only [List.flatten_nil, List.append_nil] at heq
    rw [heq, hfull] at hb
    exact absurd hb (by simp)
  | cons r rs ih =>
    intro buf hb heq
    unfold hsFeed
    cases hsp : splitHead (buf ++ r) with
    | none =>
      simp only
      apply ih (buf ++ r) hsp
      rw [List.append_assoc]
      simpa using heq
    | some p =>
      obtain ⟨h, left⟩ := p
      simp only
      have hext := splitHead_append rs.flatten hsp
      have heq' : buf ++ r ++ rs.flatten = hs ++ rest := by
        rw [List.append_assoc]; simpa using heq
      rw [heq', hfull] at hext
      have h' := Option.some.inj hext
      have h1 : hs = h := congrArg Prod.fst h'
      have h2 : rest = left ++ rs.flatten := congrArg Prod.snd h'
      exact ⟨left, rs, by rw [h1], h2.symm⟩

theorem splitHead_nil : splitHead [] = none := rfl

theorem hsFeed_append {buf : Bytes} {a : List Bytes} {h left : Bytes} {later : List Bytes} (b : List Bytes)
    (hf : hsFeed buf a = some (h, left, later)) : hsFeed buf (a ++ b) = some (h, left, later ++ b) := by
  induction a generalizing buf with
  | nil => simp [hsFeed] at hf
  | cons r rs ih =>
    rw [List.cons_append]
    unfold hsFeed at hf ⊢
    cases hsp : splitHead (buf ++ r) with
    | none =>
      rw [hsp] at hf
      simp only at hf ⊢
      exact ih hf
    | some p =>
      obtain ⟨h0, l0⟩ := p
      rw [hsp] at hf
      simp only at hf ⊢
      have h' := Option.some.inj hf
      have e1 : h0 = h := congrArg Prod.fst h'
      have e2 : l0 = left := congrArg (fun p => p.2.1) h'
      have e3 : rs = later := congrArg (fun p => p.2.2) h'
      rw [e1, e2, e3]

/-! ### the table -/

theorem step_other (t : Table) (e : Ev) (s : Nat) (h : e.sock ≠ s) :
    (step t e).1 s = t s ∧ (step t e).2.filter (fun p => p.1 == s) = [] := by
  cases e with
  | upgrade k =>
    simp only [Ev.sock] at h
    simp [step, Table.set, Ne.symm h]
  | read k d =>
    simp only [Ev.sock] at h
    cases hk : t k with
    | none => simp [step, hk]
    | some st =>
      simp only [step, hk]
      refine ⟨by simp [Table.set, Ne.symm h], ?_⟩
      rw [List.filter_eq_nil_iff]
      intro p hp
      simp only [List.mem_map] at hp
      obtain ⟨o, _, ho⟩ := hp
      rw [← ho]
      simpa using h
  | disconnect k =>
    simp only [Ev.sock] at h
    simp [step, Table.set, Ne.symm h]

theorem step_same (t t' : Table) (e : Ev) (h : t e.sock = t' e.sock) :
    (step t e).1 e.sock = (step t' e).1 e.sock ∧ (step t e).2 = (step t' e).2 := by
  cases e with
  | upgrade k => simp [step, Table.set, Ev.sock]
  | read k d =>
    simp only [Ev.sock] at h
    cases hk : t k with
    | none =>
      have hk' : t' k = none := by rw [← h]; exact hk
      simp [step, hk, hk', Ev.sock]
    | some st =>
      have hk' : t' k = some st := by rw [← h]; exact hk
      simp [step, hk, hk', Ev.sock, Table.set]
  | disconnect k => simp [step, Table.set, Ev.sock]

theorem step_tagged (t : Table) (e : Ev) : ∀ p ∈ (step t e).2, p.1 = e.sock := by
  cases e with
  | upgrade k => simp [step]
  | read k d =>
    cases hk : t k with
    | none => simp [step, hk]
    | some st =>
      simp only [step, hk]
      intro p hp
      simp only [List.mem_map] at hp
      obtain ⟨o, _, ho⟩ := hp
      rw [← ho]; rfl
  | disconnect k => simp [step]

/-- what socket `s` sees and the state of its codec depend on the events of `s` only -/
theorem run_independent (s : Nat) : ∀ (evs : List Ev) (t t' : Table), t s = t' s →
    (run t evs).1 s = (run t' (evs.filter (fun e => e.sock == s))).1 s ∧
    (run t evs).2.filter (fun p => p.1 == s) = (run t' (evs.filter (fun e => e.sock == s))).2 := by
  intro evs
  induction evs with
  | nil => intro t t' h; simp [run, h]
  | cons e es ih =>
    intro t t' h
    by_cases hs : e.sock = s
    · have hf : (e :: es).filter (fun e => e.sock == s) = e :: es.filter (fun e => e.sock == s) := by
        simp [hs]
      rw [hf]
      simp only [run]
      have hst := step_same t t' e (by rw [hs]; exact h)
      rw [hs] at hst
      have := ih (step t e).1 (step t' e).1 hst.1
      refine ⟨this.1, ?_⟩
      rw [List.filter_append, this.2, ← hst.2]
      congr 1
      rw [List.filter_eq_self]
      intro p hp
      simp [step_tagged t e p hp, hs]
    · have hf : (e :: es).filter (fun e => e.sock == s) = es.filter (fun e => e.sock == s) := by
        simp [hs]
      rw [hf]
      simp only [run]
      have hso := step_other t e s hs
      have := ih (step t e).1 t' (by rw [hso.1]; exact h)
      refine ⟨this.1, ?_⟩
      rw [List.filter_append, hso.2, this.2]
      simp

end WSE
end CV

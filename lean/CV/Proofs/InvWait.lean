import CV.Proofs.InvWaitHelp
/-
C06, global layer, part 8: the configuration invariant `W6CInv` (state invariant + facts about the
frames on the stack + the return register) and its preservation by every arm of `step`.
-/
namespace CV.Core

def Frame.w6_isPt : Frame → Bool
  | .ptOwn .. => true
  | .ptParent .. => true
  | _ => false

def Frame.w6_isStepGen : Frame → Bool
  | .stepGen _ => true
  | _ => false

def w6_headPt : List Frame → Bool
  | f :: _ => f.w6_isPt
  | [] => false

/-- a `ptOwn` / `ptParent` frame (which reads the `GenYield` in the return register) is only ever covered by the
    `stepGen` frame that will write it -/
def w6_sandwich : List Frame → Bool
  | [] => true
  | f :: k => (!w6_headPt k || f.w6_isStepGen) && w6_sandwich k

@[simp] theorem w6_headPt_cons (f : Frame) (k : List Frame) : w6_headPt (f :: k) = f.w6_isPt := rfl
@[simp] theorem w6_headPt_nil : w6_headPt [] = false := rfl
@[simp] theorem w6_sandwich_cons (f : Frame) (k : List Frame) :
    w6_sandwich (f :: k) = ((!w6_headPt k || f.w6_isStepGen) && w6_sandwich k) := rfl
@[simp] theorem w6_sandwich_nil : w6_sandwich [] = true := rfl

def W6OutOk (s : St) (o : Outcome) : Prop := ∀ g, o = .gen g → s.w6_view.NonWait g

def W6FrameOk (n0 : Nat) (s : St) : Frame → Prop
  | .acts _ rest => ∀ a ∈ rest, Act.w6_hOk n0 a
  | .stepGen g => s.w6_view.NonWait g
  | .processTask _ t => s.w6_view.TaskOk t
  | .ptBody _ t => s.w6_view.TaskOk t
  | .ptOwn _ t => s.w6_view.TaskOk t ∧ s.w6_view.NonWait t.g
  | .ptParent _ t p _ => s.w6_view.TaskOk t ∧ s.w6_view.NonWait p
  | .taskLoop _ ts => ∀ t ∈ ts, s.w6_view.TaskOk t
  | .hLoop _ _ _ _ stale => W6OutOk s stale
  | .hAfter _ _ _ _ stale => W6OutOk s stale
  | .hApply _ _ _ _ value => W6OutOk s value
  | _ => True

def W6AllOk (n0 : Nat) (s : St) : List Frame → Prop
  | [] => True
  | f :: k => W6FrameOk n0 s f ∧ W6AllOk n0 s k

@[simp] theorem w6_AllOk_nil (n0 : Nat) (s : St) : W6AllOk n0 s [] = True := rfl
@[simp] theorem w6_AllOk_cons (n0 : Nat) (s : St) (f : Frame) (k : List Frame) :
    W6AllOk n0 s (f :: k) = (W6FrameOk n0 s f ∧ W6AllOk n0 s k) := rfl

theorem W6OutOk.ofS {s s' : St} (hS : St.W6S s s') {o : Outcome} (h : W6OutOk s o) : W6OutOk s' o :=
  fun g hg => W6View.NonWait.ofS hS (h g hg)

theorem W6FrameOk.ofS {n0 : Nat} {s s' : St} (hS : St.W6S s s') {f : Frame} (h : W6FrameOk n0 s f) : W6FrameOk n0 s' f := by
  cases f <;> simp only [W6FrameOk] at h ⊢ <;> try exact h
  case stepGen g => exact W6View.NonWait.ofS hS h
  case processTask r t => exact W6View.TaskOk.ofS hS h
  case ptBody r t => exact W6View.TaskOk.ofS hS h
  case ptOwn r t => exact ⟨W6View.TaskOk.ofS hS h.1, W6View.NonWait.ofS hS h.2⟩
  case ptParent r t p v => exact ⟨W6View.TaskOk.ofS hS h.1, W6View.NonWait.ofS hS h.2⟩
  case taskLoop x ts => exact fun t ht => W6View.TaskOk.ofS hS (h t ht)
  case hLoop r e hs err stale => exact W6OutOk.ofS hS h
  case hAfter r e rest err stale => exact W6OutOk.ofS hS h
  case hApply r e rest err value => exact W6OutOk.ofS hS h

theorem W6AllOk.ofS {n0 : Nat} {s s' : St} (hS : St.W6S s s') : ∀ {k : List Frame}, W6AllOk n0 s k → W6AllOk n0 s' k
  | [], _ => trivial
  | _ :: _, h => ⟨W6FrameOk.ofS hS h.1, W6AllOk.ofS hS h.2⟩

theorem W6AllOk.append {n0 : Nat} {s : St} : ∀ {fs k : List Frame}, W6AllOk n0 s fs → W6AllOk n0 s k → W6AllOk n0 s (fs ++ k)
  | [], _, _, h => h
  | _ :: _, _, h1, h2 => ⟨h1.1, W6AllOk.append h1.2 h2⟩

/-- the invariant of a configuration -/
structure W6CInv (n0 : Nat) (c : Cfg) : Prop where
  w : W6WInv n0 c.st
  frames : W6AllOk n0 c.st c.stack
  ret : W6OutOk c.st c.ret.outcome
  sand : w6_sandwich c.stack = true
  top : c.exn = none → w6_headPt c.stack = true → ∀ w, c.ret.yield = .sub w →
    w < c.st.waits.length ∧ (c.st.wait w).started = false

namespace W6CInv
variable {n0 : Nat} {c : Cfg} {f : Frame} {k : List Frame}

theorem tailSand (h : W6CInv n0 c) (hs : c.stack = f :: k) : w6_sandwich k = true := by
  have := h.sand; rw [hs] at this; simp only [w6_sandwich_cons, Bool.and_eq_true] at this; exact this.2

theorem tailHead (h : W6CInv n0 c) (hs : c.stack = f :: k) (hf : f.w6_isStepGen = false) : w6_headPt k = false := by
  have := h.sand; rw [hs] at this
  simp only [w6_sandwich_cons, Bool.and_eq_true, Bool.or_eq_true, Bool.not_eq_true', hf, Bool.false_eq_true, or_false] at this
  exact this.1

theorem tailFrames (h : W6CInv n0 c) (hs : c.stack = f :: k) : W6AllOk n0 c.st k := by
  have := h.frames; rw [hs] at this; exact this.2

theorem headFrame (h : W6CInv n0 c) (hs : c.stack = f :: k) : W6FrameOk n0 c.st f := by
  have := h.frames; rw [hs] at this; exact this.1

/-- replace the top frame by `fs` (none of them exposes a `ptOwn`/`ptParent` at the top) -/
theorem goto (h : W6CInv n0 c) (hs : c.stack = f :: k) (s' : St) (fs : List Frame) (hw : W6WInv n0 s')
    (hS : St.W6S c.st s') (hfs : W6AllOk n0 s' fs) (hhead : w6_headPt (fs ++ k) = false)
    (hsand : w6_sandwich (fs ++ k) = true) : W6CInv n0 (c.goto k s' fs) :=
  ⟨hw, W6AllOk.append hfs (W6AllOk.ofS hS (h.tailFrames hs)), W6OutOk.ofS hS h.ret, hsand,
   fun _ hp => by rw [show (c.goto k s' fs).stack = fs ++ k from rfl, hhead] at hp; cases hp⟩

theorem pop (h : W6CInv n0 c) (hs : c.stack = f :: k) (hf : f.w6_isStepGen = false) (s' : St) (hw : W6WInv n0 s')
    (hS : St.W6S c.st s') : W6CInv n0 (c.pop k s') :=
  ⟨hw, W6AllOk.ofS hS (h.tailFrames hs), W6OutOk.ofS hS h.ret, h.tailSand hs,
   fun _ hp => by rw [show (c.pop k s').stack = k from rfl, h.tailHead hs hf] at hp; cases hp⟩

theorem popRet (h : W6CInv n0 c) (hs : c.stack = f :: k) (hf : f.w6_isStepGen = false) (s' : St) (v : Ret)
    (hw : W6WInv n0 s') (hS : St.W6S c.st s') (hv : W6OutOk s' v.outcome) : W6CInv n0 (c.popRet k s' v) :=
  ⟨hw, W6AllOk.ofS hS (h.tailFrames hs), hv, h.tailSand hs,
   fun _ hp => by rw [show (c.popRet k s' v).stack = k from rfl, h.tailHead hs hf] at hp; cases hp⟩

theorem raise (h : W6CInv n0 c) (hs : c.stack = f :: k) (s' : St) (ex : Exn) (hw : W6WInv n0 s')
    (hS : St.W6S c.st s') : W6CInv n0 (c.raise k s' ex) :=
  ⟨hw, W6AllOk.ofS hS (h.tailFrames hs), W6OutOk.ofS hS h.ret, h.tailSand hs, fun hx => by cases hx⟩

end W6CInv
/-! ### arms of `step` that do not change the w6_view and push only frames without obligations -/

macro "w6arm_v" h:ident hs:ident : tactic => `(tactic|
  first
  | ((with_reducible refine W6CInv.goto $h $hs _ _ ?_ ?_ ?_ ?_ ?_);
     (focus (exact W6WInv.ofV (W6CInv.w $h) (by w6st_v)));
     (focus (w6st_s; done));
     (focus (simp [W6FrameOk]; done));
     (focus (simp [Frame.w6_isPt]; done));
     (focus (simp [W6CInv.tailSand $h $hs, W6CInv.tailHead $h $hs rfl, Frame.w6_isPt, Frame.w6_isStepGen]; done)))
  | ((with_reducible refine W6CInv.pop $h $hs rfl _ ?_ ?_);
     (focus (exact W6WInv.ofV (W6CInv.w $h) (by w6st_v)));
     (focus (w6st_s; done)))
  | ((with_reducible refine W6CInv.popRet $h $hs rfl _ _ ?_ ?_ ?_);
     (focus (exact W6WInv.ofV (W6CInv.w $h) (by w6st_v)));
     (focus (w6st_s; done));
     (focus (intro _ hh; cases hh)))
  | ((with_reducible refine W6CInv.raise $h $hs _ _ ?_ ?_);
     (focus (exact W6WInv.ofV (W6CInv.w $h) (by w6st_v)));
     (focus (w6st_s; done))))

variable {n0 : Nat}

theorem Cfg.w6_effectDone_cinv (c : Cfg) (k : List Frame) (r e : Nat) (announce : Bool) (h : W6CInv n0 c)
    (hs : c.stack = .effectDone r e announce :: k) : W6CInv n0 (c.effectDone k r e announce) := by
  unfold Cfg.effectDone; (try dsimp only); repeat' split
  all_goals w6arm_v h hs

theorem Cfg.w6_eventDone_cinv (c : Cfg) (k : List Frame) (r e : Nat) (err : Bool) (h : W6CInv n0 c)
    (hs : c.stack = .eventDone r e err :: k) : W6CInv n0 (c.eventDone k r e err) := by
  unfold Cfg.eventDone; (try dsimp only); repeat' split
  all_goals w6arm_v h hs

theorem Cfg.w6_updateRoot_cinv (c : Cfg) (k : List Frame) (todo : List Nat) (root : Nat) (h : W6CInv n0 c)
    (hs : c.stack = .updateRoot todo root :: k) : W6CInv n0 (c.updateRoot k todo root) := by
  unfold Cfg.updateRoot; (try dsimp only); repeat' split
  all_goals w6arm_v h hs

theorem Cfg.w6_register_cinv (c : Cfg) (k : List Frame) (x p : Nat) (h : W6CInv n0 c)
    (hs : c.stack = .register x p :: k) : W6CInv n0 (c.register k x p) := by
  unfold Cfg.register; (try dsimp only); repeat' split
  all_goals w6arm_v h hs

theorem Cfg.w6_registerFin_cinv (c : Cfg) (k : List Frame) (x : Nat) (h : W6CInv n0 c)
    (hs : c.stack = .registerFin x :: k) : W6CInv n0 (c.registerFin k x) := by
  unfold Cfg.registerFin; (try dsimp only); repeat' split
  all_goals w6arm_v h hs

theorem Cfg.w6_prepUnregFin_cinv (c : Cfg) (k : List Frame) (x : Nat) (h : W6CInv n0 c)
    (hs : c.stack = .prepUnregFin x :: k) : W6CInv n0 (c.prepUnregFin k x) := by
  unfold Cfg.prepUnregFin; (try dsimp only); repeat' split
  all_goals w6arm_v h hs

theorem Cfg.w6_stopMgr_cinv (c : Cfg) (k : List Frame) (x : Nat) (code : Code) (h : W6CInv n0 c)
    (hs : c.stack = .stopMgr x code :: k) : W6CInv n0 (c.stopMgr k x code) := by
  unfold Cfg.stopMgr; (try dsimp only); repeat' split
  all_goals w6arm_v h hs

theorem Cfg.w6_ticks_cinv (c : Cfg) (k : List Frame) (x n : Nat) (h : W6CInv n0 c)
    (hs : c.stack = .ticks x n :: k) : W6CInv n0 (c.ticks k x n) := by
  unfold Cfg.ticks; (try dsimp only); repeat' split
  all_goals w6arm_v h hs

theorem Cfg.w6_stopFin_cinv (c : Cfg) (k : List Frame) (code : Code) (h : W6CInv n0 c)
    (hs : c.stack = .stopFin code :: k) : W6CInv n0 (c.stopFin k code) := by
  unfold Cfg.stopFin; (try dsimp only); repeat' split
  all_goals w6arm_v h hs

theorem Cfg.w6_timerNew_cinv (c : Cfg) (k : List Frame) (i : Nat) (h : W6CInv n0 c)
    (hs : c.stack = .timerNew i :: k) : W6CInv n0 (c.timerNew k i) := by
  unfold Cfg.timerNew; (try dsimp only); repeat' split
  all_goals w6arm_v h hs

theorem Cfg.w6_doFin_cinv (c : Cfg) (k : List Frame) (x : Nat) (h : W6CInv n0 c)
    (hs : c.stack = .doFin x :: k) : W6CInv n0 (c.doFin k x) := by
  unfold Cfg.doFin; (try dsimp only); repeat' split
  all_goals w6arm_v h hs

theorem Cfg.w6_drainQ_cinv (c : Cfg) (k : List Frame) (x : Nat) (h : W6CInv n0 c)
    (hs : c.stack = .drainQ x :: k) : W6CInv n0 (c.drainQ k x) := by
  unfold Cfg.drainQ; (try dsimp only); repeat' split
  all_goals w6arm_v h hs

theorem Cfg.w6_ptFin_cinv (c : Cfg) (k : List Frame) (r : Nat) (handling : Option Nat) (h : W6CInv n0 c)
    (hs : c.stack = .ptFin r handling :: k) : W6CInv n0 (c.ptFin k r handling) := by
  unfold Cfg.ptFin; (try dsimp only); repeat' split
  all_goals w6arm_v h hs

theorem Cfg.w6_invokeFin_cinv (c : Cfg) (k : List Frame) (e hh : Nat) (h : W6CInv n0 c)
    (hs : c.stack = .invokeFin e hh :: k) : W6CInv n0 (c.invokeFin k e hh) := by
  unfold Cfg.invokeFin; (try dsimp only); repeat' split
  all_goals w6arm_v h hs

theorem Cfg.w6_dispFin_cinv (c : Cfg) (k : List Frame) (r e : Nat) (err : Bool) (h : W6CInv n0 c)
    (hs : c.stack = .dispFin r e err :: k) : W6CInv n0 (c.dispFin k r e err) := by
  unfold Cfg.dispFin; (try dsimp only); repeat' split
  all_goals w6arm_v h hs

theorem Cfg.w6_dispatchLoop_cinv (c : Cfg) (k : List Frame) (r : Nat) (h : W6CInv n0 c)
    (hs : c.stack = .dispatchLoop r :: k) : W6CInv n0 (c.dispatchLoop k r) := by
  unfold Cfg.dispatchLoop; (try dsimp only); repeat' split
  all_goals w6arm_v h hs

theorem Cfg.w6_flush_cinv (c : Cfg) (k : List Frame) (x : Nat) (h : W6CInv n0 c)
    (hs : c.stack = .flush x :: k) : W6CInv n0 (c.flush k x) := by
  unfold Cfg.flush; (try dsimp only); repeat' split
  all_goals w6arm_v h hs

theorem Cfg.w6_flushFin_cinv (c : Cfg) (k : List Frame) (r : Nat) (old : Bool) (h : W6CInv n0 c)
    (hs : c.stack = .flushFin r old :: k) : W6CInv n0 (c.flushFin k r old) := by
  unfold Cfg.flushFin; (try dsimp only); repeat' split
  all_goals w6arm_v h hs

theorem Cfg.w6_tickFin_cinv (c : Cfg) (k : List Frame) (x : Nat) (old : Bool) (h : W6CInv n0 c)
    (hs : c.stack = .tickFin x old :: k) : W6CInv n0 (c.tickFin k x old) := by
  unfold Cfg.tickFin; (try dsimp only); repeat' split
  all_goals w6arm_v h hs

theorem Cfg.w6_tickGen_cinv (c : Cfg) (k : List Frame) (x : Nat) (h : W6CInv n0 c)
    (hs : c.stack = .tickGen x :: k) : W6CInv n0 (c.tickGen k x) := by
  unfold Cfg.tickGen; (try dsimp only); repeat' split
  all_goals w6arm_v h hs

theorem Cfg.w6_run_cinv (c : Cfg) (k : List Frame) (x : Nat) (h : W6CInv n0 c)
    (hs : c.stack = .run x :: k) : W6CInv n0 (c.run k x) := by
  unfold Cfg.run; (try dsimp only); repeat' split
  all_goals w6arm_v h hs

theorem Cfg.w6_runLoop_cinv (c : Cfg) (k : List Frame) (x : Nat) (h : W6CInv n0 c)
    (hs : c.stack = .runLoop x :: k) : W6CInv n0 (c.runLoop k x) := by
  unfold Cfg.runLoop; (try dsimp only); repeat' split
  all_goals w6arm_v h hs

theorem Cfg.w6_runFin_cinv (c : Cfg) (k : List Frame) (x : Nat) (h : W6CInv n0 c)
    (hs : c.stack = .runFin x :: k) : W6CInv n0 (c.runFin k x) := by
  unfold Cfg.runFin; (try dsimp only); repeat' split
  all_goals w6arm_v h hs

theorem Cfg.w6_runRethrow_cinv (c : Cfg) (k : List Frame) (ex : Exn) (h : W6CInv n0 c)
    (hs : c.stack = .runRethrow ex :: k) : W6CInv n0 (c.runRethrow k ex) := by
  unfold Cfg.runRethrow; (try dsimp only); repeat' split
  all_goals w6arm_v h hs

/-! ### arms that push frames with obligations -/

theorem Cfg.w6_runCatch_cinv (c : Cfg) (k : List Frame) (x : Nat) (h : W6CInv n0 c)
    (hs : c.stack = .runCatch x :: k) : W6CInv n0 (c.pop k c.st) :=
  W6CInv.pop h hs rfl _ h.w (St.W6S.refl _)

theorem Cfg.w6_processTask_cinv (c : Cfg) (k : List Frame) (r : Nat) (t : Task) (h : W6CInv n0 c)
    (hs : c.stack = .processTask r t :: k) : W6CInv n0 (c.processTask k r t) := by
  unfold Cfg.processTask; dsimp only
  with_reducible refine W6CInv.goto h hs _ _ ?_ ?_ ?_ ?_ ?_
  · exact W6WInv.ofV h.w (by w6st_v)
  · w6st_s
  · simp only [w6_AllOk_cons, w6_AllOk_nil, W6FrameOk, and_true]
    exact W6View.TaskOk.ofS (by w6st_s) (h.headFrame hs)
  · simp [Frame.w6_isPt]
  · simp [W6CInv.tailSand h hs, W6CInv.tailHead h hs rfl, Frame.w6_isPt, Frame.w6_isStepGen]

theorem Cfg.w6_hLoop_cinv (c : Cfg) (k : List Frame) (r e : Nat) (hs0 : List Nat) (err : Bool) (stale : Outcome)
    (h : W6CInv n0 c) (hs : c.stack = .hLoop r e hs0 err stale :: k) : W6CInv n0 (c.hLoop k r e hs0 err stale) := by
  unfold Cfg.hLoop; split
  · w6arm_v h hs
  · dsimp only
    with_reducible refine W6CInv.goto h hs _ _ ?_ ?_ ?_ ?_ ?_
    · exact W6WInv.ofV h.w (by w6st_v)
    · w6st_s
    · simp only [w6_AllOk_cons, w6_AllOk_nil, W6FrameOk, and_true, true_and]
      exact W6OutOk.ofS (by w6st_s) (h.headFrame hs)
    · simp [Frame.w6_isPt]
    · simp [W6CInv.tailSand h hs, W6CInv.tailHead h hs rfl, Frame.w6_isPt, Frame.w6_isStepGen]

theorem Cfg.w6_hAfter_cinv (c : Cfg) (k : List Frame) (r e : Nat) (rest : List Nat) (err : Bool) (stale : Outcome)
    (h : W6CInv n0 c) (hs : c.stack = .hAfter r e rest err stale :: k) : W6CInv n0 (c.hAfter k r e rest err stale) := by
  have hst : W6OutOk c.st stale := h.headFrame hs
  unfold Cfg.hAfter; split
  all_goals
    with_reducible refine W6CInv.goto h hs _ _ ?_ ?_ ?_ ?_ ?_
    · exact W6WInv.ofV h.w (by w6st_v)
    · w6st_s
    · simp only [w6_AllOk_cons, w6_AllOk_nil, W6FrameOk, and_true, true_and]
      first
      | exact W6OutOk.ofS (by w6st_s) hst
      | (intro g hg; cases hg; done)
      | (rename_i g heq; intro g' hg'; injection hg' with hg'; subst hg'
         exact W6View.NonWait.ofS (by w6st_s) (h.ret g heq))
    · simp [Frame.w6_isPt]
    · simp [W6CInv.tailSand h hs, W6CInv.tailHead h hs rfl, Frame.w6_isPt, Frame.w6_isStepGen]

theorem Cfg.w6_tick_cinv (c : Cfg) (k : List Frame) (x : Nat) (h : W6CInv n0 c)
    (hs : c.stack = .tick x :: k) : W6CInv n0 (c.tick k x) := by
  unfold Cfg.tick; dsimp only; split
  · with_reducible refine W6CInv.goto h hs _ _ ?_ ?_ ?_ ?_ ?_
    · exact W6WInv.ofV h.w (by w6st_v)
    · w6st_s
    · simp only [w6_AllOk_cons, w6_AllOk_nil, W6FrameOk, and_true]
      intro t ht
      exact W6View.TaskOk.ofS (by w6st_s) (h.w.2.tasks x t ht)
    · simp [Frame.w6_isPt]
    · simp [W6CInv.tailSand h hs, W6CInv.tailHead h hs rfl, Frame.w6_isPt, Frame.w6_isStepGen]
  · w6arm_v h hs

theorem St.w6_chooseTask_mem (s : St) (t0 : Task) (rest0 : List Task) : s.chooseTask t0 rest0 ∈ t0 :: rest0 := by
  unfold St.chooseTask
  split
  · cases hf : List.find? _ (t0 :: rest0) with
    | none => simp
    | some y => simpa using List.mem_of_find?_eq_some hf
  · simp

theorem Cfg.w6_taskLoop_cinv (c : Cfg) (k : List Frame) (x : Nat) (ts : List Task) (h : W6CInv n0 c)
    (hs : c.stack = .taskLoop x ts :: k) : W6CInv n0 (c.taskLoop k x ts) := by
  have hts : ∀ t ∈ ts, c.st.w6_view.TaskOk t := h.headFrame hs
  unfold Cfg.taskLoop; split
  · w6arm_v h hs
  · dsimp only
    with_reducible refine W6CInv.goto h hs _ _ h.w (St.W6S.refl _) ?_ ?_ ?_
    · simp only [w6_AllOk_cons, w6_AllOk_nil, W6FrameOk, and_true]
      exact ⟨hts _ (St.w6_chooseTask_mem _ _ _), fun t ht => hts t (List.mem_of_mem_erase ht)⟩
    · simp [Frame.w6_isPt]
    · simp [W6CInv.tailSand h hs, W6CInv.tailHead h hs rfl, Frame.w6_isPt, Frame.w6_isStepGen]

theorem Cfg.w6_hApply_cinv (c : Cfg) (k : List Frame) (r e : Nat) (rest : List Nat) (err : Bool) (value : Outcome)
    (h : W6CInv n0 c) (hs : c.stack = .hApply r e rest err value :: k) : W6CInv n0 (c.hApply k r e rest err value) := by
  have hv : W6OutOk c.st value := h.headFrame hs
  have hw1 : W6WInv n0 ((c.st.applyValue r e value).geTasksCheck r e) :=
    (h.w.applyValue r e value hv).ofV (St.W6V.geTasksCheck (St.W6V.refl _) _ _)
  unfold Cfg.hApply; dsimp only; split
  · with_reducible refine W6CInv.goto h hs _ _ hw1 ?_ ?_ ?_ ?_
    · w6st_s
    · simp [W6FrameOk]
    · simp [Frame.w6_isPt]
    · simp [W6CInv.tailSand h hs, W6CInv.tailHead h hs rfl, Frame.w6_isPt, Frame.w6_isStepGen]
  · with_reducible refine W6CInv.goto h hs _ _ hw1 ?_ ?_ ?_ ?_
    · w6st_s
    · simp only [w6_AllOk_cons, w6_AllOk_nil, W6FrameOk, and_true]
      exact W6OutOk.ofS (by w6st_s) hv
    · simp [Frame.w6_isPt]
    · simp [W6CInv.tailSand h hs, W6CInv.tailHead h hs rfl, Frame.w6_isPt, Frame.w6_isStepGen]

theorem Cfg.w6_dispatcher_cinv (c : Cfg) (k : List Frame) (r e remaining : Nat) (h : W6CInv n0 c)
    (hs : c.stack = .dispatcher r e remaining :: k) : W6CInv n0 (c.dispatcher k r e remaining) := by
  unfold Cfg.dispatcher; split
  · with_reducible refine W6CInv.goto h hs _ _ (h.w.dispatchPre r e remaining) ?_ ?_ ?_ ?_
    · w6st_s
    · simp [W6FrameOk]
    · simp [Frame.w6_isPt]
    · simp [W6CInv.tailSand h hs, W6CInv.tailHead h hs rfl, Frame.w6_isPt, Frame.w6_isStepGen]
  · with_reducible refine W6CInv.goto h hs _ _ (h.w.dispatchPre r e remaining) ?_ ?_ ?_ ?_
    · w6st_s
    · simp only [w6_AllOk_cons, w6_AllOk_nil, W6FrameOk, and_true]
      intro g hg; cases hg
    · simp [Frame.w6_isPt]
    · simp [W6CInv.tailSand h hs, W6CInv.tailHead h hs rfl, Frame.w6_isPt, Frame.w6_isStepGen]

theorem W6CInv.contStop {c : Cfg} {f : Frame} {k : List Frame} (h : W6CInv n0 c) (hs : c.stack = f :: k)
    (hf : f.w6_isStepGen = false) (s : St) (r : Nat) (t : Task) (hw : W6WInv n0 s) (hS : St.W6S c.st s)
    (hp : ∀ p, t.parent = some p → s.w6_view.NonWait p) : W6CInv n0 (c.contStop k s r t) := by
  unfold Cfg.contStop; split
  · with_reducible refine W6CInv.goto h hs _ _ (hw.stopIteration r t hp) ?_ ?_ ?_ ?_
    · w6st_s
    · simp [W6FrameOk]
    · simp [Frame.w6_isPt]
    · simp [W6CInv.tailSand h hs, W6CInv.tailHead h hs hf, Frame.w6_isPt, Frame.w6_isStepGen]
  · exact W6CInv.pop h hs hf _ (hw.stopIteration r t hp) (by w6st_s)

theorem W6CInv.contError {c : Cfg} {f : Frame} {k : List Frame} (h : W6CInv n0 c) (hs : c.stack = f :: k)
    (hf : f.w6_isStepGen = false) (s : St) (r : Nat) (t : Task) (resumed : Bool) (hw : W6WInv n0 s) (hS : St.W6S c.st s) :
    W6CInv n0 (c.contError k s r t resumed) := by
  unfold Cfg.contError; split
  · with_reducible refine W6CInv.goto h hs _ _ (hw.errorBranch r t resumed) ?_ ?_ ?_ ?_
    · w6st_s
    · simp [W6FrameOk]
    · simp [Frame.w6_isPt]
    · simp [W6CInv.tailSand h hs, W6CInv.tailHead h hs hf, Frame.w6_isPt, Frame.w6_isStepGen]
  · exact W6CInv.pop h hs hf _ (hw.errorBranch r t resumed) (by w6st_s)

theorem w6_actStep_kind_out (s : St) (ctx : HCtx) (a : Act) (o : Outcome) (h : (actStep s ctx a).kind = .out o) :
    ∀ g, o ≠ .gen g := by
  intro g hg; subst hg
  cases a <;> simp [actStep] at h
  all_goals (split at h <;> cases h)

theorem w6_actStep_kind_call (s : St) (ctx : HCtx) (a : Act) (f : Frame) (h : (actStep s ctx a).kind = .call f) :
    f.w6_isPt = false ∧ f.w6_isStepGen = false ∧ ∀ s', W6FrameOk n0 s' f := by
  cases a <;> simp [actStep] at h
  all_goals first
    | (subst h; exact ⟨rfl, rfl, fun _ => trivial⟩)
    | (split at h <;> cases h)

theorem Cfg.w6_acts_cinv (c : Cfg) (k : List Frame) (ctx : HCtx) (prog : Prog) (h : W6CInv n0 c)
    (hs : c.stack = .acts ctx prog :: k) : W6CInv n0 (c.acts k ctx prog) := by
  have hp : ∀ a ∈ prog, Act.w6_hOk n0 a := h.headFrame hs
  unfold Cfg.acts; split
  · w6arm_v h hs
  · rename_i a rest
    have hw1 := h.w.actStep ctx a (hp a List.mem_cons_self)
    have hrest : ∀ a' ∈ rest, Act.w6_hOk n0 a' := fun a' ha' => hp a' (List.mem_cons_of_mem _ ha')
    split
    · with_reducible refine W6CInv.goto h hs _ _ hw1 ?_ ?_ ?_ ?_
      · w6st_s
      · simp only [w6_AllOk_cons, w6_AllOk_nil, W6FrameOk, and_true]; exact hrest
      · simp [Frame.w6_isPt]
      · simp [W6CInv.tailSand h hs, W6CInv.tailHead h hs rfl, Frame.w6_isPt, Frame.w6_isStepGen]
    · rename_i o heq
      with_reducible refine W6CInv.popRet h hs rfl _ _ hw1 ?_ ?_
      · w6st_s
      · intro g hg; exact absurd hg (w6_actStep_kind_out _ _ _ _ heq g)
    · rename_i f heq
      obtain ⟨f1, f2, f3⟩ := w6_actStep_kind_call (n0 := n0) _ _ _ _ heq
      with_reducible refine W6CInv.goto h hs _ _ hw1 ?_ ?_ ?_ ?_
      · w6st_s
      · simp only [w6_AllOk_cons, w6_AllOk_nil, W6FrameOk, and_true]; exact ⟨f3 _, hrest⟩
      · simp [f1]
      · simp [W6CInv.tailSand h hs, W6CInv.tailHead h hs rfl, Frame.w6_isPt, Frame.w6_isStepGen, f1, f2]

theorem Cfg.w6_ptOwn_cinv (c : Cfg) (k : List Frame) (r : Nat) (t : Task) (h : W6CInv n0 c)
    (hs : c.stack = .ptOwn r t :: k) (hx : c.exn = none) : W6CInv n0 (c.ptOwn k r t) := by
  obtain ⟨hT, hG⟩ : c.st.w6_view.TaskOk t ∧ c.st.w6_view.NonWait t.g := h.headFrame hs
  unfold Cfg.ptOwn; split
  · exact W6CInv.pop h hs rfl _ (h.w.setValueOpt _ _) (by w6st_s)
  · rename_i w heq
    have fresh := h.top hx (by rw [hs]; rfl) w heq
    exact W6CInv.pop h hs rfl _ (h.w.ownSub r t w fresh.1 fresh.2 hG) (by w6st_s)
  · exact W6CInv.contStop h hs rfl c.st r t h.w (St.W6S.refl _) hT.2.2
  · exact W6CInv.contError h hs rfl c.st r t false h.w (St.W6S.refl _)
  · w6arm_v h hs
  · w6arm_v h hs

theorem Cfg.w6_ptParent_cinv (c : Cfg) (k : List Frame) (r : Nat) (t : Task) (p : Nat) (viaThrow : Bool) (h : W6CInv n0 c)
    (hs : c.stack = .ptParent r t p viaThrow :: k) (hx : c.exn = none) : W6CInv n0 (c.ptParent k r t p viaThrow) := by
  obtain ⟨hT, hG⟩ : c.st.w6_view.TaskOk t ∧ c.st.w6_view.NonWait p := h.headFrame hs
  unfold Cfg.ptParent; split
  · rename_i w heq
    have fresh := h.top hx (by rw [hs]; rfl) w heq
    exact W6CInv.pop h hs rfl _ (h.w.parentSub r t p w viaThrow fresh.1 fresh.2 hG) (by w6st_s)
  · exact W6CInv.pop h hs rfl _ (h.w.parentPlain r t p _ viaThrow hG) (by w6st_s)
  · exact W6CInv.contStop h hs rfl c.st r t h.w (St.W6S.refl _) hT.2.2
  · exact W6CInv.contError h hs rfl c.st r t true h.w (St.W6S.refl _)
  · w6arm_v h hs
  · w6arm_v h hs

theorem Cfg.w6_ptBodyWait_cinv (c : Cfg) (k : List Frame) (r : Nat) (t : Task) (w : Nat) (h : W6CInv n0 c)
    (hs : c.stack = .ptBody r t :: k) (hg : c.st.gen t.g = .wait w) : W6CInv n0 (c.ptBodyWait k r t w) := by
  have hT : c.st.w6_view.TaskOk t := h.headFrame hs
  have hfl : (c.st.wait w).flag = true := hT.2.1 w hg
  obtain ⟨c1, c2, c3, c4⟩ := h.w.1.chain w
  have hw : w < c.st.waits.length := c4 (c3 (c2 (c1 hfl)))
  have hrm := h.w.removeDone w hw hfl
  have hSrm : St.W6S c.st (c.st.removeHandler (c.st.wait w).hDone (some ((c.st.wait w).evName.child sfxDone))).2 := by w6st_s
  have hpar : ∀ p, t.parent = some p →
      (c.st.removeHandler (c.st.wait w).hDone (some ((c.st.wait w).evName.child sfxDone))).2.w6_view.NonWait p :=
    fun p hp => W6View.NonWait.ofS hSrm (hT.2.2 p hp)
  unfold Cfg.ptBodyWait; dsimp only; split
  · exact W6CInv.contError h hs rfl _ r t false hrm hSrm
  · split
    · rename_i src p hev hpp
      have hw1 := hrm.unregisterTask r t
      split
      · with_reducible refine W6CInv.goto h hs _ _ ((hw1.logE _).resumeGenPre p true) ?_ ?_ ?_ ?_
        · w6st_s
        · simp only [w6_AllOk_cons, w6_AllOk_nil, W6FrameOk, and_true]
          exact ⟨W6View.NonWait.ofS (by w6st_s) (hT.2.2 p hpp), W6View.TaskOk.ofS (by w6st_s) hT,
            W6View.NonWait.ofS (by w6st_s) (hT.2.2 p hpp)⟩
        · simp [Frame.w6_isPt]
        · simp [W6CInv.tailSand h hs, W6CInv.tailHead h hs rfl, Frame.w6_isPt, Frame.w6_isStepGen]
      · exact W6CInv.pop h hs rfl _ hw1 (by w6st_s)
    · exact W6CInv.contStop h hs rfl _ r t hrm hSrm hpar

theorem Cfg.w6_ptBodyExc_cinv (c : Cfg) (k : List Frame) (r : Nat) (t : Task) (w : Nat) (fired : Bool) (h : W6CInv n0 c)
    (hs : c.stack = .ptBody r t :: k) (hg : c.st.gen t.g = .exc w fired) : W6CInv n0 (c.ptBodyExc k r t w fired) := by
  have hT : c.st.w6_view.TaskOk t := h.headFrame hs
  unfold Cfg.ptBodyExc; dsimp only; split
  · exact W6CInv.contStop h hs rfl c.st r t h.w (St.W6S.refl _) hT.2.2
  · have hw1 : W6WInv n0 ((c.st.setGen t.g (.exc w true)).unregisterTask r t) :=
      (h.w.setGen t.g (.exc w true) (by rw [hg]; rfl) rfl (fun _ _ _ _ _ _ _ hh => by cases hh)).unregisterTask r t
    have hS1 : St.W6S c.st ((c.st.setGen t.g (.exc w true)).unregisterTask r t) := by
      apply St.W6S.unregisterTask; exact St.W6S.setGen (St.W6S.refl _) _ _ rfl
    split
    · rename_i p hpp
      split
      · rename_i pe ph o rest st pc sd hgp
        have hold : ((((c.st.setGen t.g (.exc w true)).unregisterTask r t).logE
            (.timeout pe ph (pc.getD false))).gen p).w6_isWait = false := by
          show (((c.st.setGen t.g (.exc w true)).unregisterTask r t).gen p).w6_isWait = false
          rw [hgp]; rfl
        split
        · with_reducible refine W6CInv.goto h hs _ _ ((hw1.logE _).resumeGenPre p true) ?_ ?_ ?_ ?_
          · apply St.W6S.resumeGenPre; apply St.W6S.logE; exact hS1
          · simp only [w6_AllOk_cons, w6_AllOk_nil, W6FrameOk, and_true]
            have hS2 : St.W6S c.st ((((c.st.setGen t.g (.exc w true)).unregisterTask r t).logE
                (.timeout pe ph (pc.getD false))).resumeGenPre p true) := by
              apply St.W6S.resumeGenPre; apply St.W6S.logE; exact hS1
            exact ⟨W6View.NonWait.ofS hS2 (hT.2.2 p hpp), W6View.TaskOk.ofS hS2 hT, W6View.NonWait.ofS hS2 (hT.2.2 p hpp)⟩
          · simp [Frame.w6_isPt]
          · simp [W6CInv.tailSand h hs, W6CInv.tailHead h hs rfl, Frame.w6_isPt, Frame.w6_isStepGen]
        · refine W6CInv.contError h hs rfl _ r t true ?_ ?_
          · exact (hw1.logE _).setGen p .dead hold rfl (fun _ _ _ _ _ _ _ hh => by cases hh)
          · apply St.W6S.setGen _ _ _ rfl; apply St.W6S.logE; exact hS1
      · exact W6CInv.pop h hs rfl _ hw1 hS1
    · exact W6CInv.contError h hs rfl _ r t false hw1 hS1

theorem Cfg.w6_ptBody_cinv (c : Cfg) (k : List Frame) (r : Nat) (t : Task) (h : W6CInv n0 c)
    (hs : c.stack = .ptBody r t :: k) : W6CInv n0 (c.ptBody k r t) := by
  have hT : c.st.w6_view.TaskOk t := h.headFrame hs
  unfold Cfg.ptBody; split
  · rename_i e hh o rest st pc sd heq
    have hG : c.st.w6_view.NonWait t.g := ⟨hT.1, by rw [show c.st.w6_view.gen t.g = c.st.gen t.g from rfl, heq]; rfl⟩
    with_reducible refine W6CInv.goto h hs _ _ (h.w.resumeGenPre t.g false) ?_ ?_ ?_ ?_
    · w6st_s
    · simp only [w6_AllOk_cons, w6_AllOk_nil, W6FrameOk, and_true]
      exact ⟨W6View.NonWait.ofS (by w6st_s) hG, W6View.TaskOk.ofS (by w6st_s) hT, W6View.NonWait.ofS (by w6st_s) hG⟩
    · simp [Frame.w6_isPt]
    · simp [W6CInv.tailSand h hs, W6CInv.tailHead h hs rfl, Frame.w6_isPt, Frame.w6_isStepGen]
  · rename_i w heq; exact Cfg.w6_ptBodyWait_cinv c k r t w h hs heq
  · rename_i w fired heq; exact Cfg.w6_ptBodyExc_cinv c k r t w fired h hs heq
  · exact W6CInv.contStop h hs rfl c.st r t h.w (St.W6S.refl _) hT.2.2
  · rename_i v consumed heq
    split
    · exact W6CInv.contStop h hs rfl c.st r t h.w (St.W6S.refl _) hT.2.2
    · refine W6CInv.pop h hs rfl _ ((h.w.setGen t.g (.one v true) (by rw [heq]; rfl) rfl
        (fun _ _ _ _ _ _ _ hh => by cases hh)).setValueOpt _ _) ?_
      apply St.W6S.setValueOpt; exact St.W6S.setGen (St.W6S.refl _) _ _ rfl

theorem St.w6_onWaitEvent_out (t : St) (w e : Nat) : ∀ g, (t.onWaitEvent w e).1 ≠ .gen g := by
  intro g; unfold St.onWaitEvent; dsimp only; split
  · split <;> (intro hh; cases hh)
  · intro hh; cases hh
theorem St.w6_onWaitDone_out (t : St) (w e : Nat) : ∀ g, (t.onWaitDone w e).1 ≠ .gen g := by
  intro g; unfold St.onWaitDone; dsimp only
  (repeat' split) <;> (intro hh; cases hh)
theorem St.w6_onWaitTick_out (t : St) (w : Nat) : ∀ g, (t.onWaitTick w).1 ≠ .gen g := by
  intro g; unfold St.onWaitTick; dsimp only
  (repeat' split) <;> (intro hh; cases hh)

theorem w6_getD_nil_mem {α} (l : List (List α)) (i : Nat) : l.getD i [] = [] ∨ l.getD i [] ∈ l := by
  rw [List.getD_eq_getElem?_getD]
  cases h : l[i]? with
  | none => left; rfl
  | some x => right; simpa using List.mem_of_getElem? h

theorem St.w6_handler_lt_of_wait (s : St) (x : Nat) (h : (s.handler x).kind.w6_isWait = true) : x < s.hs.length := by
  refine Classical.byContradiction fun hn => ?_
  rw [St.w6_handler_ge _ _ (by omega)] at h; cases h

theorem Cfg.w6_invokeUser_cinv (c : Cfg) (k : List Frame) (r hh e owner p : Nat) (s : St) (hv : s.w6_view = c.st.w6_view)
    (hS : St.W6S c.st s) (h : W6CInv n0 c) (hs : c.stack = .invoke r hh e :: k) :
    W6CInv n0 (c.invokeUser k s hh e owner p) := by
  have hw : W6WInv n0 s := by unfold W6WInv; rw [hv]; exact h.w
  have hprog : ∀ a ∈ (s.logE (.inv e hh 0)).progs.getD p [], Act.w6_hOk n0 a := by
    intro a ha
    rcases w6_getD_nil_mem (s.logE (.inv e hh 0)).progs p with e1 | e1
    · rw [e1] at ha; cases ha
    · exact hw.2.progsOk _ e1 a ha
  unfold Cfg.invokeUser; dsimp only; split
  · with_reducible refine W6CInv.popRet h hs rfl _ _ ?_ ?_ ?_
    · exact ((hw.logE _).addGen _ rfl (fun _ _ _ _ _ _ _ he => by
        injection he with _ _ _ he; subst he; exact hprog)).logE _
    · apply St.W6S.logE; apply St.W6S.addGen; apply St.W6S.logE; exact hS
    · intro g hg
      injection hg with hg; subst hg
      refine ⟨by simp, ?_⟩
      simp [St.w6_addGen_gen, GenRec.w6_isWait]
  · with_reducible refine W6CInv.goto h hs _ _ (hw.logE _) ?_ ?_ ?_ ?_
    · apply St.W6S.logE; exact hS
    · simp only [w6_AllOk_cons, w6_AllOk_nil, W6FrameOk, and_true]; exact hprog
    · simp [Frame.w6_isPt]
    · simp [W6CInv.tailSand h hs, W6CInv.tailHead h hs rfl, Frame.w6_isPt, Frame.w6_isStepGen]

theorem Cfg.w6_invoke_cinv (c : Cfg) (k : List Frame) (r hh e : Nat) (h : W6CInv n0 c)
    (hs : c.stack = .invoke r hh e :: k) : W6CInv n0 (c.invoke k r hh e) := by
  unfold Cfg.invoke; dsimp only; split
  · rename_i p heq
    simp only [heq, HKind.code]
    exact Cfg.w6_invokeUser_cinv c k r hh e _ p _ rfl (St.W6S.refl _) h hs
  · rename_i heq
    simp only [heq, HKind.code]
    w6arm_v h hs
  · rename_i w heq
    have hlt := c.st.w6_handler_lt_of_wait hh (by rw [heq]; rfl)
    obtain ⟨k1, k2, _⟩ := h.w.1.kindEv hh w hlt heq
    simp only [heq, HKind.code]
    with_reducible refine W6CInv.popRet h hs rfl _ _ ?_ ?_ ?_
    · exact (h.w.logE _).onWaitEvent w e k1 k2
    · w6st_s
    · intro g hg; exact absurd hg (St.w6_onWaitEvent_out _ _ _ g)
  · rename_i w heq
    have hlt := c.st.w6_handler_lt_of_wait hh (by rw [heq]; rfl)
    obtain ⟨k1, k2, _⟩ := h.w.1.kindDone hh w hlt heq
    simp only [heq, HKind.code]
    with_reducible refine W6CInv.popRet h hs rfl _ _ ?_ ?_ ?_
    · exact (h.w.logE _).onWaitDone w e k1 k2
    · w6st_s
    · intro g hg; exact absurd hg (St.w6_onWaitDone_out _ _ _ g)
  · rename_i w heq
    have hlt := c.st.w6_handler_lt_of_wait hh (by rw [heq]; rfl)
    obtain ⟨k1, k2, _⟩ := h.w.1.kindTick hh w hlt heq
    simp only [heq, HKind.code]
    with_reducible refine W6CInv.popRet h hs rfl _ _ ?_ ?_ ?_
    · exact (h.w.logE _).onWaitTick w k1 k2
    · w6st_s
    · intro g hg; exact absurd hg (St.w6_onWaitTick_out _ _ g)
  · rename_i t heq
    simp only [heq, HKind.code]
    w6arm_v h hs
  · rename_i heq
    simp only [heq, HKind.code]
    (repeat' split) <;> w6arm_v h hs
  · rename_i heq
    simp only [heq, HKind.code]
    w6arm_v h hs

theorem W6CInv.popRetGen {c : Cfg} {k : List Frame} {g : Nat} (h : W6CInv n0 c) (hs : c.stack = .stepGen g :: k) (s' : St)
    (v : Ret) (hw : W6WInv n0 s') (hS : St.W6S c.st s') (hv : W6OutOk s' v.outcome)
    (htop : ∀ w, v.yield = .sub w → w < s'.waits.length ∧ (s'.wait w).started = false) :
    W6CInv n0 (c.popRet k s' v) :=
  ⟨hw, W6AllOk.ofS hS (h.tailFrames hs), hv, h.tailSand hs, fun _ _ => htop⟩

theorem Outcome.w6_toYield_not_sub (o : Outcome) (w : Nat) : o.toYield ≠ .sub w := by
  cases o <;> (intro hh; cases hh)

/-- the common part of `stepGen`: an action that is not a yield / return -/
theorem Cfg.w6_stepGen_act (c : Cfg) (k : List Frame) (g e hh owner : Nat) (rest' : Prog) (step : Nat)
    (pc : Option Bool) (sd : Bool) (a : Act) (h : W6CInv n0 c) (hs : c.stack = .stepGen g :: k)
    (heq : c.st.gen g = .user e hh owner (a :: rest') step pc sd) :
    W6CInv n0 (match (actStep (c.st.setGen g (.user e hh owner rest' step none sd)) ⟨owner, some e⟩ a).kind with
      | .next => c.goto k (actStep (c.st.setGen g (.user e hh owner rest' step none sd)) ⟨owner, some e⟩ a).st [.stepGen g]
      | .out o => c.popRet k ((actStep (c.st.setGen g (.user e hh owner rest' step none sd)) ⟨owner, some e⟩ a).st.setGen g .dead)
          (.yld o.toYield)
      | .call f => c.goto k (actStep (c.st.setGen g (.user e hh owner rest' step none sd)) ⟨owner, some e⟩ a).st
          [f, .stepGen g]) := by
  have hG : c.st.w6_view.NonWait g := h.headFrame hs
  have hacts := h.w.2.gacts g e hh owner (a :: rest') step pc sd heq
  have hw0 : W6WInv n0 (c.st.setGen g (.user e hh owner rest' step none sd)) :=
    h.w.setGen g _ (by rw [heq]; rfl) rfl (fun _ _ _ _ _ _ _ he => by
      injection he with _ _ _ he; subst he; exact fun a' ha' => hacts a' (List.mem_cons_of_mem _ ha'))
  have hw1 := hw0.actStep ⟨owner, some e⟩ a (hacts a List.mem_cons_self)
  have hS1 : St.W6S c.st (actStep (c.st.setGen g (.user e hh owner rest' step none sd)) ⟨owner, some e⟩ a).st := by
    apply St.W6S.actStep; exact St.W6S.setGen (St.W6S.refl _) _ _ rfl
  have hG1 := W6View.NonWait.ofS hS1 hG
  split
  · with_reducible refine W6CInv.goto h hs _ _ hw1 hS1 ?_ ?_ ?_
    · simp only [w6_AllOk_cons, w6_AllOk_nil, W6FrameOk, and_true]; exact hG1
    · simp [Frame.w6_isPt]
    · simp [W6CInv.tailSand h hs, Frame.w6_isPt, Frame.w6_isStepGen]
  · rename_i o heq2
    refine W6CInv.popRetGen h hs _ _ (hw1.setGen g .dead hG1.2 rfl (fun _ _ _ _ _ _ _ hh' => by cases hh')) ?_ ?_ ?_
    · exact St.W6S.setGen hS1 _ _ rfl
    · intro g' hg'; cases hg'
    · intro w hw; exact absurd hw (Outcome.w6_toYield_not_sub o w)
  · rename_i f heq2
    obtain ⟨f1, f2, f3⟩ := w6_actStep_kind_call (n0 := n0) _ _ _ _ heq2
    with_reducible refine W6CInv.goto h hs _ _ hw1 hS1 ?_ ?_ ?_
    · simp only [w6_AllOk_cons, w6_AllOk_nil, W6FrameOk, and_true]; exact ⟨f3 _, hG1⟩
    · simp [f1]
    · simp [W6CInv.tailSand h hs, Frame.w6_isPt, Frame.w6_isStepGen, f1]

theorem Cfg.w6_stepGen_cinv (c : Cfg) (k : List Frame) (g : Nat) (h : W6CInv n0 c)
    (hs : c.stack = .stepGen g :: k) : W6CInv n0 (c.stepGen k g) := by
  have hG : c.st.w6_view.NonWait g := h.headFrame hs
  unfold Cfg.stepGen; dsimp only; split
  · rename_i e hh owner rest step pc sd heq
    have hacts := h.w.2.gacts g e hh owner rest step pc sd heq
    have hold : (c.st.gen g).w6_isWait = false := by rw [heq]; rfl
    have hdead : W6WInv n0 (c.st.setGen g .dead) := h.w.setGen g .dead hold rfl (fun _ _ _ _ _ _ _ hh' => by cases hh')
    split
    · refine W6CInv.popRetGen h hs _ _ hdead (St.W6S.setGen (St.W6S.refl _) _ _ rfl) (fun _ hh' => by cases hh')
        (fun _ hh' => by cases hh')
    · rename_i a rest'
      have hrest : ∀ x p', W6WInv n0 (c.st.setGen g (.user e hh owner rest' step p' x)) := fun x p' =>
        h.w.setGen g _ hold rfl (fun _ _ _ _ _ _ _ he => by
          injection he with _ _ _ he; subst he; exact fun a' ha' => hacts a' (List.mem_cons_of_mem _ ha'))
      cases a
      case yld v =>
        exact W6CInv.popRetGen h hs _ _ (hrest _ _) (St.W6S.setGen (St.W6S.refl _) _ _ rfl) (fun _ hh' => by cases hh')
          (fun _ hh' => by cases hh')
      case ret v =>
        exact W6CInv.popRetGen h hs _ _ hdead (St.W6S.setGen (St.W6S.refl _) _ _ rfl) (fun _ hh' => by cases hh')
          (fun _ hh' => by cases hh')
      case call t target timeout catch_ =>
        dsimp only
        have hgc := h.w.genCall owner t target timeout
        have hSg : St.W6S c.st (c.st.genCall owner t target timeout) := by w6st_s
        refine W6CInv.popRetGen h hs _ _ ?_ (St.W6S.setGen hSg _ _ rfl) (fun _ hh' => by cases hh') ?_
        · refine hgc.setGen g _ ?_ rfl (fun _ _ _ _ _ _ _ he => by
            injection he with _ _ _ he; subst he; exact fun a' ha' => hacts a' (List.mem_cons_of_mem _ ha'))
          exact (W6View.NonWait.ofS hSg hG).2
        · intro w hw
          have : w = c.st.waits.length := by injection hw with hw; exact hw.symm
          subst this
          unfold St.genCall
          simp [St.w6_addWait_wait]
      case wait name target timeout catch_ =>
        dsimp only
        have hgc := h.w.genWait owner name target timeout
        have hSg : St.W6S c.st (c.st.genWait owner name target timeout) := by w6st_s
        refine W6CInv.popRetGen h hs _ _ ?_ (St.W6S.setGen hSg _ _ rfl) (fun _ hh' => by cases hh') ?_
        · refine hgc.setGen g _ ?_ rfl (fun _ _ _ _ _ _ _ he => by
            injection he with _ _ _ he; subst he; exact fun a' ha' => hacts a' (List.mem_cons_of_mem _ ha'))
          exact (W6View.NonWait.ofS hSg hG).2
        · intro w hw
          have : w = c.st.waits.length := by injection hw with hw; exact hw.symm
          subst this
          unfold St.genWait
          simp [St.w6_addWait_wait]
      all_goals exact Cfg.w6_stepGen_act c k g e hh owner rest' step pc sd _ h hs heq
  · exact W6CInv.popRetGen h hs _ _ h.w (St.W6S.refl _) (fun _ hh' => by cases hh') (fun _ hh' => by cases hh')

/-! ### the transition function -/

theorem W6CInv.popExn {c : Cfg} {f : Frame} {k : List Frame} (h : W6CInv n0 c) (hs : c.stack = f :: k) (ex : Exn)
    (hx : c.exn = some ex) : W6CInv n0 (c.pop k c.st) :=
  ⟨h.w, h.tailFrames hs, h.ret, h.tailSand hs, fun hn => by rw [show (c.pop k c.st).exn = c.exn from rfl, hx] at hn; cases hn⟩

theorem Cfg.w6_runCatchExn_cinv (c : Cfg) (k : List Frame) (x : Nat) (ex : Exn) (h : W6CInv n0 c)
    (hs : c.stack = .runCatch x :: k) (hx : c.exn = some ex) : W6CInv n0 (c.runCatchExn k x ex) := by
  unfold Cfg.runCatchExn; split
  · refine ⟨h.w, ?_, h.ret, ?_, ?_⟩
    · show W6AllOk n0 c.st (.tick x :: .drainQ x :: .runRethrow _ :: k)
      simp only [w6_AllOk_cons, W6FrameOk, true_and]; exact h.tailFrames hs
    · show w6_sandwich (.tick x :: .drainQ x :: .runRethrow _ :: k) = true
      simp [W6CInv.tailSand h hs, W6CInv.tailHead h hs rfl, Frame.w6_isPt, Frame.w6_isStepGen]
    · intro _ hp; cases hp
  · exact h.popExn hs ex hx

theorem w6_stepFrame_cinv (c : Cfg) (k : List Frame) (f : Frame) (h : W6CInv n0 c) (hs : c.stack = f :: k)
    (hx : c.exn = none) : W6CInv n0 (stepFrame c k f) := by
  cases f <;> dsimp only [stepFrame]
  case effectDone r e a => exact Cfg.w6_effectDone_cinv c k r e a h hs
  case eventDone r e err => exact Cfg.w6_eventDone_cinv c k r e err h hs
  case updateRoot todo root => exact Cfg.w6_updateRoot_cinv c k todo root h hs
  case register x p => exact Cfg.w6_register_cinv c k x p h hs
  case registerFin x => exact Cfg.w6_registerFin_cinv c k x h hs
  case prepUnregFin x => exact Cfg.w6_prepUnregFin_cinv c k x h hs
  case stopMgr x code => exact Cfg.w6_stopMgr_cinv c k x code h hs
  case ticks x n => exact Cfg.w6_ticks_cinv c k x n h hs
  case stopFin code => exact Cfg.w6_stopFin_cinv c k code h hs
  case timerNew t => exact Cfg.w6_timerNew_cinv c k t h hs
  case acts ctx rest => exact Cfg.w6_acts_cinv c k ctx rest h hs
  case doFin x => exact Cfg.w6_doFin_cinv c k x h hs
  case drainQ x => exact Cfg.w6_drainQ_cinv c k x h hs
  case stepGen g => exact Cfg.w6_stepGen_cinv c k g h hs
  case processTask r t => exact Cfg.w6_processTask_cinv c k r t h hs
  case ptBody r t => exact Cfg.w6_ptBody_cinv c k r t h hs
  case ptOwn r t => exact Cfg.w6_ptOwn_cinv c k r t h hs hx
  case ptParent r t p v => exact Cfg.w6_ptParent_cinv c k r t p v h hs hx
  case ptFin r hd => exact Cfg.w6_ptFin_cinv c k r hd h hs
  case dispatcher r e rem => exact Cfg.w6_dispatcher_cinv c k r e rem h hs
  case hLoop r e hs0 err stale => exact Cfg.w6_hLoop_cinv c k r e hs0 err stale h hs
  case invoke r hh e => exact Cfg.w6_invoke_cinv c k r hh e h hs
  case invokeFin e hh => exact Cfg.w6_invokeFin_cinv c k e hh h hs
  case hAfter r e rest err stale => exact Cfg.w6_hAfter_cinv c k r e rest err stale h hs
  case hApply r e rest err value => exact Cfg.w6_hApply_cinv c k r e rest err value h hs
  case dispFin r e err => exact Cfg.w6_dispFin_cinv c k r e err h hs
  case dispatchLoop r => exact Cfg.w6_dispatchLoop_cinv c k r h hs
  case flush x => exact Cfg.w6_flush_cinv c k x h hs
  case flushFin r old => exact Cfg.w6_flushFin_cinv c k r old h hs
  case tick x => exact Cfg.w6_tick_cinv c k x h hs
  case taskLoop x ts => exact Cfg.w6_taskLoop_cinv c k x ts h hs
  case tickFin x old => exact Cfg.w6_tickFin_cinv c k x old h hs
  case tickGen x => exact Cfg.w6_tickGen_cinv c k x h hs
  case run x => exact Cfg.w6_run_cinv c k x h hs
  case runLoop x => exact Cfg.w6_runLoop_cinv c k x h hs
  case runCatch x => exact Cfg.w6_runCatch_cinv c k x h hs
  case runRethrow ex => exact Cfg.w6_runRethrow_cinv c k ex h hs
  case runFin x => exact Cfg.w6_runFin_cinv c k x h hs

theorem w6_unwind_cinv (c : Cfg) (k : List Frame) (ex : Exn) (f : Frame) (h : W6CInv n0 c) (hs : c.stack = f :: k)
    (hx : c.exn = some ex) : W6CInv n0 (unwind c k ex f) := by
  cases f <;> dsimp only [unwind]
  case ptFin r hd => exact Cfg.w6_ptFin_cinv c k r hd h hs
  case invokeFin e hh => exact Cfg.w6_invokeFin_cinv c k e hh h hs
  case flushFin r old => exact Cfg.w6_flushFin_cinv c k r old h hs
  case tickFin x old => exact Cfg.w6_tickFin_cinv c k x old h hs
  case runCatch x => exact Cfg.w6_runCatchExn_cinv c k x ex h hs hx
  case runRethrow ex0 => exact Cfg.w6_runRethrow_cinv c k ex0 h hs
  all_goals exact h.popExn hs ex hx

/-- **the wait-protocol invariant is preserved by every step** -/
theorem w6_step_cinv (c : Cfg) (h : W6CInv n0 c) : W6CInv n0 (step c) := by
  unfold step
  split
  · exact h
  · rename_i f k hs
    split
    · rename_i ex hx; exact w6_unwind_cinv c k ex f h hs hx
    · rename_i hx; exact w6_stepFrame_cinv c k f h hs hx

end CV.Core

import CV.Proofs.HttpParse
/-
The invariant behind C14's former OPEN item `lexed_consistent`: in every parser state reachable by
`exec` the recorded lexer verdicts (`fl`, `hi`) are the lexers' verdicts on exactly the recorded
byte strings (`firstLine`, `hdrBlock`).  For every instantiation of the lexers.  Core Lean only.
-/
namespace CV
namespace Http

/-- the recorded verdicts are the lexers' verdicts on the recorded bytes (+ two auxiliary clauses that
    make it inductive: a header block recorded before the headers are complete is still in the buffer,
    and nothing is recorded before the first line is complete) -/
structure Lexed (lex : Lex) (p : PState) : Prop where
  first : ∀ f, p.core.fl = some f → ∃ l, p.core.firstLine = some l ∧ lex.first p.core.kind l = some f
  hdrs : p.core.hdrDone = true →
    p.core.hi = (match p.core.hdrBlock with | some b => lex.hdrs b | none => some noHdrs)
  pending : p.core.hdrDone = false → ∀ b, p.core.hdrBlock = some b → ∃ i, find CRLF2 p.buf = some i
  fresh : p.core.onFirst = false → p.core.fl = none ∧ p.core.hdrDone = false ∧ p.core.hdrBlock = none

theorem lexed_init (lex : Lex) (k : Kind) : Lexed lex (init k) :=
  ⟨fun f h => by simp [init] at h, fun h => by simp [init] at h, fun _ b h => by simp [init] at h,
   fun _ => ⟨rfl, rfl, rfl⟩⟩

/-- body-phase work keeps the invariant -/
theorem lexed_of_ext {lex : Lex} {c : Core} {p' : PState} (e : Ext c p'.core)
    (ho : c.onFirst = true) (hd : c.hdrDone = true)
    (h1 : ∀ f, c.fl = some f → ∃ l, c.firstLine = some l ∧ lex.first c.kind l = some f)
    (h2 : c.hi = (match c.hdrBlock with | some b => lex.hdrs b | none => some noHdrs)) :
    Lexed lex p' := by
  have e1 := e.1
  simp only [Core.hdrPart, Prod.mk.injEq] at e1
  obtain ⟨ek, eo, ed, efl, ef, ehb, ehi, _, _⟩ := e1
  refine ⟨?_, ?_, ?_, ?_⟩
  · intro f hf
    rw [ef] at hf
    rw [efl, ek]
    exact h1 f hf
  · intro _
    rw [ehi, ehb]
    exact h2
  · intro h
    rw [ed, hd] at h
    cases h
  · intro h
    rw [eo, ho] at h
    cases h

theorem lexed_execHeaders (lex : Lex) (c : Core) (x : Bytes) (ho : c.onFirst = true) (hd : c.hdrDone = false)
    (h1 : ∀ f, c.fl = some f → ∃ l, c.firstLine = some l ∧ lex.first c.kind l = some f)
    (hp : ∀ b, c.hdrBlock = some b → ∃ i, find CRLF2 x = some i) :
    Lexed lex (execHeaders lex c x) := by
  unfold execHeaders
  split
  · rename_i hx
    have hnone : c.hdrBlock = none := by
      cases hb : c.hdrBlock with
      | none => rfl
      | some b =>
        obtain ⟨i, hi⟩ := hp b hb
        have := find_bound hi
        rw [hx] at this
        simp [CRLF, CRLF2] at this
    exact lexed_of_ext (execBody_ext lex _ [] true) ho rfl h1 (by simp [hnone])
  · dsimp only
    split
    · exact ⟨h1, fun h => (by rw [hd] at h; cases h), fun _ b hb => hp b hb,
        fun h => (by rw [ho] at h; cases h)⟩
    · rename_i idx hfind
      split
      · exact ⟨h1, fun h => (by rw [hd] at h; cases h), fun _ _ _ => ⟨idx, hfind⟩,
          fun h => (by rw [ho] at h; cases h)⟩
      · rename_i h hh
        apply lexed_of_ext (execBody_ext lex _ _ false)
        · cases h.clen <;> exact ho
        · cases h.clen <;> rfl
        · cases h.clen <;> exact h1
        · cases h.clen <;> simp [hh]

theorem lexed_exec (lex : Lex) (s : PState) (d : Bytes) (h : Lexed lex s) : Lexed lex (exec lex s d) := by
  unfold exec
  split
  · exact ⟨h.first, h.hdrs, h.pending, h.fresh⟩
  · split
    · exact h
    · cases hf : s.core.onFirst with
      | false =>
        simp only [Bool.not_false, if_true]
        obtain ⟨f1, f2, f3⟩ := h.fresh hf
        unfold execFirst
        split
        · exact ⟨h.first, h.hdrs, fun _ b hb => (by rw [f3] at hb; cases hb), fun _ => ⟨f1, f2, f3⟩⟩
        · dsimp only
          split
          · exact ⟨fun f hf' => (by simp [f1] at hf'), fun hh => (by simp [f2] at hh),
              fun _ b hb => (by simp [f3] at hb), fun hh => (by simp at hh)⟩
          · rename_i idx _ f hfl
            refine lexed_execHeaders lex _ _ rfl ?_ ?_ ?_
            · exact f2
            · intro f' hf'
              simp only [Option.some.injEq] at hf'
              subst hf'
              exact ⟨_, rfl, hfl⟩
            · intro b hb
              simp [f3] at hb
      | true =>
        simp only [Bool.not_true, Bool.false_eq_true, if_false]
        cases hh : s.core.hdrDone with
        | false =>
          simp only [Bool.not_false, if_true]
          apply lexed_execHeaders lex _ _ hf hh h.first
          intro b hb
          obtain ⟨i, hi⟩ := h.pending hh b hb
          exact ⟨i, find_append d hi⟩
        | true =>
          simp only [Bool.not_true, Bool.false_eq_true, if_false]
          split
          · exact lexed_of_ext (execBody_ext lex _ _ false) hf hh h.first (h.hdrs hh)
          · exact ⟨h.first, fun _ => h.hdrs hh, fun hd => (by simp at hd), fun ho => (by simp [hf] at ho)⟩

theorem lexed_execAll (lex : Lex) (segs : List Bytes) : ∀ s, Lexed lex s → Lexed lex (execAll lex s segs) := by
  induction segs with
  | nil => intro s h; exact h
  | cons d r ih => intro s h; exact ih _ (lexed_exec lex s d h)

/-! ### the kind of the parser never changes -/

theorem execBody_kind (lex : Lex) (c : Core) (x : Bytes) (nil : Bool) : (execBody lex c x nil).core.kind = c.kind := by
  have e := (execBody_ext lex c x nil).1
  simp only [Core.hdrPart, Prod.mk.injEq] at e
  exact e.1

theorem execHeaders_kind (lex : Lex) (c : Core) (x : Bytes) : (execHeaders lex c x).core.kind = c.kind := by
  unfold execHeaders
  split
  · rw [execBody_kind]
  · dsimp only
    split
    · rfl
    · split
      · rfl
      · rename_i h _
        rw [execBody_kind]
        cases h.clen <;> rfl

theorem exec_kind (lex : Lex) (s : PState) (d : Bytes) : (exec lex s d).core.kind = s.core.kind := by
  unfold exec
  split
  · rfl
  · split
    · rfl
    · split
      · unfold execFirst
        split
        · rfl
        · dsimp only
          split
          · rfl
          · rw [execHeaders_kind]
      · split
        · rw [execHeaders_kind]
        · split
          · rw [execBody_kind]
          · rfl

theorem execAll_kind (lex : Lex) (segs : List Bytes) : ∀ s, (execAll lex s segs).core.kind = s.core.kind := by
  induction segs with
  | nil => intro s; rfl
  | cons d r ih => intro s; rw [execAll, ih, exec_kind]

end Http
end CV

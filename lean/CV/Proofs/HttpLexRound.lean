import CV.Proofs.HttpLex
/-
Round-trip lemmas for the concrete HTTP lexers: a serialised request line / header block lexes
back to what was serialised.  Core Lean only.
-/
namespace CV
namespace Http

/-! ### `str.split(None, n)` -/

theorem lx_pySplit_succ (n : Nat) (w rest : Bytes) (c : UInt8) (hw : w ≠ [])
    (hnw : ∀ b ∈ w, isUSpace b = false) (hc : isUSpace c = true) :
    pySplit (n + 1) (w ++ c :: rest) = w :: pySplit n (c :: rest) := by
  rw [pySplit]
  have h1 : (w ++ c :: rest).dropWhile isUSpace = w ++ c :: rest := by
    apply lx_dropWhile_head
    intro b hb
    cases w with
    | nil => exact absurd rfl hw
    | cons a r =>
      simp only [List.cons_append, List.head?_cons, Option.some.injEq] at hb
      subst hb
      exact hnw _ (by simp)
  have h2 : (w ++ c :: rest).isEmpty = false := by cases w <;> simp_all
  have hp : ∀ b ∈ w, (fun b => !isUSpace b) b = true := by
    intro b hb; simp [hnw b hb]
  simp only [h1, h2, Bool.false_eq_true, if_false]
  rw [lx_takeWhile_stop hp (by simp [hc]), lx_dropWhile_stop hp (by simp [hc])]

theorem lx_pySplit_skip (n : Nat) (s : Bytes) (c : UInt8) (hc : isUSpace c = true) :
    pySplit n (c :: s) = pySplit n s := by
  cases n <;> simp [pySplit, List.dropWhile_cons_of_pos hc]

theorem lx_pySplit_last (v : Bytes) (c : UInt8) (hv : v ≠ []) (hc : isUSpace c = true)
    (hh : ∀ b, v.head? = some b → isUSpace b = false) : pySplit 0 (c :: v) = [v] := by
  rw [pySplit]
  have h1 : (c :: v).dropWhile isUSpace = v := by
    rw [List.dropWhile_cons_of_pos hc]
    exact lx_dropWhile_head hh
  have h2 : v.isEmpty = false := by cases v <;> simp_all
  simp only [h1, h2, Bool.false_eq_true, if_false]

/-! ### version -/

theorem lx_digit_ne_nl {b : UInt8} (h : isDigit b = true) : b ≠ 10 := by
  intro e; subst e; revert h; decide

theorem lx_lexVersion (d1 d2 : Bytes) (h1 : d1 ≠ []) (h2 : d2 ≠ [])
    (hd1 : ∀ b ∈ d1, isDigit b = true) (hd2 : ∀ b ∈ d2, isDigit b = true) :
    lexVersion (httpSlash ++ d1 ++ 46 :: d2) = some (decVal d1, decVal d2) := by
  unfold lexVersion
  have e1 : (httpSlash ++ d1 ++ 46 :: d2).take 5 = httpSlash := by simp [httpSlash]
  have e2 : (httpSlash ++ d1 ++ 46 :: d2).drop 5 = d1 ++ 46 :: d2 := by simp [httpSlash]
  have e3 : (d1 ++ 46 :: d2).getLast? ≠ some 10 := by
    intro e
    have hm : (10 : UInt8) ∈ d1 ++ 46 :: d2 := List.mem_of_getLast? e
    have : (d1 ++ 46 :: d2).getLast? = d2.getLast? := by
      cases d2 with
      | nil => exact absurd rfl h2
      | cons a r =>
        rw [List.getLast?_append, List.getLast?_cons_cons]
        cases hr : (a :: r).getLast? with
        | none => simp at hr
        | some x => simp
    rw [this] at e
    exact lx_digit_ne_nl (hd2 _ (List.mem_of_getLast? e)) rfl
  have e4 : (d1 ++ 46 :: d2).takeWhile isDigit = d1 := lx_takeWhile_stop hd1 (by decide)
  have e5 : (d1 ++ 46 :: d2).dropWhile isDigit = 46 :: d2 := lx_dropWhile_stop hd1 (by decide)
  have e6 : d1.isEmpty = false := by cases d1 <;> simp_all
  have e7 : d2.isEmpty = false := by cases d2 <;> simp_all
  have e8 : d2.all isDigit = true := List.all_eq_true.mpr hd2
  simp only [e1, e2, ne_eq, not_true_eq_false, if_false, if_neg e3, e4, e5, e6, e7, e8]
  simp

/-! ### request line -/

theorem lx_method_char {b : UInt8} (h : isMethodCh b = true) : isUSpace b = false ∧ upperA b = b := by
  unfold isMethodCh at h
  simp only [Bool.and_eq_true, decide_eq_true_eq] at h
  constructor
  · unfold isUSpace
    simp only
    have a1 : ¬ b.toNat ≤ 13 := by omega
    have a2 : ¬ b.toNat ≤ 32 := by omega
    have a3 : ¬ b.toNat = 133 := by omega
    have a4 : ¬ b.toNat = 160 := by omega
    simp [a1, a2, a3, a4]
  · unfold upperA
    have : ¬ (97 ≤ b.toNat ∧ b.toNat ≤ 122) := by omega
    simp [this]

theorem lx_map_id {f : UInt8 → UInt8} {l : Bytes} (h : ∀ b ∈ l, f b = b) : l.map f = l := by
  induction l with
  | nil => rfl
  | cons a r ih => simp [h a (by simp), ih (fun b hb => h b (List.mem_cons_of_mem _ hb))]

/-- the request line `METHOD SP target SP HTTP/ 1*DIGIT . 1*DIGIT` -/
def reqLineOf (m t d1 d2 : Bytes) : Bytes := m ++ 32 :: (t ++ 32 :: (httpSlash ++ d1 ++ 46 :: d2))

theorem lx_request_roundtrip (m t d1 d2 : Bytes)
    (hm : methodOk m = true) (ht : t ≠ []) (hts : ∀ b ∈ t, isUSpace b = false)
    (hfrag : hasFragment t = false) (hurl : urlRefused t = false)
    (h1 : d1 ≠ []) (h2 : d2 ≠ []) (hd1 : ∀ b ∈ d1, isDigit b = true) (hd2 : ∀ b ∈ d2, isDigit b = true)
    (href : lineRefused (reqLineOf m t d1 d2) = false) :
    lexRequestLine (reqLineOf m t d1 d2) = .ok ⟨m, t, decVal d1, decVal d2⟩ := by
  have hm' := hm
  unfold methodOk at hm'
  simp only [Bool.and_eq_true, decide_eq_true_eq, List.all_eq_true] at hm'
  obtain ⟨⟨hlen1, _⟩, hmc⟩ := hm'
  have hmne : m ≠ [] := by intro e; subst e; simp at hlen1
  have hsp : isUSpace 32 = true := by decide
  have hv : httpSlash ++ d1 ++ 46 :: d2 ≠ [] := by simp [httpSlash]
  have hvh : ∀ b, (httpSlash ++ d1 ++ 46 :: d2).head? = some b → isUSpace b = false := by
    intro b hb
    simp [httpSlash] at hb
    subst hb; decide
  have hsplit : pySplit 2 (reqLineOf m t d1 d2) = [m, t, httpSlash ++ d1 ++ 46 :: d2] := by
    unfold reqLineOf
    rw [lx_pySplit_succ 1 m _ 32 hmne (fun b hb => (lx_method_char (hmc b hb)).1) hsp,
      lx_pySplit_skip 1 _ 32 hsp, lx_pySplit_succ 0 t _ 32 ht hts hsp, lx_pySplit_last _ 32 hv hsp hvh]
  unfold lexRequestLine
  rw [href, hsplit]
  simp only [Bool.false_eq_true, if_false, hm, Bool.not_true, hurl, hfrag,
    lx_lexVersion d1 d2 h1 h2 hd1 hd2, lx_map_id (fun b hb => (lx_method_char (hmc b hb)).2)]

/-! ### header block -/

theorem lx_forall_uint8 (P : UInt8 → Prop) (h : ∀ n, n < 256 → P (UInt8.ofNat n)) : ∀ b, P b := by
  intro b
  have := h b.toNat (UInt8.toNat_lt b)
  simpa using this

/-- RFC 7230 3.2.6 `tchar` -/
def isTchar (b : UInt8) : Bool :=
  let n := b.toNat
  (48 ≤ n && n ≤ 57) || (65 ≤ n && n ≤ 90) || (97 ≤ n && n ≤ 122) ||
  n == 33 || n == 35 || n == 36 || n == 37 || n == 38 || n == 39 || n == 42 || n == 43 || n == 45 ||
  n == 46 || n == 94 || n == 95 || n == 96 || n == 124 || n == 126

theorem lx_tchar_facts : ∀ b, isTchar b = true →
    (b != 58) = true ∧ b ≠ 13 ∧ b ≠ 92 ∧ isSpTab b = false ∧ hdrSpecial (upperA b) = false ∧
    decide (128 ≤ (upperA b).toNat) = false :=
  lx_forall_uint8 _ (by decide +kernel)

def fieldLine (f : Field) : Bytes := f.1 ++ 58 :: 32 :: f.2

/-- `name: value` lines joined by CRLF (the header block without the final CRLF CRLF) -/
def serFields : List Field → Bytes
  | [] => []
  | [f] => fieldLine f
  | f :: g :: fs => fieldLine f ++ 13 :: 10 :: serFields (g :: fs)

/-- a header field as RFC 7230 3.2 writes it: the name a token, the value without CR / LF / backslash
    and without leading (`FieldOk`: or trailing) whitespace (it may be empty and may contain blanks inside) -/
def FieldOk0 (f : Field) : Prop :=
  f.1 ≠ [] ∧ (∀ b ∈ f.1, isTchar b = true) ∧
  (∀ b ∈ f.2, b ≠ 13 ∧ b ≠ 10 ∧ b ≠ 92) ∧
  (∀ b, f.2.head? = some b → isUSpace b = false)

def FieldOk (f : Field) : Prop := FieldOk0 f ∧ (∀ b, f.2.getLast? = some b → isUSpace b = false)

/-- what the code stores for the field: the name upper-cased -/
def normField (f : Field) : Field := (f.1.map upperA, f.2)

theorem lx_splitCRLF_line (l rest : Bytes) (h : ∀ b ∈ l, b ≠ 13) :
    splitCRLF (l ++ 13 :: 10 :: rest) = l :: splitCRLF rest := by
  induction l with
  | nil => simp [splitCRLF]
  | cons a r ih =>
    have ha : a ≠ 13 := h a (by simp)
    have ih' := ih (fun b hb => h b (List.mem_cons_of_mem _ hb))
    cases r with
    | nil =>
      simp [splitCRLF, ha]
    | cons b r' =>
      simp only [List.cons_append] at ih' ⊢
      rw [splitCRLF]
      simp [ha, ih']

theorem lx_splitCRLF_last (l : Bytes) (h : ∀ b ∈ l, b ≠ 13) : splitCRLF l = [l] := by
  induction l with
  | nil => simp [splitCRLF]
  | cons a r ih =>
    have ha : a ≠ 13 := h a (by simp)
    have ih' := ih (fun b hb => h b (List.mem_cons_of_mem _ hb))
    cases r with
    | nil => simp [splitCRLF]
    | cons b r' =>
      rw [splitCRLF]
      simp [ha, ih']

theorem lx_fieldLine_no_cr {f : Field} (hf : FieldOk0 f) : ∀ b ∈ fieldLine f, b ≠ 13 := by
  obtain ⟨_, hn, hv, _⟩ := hf
  intro b hb
  simp only [fieldLine, List.mem_append, List.mem_cons] at hb
  rcases hb with hb | rfl | rfl | hb
  · exact (lx_tchar_facts b (hn b hb)).2.1
  · decide
  · decide
  · exact (hv b hb).1

theorem lx_fieldLine_no_bs {f : Field} (hf : FieldOk0 f) : ∀ b ∈ fieldLine f, b ≠ 92 := by
  obtain ⟨_, hn, hv, _⟩ := hf
  intro b hb
  simp only [fieldLine, List.mem_append, List.mem_cons] at hb
  rcases hb with hb | rfl | rfl | hb
  · exact (lx_tchar_facts b (hn b hb)).2.2.1
  · decide
  · decide
  · exact (hv b hb).2.2

theorem lx_splitCRLF_ser (fs : List Field) (hne : fs ≠ []) (hok : ∀ f ∈ fs, FieldOk f) :
    splitCRLF (serFields fs) = fs.map fieldLine := by
  induction fs with
  | nil => exact absurd rfl hne
  | cons f r ih =>
    cases r with
    | nil => simpa [serFields] using lx_splitCRLF_last _ (lx_fieldLine_no_cr (hok f (by simp)).1)
    | cons g r' =>
      rw [serFields, lx_splitCRLF_line _ _ (lx_fieldLine_no_cr (hok f (by simp)).1),
        ih (by simp) (fun x hx => hok x (List.mem_cons_of_mem _ hx))]
      simp

theorem lx_ser_no_bs (fs : List Field) (hok : ∀ f ∈ fs, FieldOk f) : ∀ b ∈ serFields fs, b ≠ 92 := by
  induction fs with
  | nil => simp [serFields]
  | cons f r ih =>
    cases r with
    | nil => simpa [serFields] using lx_fieldLine_no_bs (hok f (by simp)).1
    | cons g r' =>
      intro b hb
      rw [serFields] at hb
      simp only [List.mem_append, List.mem_cons] at hb
      rcases hb with hb | rfl | rfl | hb
      · exact lx_fieldLine_no_bs (hok f (by simp)).1 b hb
      · decide
      · decide
      · exact ih (fun x hx => hok x (List.mem_cons_of_mem _ hx)) b hb

theorem lx_lexHeaderLine {f : Field} (hf : FieldOk0 f) : lexHeaderLine (fieldLine f) = .ok (normField f) := by
  obtain ⟨hne, hn, hv, hh⟩ := hf
  have hp : ∀ b ∈ f.1, (fun b => b != 58) b = true := fun b hb => (lx_tchar_facts b (hn b hb)).1
  have e0 : (fieldLine f).contains 58 = true := by simp [fieldLine]
  have e1 : (fieldLine f).takeWhile (fun b => b != 58) = f.1 := lx_takeWhile_stop hp (by decide)
  have e2 : (fieldLine f).dropWhile (fun b => b != 58) = 58 :: 32 :: f.2 := lx_dropWhile_stop hp (by decide)
  have e3 : rstripP isSpTab f.1 = f.1 := by
    apply lx_rstripP_id
    intro b hb
    exact (lx_tchar_facts b (hn b (List.mem_of_getLast? hb))).2.2.2.1
  have e4 : (f.1.map upperA).any (fun b => decide (128 ≤ b.toNat)) = false := by
    rw [List.any_eq_false]
    intro x hx
    obtain ⟨b, hb, rfl⟩ := List.mem_map.mp hx
    have := (lx_tchar_facts b (hn b hb)).2.2.2.2.2
    simpa using this
  have e5 : (f.1.map upperA).any hdrSpecial = false := by
    rw [List.any_eq_false]
    intro x hx
    obtain ⟨b, hb, rfl⟩ := List.mem_map.mp hx
    simp [(lx_tchar_facts b (hn b hb)).2.2.2.2.1]
  have e6 : (32 :: f.2).dropWhile isUSpace = f.2 := by
    rw [List.dropWhile_cons_of_pos (by decide)]
    exact lx_dropWhile_head hh
  unfold lexHeaderLine
  simp only [e0, e1, e2, e3, e4, e5, List.drop_succ_cons, List.drop_zero, e6, Bool.not_true,
    Bool.false_eq_true, if_false, normField]

theorem lx_startsSpTab {f : Field} (hf : FieldOk0 f) : startsSpTab (fieldLine f) = false := by
  obtain ⟨hne, hn, _, _⟩ := hf
  cases h : f.1 with
  | nil => exact absurd h hne
  | cons a r =>
    have := (lx_tchar_facts a (hn a (by simp [h]))).2.2.2.1
    simp [startsSpTab, fieldLine, h, this]

theorem lx_lexLines_fields (fs : List Field) (hok : ∀ f ∈ fs, FieldOk f) (cur : Option Field) :
    lexLines cur (fs.map fieldLine) = .ok (closeField cur ++ fs.map normField) := by
  induction fs generalizing cur with
  | nil => simp [lexLines]
  | cons f r ih =>
    have hf := hok f (by simp)
    have ih' := ih (fun x hx => hok x (List.mem_cons_of_mem _ hx)) (some (normField f))
    have hclose : closeField (some (normField f)) = [normField f] := by
      simp only [closeField, normField]
      rw [lx_rstripP_id hf.2]
    rw [hclose] at ih'
    rw [List.map_cons, lexLines]
    · simp [lx_lexHeaderLine hf.1, ih', Lx.map]
    · intro n v _ h
      rw [lx_startsSpTab hf.1] at h
      cases h

/-- lexing the serialised block returns the fields, names upper-cased -/
theorem lx_hdrs_roundtrip (fs : List Field) (hne : fs ≠ []) (hok : ∀ f ∈ fs, FieldOk f) :
    lexFieldList (serFields fs) = .ok (fs.map normField) := by
  have hb : (serFields fs).contains 92 = false := by
    cases h : (serFields fs).contains 92 with
    | false => rfl
    | true =>
      have := lx_ser_no_bs fs hok 92 (by simpa using h)
      exact absurd rfl this
  unfold lexFieldList
  rw [hb, lx_splitCRLF_ser fs hne hok, lx_lexLines_fields fs hok none]
  simp [closeField]

/-! ### continuation lines -/

/-- lines joined by CRLF -/
def joinCRLF : List Bytes → Bytes
  | [] => []
  | [l] => l
  | l :: m :: ls => l ++ 13 :: 10 :: joinCRLF (m :: ls)

/-- a header field followed by its continuation lines (obs-fold) -/
abbrev CField := Field × List Bytes

def cfieldLines (cf : CField) : List Bytes := fieldLine cf.1 :: cf.2

/-- what the code stores for it: name upper-cased, the continuation lines appended as they are
    (with their leading blank), the whole right-stripped -/
def foldedField (cf : CField) : Field := (cf.1.1.map upperA, rstripP isUSpace (cf.1.2 ++ cf.2.flatten))

def CFieldOk (cf : CField) : Prop :=
  FieldOk0 cf.1 ∧ ∀ c ∈ cf.2, startsSpTab c = true ∧ ∀ b ∈ c, b ≠ 13 ∧ b ≠ 10 ∧ b ≠ 92

theorem lx_splitCRLF_join (ls : List Bytes) (hne : ls ≠ []) (h : ∀ l ∈ ls, ∀ b ∈ l, b ≠ 13) :
    splitCRLF (joinCRLF ls) = ls := by
  induction ls with
  | nil => exact absurd rfl hne
  | cons l r ih =>
    cases r with
    | nil => simpa [joinCRLF] using lx_splitCRLF_last _ (h l (by simp))
    | cons m r' =>
      rw [joinCRLF, lx_splitCRLF_line _ _ (h l (by simp)),
        ih (by simp) (fun x hx => h x (List.mem_cons_of_mem _ hx))]

theorem lx_join_no_bs (ls : List Bytes) (h : ∀ l ∈ ls, ∀ b ∈ l, b ≠ 92) : ∀ b ∈ joinCRLF ls, b ≠ 92 := by
  induction ls with
  | nil => simp [joinCRLF]
  | cons l r ih =>
    cases r with
    | nil => simpa [joinCRLF] using h l (by simp)
    | cons m r' =>
      intro b hb
      rw [joinCRLF] at hb
      simp only [List.mem_append, List.mem_cons] at hb
      rcases hb with hb | rfl | rfl | hb
      · exact h l (by simp) b hb
      · decide
      · decide
      · exact ih (fun x hx => h x (List.mem_cons_of_mem _ hx)) b hb

theorem lx_lexLines_conts (cs rest : List Bytes) (n v : Bytes) (h : ∀ c ∈ cs, startsSpTab c = true) :
    lexLines (some (n, v)) (cs ++ rest) = lexLines (some (n, v ++ cs.flatten)) rest := by
  induction cs generalizing v with
  | nil => simp
  | cons c r ih =>
    rw [List.cons_append, lexLines, ih _ (fun x hx => h x (List.mem_cons_of_mem _ hx))]
    · simp [List.append_assoc]
    · exact h c (by simp)

theorem lx_lexLines_cfields (cfs : List CField) (hok : ∀ cf ∈ cfs, CFieldOk cf) (cur : Option Field) :
    lexLines cur (cfs.flatMap cfieldLines) = .ok (closeField cur ++ cfs.map foldedField) := by
  induction cfs generalizing cur with
  | nil => simp [lexLines]
  | cons cf r ih =>
    obtain ⟨hf, hc⟩ := hok cf (by simp)
    have ih' := ih (fun x hx => hok x (List.mem_cons_of_mem _ hx))
      (some ((normField cf.1).1, (normField cf.1).2 ++ cf.2.flatten))
    rw [List.flatMap_cons, cfieldLines, List.cons_append, lexLines]
    · simp only [lx_lexHeaderLine hf]
      rw [show normField cf.1 = ((normField cf.1).1, (normField cf.1).2) from rfl,
        lx_lexLines_conts cf.2 _ _ _ (fun c hcm => (hc c hcm).1), ih']
      simp [Lx.map, closeField, foldedField, normField]
    · intro n v _ h
      rw [lx_startsSpTab hf] at h
      cases h

/-- lexing a block with continuation lines: they fold into the value as the code folds them -/
theorem lx_hdrs_fold (cfs : List CField) (hne : cfs ≠ []) (hok : ∀ cf ∈ cfs, CFieldOk cf) :
    lexFieldList (joinCRLF (cfs.flatMap cfieldLines)) = .ok (cfs.map foldedField) := by
  have hlines13 : ∀ l ∈ cfs.flatMap cfieldLines, ∀ b ∈ l, b ≠ 13 := by
    intro l hl b hb
    obtain ⟨cf, hcf, hl⟩ := List.mem_flatMap.mp hl
    obtain ⟨hf, hc⟩ := hok cf hcf
    simp only [cfieldLines, List.mem_cons] at hl
    rcases hl with rfl | hl
    · exact lx_fieldLine_no_cr hf b hb
    · exact ((hc l hl).2 b hb).1
  have hlines92 : ∀ l ∈ cfs.flatMap cfieldLines, ∀ b ∈ l, b ≠ 92 := by
    intro l hl b hb
    obtain ⟨cf, hcf, hl⟩ := List.mem_flatMap.mp hl
    obtain ⟨hf, hc⟩ := hok cf hcf
    simp only [cfieldLines, List.mem_cons] at hl
    rcases hl with rfl | hl
    · exact lx_fieldLine_no_bs hf b hb
    · exact ((hc l hl).2 b hb).2.2
  have hne' : cfs.flatMap cfieldLines ≠ [] := by
    cases cfs with
    | nil => exact absurd rfl hne
    | cons a r => simp [cfieldLines]
  have hb : (joinCRLF (cfs.flatMap cfieldLines)).contains 92 = false := by
    cases h : (joinCRLF (cfs.flatMap cfieldLines)).contains 92 with
    | false => rfl
    | true =>
      have := lx_join_no_bs _ hlines92 92 (by simpa using h)
      exact absurd rfl this
  unfold lexFieldList
  rw [hb, lx_splitCRLF_join _ hne' hlines13, lx_lexLines_cfields cfs hok none]
  simp [closeField]

/-! ### framing facts -/

theorem lx_digit_facts : ∀ b, isDigit b = true →
    digVal b = some (b.toNat - 48) ∧ b.toNat - 48 < 10 ∧ b ≠ 95 ∧ b ≠ 43 ∧ b ≠ 45 ∧ isIntSpace b = false :=
  lx_forall_uint8 _ (by decide +kernel)

theorem lx_intBody_dec (ds : Bytes) (h : ∀ b ∈ ds, isDigit b = true) (acc : Nat) :
    intBody 10 acc false ds = some (ds.foldl (fun acc b => acc * 10 + (b.toNat - 48)) acc) := by
  induction ds generalizing acc with
  | nil => simp [intBody]
  | cons b r ih =>
    obtain ⟨hd, hlt, h95, _⟩ := lx_digit_facts b (h b (by simp))
    simp only [intBody, hd, if_neg h95, if_pos hlt, List.foldl_cons]
    exact ih (fun b hb => h b (List.mem_cons_of_mem _ hb)) _

/-- `int(ds)` for a non-empty string of ASCII digits -/
theorem lx_pyInt10_dec (ds : Bytes) (hne : ds ≠ []) (h : ∀ b ∈ ds, isDigit b = true) :
    pyIntCore 10 (stripP isIntSpace ds) = some (decVal ds : Int) := by
  have hs : stripP isIntSpace ds = ds := by
    unfold stripP
    rw [lx_dropWhile_head (fun b hb => (lx_digit_facts b (h b (List.mem_of_mem_head? hb))).2.2.2.2.2)]
    exact lx_rstripP_id (fun b hb => (lx_digit_facts b (h b (List.mem_of_getLast? hb))).2.2.2.2.2)
  rw [hs]
  cases ds with
  | nil => exact absurd rfl hne
  | cons b r =>
    obtain ⟨hd, hlt, h95, h43, h45, _⟩ := lx_digit_facts b (h b (by simp))
    have hb := lx_intBody_dec r (fun b hb => h b (List.mem_cons_of_mem _ hb)) (b.toNat - 48)
    unfold pyIntCore
    simp [h43, h45, intBody, hd, h95, hlt, hb, decVal]

/-- a Content-Length whose (combined) value is a string of at most 4000 ASCII digits is read as that number -/
theorem lx_clen_digits (gs : List Field) (ds : Bytes) (hg : hdrGet gs nContentLength = some ds)
    (hne : ds ≠ []) (h : ∀ b ∈ ds, isDigit b = true) (hlen : ds.length ≤ 4000) :
    ∃ hi, infoOfFields gs = .ok hi ∧ hi.clen = .val (decVal ds) := by
  unfold infoOfFields clenOfFields
  have : ¬ 4000 < ds.length := by omega
  simp only [hg, if_neg this, lx_pyInt10_dec ds hne h, Lx.map]
  exact ⟨_, rfl, rfl⟩

/-- no Content-Length and a Transfer-Encoding that is `chunked` in any letter case: chunked framing -/
theorem lx_te_chunked (gs : List Field) (v : Bytes) (hc : hdrGet gs nContentLength = none)
    (ht : hdrGet gs nTransferEncoding = some v) (hv : v.map lowerA = sChunked) :
    ∃ hi, infoOfFields gs = .ok hi ∧ hi.clen = .absent ∧ hi.te = true := by
  unfold infoOfFields clenOfFields
  simp only [hc, ht, Lx.map, Option.getD_some, hv]
  exact ⟨_, rfl, rfl, by simp⟩

/-! ### status line -/

/-- the status line `HTTP/ 1*DIGIT . 1*DIGIT SP 3DIGIT SP reason` -/
def statusLineOf (d1 d2 code reason : Bytes) : Bytes :=
  (httpSlash ++ d1 ++ 46 :: d2) ++ 32 :: (code ++ 32 :: reason)

theorem lx_digit_not_space : ∀ b, isDigit b = true → isUSpace b = false :=
  lx_forall_uint8 _ (by decide +kernel)

theorem lx_status_roundtrip (d1 d2 code reason : Bytes)
    (h1 : d1 ≠ []) (h2 : d2 ≠ []) (hd1 : ∀ b ∈ d1, isDigit b = true) (hd2 : ∀ b ∈ d2, isDigit b = true)
    (hc3 : code.length = 3) (hc : ∀ b ∈ code, isDigit b = true)
    (hr : ∀ b ∈ reason, (isUSpace b || isWord b) = true)
    (hrh : ∀ b, reason.head? = some b → isUSpace b = false)
    (href : lineRefused (statusLineOf d1 d2 code reason) = false) :
    lexStatusLine (statusLineOf d1 d2 code reason) = .ok ⟨decVal d1, decVal d2, decVal code, reason⟩ := by
  have hsp : isUSpace 32 = true := by decide
  have hvne : httpSlash ++ d1 ++ 46 :: d2 ≠ [] := by simp [httpSlash]
  have hvns : ∀ b ∈ httpSlash ++ d1 ++ 46 :: d2, isUSpace b = false := by
    intro b hb
    simp only [List.mem_append, List.mem_cons] at hb
    rcases hb with (hb | hb) | rfl | hb
    · simp only [httpSlash, List.mem_cons, List.not_mem_nil, or_false] at hb
      rcases hb with rfl | rfl | rfl | rfl | rfl <;> decide
    · exact lx_digit_not_space b (hd1 b hb)
    · decide
    · exact lx_digit_not_space b (hd2 b hb)
  have hcne : code ++ 32 :: reason ≠ [] := by simp
  have hch : ∀ b, (code ++ 32 :: reason).head? = some b → isUSpace b = false := by
    intro b hb
    cases code with
    | nil => simp at hc3
    | cons a r =>
      simp only [List.cons_append, List.head?_cons, Option.some.injEq] at hb
      subst hb
      exact lx_digit_not_space _ (hc _ (by simp))
  have hsplit : pySplit 1 (statusLineOf d1 d2 code reason) = [httpSlash ++ d1 ++ 46 :: d2, code ++ 32 :: reason] := by
    unfold statusLineOf
    rw [lx_pySplit_succ 0 _ _ 32 hvne hvns hsp, lx_pySplit_last _ 32 hcne hsp hch]
  have hst : lexStatus (code ++ 32 :: reason) = some (decVal code, reason) := by
    unfold lexStatus
    have e1 : (code ++ 32 :: reason).take 3 = code := by rw [← hc3]; simp
    have e2 : (code ++ 32 :: reason).drop 3 = 32 :: reason := by rw [← hc3]; simp
    have e3 : code.all isDigit = true := List.all_eq_true.mpr hc
    have e4 : (32 :: reason).all (fun b => isUSpace b || isWord b) = true := by
      rw [List.all_eq_true]
      intro b hb
      rcases List.mem_cons.mp hb with rfl | hb
      · decide
      · exact hr b hb
    have e5 : (32 :: reason).dropWhile isUSpace = reason := by
      rw [List.dropWhile_cons_of_pos hsp]
      exact lx_dropWhile_head hrh
    simp only [e1, e2, hc3, e3, e4, e5, List.head?_cons, Option.map_some, hsp]
    simp
  unfold lexStatusLine
  rw [href, hsplit]
  simp only [Bool.false_eq_true, if_false, lx_lexVersion d1 d2 h1 h2 hd1 hd2, hst]

end Http
end CV
